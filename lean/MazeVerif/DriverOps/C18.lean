import MazeVerif.DriverOps.Util
import MazeVerif.Model.Cfg
namespace MZ.Drv.C18
open Lean MZ.Drv MZ.Cfg

/-! wire format of Python values: null | true/false | integer | {"f": repr} | "str" | {"l":[…]} | {"t":[…]} | {"d":[[k,v],…]} -/

partial def decPy (j : Json) : R Py := do
  match j with
  | .null => pure .none
  | .bool b => pure (.bool b)
  | .str s => pure (.str s)
  | .num _ => pure (.int (← j.getInt?))
  | .obj _ =>
    if let some v := optFld j "f" then pure (.float (← v.getStr?))
    else if let .ok v := j.getObjVal? "l" then pure (.list (← (← v.getArr?).toList.mapM decPy))
    else if let .ok v := j.getObjVal? "t" then pure (.tuple (← (← v.getArr?).toList.mapM decPy))
    else if let .ok v := j.getObjVal? "d" then pure (.dict (← decKV v))
    else throw "py: unknown object tag"
  | .arr _ => throw "py: bare array"
where
  decKV (v : Json) : R (List (String × Py)) := do
    (← v.getArr?).toList.mapM fun e => do
      match (← e.getArr?).toList with
      | [k, x] => pure ((← k.getStr?), (← decPy x))
      | _ => throw "py: dict entry"

partial def encPy : Py → Json
  | .none => .null
  | .bool b => .bool b
  | .int n => jInt n
  | .float r => obj [("f", .str r)]
  | .str s => .str s
  | .list l => obj [("l", Json.arr (l.map encPy).toArray)]
  | .tuple l => obj [("t", Json.arr (l.map encPy).toArray)]
  | .dict kv => obj [("d", Json.arr (kv.map fun p => Json.arr #[.str p.1, encPy p.2]).toArray)]

def decKVs (j : Json) : R (List (String × Py)) := decPy.decKV j

def decEp (j : Json) : R EpVal := do
  match j with
  | .null => pure .none
  | _ =>
    if let .ok b := j.getObjVal? "b" then pure (.bool (← b.getBool?))
    else if let .ok c := j.getObjVal? "c" then
      pure (.coords (← (← c.getArr?).toList.mapM fun t => do (← t.getArr?).toList.mapM decPy))
    else throw "ep: unknown"

def encEp : EpVal → Json
  | .none => .null
  | .bool b => obj [("b", .bool b)]
  | .coords l => obj [("c", Json.arr (l.map fun t => Json.arr (t.map encPy).toArray).toArray)]

def decFilter (j : Json) : R Filter := do
  pure ⟨← decPy (← fld j "name"), ← (← getArr j "args").mapM decPy, ← decKVs (← fld j "kwargs")⟩

def encKVs (kv : List (String × Py)) : Json := Json.arr (kv.map fun p => Json.arr #[.str p.1, encPy p.2]).toArray

def encFilter (f : Filter) : Json := obj [("name", encPy f.name), ("args", Json.arr (f.args.map encPy).toArray), ("kwargs", encKVs f.kwargs)]

def decCfg (j : Json) : R Cfg := do
  let eps ← (← getArr j "endpoint_kwargs").mapM fun e => do
    match (← e.getArr?).toList with
    | [k, v] => pure ((← k.getStr?), (← decEp v))
    | _ => throw "cfg: endpoint entry"
  pure { name := ← getStr j "name", seqLenMin := ← getInt j "seq_len_min", seqLenMax := ← getInt j "seq_len_max",
         seed := ← getInt j "seed", appliedFilters := ← (← getArr j "applied_filters").mapM decFilter,
         gridN := ← getInt j "grid_n", nMazes := ← getInt j "n_mazes", mazeCtor := ← getStr j "maze_ctor",
         mazeCtorKwargs := ← decKVs (← fld j "maze_ctor_kwargs"), endpointKwargs := eps }

def encCfg (c : Cfg) : Json :=
  obj [("name", .str c.name), ("seq_len_min", jInt c.seqLenMin), ("seq_len_max", jInt c.seqLenMax), ("seed", jInt c.seed),
       ("applied_filters", Json.arr (c.appliedFilters.map encFilter).toArray), ("grid_n", jInt c.gridN), ("n_mazes", jInt c.nMazes),
       ("maze_ctor", .str c.mazeCtor), ("maze_ctor_kwargs", encKVs c.mazeCtorKwargs),
       ("endpoint_kwargs", Json.arr (c.endpointKwargs.map fun p => Json.arr #[.str p.1, encEp p.2]).toArray)]

def errName : Err → String
  | .ValueError => "ValueError" | .AssertionError => "AssertionError" | .KeyError => "KeyError" | .TypeError => "TypeError"
  | .Nondet => "Nondet"

def encLoad (r : Except Err Cfg) : Json :=
  match r with
  | .ok c => obj [("ok", true), ("cfg", encCfg c)]
  | .error e => obj [("ok", false), ("err", .str (errName e))]

/-- ops:
  `C18.roundtrip` {cfg, info:[[k,py]]} → {ser, ser_json, load, load_json, native, wf}
  `C18.load` {data: py} → {ok, cfg | err}
  `C18.fname` {cfg, shorten, hash (decimal string)} → {fname, hash_mod}
  `C18.fname_collection` {name, n, shorten, hash} → {fname} -/
def handle (op : String) (j : Json) : R Json := do
  let gens := MZ.Gen.generatorsMap
  match op with
  | "C18.roundtrip" =>
    let c ← decCfg (← fld j "cfg")
    let infoKV ← decKVs (← fld j "info")
    let info : String → List (String × Py) := fun _ => infoKV
    let ser := serializeCfg info c
    pure <| obj [("ser", encPy ser), ("ser_json", encPy (toJson ser)), ("load", encLoad (loadCfg gens ser)),
                 ("load_json", encLoad (loadCfg gens (toJson ser))), ("native", .bool (jsonNative c)),
                 ("wf", .bool (decide (c.seqLenMin ≤ c.seqLenMax) && (lookupGen gens c.mazeCtor == some c.mazeCtor)))]
  | "C18.load" =>
    pure <| encLoad (loadCfg gens (← decPy (← fld j "data")))
  | "C18.fname" =>
    let c ← decCfg (← fld j "cfg")
    let sh ← getStr j "shorten"
    let some h := (← getStr j "hash").toNat? | throw "hash: not a natural number"
    pure <| obj [("fname", .str (String.ofList (toFname Char.isAlphanum (fun _ => sh.toList) h c))), ("hash_mod", jNat (h % 10 ^ 5))]
  | "C18.fname_collection" =>
    let sh ← getStr j "shorten"
    let some h := (← getStr j "hash").toNat? | throw "hash: not a natural number"
    pure <| obj [("fname", .str (String.ofList (toFnameCollection Char.isAlphanum (fun _ => sh.toList) h (← getStr j "name") (← getInt j "n"))))]
  | _ => throw s!"unknown op {op}"

end MZ.Drv.C18
