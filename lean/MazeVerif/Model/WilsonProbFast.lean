import MazeVerif.Model.WilsonProb
/-! A cheaper way to iterate the forward law of `Model/WilsonProb.lean` (C19 tables of the 10-cell grids), core only.
    `merge` recomputes the sort key of both states in every comparison of the merge sort (about a million bignum
    folds per draw on the 2x5 grid); `mergeK` computes each key once (decorate, sort on the stored key, undecorate)
    and then combines equal neighbours exactly as `merge` does. `distK`/`lawK`/`tableOKK` are `dist`/`law`/`tableOK`
    with `mergeK` in place of `merge`; `Lemmas/WilsonProbFast.lean` proves that both iterations give every function
    the same expectation, hence `tableOKK = tableOK`. -/
namespace MZ.WProb

variable {σ : Type} (M : Machine σ)

/-- compute every key once, sort on it (equal states become adjacent), drop the keys, combine -/
def mergeK [DecidableEq σ] (key : σ → Nat) (d : List (σ × Rat)) : List (σ × Rat) :=
  combine (((d.map fun x => (key x.1, x)).mergeSort fun a b => decide (a.1 ≤ b.1)).map fun kx => kx.2)

def distK [DecidableEq σ] (key : σ → Nat) (d0 : List (σ × Rat)) : Nat → List (σ × Rat)
  | 0 => d0
  | n + 1 => mergeK key (push M (distK key d0 n))

/-- law of the Wilson machine after `n` draws, iterated with `mergeK` -/
def lawK (rows cols n : Nat) : List (WStep.WS × Rat) := distK (wilson rows cols) wsKey (start rows cols) n

/-- `tableOK` evaluated on `lawK` -/
def tableOKK (rows cols n0 N : Nat) (eps : Rat) : Bool :=
  let d := lawK rows cols n0
  let span := allSpanningMasks rows cols
  span.length == N && decide span.Nodup &&
  span.all (fun T =>
    let p := massFin (wilson rows cols) (edgesAre T) d
    decide (1 / (N : Rat) - eps ≤ p ∧ p ≤ 1 / (N : Rat))) &&
  decide (massUnfin (wilson rows cols) d ≤ eps)

end MZ.WProb
