import MazeVerif.DriverOps.Util
import MazeVerif.Model.Pixels
namespace MZ.Drv.C10
open Lean MZ.Drv MZ.Pix

/-! JSON conventions: a pixel is the integer `r*65536 + g*256 + b`; an image is a list of rows;
    a maze is `{kind, rows, cols, edges:[[d,i,j]…], start, end, solution}` (start/end/solution as applicable). -/
def rgbCode (c : RGB) : Nat := c.1 * 65536 + c.2.1 * 256 + c.2.2
def codeRgb (n : Nat) : RGB := (n / 65536, (n / 256) % 256, n % 256)

def errName : Err → String
  | .value => "ValueError" | .assertion => "AssertionError" | .index => "IndexError"
  | .shape => "shape" | .fuel => "fuel"

def jImg (g : Img RGB) : Json := jList (fun row => jNats (row.map rgbCode)) g.toLists

def kindName : Kind → String | .lattice => "lattice" | .targeted => "targeted" | .solved => "solved"
def parseKind (s : String) : R Kind :=
  match s with
  | "lattice" => pure .lattice | "targeted" => pure .targeted | "solved" => pure .solved
  | _ => throw s!"kind {s}"

def parseMaze (j : Json) : R Maze := do
  let rows ← getNat j "rows"
  let cols ← getNat j "cols"
  let E ← getEdges j "edges"
  match ← getStr j "kind" with
  | "lattice" => pure (.lattice rows cols E)
  | "targeted" => pure (.targeted rows cols E (← getCell j "start") (← getCell j "end"))
  | "solved" =>
    match ← getCells j "solution" with
    | s :: rest => pure (.solved rows cols E s rest)
    | [] => throw "empty solution"
  | k => throw s!"kind {k}"

def jMaze (m : Maze) : Json :=
  let base := [("kind", Json.str (kindName m.kind)), ("rows", jNat m.rows), ("cols", jNat m.cols), ("edges", jEdges m.edges)]
  match m with
  | .lattice .. => obj base
  | .targeted _ _ _ s e => obj (base ++ [("start", jCell s), ("end", jCell e)])
  | .solved _ _ _ s rest => obj (base ++ [("solution", jCells (s :: rest))])

def jExcept {α} (f : α → Json) : Except Err α → Json
  | .ok a => obj [("ok", f a)]
  | .error e => obj [("err", Json.str (errName e))]

def parseImg (j : Json) : R (Img RGB) := do
  let rows ← (← j.getArr?).toList.mapM asNatList
  match Img.ofLists cWall (rows.map (·.map codeRgb)) with
  | some g => pure g
  | none => throw "ragged image"

def allKinds : List Kind := [.lattice, .targeted, .solved]

/-- driver-side speed-up only: the same image (same `h`, `w`, same pixel at every in-range position) backed by an
    array instead of the chain of closures built by the painting steps -/
def freeze {α} [Inhabited α] (g : Img α) : Img α :=
  let arr : Array (Array α) := (g.toLists.map List.toArray).toArray
  ⟨g.h, g.w, fun x y => if x < g.h ∧ y < g.w then (arr[x]!)[y]! else g.px x y⟩

/-- ops:
  * `C10.maze` {maze} → for each of the four flag pairs: model pixels, model ascii, and what the three classes read
    back from the model's own pixels / ascii;
  * `C10.read` {cls, pixels} → `fromPixels cls pixels`;
  * `C10.read_ascii` {cls, text} → `fromAscii cls text`. -/
def handle (op : String) (j : Json) : R Json := do
  match op with
  | "C10.maze" =>
    let m ← parseMaze (← fld j "maze")
    let combos := [(true, true), (true, false), (false, false), (false, true)]
    let outs := combos.map fun (se, ss) =>
      let px := (asPixels m se ss).map freeze
      let asc := asAscii m se ss
      let reads : Json := match px with
        | .ok g => obj (allKinds.map fun k => (kindName k, jExcept jMaze (fromPixels k g)))
        | .error _ => Json.null
      let readsA : Json := match asc with
        | .ok s => obj (allKinds.map fun k => (kindName k, jExcept jMaze (fromAscii k s)))
        | .error _ => Json.null
      obj [("se", se), ("ss", ss), ("pixels", jExcept jImg px),
           ("ascii", jExcept (fun s => Json.str (String.ofList s)) asc), ("reads", reads), ("reads_ascii", readsA)]
    pure <| obj [("renders", Json.arr outs.toArray)]
  | "C10.read" =>
    let cls ← parseKind (← getStr j "cls")
    let g ← parseImg (← fld j "pixels")
    pure <| obj [("read", jExcept jMaze (fromPixels cls g))]
  | "C10.read_ascii" =>
    let cls ← parseKind (← getStr j "cls")
    let s ← getStr j "text"
    pure <| obj [("read", jExcept jMaze (fromAscii cls s.toList))]
  | _ => throw s!"unknown op {op}"

end MZ.Drv.C10
