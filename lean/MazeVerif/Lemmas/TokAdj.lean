import MazeVerif.Lemmas.Tok
import MazeVerif.Model.TokPrompt
/-! Adjacency region: single-edge and whole-region round trips, `is_connection` = `Adj`, `permuted` = flip. -/
namespace MZ.Tok

theorem move_dirOf {a b : C} {d : Dir} (h : dirOf a b = some d) : move a d = some b := by
  obtain ⟨a1, a2⟩ := a; obtain ⟨b1, b2⟩ := b
  unfold dirOf at h
  split at h
  · next hc => cases h; simp only [move]; have : a1 ≥ 1 := by omega
               simp [this]; omega
  · split at h
    · next hc => cases h; simp [move]; omega
    · split at h
      · next hc => cases h; simp [move]; omega
      · split at h
        · next hc => cases h; simp only [move]; have : a2 ≥ 1 := by omega
                     simp [this]; omega
        · cases h

theorem parseConn_connTok (b : Bool) (rest : List Tok) : parseConn (connTok b :: rest) = some (b, rest) := by
  cases b <;> simp [connTok, parseConn]

theorem parseTrail_trailToks {cfg : AdjCfg} {ct : CoordTok} {e : OE} {tr : List Tok}
    (h : trailToks cfg ct e = some tr) (rest : List Tok) :
    parseTrail cfg ct e.1 (tr ++ rest) = some (e.2, rest) := by
  unfold trailToks at h
  unfold parseTrail
  by_cases hc : cfg.cardinal = true
  · simp only [hc, if_true, Option.map_eq_some_iff] at h ⊢
    obtain ⟨d, hd, rfl⟩ := h
    simp [move_dirOf hd]
  · simp only [hc, Bool.false_eq_true, if_false, Option.some.injEq] at h ⊢
    subst h; exact parseCoord_coordToks ct e.2 rest

theorem parseEdge_edgeToks {cfg : AdjCfg} {ct : CoordTok} {m : Maze} {e : OE} {toks : List Tok}
    (h : edgeToks cfg ct m e = some toks) (rest : List Tok) :
    parseEdge cfg ct (toks ++ rest) = some (⟨e.1, e.2, isConn m e⟩, rest) := by
  unfold edgeToks at h
  cases htr : trailToks cfg ct e with
  | none => simp [htr] at h
  | some tr =>
    simp only [htr, Option.some.injEq] at h
    subst h
    unfold parseEdge parseEdgeBody
    cases hord : cfg.ordinal
    · simp only [List.append_assoc, List.cons_append, List.nil_append, parseConn_connTok, parseCoord_coordToks,
        parseTrail_trailToks htr, eat_opt]
    · simp only [List.append_assoc, List.cons_append, List.nil_append, parseConn_connTok, parseCoord_coordToks,
        parseTrail_trailToks htr, eat_opt]
    · simp only [List.append_assoc, List.cons_append, List.nil_append, parseConn_connTok, parseCoord_coordToks,
        parseTrail_trailToks htr, eat_opt]

theorem noDelim_edgeToks {cfg : AdjCfg} {ct : CoordTok} {m : Maze} {e : OE} {toks : List Tok}
    (h : edgeToks cfg ct m e = some toks) : NoDelim toks ∧ toks ≠ [] := by
  unfold edgeToks at h
  cases htr : trailToks cfg ct e with
  | none => simp [htr] at h
  | some tr =>
    simp only [htr, Option.some.injEq] at h
    subst h
    have hld := noDelim_coordToks ct e.1
    have hcn : NoDelim [connTok (isConn m e)] := by
      cases isConn m e <;> simp [NoDelim, connTok, Tok.isDelim]
    have htrd : NoDelim tr := by
      unfold trailToks at htr
      by_cases hc : cfg.cardinal = true
      · simp only [hc, if_true, Option.map_eq_some_iff] at htr
        obtain ⟨d, _, rfl⟩ := htr
        simp [NoDelim, Tok.isDelim]
      · simp only [hc, Bool.false_eq_true, if_false, Option.some.injEq] at htr
        subst htr; exact noDelim_coordToks ct e.2
    have hpost := noDelim_opt cfg.post .endl rfl
    have hne := coordToks_ne_nil ct e.1
    cases cfg.ordinal
    · exact ⟨((hcn.append hld).append htrd).append hpost, by simp⟩
    · exact ⟨((hld.append hcn).append htrd).append hpost, by simp [hne]⟩
    · exact ⟨((hld.append htrd).append hcn).append hpost, by simp [hne]⟩

theorem adjToks_cons {cfg : AdjCfg} {ct : CoordTok} {m : Maze} {e : OE} {es : List OE} {toks : List Tok}
    (h : adjToks cfg ct m (e :: es) = some toks) :
    ∃ t r, edgeToks cfg ct m e = some t ∧ adjToks cfg ct m es = some r ∧ toks = t ++ r := by
  simp only [adjToks] at h
  cases h1 : edgeToks cfg ct m e with
  | none => simp [h1] at h
  | some t =>
    cases h2 : adjToks cfg ct m es with
    | none => simp [h1, h2] at h
    | some r => simp [h1, h2] at h; exact ⟨t, r, rfl, rfl, h.symm⟩

theorem noDelim_adjToks {cfg : AdjCfg} {ct : CoordTok} {m : Maze} :
    ∀ {order : List OE} {toks : List Tok}, adjToks cfg ct m order = some toks → NoDelim toks ∧ order.length ≤ toks.length
  | [], toks, h => by simp [adjToks] at h; subst h; exact ⟨NoDelim.nil, by simp⟩
  | e :: es, toks, h => by
    obtain ⟨t, r, h1, h2, rfl⟩ := adjToks_cons h
    obtain ⟨hnd, hne⟩ := noDelim_edgeToks h1
    obtain ⟨ihd, ihl⟩ := noDelim_adjToks h2
    refine ⟨hnd.append ihd, ?_⟩
    have : 1 ≤ t.length := by cases t with | nil => exact absurd rfl hne | cons _ _ => simp
    simp only [List.length_cons, List.length_append]; omega

/-- the labelled edges an independent reader recovers from the adjacency region (labels as emitted) -/
def emitted (m : Maze) (order : List OE) : List EdgeInfo := order.map fun e => ⟨e.1, e.2, isConn m e⟩

/-- region round trip: the decoder reads back exactly the emitted oriented edges, in order, for every order -/
theorem parseMany_adjToks {cfg : AdjCfg} {ct : CoordTok} {m : Maze} (rest : List Tok) :
    ∀ {order : List OE} {toks : List Tok}, adjToks cfg ct m order = some toks → ∀ fuel, order.length < fuel →
      parseMany .adjEnd (parseEdge cfg ct) fuel (toks ++ .adjEnd :: rest) = some (emitted m order, .adjEnd :: rest)
  | [], toks, h, fuel, hf => by
    simp [adjToks] at h; subst h
    cases fuel with
    | zero => omega
    | succ f => simp [parseMany, emitted]
  | e :: es, toks, h, fuel, hf => by
    obtain ⟨t, r, h1, h2, rfl⟩ := adjToks_cons h
    cases fuel with
    | zero => omega
    | succ f =>
      obtain ⟨hnd, hne⟩ := noDelim_edgeToks h1
      obtain ⟨x, xs, hx, hxne⟩ := head_ne_of_noDelim (stop := .adjEnd) hne hnd rfl
      have ih := parseMany_adjToks rest h2 f (by simp at hf; omega)
      have hp := parseEdge_edgeToks h1 (r ++ .adjEnd :: rest)
      simp only [List.append_assoc]
      rw [hx] at hp ⊢
      simp only [List.cons_append] at hp ⊢
      simp only [parseMany, hxne, if_false, hp, ih, emitted, List.map_cons]

/-! ## `is_connection` agrees with `Adj` on lattice neighbours; `permuted` is a flip -/

/-- the two coords are lattice neighbours (either orientation) -/
def LatAdj (e : OE) : Prop :=
  e.2 = (e.1.1 + 1, e.1.2) ∨ e.1 = (e.2.1 + 1, e.2.2) ∨ e.2 = (e.1.1, e.1.2 + 1) ∨ e.1 = (e.2.1, e.2.2 + 1)

theorem LatAdj.flip {e : OE} (h : LatAdj e) : LatAdj (flipE e) := by
  unfold LatAdj flipE at *; rcases h with h | h | h | h
  · exact Or.inr (Or.inl h)
  · exact Or.inl h
  · exact Or.inr (Or.inr (Or.inr h))
  · exact Or.inr (Or.inr (Or.inl h))

theorem conn_iff (m : Maze) (d x y : Nat) : m.conn d x y = true ↔ (d, (x : Int), (y : Int)) ∈ m.edges := by
  simp [Maze.conn]

theorem isConn_eq_adjB (m : Maze) (e : OE) (h : LatAdj e) : isConn m e = adjB m e.1 e.2 := by
  obtain ⟨⟨a1, a2⟩, ⟨b1, b2⟩⟩ := e
  rw [Bool.eq_iff_iff]
  unfold adjB
  rw [decide_eq_true_iff]
  simp only [isConn, conn_iff, MZ.Adj, cellOf]
  unfold LatAdj at h
  simp only [Prod.mk.injEq] at h
  rcases h with ⟨h1, h2⟩ | ⟨h1, h2⟩ | ⟨h1, h2⟩ | ⟨h1, h2⟩
  · have e1 : min a1 b1 = a1 := by omega
    have e2 : min a2 b2 = a2 := by omega
    have e3 : ¬ (max a1 b1 - a1 = 0) := by omega
    simp only [e1, e2, e3, if_false, Prod.mk.injEq]
    constructor
    · intro hm; exact Or.inl ⟨⟨by omega, by omega⟩, hm⟩
    · rintro (⟨_, hm⟩ | ⟨⟨hh1, hh2⟩, _⟩ | ⟨⟨hh1, hh2⟩, _⟩ | ⟨⟨hh1, hh2⟩, _⟩)
      · exact hm
      all_goals omega
  · have e1 : min a1 b1 = b1 := by omega
    have e2 : min a2 b2 = b2 := by omega
    have e3 : ¬ (max a1 b1 - b1 = 0) := by omega
    simp only [e1, e2, e3, if_false, Prod.mk.injEq]
    constructor
    · intro hm; exact Or.inr (Or.inl ⟨⟨by omega, by omega⟩, hm⟩)
    · rintro (⟨⟨hh1, hh2⟩, _⟩ | ⟨_, hm⟩ | ⟨⟨hh1, hh2⟩, _⟩ | ⟨⟨hh1, hh2⟩, _⟩)
      · omega
      · exact hm
      all_goals omega
  · have e1 : min a1 b1 = a1 := by omega
    have e2 : min a2 b2 = a2 := by omega
    have e3 : (max a1 b1 - a1 = 0) := by omega
    simp only [e1, e2, e3, if_true, Prod.mk.injEq]
    constructor
    · intro hm; exact Or.inr (Or.inr (Or.inl ⟨⟨by omega, by omega⟩, hm⟩))
    · rintro (⟨⟨hh1, hh2⟩, _⟩ | ⟨⟨hh1, hh2⟩, _⟩ | ⟨_, hm⟩ | ⟨⟨hh1, hh2⟩, _⟩)
      · omega
      · omega
      · exact hm
      · omega
  · have e1 : min a1 b1 = b1 := by omega
    have e2 : min a2 b2 = b2 := by omega
    have e3 : (max a1 b1 - b1 = 0) := by omega
    simp only [e1, e2, e3, if_true, Prod.mk.injEq]
    constructor
    · intro hm; exact Or.inr (Or.inr (Or.inr ⟨⟨by omega, by omega⟩, hm⟩))
    · rintro (⟨⟨hh1, hh2⟩, _⟩ | ⟨⟨hh1, hh2⟩, _⟩ | ⟨⟨hh1, hh2⟩, _⟩ | ⟨_, hm⟩)
      · omega
      · omega
      · omega
      · exact hm

theorem emitted_eq_edgeInfos (m : Maze) (order : List OE) (h : ∀ e ∈ order, LatAdj e) :
    emitted m order = edgeInfos m order := by
  unfold emitted edgeInfos
  apply List.map_congr_left
  intro e he
  rw [isConn_eq_adjB m e (h e he)]

/-- `numpy_rng.permuted(edges, axis=1)` shuffles row and column components independently; on a lattice edge the result is
    nevertheless the edge itself or its flip, because the endpoints agree in one component -/
theorem permutedAxis1_flip (e : OE) (sr sc : Bool) (h : e.1.1 = e.2.1 ∨ e.1.2 = e.2.2) :
    permutedAxis1 e sr sc = e ∨ permutedAxis1 e sr sc = flipE e := by
  obtain ⟨⟨a1, a2⟩, ⟨b1, b2⟩⟩ := e
  simp only at h
  rcases h with h | h <;> subst h <;> cases sr <;> cases sc <;> simp [permutedAxis1, flipE]

end MZ.Tok
