import MazeVerif.DriverOps.Util
import MazeVerif.Model.TokPrompt
import MazeVerif.Model.TokVocab
namespace MZ.Drv.C06
open Lean MZ.Drv MZ.Tok

def asC (j : Json) : R C := do
  match ← asNatList j with
  | [r, c] => pure (r, c)
  | _ => throw "coord: expected [r,c]"

def getCt (j : Json) : R CoordTok := do
  if (optFld j "ut").isSome then pure .ut
  else pure (.ctt (← getBool j "pre") (← getBool j "intra") (← getBool j "post"))

def getAdj (j : Json) : R AdjCfg := do
  let ord ← match ← getNat j "ordinal" with
    | 0 => pure Ordinal.o0 | 1 => pure Ordinal.o1 | 2 => pure Ordinal.o2 | _ => throw "ordinal"
  let sub ← match ← getStr j "subset" with
    | "all" => pure Subset.all | "conn" => pure (Subset.conn false) | "walls" => pure (Subset.conn true) | s => throw s!"subset {s}"
  let pm ← match ← getStr j "permuter" with
    | "sorted" => pure Permuter.sorted | "random" => pure Permuter.random | "both" => pure Permuter.both | s => throw s!"permuter {s}"
  pure { cardinal := ← getBool j "cardinal", post := ← getBool j "post", shuffle := ← getBool j "shuffle",
         ordinal := ord, subset := sub, permuter := pm }

def getPath (j : Json) : R PathCfg := do
  let steps ← (← getArr j "steps").mapM fun s => do
    match ← s.getStr? with
    | "coord" => pure StepTk.coord | "cardinal" => pure StepTk.cardinal | "relative" => pure StepTk.relative
    | "distance" => pure StepTk.distance | x => throw s!"step tokenizer {x}"
  pure { forks := ← getBool j "forks", steps := steps, pre := ← getBool j "pre", intra := ← getBool j "intra", post := ← getBool j "post" }

def getPrompt (j : Json) : R Prompt := do
  if ← getBool j "aotp" then pure (.aotp (← getBool j "target_post")) else pure .aop

def getMaze (j : Json) : R Maze := do
  pure { rows := ← getNat j "rows", cols := ← getNat j "cols", edges := ← getEdges j "edges" }

def getMazeIn (j : Json) : R MazeIn := do
  let m ← getMaze j
  match ← getStr j "kind" with
  | "plain" => pure (.plain m)
  | "targeted" => pure (.targeted m (← asC (← fld j "start")) (← asC (← fld j "end")))
  | "solved" => pure (.solved m (← asC (← fld j "start")) (← asC (← fld j "end")) (← (← getArr j "sol").mapM asC))
  | k => throw s!"kind {k}"

def jC (c : C) : Json := Json.arr #[jNat c.1, jNat c.2]
def jOptC : Option C → Json | some c => jC c | none => Json.null
def dirName : Dir → String | .north => "north" | .south => "south" | .east => "east" | .west => "west"
def relName : Rel → String | .forward => "forward" | .backward => "backward" | .left => "left" | .right => "right" | .stay => "stay"
def jVal : StepVal → Json
  | .coord c => Json.arr #["coord", jNat c.1, jNat c.2]
  | .card d => Json.arr #["card", Json.str (dirName d)]
  | .rel r => Json.arr #["rel", Json.str (relName r)]
  | .dist k => Json.arr #["dist", jNat k]
def jEdgeInfo (e : EdgeInfo) : Json := Json.arr #[jNat e.lead.1, jNat e.lead.2, jNat e.trail.1, jNat e.trail.2, Json.bool e.isConn]
def jPathInfo (p : PathInfo) : Json := obj [("start", jOptC p.start), ("steps", jList (jList jVal) p.steps)]
def jInfo (i : Info) : Json :=
  obj [("edges", jList jEdgeInfo i.edges), ("origin", jOptC i.origin),
       ("target", match i.target with | some l => jList jC l | none => Json.null),
       ("path", match i.path with | some p => jPathInfo p | none => Json.null)]
def jOpt {α} (f : α → Json) : Option α → Json | some a => f a | none => Json.null
def jToks (l : List Tok) : Json := jStrs (l.map Tok.str)

/-- implementation token strings → structured tokens (`none` when some string is not a modular-tokenizer token) -/
def readToks (j : Json) (k : String) : R (Option (List Tok)) := do
  match optFld j k with
  | none => pure none
  | some a =>
    let ss ← (← a.getArr?).toList.mapM (·.getStr?)
    pure (ss.mapM Tok.ofStr)

def bad (ss : List String) : List String := ss.filter fun s => (Tok.ofStr s).isNone

/-- ops
  * `C06.vocab` → expanded vocabulary and the Distance field table
  * `C06.adj`   {ct, adj, maze, tokens|null} → decode the region, check ValidOrder of the observed order, re-encode
  * `C06.path`  {ct, path, maze, sol, tokens|null} → model tokens, decoded region, spec record
  * `C06.full`  {ct, adj, prompt, path, maze(kind…), tokens|null} → decode the sequence, ValidOrder, re-encode, spec record -/
def handleCore (op : String) (j : Json) : R Json := do
  match op with
  | "C06.vocab" =>
    let n ← getNat j "upto"
    pure <| obj [("vocab", jStrs Gen.vocab), ("distLo", jNat Gen.distLo), ("distHi", jNat Gen.distHi),
                 ("dist", jStrs ((List.range n).map Gen.distFmt)),
                 ("fixed", jStrs (fixedToks.map Tok.str)),
                 ("reread", Json.bool (fixedToks.all fun t => Tok.ofStr t.str == some t))]
  | "C06.adj" =>
    let ct ← getCt (← fld j "ct"); let cfg ← getAdj (← fld j "adj"); let m ← getMaze (← fld j "maze")
    let sel := selEdges cfg.subset m
    match ← readToks j "tokens" with
    | none =>
      -- the implementation raised (or sent no tokens): evaluate the model on the canonical order
      let order := match sel with | some es => permuteDet cfg.permuter es | none => []
      pure <| obj [("sel_ok", Json.bool sel.isSome), ("model", jOpt jToks (match sel with | some _ => adjToks cfg ct m order | none => none))]
    | some toks =>
      match parseMany .adjEnd (parseEdge cfg ct) (toks.length + 2) (toks ++ [Tok.adjEnd]) with
      | some (es, [Tok.adjEnd]) =>
        let order : List OE := es.map fun e => (e.lead, e.trail)
        let valid := match sel with | some s => validOrderB cfg.permuter cfg.shuffle s order | none => false
        pure <| obj [("sel_ok", Json.bool sel.isSome), ("decoded", jList jEdgeInfo es), ("valid_order", Json.bool valid),
                     ("spec", jList jEdgeInfo (edgeInfos m order)),
                     ("model", jOpt jToks (match sel with | some _ => adjToks cfg ct m order | none => none)),
                     ("n_sel", jNat (match sel with | some s => s.length | none => 0))]
      | _ => pure <| obj [("sel_ok", Json.bool sel.isSome), ("decoded", Json.null)]
  | "C06.path" =>
    let ct ← getCt (← fld j "ct"); let pc ← getPath (← fld j "path"); let m ← getMaze (← fld j "maze")
    let sol ← (← getArr j "sol").mapM asC
    let model := pathToks pc ct m sol
    let spec := pathInfo pc m sol
    let dec ← match ← readToks j "tokens" with
      | none => pure Json.null
      | some toks =>
        match parsePath pc ct .pathEnd (toks ++ [Tok.pathEnd]) with
        | some (p, [Tok.pathEnd]) => pure (jPathInfo p)
        | _ => pure Json.null
    pure <| obj [("model", jOpt jToks model), ("spec", jOpt jPathInfo spec), ("decoded", dec), ("valid_cfg", Json.bool (decide pc.Valid)),
                 ("idxs", jNats (stepIdxs pc.forks m sol))]
  | "C06.full" =>
    let cfg : TokCfg := { ct := ← getCt (← fld j "ct"), adj := ← getAdj (← fld j "adj"), prompt := ← getPrompt (← fld j "prompt"),
                          path := ← getPath (← fld j "path") }
    let mz ← getMazeIn (← fld j "maze")
    let sel := selEdges cfg.adj.subset mz.maze
    match ← readToks j "tokens" with
    | none =>
      let order := match sel with | some es => permuteDet cfg.adj.permuter es | none => []
      pure <| obj [("sel_ok", Json.bool sel.isSome),
                   ("model", jOpt jToks (match sel with | some _ => toTokens cfg mz order | none => none))]
    | some toks =>
      match decode cfg toks with
      | none => pure <| obj [("sel_ok", Json.bool sel.isSome), ("decoded", Json.null)]
      | some inf =>
        let order : List OE := inf.edges.map fun e => (e.lead, e.trail)
        let valid := match sel with | some s => validOrderB cfg.adj.permuter cfg.adj.shuffle s order | none => false
        let spec := info cfg mz order
        pure <| obj [("sel_ok", Json.bool sel.isSome), ("decoded", jInfo inf), ("valid_order", Json.bool valid),
                     ("spec", jOpt jInfo spec), ("decoded_eq_spec", Json.bool (spec == some inf)),
                     ("model", jOpt jToks (match sel with | some _ => toTokens cfg mz order | none => none))]
  | _ => throw s!"unknown op {op}"

def handle (op : String) (j : Json) : R Json := do
  -- a token string that is not a token of the modular tokenizer at all is reported as such
  match optFld j "tokens" with
  | some a =>
    let ss ← (← a.getArr?).toList.mapM (·.getStr?)
    match bad ss with
    | [] => handleCore op j
    | b => pure <| obj [("unreadable", jStrs b)]
  | none => handleCore op j

end MZ.Drv.C06
