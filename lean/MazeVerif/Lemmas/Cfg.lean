import MazeVerif.Model.Cfg
/-! Helper lemmas for C18 (configuration round trip, injectivity, file name). -/
namespace MZ.Cfg

mutual
theorem toJson_id (x : Py) (h : tupleFree x = true) : toJson x = x := by
  cases x with
  | tuple l => simp [tupleFree] at h
  | list l => simp only [tupleFree] at h; simp only [toJson, toJsonL_id l h]
  | dict kv => simp only [tupleFree] at h; simp only [toJson, toJsonKV_id kv h]
  | none => rfl
  | bool => rfl
  | int => rfl
  | float => rfl
  | str => rfl
theorem toJsonL_id (l : List Py) (h : tupleFreeL l = true) : toJsonL l = l := by
  cases l with
  | nil => rfl
  | cons x xs =>
    simp only [tupleFreeL, Bool.and_eq_true] at h
    simp only [toJsonL, toJson_id x h.1, toJsonL_id xs h.2]
theorem toJsonKV_id (l : List (String × Py)) (h : tupleFreeKV l = true) : toJsonKV l = l := by
  cases l with
  | nil => rfl
  | cons x xs =>
    obtain ⟨k, v⟩ := x
    simp only [tupleFreeKV, Bool.and_eq_true] at h
    simp only [toJsonKV, toJson_id v h.1, toJsonKV_id xs h.2]
end

/-! ### endpoint kwargs -/

theorem coordsOf_tuples (l : List (List Py)) : coordsOf (l.map Py.tuple) = .ok l := by
  induction l with
  | nil => rfl
  | cons t r ih => simp only [List.map_cons, coordsOf, ih]

theorem coordsOf_json (l : List (List Py)) (h : coordsNative l = true) :
    coordsOf (toJsonL (l.map Py.tuple)) = .ok l := by
  induction l with
  | nil => rfl
  | cons t r ih =>
    simp only [coordsNative, Bool.and_eq_true] at h
    simp only [List.map_cons, toJsonL, toJson, coordsOf, ih h.2, toJsonL_id t h.1]

theorem loadEpVal_epToPy (v : EpVal) : loadEpVal (epToPy v) = .ok v := by
  cases v with
  | bool b => rfl
  | none => rfl
  | coords l => simp only [epToPy, loadEpVal, coordsOf_tuples]

theorem loadEpVal_json (v : EpVal) (h : epNative v = true) : loadEpVal (toJson (epToPy v)) = .ok v := by
  cases v with
  | bool b => rfl
  | none => rfl
  | coords l => simp only [epNative] at h; simp only [epToPy, toJson, loadEpVal, coordsOf_json l h]

theorem loadEpKV_epKVToPy (kv : List (String × EpVal)) : loadEpKV (epKVToPy kv) = .ok kv := by
  induction kv with
  | nil => rfl
  | cons x r ih => obtain ⟨k, v⟩ := x; simp only [epKVToPy, loadEpKV, loadEpVal_epToPy, ih]

theorem loadEpKV_json (kv : List (String × EpVal)) (h : epKVNative kv = true) :
    loadEpKV (toJsonKV (epKVToPy kv)) = .ok kv := by
  induction kv with
  | nil => rfl
  | cons x r ih =>
    obtain ⟨k, v⟩ := x
    simp only [epKVNative, Bool.and_eq_true] at h
    simp only [epKVToPy, toJsonKV, loadEpKV, loadEpVal_json v h.1, ih h.2]

/-! ### filters -/

theorem loadFilter_filterToPy (f : Filter) : loadFilter (filterToPy f) = .ok f := by
  obtain ⟨n, a, kw⟩ := f
  simp [filterToPy, loadFilter, lookup]

theorem loadFilter_json (f : Filter) (h : filterNative f = true) : loadFilter (toJson (filterToPy f)) = .ok f := by
  obtain ⟨n, a, kw⟩ := f
  simp only [filterNative, Bool.and_eq_true] at h
  simp [filterToPy, toJson, toJsonKV, loadFilter, lookup, toJson_id n h.1.1, toJsonL_id a h.1.2, toJsonKV_id kw h.2]

theorem loadFilterList_map (fs : List Filter) : loadFilterList (fs.map filterToPy) = .ok fs := by
  induction fs with
  | nil => rfl
  | cons f r ih => simp only [List.map_cons, loadFilterList, loadFilter_filterToPy, ih]

theorem loadFilterList_json (fs : List Filter) (h : filtersNative fs = true) :
    loadFilterList (toJsonL (fs.map filterToPy)) = .ok fs := by
  induction fs with
  | nil => rfl
  | cons f r ih =>
    simp only [filtersNative, Bool.and_eq_true] at h
    simp only [List.map_cons, toJsonL, loadFilterList, loadFilter_json f h.1, ih h.2]

/-! ### file name -/

theorem sanitize_append (p : Char → Bool) (a b : List Char) : sanitize p (a ++ b) = sanitize p a ++ sanitize p b := by
  simp [sanitize, List.filter_append]

theorem natDigitsAux_digits (f n : Nat) : ∀ ch ∈ natDigitsAux f n, ∃ d, d < 10 ∧ ch = digitChar d := by
  induction f generalizing n with
  | zero =>
    intro ch hch
    simp only [natDigitsAux, List.mem_singleton] at hch
    exact ⟨n % 10, by omega, hch⟩
  | succ f ih =>
    intro ch hch
    simp only [natDigitsAux] at hch
    by_cases h : n < 10
    · simp only [h, if_true, List.mem_singleton] at hch
      exact ⟨n, h, hch⟩
    · simp only [h, if_false, List.mem_append, List.mem_singleton] at hch
      rcases hch with hch | hch
      · exact ih (n / 10) ch hch
      · exact ⟨n % 10, by omega, hch⟩

theorem natDigits_digits (n : Nat) : ∀ ch ∈ natDigits n, ∃ d, d < 10 ∧ ch = digitChar d :=
  natDigitsAux_digits n n

theorem sanitize_natDigits (p : Char → Bool) (hd : ∀ d, d < 10 → p (digitChar d) = true) (n : Nat) :
    sanitize p (natDigits n) = natDigits n := by
  unfold sanitize
  rw [List.filter_eq_self]
  intro ch hch
  obtain ⟨d, hd', rfl⟩ := natDigits_digits n ch hch
  simp [hd d hd']

theorem sanitize_intStr (p : Char → Bool) (hd : ∀ d, d < 10 → p (digitChar d) = true) (i : Int) :
    sanitize p (intStr i) = intStr i := by
  unfold intStr
  by_cases h : i < 0
  · simp only [h, if_true]
    have : sanitize p ('-' :: natDigits i.natAbs) = '-' :: sanitize p (natDigits i.natAbs) := by
      simp [sanitize, List.filter_cons]
    rw [this, sanitize_natDigits p hd]
  · simp only [h, if_false]; exact sanitize_natDigits p hd _

end MZ.Cfg
