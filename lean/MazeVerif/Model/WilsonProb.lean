import MazeVerif.Model.WilsonStep
/-! Probability semantics of the step machine (C19), exact rational arithmetic, core only.
    * backward: `val tgt n s` = probability that the chain started in `s` is, after at most `n` draws, finished in a
      state satisfying `tgt`; `unfin n s` = probability that it is not finished after `n` draws. Each draw is uniform
      on `range (arity s)` and draws are independent — that is all the definitions say.
    * forward: `push` moves every weighted state one draw ahead, `merge` adds up the weights of equal states
      (representation only), `dist n` iterates. `Lemmas/WilsonProb.lean` proves the two views agree. -/
namespace MZ.WProb

structure Machine (σ : Type) where
  arity : σ → Nat
  next : σ → Nat → σ
  fin : σ → Bool

variable {σ : Type} (M : Machine σ)

def ind (b : Bool) : Rat := if b then 1 else 0

def val (tgt : σ → Bool) : Nat → σ → Rat
  | 0, s => ind (M.fin s && tgt s)
  | n + 1, s =>
    if M.fin s then ind (tgt s)
    else ((List.range (M.arity s)).map fun k => val tgt n (M.next s k)).sum / (M.arity s : Rat)

def unfin : Nat → σ → Rat
  | 0, s => ind (!M.fin s)
  | n + 1, s =>
    if M.fin s then 0
    else ((List.range (M.arity s)).map fun k => unfin n (M.next s k)).sum / (M.arity s : Rat)

/-- expectation of `f` under a weighted list of states -/
def expect (f : σ → Rat) (d : List (σ × Rat)) : Rat := (d.map fun sw => sw.2 * f sw.1).sum

/-- one draw ahead -/
def push (d : List (σ × Rat)) : List (σ × Rat) :=
  d.flatMap fun sw =>
    if M.fin sw.1 then [sw]
    else (List.range (M.arity sw.1)).map fun k => (M.next sw.1 k, sw.2 / (M.arity sw.1 : Rat))

/-- add up adjacent entries with equal states -/
def combine [DecidableEq σ] : List (σ × Rat) → List (σ × Rat)
  | [] => []
  | [x] => [x]
  | x :: y :: rest =>
    if x.1 = y.1 then combine ((x.1, x.2 + y.2) :: rest) else x :: combine (y :: rest)
termination_by l => l.length

/-- sort by a key (so equal states become adjacent), then combine -/
def merge [DecidableEq σ] (key : σ → Nat) (d : List (σ × Rat)) : List (σ × Rat) :=
  combine (d.mergeSort fun a b => decide (key a.1 ≤ key b.1))

def dist [DecidableEq σ] (key : σ → Nat) (d0 : List (σ × Rat)) : Nat → List (σ × Rat)
  | 0 => d0
  | n + 1 => merge key (push M (dist key d0 n))

/-- mass of the finished states satisfying `tgt` / of the unfinished states -/
def massFin (tgt : σ → Bool) (d : List (σ × Rat)) : Rat := expect (fun s => ind (M.fin s && tgt s)) d
def massUnfin (d : List (σ × Rat)) : Rat := expect (fun s => ind (!M.fin s)) d

/-! ### the Wilson machine -/

def wilson (rows cols : Nat) : Machine WStep.WS :=
  { arity := WStep.arity rows cols, next := WStep.next rows cols, fin := WStep.finished rows cols }

/-- injective-enough sort key (only used to bring equal states together) -/
def wsKey (s : WStep.WS) : Nat :=
  s.path.foldl (fun acc i => acc * 64 + i + 1) (s.vis + (s.edges <<< 40) + (1 <<< 120))

def start (rows cols : Nat) : List (WStep.WS × Rat) :=
  let ss := WStep.starts rows cols
  ss.map fun s => (s, 1 / (ss.length : Rat))

/-- law of the machine after `n` draws -/
def law (rows cols n : Nat) : List (WStep.WS × Rat) := dist (wilson rows cols) wsKey (start rows cols) n

/-- the finished part of a law as (edge mask, probability), and the unfinished mass -/
def treeTable (rows cols : Nat) (d : List (WStep.WS × Rat)) : List (Nat × Rat) :=
  (d.filter fun sw => WStep.finished rows cols sw.1).map fun sw => (sw.1.edges, sw.2)

/-- is the edge mask a spanning tree of the grid? (`rows*cols-1` lattice edges, all cells reachable from cell 0) -/
def isSpanningMask (rows cols : Nat) (m : Nat) : Bool :=
  let n := rows * cols
  let bits := (List.range (2 * n)).filter fun b => WStep.bit m b
  let legal := bits.all fun b =>
    if b < n then b / cols + 1 < rows else (b - n) % cols + 1 < cols
  let adj (i : Nat) : List Nat := (WStep.nbrsOf rows cols i).filter fun j => WStep.bit m (WStep.edgeBit rows cols i j)
  let rec grow (fuel : Nat) (seen : List Nat) : List Nat :=
    match fuel with
    | 0 => seen
    | f + 1 =>
      let more := (seen.flatMap adj).filter fun j => !seen.contains j
      if more.isEmpty then seen else grow f (seen ++ more.eraseDups)
  legal && m < 2 ^ (2 * n) && bits.length + 1 == n && (grow n [0]).length == n

/-- all lattice-edge subsets that are spanning trees (brute force; small grids only) -/
def allSpanningMasks (rows cols : Nat) : List Nat :=
  let n := rows * cols
  let slots := (List.range (2 * n)).filter fun b =>
    if b < n then b / cols + 1 < rows else (b - n) % cols + 1 < cols
  let subsets := slots.foldl (fun acc b => acc ++ acc.map (· ||| (1 <<< b))) [0]
  subsets.filter (isSpanningMask rows cols)

/-- the target "the generator returned the maze with connection mask `T`" -/
def edgesAre (T : Nat) (s : WStep.WS) : Bool := decide (s.edges = T)

/-- the table fact decided by evaluation: the grid has exactly `N` spanning trees and, after `n0` draws, each of them
    has been returned with probability in `[1/N - eps, 1/N]` while the unfinished mass is at most `eps` -/
def tableOK (rows cols n0 N : Nat) (eps : Rat) : Bool :=
  let d := law rows cols n0
  let span := allSpanningMasks rows cols
  span.length == N && decide span.Nodup &&
  span.all (fun T =>
    let p := massFin (wilson rows cols) (edgesAre T) d
    decide (1 / (N : Rat) - eps ≤ p ∧ p ≤ 1 / (N : Rat))) &&
  decide (massUnfin (wilson rows cols) d ≤ eps)

end MZ.WProb
