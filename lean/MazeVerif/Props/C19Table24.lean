import MazeVerif.Props.C19Tables
/-! The 2x4 and 4x2 tables (56 spanning trees each, 500 draws): about a minute and a half of compiled evaluation each.
    `native_decide` is allowed in this file (see `C19Tables.lean`). -/
namespace MZ.WProb

theorem table_2x4 : tableOK 2 4 500 56 eps9 = true := by native_decide
theorem table_4x2 : tableOK 4 2 500 56 eps9 = true := by native_decide

end MZ.WProb
