import MazeVerif.Model.Dfs
namespace MZ

theorem adj_edgeOf {E : List Edge} {cur nb : Cell} (h : nb ∈ nbrs cur) (he : edgeOf cur nb ∈ E) : Adj E cur nb := by
  obtain ⟨c1, c2⟩ := cur
  simp only [nbrs, List.mem_cons, List.not_mem_nil, or_false] at h
  rcases h with rfl | rfl | rfl | rfl
  · rw [edgeOf_right] at he; exact Or.inr (Or.inr (Or.inl ⟨rfl, he⟩))
  · rw [edgeOf_left] at he; exact Or.inr (Or.inr (Or.inr ⟨by simp, he⟩))
  · rw [edgeOf_down] at he; exact Or.inl ⟨rfl, he⟩
  · rw [edgeOf_up] at he; exact Or.inr (Or.inl ⟨by simp, he⟩)

theorem ends_edgeOf {cur nb : Cell} (h : nb ∈ nbrs cur) :
    ends (edgeOf cur nb) = (cur, nb) ∨ ends (edgeOf cur nb) = (nb, cur) := by
  obtain ⟨c1, c2⟩ := cur
  simp only [nbrs, List.mem_cons, List.not_mem_nil, or_false] at h
  rcases h with rfl | rfl | rfl | rfl
  · left; rw [edgeOf_right]; simp [ends]
  · right; rw [edgeOf_left]; simp [ends]
  · left; rw [edgeOf_down]; simp [ends]
  · right; rw [edgeOf_up]; simp [ends]

theorem edgeOf_dim {cur nb : Cell} (h : nb ∈ nbrs cur) : (edgeOf cur nb).1 = 0 ∨ (edgeOf cur nb).1 = 1 := by
  obtain ⟨c1, c2⟩ := cur
  simp only [nbrs, List.mem_cons, List.not_mem_nil, or_false] at h
  rcases h with rfl | rfl | rfl | rfl
  · right; rw [edgeOf_right]
  · right; rw [edgeOf_left]
  · left; rw [edgeOf_down]
  · left; rw [edgeOf_up]

theorem mem_cands {rows cols vis cur nb} : nb ∈ cands rows cols vis cur ↔ nb ∈ nbrs cur ∧ nb ∉ vis ∧ inGrid rows cols nb := by
  simp [cands]

/-- invariants that hold for every argument combination -/
structure InvT (rows cols : Nat) (start : Cell) (s : St) : Prop where
  nodup : s.visited.Nodup
  grid : ∀ c ∈ s.visited, inGrid rows cols c
  sub : ∀ c ∈ s.stack, c ∈ s.visited
  len : s.edges.length + 1 = s.visited.length
  enodup : s.edges.Nodup
  edim : ∀ e ∈ s.edges, e.1 = 0 ∨ e.1 = 1
  eends : ∀ e ∈ s.edges, (ends e).1 ∈ s.visited ∧ (ends e).2 ∈ s.visited
  reach : ∀ c ∈ s.visited, Reach s.edges start c
  hstart : start ∈ s.visited

theorem InvT.init {rows cols start rng} (h : inGrid rows cols start) : InvT rows cols start (init start rng) := by
  refine ⟨by simp [MZ.init], ?_, ?_, by simp [MZ.init], by simp [MZ.init], by simp [MZ.init], by simp [MZ.init], ?_, by simp [MZ.init]⟩
  · intro c hc; simp [MZ.init] at hc; subst hc; exact h
  · intro c hc; simpa [MZ.init] using hc
  · intro c hc; simp [MZ.init] at hc; subst hc; exact .refl _

theorem mem_of_getElem?_eq {l : List Cell} {i : Nat} {c : Cell} (h : l[i]? = some c) : c ∈ l :=
  List.mem_of_getElem? h

theorem InvT.step {rows cols a start s s'} (inv : InvT rows cols start s) (h : Step rows cols a s s') :
    InvT rows cols start s' := by
  cases h with
  | extend i cur nb rng' hcur hnb hdepth =>
    have hcurS : cur ∈ s.stack := mem_of_getElem?_eq hcur
    have hcurV : cur ∈ s.visited := inv.sub _ hcurS
    obtain ⟨hnbN, hnbV, hnbG⟩ := mem_cands.mp hnb
    have hends := ends_edgeOf hnbN
    have enew : edgeOf cur nb ∉ s.edges := by
      intro hmem
      have := inv.eends _ hmem
      rcases hends with he | he
      · rw [he] at this; exact hnbV this.2
      · rw [he] at this; exact hnbV this.1
    refine ⟨?_, ?_, ?_, ?_, ?_, ?_, ?_, ?_, List.mem_append_left _ inv.hstart⟩
    · simp only [List.nodup_append, List.nodup_cons, List.not_mem_nil, not_false_eq_true, List.nodup_nil, and_self, List.mem_cons, or_false, true_and]
      exact ⟨inv.nodup, fun x hx y hy => by subst hy; intro hxy; subst hxy; exact hnbV hx⟩
    · intro c hc
      simp only [List.mem_append, List.mem_cons, List.not_mem_nil, or_false] at hc
      rcases hc with hc | rfl
      · exact inv.grid _ hc
      · exact hnbG
    · intro c hc
      simp only [List.mem_append, List.mem_cons, List.not_mem_nil, or_false] at hc ⊢
      rcases hc with hc | rfl
      · left
        split at hc
        · simp only [List.mem_append, List.mem_cons, List.not_mem_nil, or_false] at hc
          rcases hc with hc | rfl
          · exact inv.sub _ (List.mem_of_mem_eraseIdx hc)
          · exact hcurV
        · exact inv.sub _ (List.mem_of_mem_eraseIdx hc)
      · right; rfl
    · simp only [List.length_append, List.length_cons, List.length_nil]; have := inv.len; omega
    · simp only [List.nodup_append, List.nodup_cons, List.not_mem_nil, not_false_eq_true, List.nodup_nil, and_self, List.mem_cons, or_false, true_and]
      exact ⟨inv.enodup, fun x hx y hy => by subst hy; intro hxy; subst hxy; exact enew hx⟩
    · intro e he
      simp only [List.mem_append, List.mem_cons, List.not_mem_nil, or_false] at he
      rcases he with he | rfl
      · exact inv.edim _ he
      · exact edgeOf_dim hnbN
    · intro e he
      simp only [List.mem_append, List.mem_cons, List.not_mem_nil, or_false] at he ⊢
      rcases he with he | rfl
      · have := inv.eends _ he; exact ⟨Or.inl this.1, Or.inl this.2⟩
      · rcases hends with h1 | h1
        · rw [h1]; exact ⟨Or.inl hcurV, Or.inr rfl⟩
        · rw [h1]; exact ⟨Or.inr rfl, Or.inl hcurV⟩
    · intro c hc
      simp only [List.mem_append, List.mem_cons, List.not_mem_nil, or_false] at hc
      have mono : ∀ e ∈ s.edges, e ∈ s.edges ++ [edgeOf cur nb] := fun e he => List.mem_append_left _ he
      rcases hc with hc | rfl
      · exact (inv.reach _ hc).mono mono
      · exact .step ((inv.reach _ hcurV).mono mono) (adj_edgeOf hnbN (by simp))
  | back i cur rng' hcur hwhy =>
    refine ⟨inv.nodup, inv.grid, ?_, inv.len, inv.enodup, inv.edim, inv.eends, inv.reach, inv.hstart⟩
    intro c hc
    exact inv.sub _ (List.mem_of_mem_eraseIdx hc)

end MZ
