import MazeVerif.Props.C19Tables
import MazeVerif.Lemmas.WilsonProbFast
/-! The 2x5 and 5x2 tables (209 spanning trees each, 12 421 reachable states, 500 draws; the unfinished mass is
    first below `10⁻⁹` after 494 draws: 9.98·10⁻¹⁰, and 7.8·10⁻¹⁰ after 500). `native_decide` is allowed in this file (see `C19Tables.lean`).
    The statements are `tableOK` facts exactly like the other tables. To keep the evaluation at a few minutes the
    compiled code runs `tableOKK` (`Model/WilsonProbFast.lean`: the same check with every sort key computed once per
    draw instead of once per comparison), and `tableOKK_eq` (`Lemmas/WilsonProbFast.lean`, proved for every grid, no
    evaluation) turns the result into the `tableOK` fact. -/
namespace MZ.WProb

theorem table_2x5 : tableOK 2 5 500 209 eps9 = true :=
  (tableOKK_eq 2 5 500 209 eps9).symm.trans (by native_decide)
theorem table_5x2 : tableOK 5 2 500 209 eps9 = true :=
  (tableOKK_eq 5 2 500 209 eps9).symm.trans (by native_decide)

end MZ.WProb
