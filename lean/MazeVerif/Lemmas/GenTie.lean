import MazeVerif.Model.Grid
import MazeVerif.Generated.Constants
/-! Ties hand-written model constants to the constants regenerated from /repo's source on every run.
    If the source changes a constant, these `rfl`/`decide` proofs stop checking. -/
namespace MZ

/-- `nbrs` is `c + NEIGHBORS_MASK` in the order the source lists it (lattice_maze.py:236, generators.py:147,260) -/
theorem nbrs_eq_mask (c : Cell) : nbrs c = Gen.neighborsMask.map (fun d => (c.1 + d.1, c.2 + d.2)) := by
  simp [nbrs, Gen.neighborsMask]
  omega

end MZ
