import MazeVerif.Lemmas.AStarGrid
import MazeVerif.Model.Dataset
/-! Helper lemmas for C03: a shortest walk visits no cell twice; cells of a walk on a well-formed maze are in the grid. -/
namespace MZ.AStar
open MZ

theorem isWalkList_ne_nil {A : Cell → Cell → Prop} : ∀ {l : List Cell}, IsWalkList A l → l ≠ []
  | [], h => h.elim
  | _ :: _, _ => by simp

theorem isWalkList_tail {A : Cell → Cell → Prop} {a b : Cell} {t : List Cell} (h : IsWalkList A (a :: b :: t)) :
    IsWalkList A (b :: t) := h.2

/-- any non-empty suffix of a walk list is a walk list -/
theorem isWalkList_suffix {A : Cell → Cell → Prop} : ∀ (l1 : List Cell) {x : Cell} {l2 : List Cell},
    IsWalkList A (l1 ++ x :: l2) → IsWalkList A (x :: l2)
  | [], _, _, h => h
  | [a], x, l2, h => h.2
  | a :: b :: t, x, l2, h => isWalkList_suffix (b :: t) (isWalkList_tail (t := t ++ x :: l2) (by simpa using h))

/-- a walk list turns into a walk of `length - 1` steps -/
theorem walk_of_isWalkList {A : Cell → Cell → Prop} : ∀ {l : List Cell} {a b : Cell},
    IsWalkList A l → l.head? = some a → l.getLast? = some b → Walk A a b (l.length - 1)
  | [], _, _, h, _, _ => h.elim
  | [x], a, b, _, ha, hb => by
    simp at ha hb; subst ha; subst hb; exact .nil _
  | x :: y :: t, a, b, h, ha, hb => by
    simp only [List.head?_cons, Option.some.injEq] at ha; subst ha
    have ih := walk_of_isWalkList (l := y :: t) (a := y) (b := b) h.2 rfl (by simpa using hb)
    simpa using Walk.cons h.1 ih

/-- a walk list with a repeated cell can be shortened keeping its endpoints -/
theorem shorter_of_dup {A : Cell → Cell → Prop} : ∀ {l : List Cell}, IsWalkList A l → ¬ l.Nodup →
    ∃ l', IsWalkList A l' ∧ l'.head? = l.head? ∧ l'.getLast? = l.getLast? ∧ l'.length < l.length
  | [], h, _ => h.elim
  | [x], _, hnd => absurd (List.nodup_singleton x) hnd
  | a :: b :: t, h, hnd => by
    by_cases ha : a ∈ b :: t
    · obtain ⟨t1, t2, ht⟩ := List.append_of_mem ha
      refine ⟨a :: t2, ?_, rfl, ?_, ?_⟩
      · have : IsWalkList A ((a :: t1) ++ a :: t2) := by rw [List.cons_append, ← ht]; exact h
        exact isWalkList_suffix (a :: t1) this
      · rw [ht, ← List.cons_append, List.getLast?_append]; rfl
      · rw [ht]; simp; omega
    · have hnd' : ¬ (b :: t).Nodup := fun hn => hnd (List.nodup_cons.mpr ⟨ha, hn⟩)
      obtain ⟨l', h1, h2, h3, h4⟩ := shorter_of_dup h.2 hnd'
      cases l' with
      | nil => exact h1.elim
      | cons c t' =>
        simp only [List.head?_cons, Option.some.injEq] at h2; subst h2
        refine ⟨a :: c :: t', ⟨h.1, h1⟩, rfl, ?_, by simp at h4 ⊢; omega⟩
        simpa [List.getLast?_cons_cons] using h3

/-- a minimum-length walk list visits no cell twice -/
theorem nodup_of_shortest {A : Cell → Cell → Prop} {l : List Cell} {a b : Cell}
    (h : IsWalkList A l) (ha : l.head? = some a) (hb : l.getLast? = some b)
    (hmin : ∀ m, Walk A a b m → l.length - 1 ≤ m) : l.Nodup := by
  by_cases hnd : l.Nodup
  · exact hnd
  · obtain ⟨l', h1, h2, h3, h4⟩ := shorter_of_dup h hnd
    have := hmin _ (walk_of_isWalkList h1 (h2.trans ha) (h3.trans hb))
    have := List.length_pos_iff.mpr (isWalkList_ne_nil h1)
    omega

/-- every cell of a walk with at least one step on a well-formed maze lies in the grid -/
theorem isWalkList_inGrid {rows cols : Nat} {E : List Edge} (hwf : WF rows cols E) : ∀ {l : List Cell},
    IsWalkList (Adj E) l → 2 ≤ l.length → ∀ c ∈ l, inGrid rows cols c
  | [], h, _, _, _ => h.elim
  | [_], _, hl, _, _ => by simp at hl
  | a :: b :: t, h, _, c, hc => by
    have hab := (gadj_iff_adj hwf).mpr h.1
    have hba := (gadj_iff_adj hwf).mpr h.1.symm
    rcases List.mem_cons.mp hc with rfl | hc
    · exact hba.2.1
    · cases t with
      | nil => simp at hc; subst hc; exact hab.2.1
      | cons d t' => exact isWalkList_inGrid hwf h.2 (by simp) c hc

end MZ.AStar
