"""C03 — every item of a generated dataset is a correctly solved maze.
Serial generation runs under the RNG tap and the `min` shadow: per item the Lean model regenerates the maze from the
tapped draws, checks that the observed endpoints are a choice the code can make, replays A* and must return the stored
solution. In addition the WHOLE tapped run (the complete draw / rand streams, uncut, plus per item the observed endpoints
and picks) is replayed by the serial dataset model `generateSerial` (op `C03.dataset`): ONE shared stream, every item
starting where the previous one stopped; the model must return the real items, in order, and consume the tapped streams
exactly. Parallel generation (pool sizes 1,2,3,5 / up to 16) cannot be tapped: every item is judged by the oracle and
its length is certified against the verified model's optimal path."""
import warnings, itertools
import numpy as np
import gens, c02
from tap import Tap

RULE = ("configurations = generator (dfs, prim, wilson, percolation p>=.5, dfs_percolation) x kwargs (plus 14 / thorough 150 additional "
        "configs with a fixed start_coord, a third of those NOT a cell of the grid: generation must raise ValueError and the model must be in "
        "its start-rejected branch; a produced dataset is a violation) x grid 2..7 x endpoint options "
        "({}, dead-end start/end, allowed start/end lists, endpoints_not_equal and combinations) x seeds; serial (tapped, exact) and "
        "parallel with several pool sizes; every serial run additionally replayed WHOLE on one shared stream (C03.dataset: items equal in order, streams consumed exactly); non-trivial = item whose solution has >= 2 cells; distinct = distinct (config, index, solution); later additions: whole tapped serial runs replayed by the dataset-level model (C03.dataset), empty allowed lists, cache-count sequences, 129/130 grids, big dfs+percolation mazes with endpoints pinned to opposite corners (8 in quick, 60 in the search), an undocumented ValueError in parallel generation counts as a violation, allow-list and dead-end flag on the same endpoint")
ASSUMPTIONS = ["multiprocessing transport (pickling, imap ordering) is exercised, not modelled: the per-item theorem holds for every draw stream, the schedule only selects the stream",
               "configurations whose generation raises the documented ValueError (component of one cell, empty allowed set; a start_coord that is not a cell of the grid - accepted ONLY for such a start_coord, counted separately) are outside the property's quantifier and only counted",
               "visited_cells of percolation generators: component exactness is C13_component (validated here per run)"]
TRUSTED = ["RNG taps, `min` shadow, wrappers around _generate_maze_helper / generate_random_path used to cut the draw stream per item (the whole-run replay C03.dataset does not use the cuts: it gets the uncut streams)"]

EP_OPTS = [dict(), dict(allowed_start=[]), dict(allowed_end=[], endpoints_not_equal=True), dict(deadend_start=True), dict(deadend_end=True), dict(deadend_start=True, deadend_end=True, endpoints_not_equal=True),
           dict(endpoints_not_equal=True), "allowed_start", "allowed_end", "allowed_both", "allowed_start_deadend_end",
           "allowed_and_deadend_same_end", "allowed_and_deadend_same_end"]


def make_cfg(rng, k, with_start=None):
    from maze_dataset import MazeDatasetConfig
    from maze_dataset.generation.generators import GENERATORS_MAP
    gen = rng.choice(["dfs", "dfs", "prim", "wilson", "percolation", "dfs_percolation"] if with_start is None else ["dfs", "dfs", "prim", "percolation", "dfs_percolation"])
    n = rng.randint(2, 7)
    kw = {}
    if gen in ("dfs", "prim", "dfs_percolation") and rng.random() < 0.4:
        kw["accessible_cells"] = rng.choice([n * n // 2 + 1, n * n - 1, n * n, 3])
    if gen == "dfs" and rng.random() < 0.3: kw["do_forks"] = False
    if gen == "dfs" and rng.random() < 0.3: kw["max_tree_depth"] = rng.choice([3, n, 2 * n])
    if gen in ("percolation", "dfs_percolation"): kw["p"] = rng.choice([0.5, 0.7, 0.9, 1.0]) if gen == "percolation" else rng.choice([0.1, 0.4, 0.7])
    if with_start is not None and gen != "wilson":
        # a fixed start_coord for every maze of the dataset (a list: configs are serialised); with_start == "outside": one that
        # is NOT a cell of the grid - generation must then raise ValueError (`_random_start_coord`), never produce items
        kw["start_coord"] = [rng.randrange(n), rng.randrange(n)]
        if with_start == "outside":
            outs = gens.outside_starts(rng, n, n)
            kw["start_coord"] = [int(x) for x in (outs[(k // 3) % 4] if k % 2 else rng.choice(outs))]   # the four one-past-an-edge / -1 starts in turn
    ep = rng.choice(EP_OPTS)
    cells = list(itertools.product(range(n), range(n)))
    if ep == "allowed_start": ep = dict(allowed_start=rng.sample(cells, min(3, len(cells))))
    elif ep == "allowed_end": ep = dict(allowed_end=rng.sample(cells, min(4, len(cells))), endpoints_not_equal=rng.random() < 0.5)
    elif ep == "allowed_both": ep = dict(allowed_start=rng.sample(cells, min(3, len(cells))), allowed_end=rng.sample(cells, min(3, len(cells))))
    elif ep == "allowed_start_deadend_end": ep = dict(allowed_start=rng.sample(cells, min(5, len(cells))), deadend_end=True)
    elif ep == "allowed_and_deadend_same_end":
        # an allow-list AND the dead-end flag for the SAME endpoint (both must hold), the list large enough to contain cells that are not dead ends
        big = rng.sample(cells, max(1, (3 * len(cells)) // 4)) if rng.random() < 0.5 else list(cells)
        ep = dict(allowed_start=big, deadend_start=True) if rng.random() < 0.5 else dict(allowed_end=big, deadend_end=True)
        if rng.random() < 0.3: ep.update(allowed_end=list(cells), deadend_end=True, allowed_start=list(cells), deadend_start=True)
    cfg = MazeDatasetConfig(name=f"c03_{k}", grid_n=n, n_mazes=rng.randint(1, 8), maze_ctor=GENERATORS_MAP["gen_" + gen],
                            maze_ctor_kwargs=kw, endpoint_kwargs=ep, seed=rng.randint(0, 2**20))
    return cfg, dict(gen=gen, rows=n, cols=n, kwargs=kw), ep


def oracle_item(n, m, ep) -> str | None:
    """the property's per-item clause, from the text"""
    cl = np.asarray(m.connection_list)
    if cl.shape != (2, n, n): return f"grid shape {cl.shape} != (2,{n},{n})"
    sol = [tuple(int(x) for x in c) for c in m.solution]
    if not sol: return "empty solution"
    if tuple(int(x) for x in m.start_pos) != sol[0] or tuple(int(x) for x in m.end_pos) != sol[-1]: return f"start/end {m.start_pos}/{m.end_pos} are not the solution's ends {sol[0]}/{sol[-1]}"
    for c in sol:
        if not (0 <= c[0] < n and 0 <= c[1] < n): return f"solution cell {c} outside the grid"
    for a, b in zip(sol, sol[1:]):
        i, j = a; k, l = b
        if not ((abs(i - k) + abs(j - l) == 1) and (cl[0, min(i, k), j] if j == l else cl[1, i, min(j, l)])): return f"solution step {a}->{b} is not a connection"
    if len(set(sol)) != len(sol): return f"solution visits a cell twice: {sol}"
    d = c02.bfs(n, n, cl, sol[0])
    if d.get(sol[-1]) != len(sol) - 1: return f"solution has {len(sol)-1} steps, shortest is {d.get(sol[-1])}"
    s, e = sol[0], sol[-1]
    deg = lambda c: len(c02.bfs(n, n, cl, c)) and sum(1 for y, dd in c02.bfs(n, n, cl, c).items() if dd == 1)
    default = ep.get("allowed_start") is None and ep.get("allowed_end") is None and not ep.get("deadend_start") and not ep.get("deadend_end")
    if default and s == e: return "default endpoint options but start == end"
    if ep.get("endpoints_not_equal") and s == e: return "endpoints_not_equal but start == end"
    if ep.get("allowed_start") is not None and s not in [tuple(x) for x in ep["allowed_start"]]: return f"start {s} not in allowed_start"
    if ep.get("allowed_end") is not None and e not in [tuple(x) for x in ep["allowed_end"]]: return f"end {e} not in allowed_end"
    if ep.get("deadend_start") and deg(s) != 1: return f"deadend_start but start {s} has degree {deg(s)}"
    if ep.get("deadend_end") and deg(e) != 1: return f"deadend_end but end {e} has degree {deg(e)}"
    return None


def opts_json(ep):
    o = {}
    for k in ("allowed_start", "allowed_end"):
        if ep.get(k) is not None: o[k] = [[int(a), int(b)] for a, b in ep[k]]
    for k in ("deadend_start", "deadend_end", "endpoints_not_equal"):
        if ep.get(k): o[k] = True
    return o


def serial(ctx, cfg, case, ep, reqs, ds_reqs=None):
    """tapped serial generation; returns list of (item index, maze) or None when the documented ValueError occurred.
    `reqs` gets one `C03.item` request per item (the draw stream cut per item), `ds_reqs` ONE `C03.dataset` request for the
    whole run: the complete tapped streams, replayed by `generateSerial` (one shared stream, item after item)"""
    import maze_dataset.dataset.maze_dataset as MD
    import maze_dataset.maze.lattice_maze as LM
    marks = []           # per item: [draw pos at helper entry, rand pos, draw pos at path entry, rand pos at path entry, picks]
    orig_helper, orig_path = MD._generate_maze_helper, LM.LatticeMaze.generate_random_path
    with Tap() as t:
        def helper(i):
            marks.append([len(t.draws), len(t.rands), None, None, []])
            return orig_helper(i)
        def path(self, *a, **kw):
            marks[-1][2], marks[-1][3] = len(t.draws), len(t.rands)
            return orig_path(self, *a, **kw)
        def rec_min(it, key=None):
            v = min(it, key=key); marks[-1][4].append([int(v[0]), int(v[1])]); return v
        MD._generate_maze_helper, LM.LatticeMaze.generate_random_path, LM.min = helper, path, rec_min
        so = gens.start_outside(case)
        try:
            ds = MD.MazeDataset.generate(cfg, gen_parallel=False)
        except ValueError as e:
            msg = str(e.args[0]) if e.args else ""
            if "solution could not be found" in msg:
                ctx.violate(f"serial generation of {cfg.summary()['maze_ctor_name']} {case} endpoint_kwargs={ep}: solver found no path between drawn endpoints"
                            + (f" (start_coord {case['kwargs']['start_coord']} is not a cell of the grid: generation should have raised ValueError for it)" if so else ""),
                            dict(case=case, ep=opts_json(ep), seed=cfg.seed), key="start-coord-outside-grid" if so else "unlisted")
            elif so:
                # documented: the generator rejects a start_coord that is not a grid cell - before any random number is drawn
                if t.draws or t.rands:
                    ctx.violate(f"serial generation of {case} endpoint_kwargs={ep} seed={cfg.seed}: start_coord {case['kwargs']['start_coord']} is not a cell of the {cfg.grid_n}x{cfg.grid_n} grid ({so}); "
                                f"it was not rejected up front: mazes were built from it ({len(t.draws)} draws, {len(t.rands)} rands consumed) before ValueError({msg[:100]!r})",
                                dict(case=case, ep=opts_json(ep), seed=cfg.seed), key="start-coord-outside-grid")
                ctx.count("documented_ValueError_start_outside_grid")
                reqs.append((dict(gens.request(case, dict(draws=[], rands=[])), op="C03.item", opts=opts_json(ep), s=[0, 0], e=[0, 0], picks=[]),
                             dict(case=case, ep=opts_json(ep), seed=cfg.seed, index=0, rejected=so), None, None))
                if ds_reqs is not None:
                    ds_reqs.append((dict(gens.request(case, dict(draws=[], rands=[])), op="C03.dataset", opts=opts_json(ep), n=int(cfg.n_mazes), obs=[], rands=[]),
                                    dict(case=case, ep=opts_json(ep), seed=cfg.seed, n=int(cfg.n_mazes), rejected=so), None))
            elif "outside the grid" in msg:
                ctx.violate(f"{case}: generation raised ValueError({msg[:120]!r}) although start_coord is a cell of the grid", dict(case=case, ep=opts_json(ep), seed=cfg.seed))
            else:
                ctx.count("documented_ValueError")
            return None
        finally:
            MD._generate_maze_helper, LM.LatticeMaze.generate_random_path = orig_helper, orig_path
            del LM.min
        draws, rands = list(t.draws), list(t.rands)
    if so:
        bad = next((b for b in (oracle_item(cfg.grid_n, m, ep) for m in ds.mazes) if b), "every item passes the per-item clause")
        ctx.violate(f"serial generation of {case} endpoint_kwargs={ep} seed={cfg.seed}: start_coord {case['kwargs']['start_coord']} is not a cell of the {cfg.grid_n}x{cfg.grid_n} grid ({so}) "
                    f"but a dataset of {len(ds)} items was produced instead of ValueError; {bad}; connections of item 0: {gens.edges_of(ds.mazes[0].connection_list)[:10]}",
                    dict(case=case, ep=opts_json(ep), seed=cfg.seed), key="start-coord-outside-grid")
        return None
    if len(ds) != cfg.n_mazes or len(marks) != cfg.n_mazes:
        ctx.violate(f"dataset has {len(ds)} items for n_mazes={cfg.n_mazes}", dict(case=case, seed=cfg.seed)); return None
    for i, m in enumerate(ds.mazes):
        d0, r0, d1, r1, picks = marks[i]
        impl = dict(draws=draws[d0:d1], rands=rands[r0:r1])
        rq = gens.request(case, impl)
        sol = [[int(a), int(b)] for a, b in m.solution]
        rq.update(op="C03.item", opts=opts_json(ep), s=sol[0], e=sol[-1], picks=picks)
        reqs.append((rq, dict(case=case, ep=opts_json(ep), seed=cfg.seed, index=i), gens.edges_of(m.connection_list), sol))
    if ds_reqs is not None:
        # the WHOLE run on ONE stream: nothing is cut; the model itself must find where each item's draws end
        sols = [[[int(a), int(b)] for a, b in m.solution] for m in ds.mazes]
        rq = gens.request(case, dict(draws=draws, rands=rands))
        rq.update(op="C03.dataset", opts=opts_json(ep), n=int(cfg.n_mazes), rands=rands,
                  obs=[dict(s=sol[0], e=sol[-1], picks=marks[i][4]) for i, sol in enumerate(sols)])
        ds_reqs.append((rq, dict(case=case, ep=opts_json(ep), seed=cfg.seed, n=int(cfg.n_mazes)),
                        [(gens.edges_of(m.connection_list), sol) for m, sol in zip(ds.mazes, sols)]))
    return ds


def run(ctx):
    warnings.filterwarnings("ignore")
    from maze_dataset import MazeDataset
    reqs, ds_reqs = [], []
    n_cfg = 60 if ctx.quick else 600
    par_sizes = [1, 2, 3, 5] if ctx.quick else [1, 2, 3, 4, 5, 7, 8, 11, 16]
    par_jobs = []
    # the start_coord configurations are ADDITIONAL ones drawn from a side stream (the main configuration stream is unchanged):
    # one in six of them carries a start_coord that is not a cell of the grid, at least two on every run
    import random as pyrandom
    side = pyrandom.Random(ctx.rng.getstate()[1][0] ^ 0x5C03)
    n_start = 14 if ctx.quick else 150
    plan = [(k, None) for k in range(n_cfg)] + [(n_cfg + j, "outside" if j % 6 in (1, 4) else "grid_cell") for j in range(n_start)]
    for k, ws in plan:
        cfg, case, ep = make_cfg(ctx.rng if ws is None else side, k, ws)
        ctx.count(f"gen={case['gen']}"); ctx.count("ep=" + ",".join(sorted(opts_json(ep))) if ep else "ep=default")
        if "start_coord" in case["kwargs"]: ctx.count("start_coord=" + (gens.start_outside(case) or "grid_cell"))
        ds = serial(ctx, cfg, case, ep, reqs, ds_reqs)
        if ds is None: continue
        for i, m in enumerate(ds.mazes):
            bad = oracle_item(cfg.grid_n, m, ep)
            ctx.case([cfg.name, i, [list(map(int, c)) for c in m.solution]], nontrivial=len(m.solution) >= 2)
            if bad: ctx.violate(f"serial item {i} of {case} endpoint_kwargs={ep} seed={cfg.seed}: {bad}", dict(case=case, ep=opts_json(ep), seed=cfg.seed, index=i))
        if k % max(1, n_cfg // (len(par_sizes) * (1 if ctx.quick else 4))) == 0:
            par_jobs.append((cfg, case, ep))
    # ---- the configured number of elements through the config-driven entry point WITH its cache: two requests that differ only in a
    #      maze count >= 1000 (the cache file name abbreviates the count: 1000 and 1049 are both "1.0K") share one cache directory
    import shutil
    for a, b in ([(1000, 1049)] if ctx.quick else [(1000, 1049), (1200, 1249), (2500, 2549)]):
        d = ctx.workdir / "cache_seq"
        shutil.rmtree(d, ignore_errors=True)
        for n in (a, b, a):
            cfg = _cfg_of(dict(gen="dfs", rows=2, cols=2, kwargs={}), {}, 5, n, "c03cache")
            try:
                ds = MazeDataset.from_config(cfg, local_base_path=d, do_download=False)
            except Exception as e:
                ctx.violate(f"from_config with a cache directory raised {type(e).__name__}: {str(e)[:150]} for n_mazes={n} (after other requests differing only in the count)",
                            dict(case=dict(gen="dfs", rows=2, cols=2, kwargs={}), ep={}, seed=5, n_mazes=n, cache_sequence=[a, b, a])); break
            ctx.case(["cache-seq", a, b, n]); ctx.count("cache_count_sequence")
            if len(ds) != n or int(ds.cfg.n_mazes) != n:
                ctx.violate(f"from_config(n_mazes={n}) with a cache directory that already held the dataset for another maze count returned {len(ds)} elements "
                            f"(requests in order {[a, b, a]}; both counts abbreviate to the same text in the cache file name)",
                            dict(case=dict(gen="dfs", rows=2, cols=2, kwargs={}), ep={}, seed=5, n_mazes=n, cache_sequence=[a, b, a])); break
        shutil.rmtree(d, ignore_errors=True)
    # ---- grids beyond 127/128 (narrow integer types): oracle only ---------------------------------------
    for g, nm in ([(130, 2), (129, 1)] if ctx.quick else [(129, 3), (130, 4), (200, 2), (257, 1)]):
        case = dict(gen=ctx.rng.choice(["dfs", "dfs_percolation"]), rows=g, cols=g, kwargs={})
        if case["gen"] == "dfs_percolation": case["kwargs"]["p"] = 0.1
        cfg = _cfg_of(case, {}, ctx.rng.randint(0, 2**20), nm, f"c03big{g}")
        try:
            ds = MazeDataset.generate(cfg, gen_parallel=False)
        except Exception as e:
            ctx.violate(f"serial generation on a {g}x{g} grid ({case}) raised {type(e).__name__}: {str(e)[:200]}", dict(case=case, ep={}, seed=cfg.seed)); continue
        ctx.count(f"big_grid={g}")
        for i, m in enumerate(ds.mazes):
            bad = oracle_item(g, m, {})
            ctx.case([cfg.name, i, len(m.solution)], nontrivial=len(m.solution) >= 2)
            if bad: ctx.violate(f"serial item {i} of {case} (grid {g}) seed={cfg.seed}: {bad}", dict(case=case, ep={}, seed=cfg.seed, index=i))
    _far_corner_datasets(ctx, 8 if ctx.quick else 80)
    # ---- parallel generation: oracle + certified optimal length ---------------------------------
    certs = []
    for idx, (cfg, case, ep) in enumerate(par_jobs):
        ps = par_sizes[idx % len(par_sizes)]
        try:
            ds = MazeDataset.generate(cfg, gen_parallel=True, pool_kwargs=dict(processes=ps))
        except ValueError as ex:
            if not ep and case.get("gen") in ("dfs", "prim", "wilson") and not case.get("kwargs"):
                # a spanning tree and default endpoint options: every cell pair is connected, nothing documents a ValueError here
                ctx.violate(f"parallel (pool {ps}) generation of {case} with default endpoint options raised ValueError: {str(ex)[:160]}", dict(case=case, seed=cfg.seed, pool=ps))
            ctx.count("documented_ValueError_parallel"); continue
        ctx.count(f"pool={ps}")
        if len(ds) != cfg.n_mazes:
            ctx.violate(f"parallel (pool {ps}) dataset has {len(ds)} items for n_mazes={cfg.n_mazes}", dict(case=case, seed=cfg.seed, pool=ps))
        for i, m in enumerate(ds.mazes):
            bad = oracle_item(cfg.grid_n, m, ep)
            ctx.case([cfg.name, "par", ps, i, [list(map(int, c)) for c in m.solution]], nontrivial=len(m.solution) >= 2)
            if bad: ctx.violate(f"parallel (pool {ps}) item {i} of {case} endpoint_kwargs={ep} seed={cfg.seed}: {bad}", dict(case=case, ep=opts_json(ep), seed=cfg.seed, index=i, pool=ps))
            sol = [tuple(int(x) for x in c) for c in m.solution]
            obs = c02.solve_all(np.asarray(m.connection_list), [(sol[0], sol[-1])])[0]
            comp = [[int(a), int(b)] for a, b in m.get_connected_component()]
            certs.append((dict(op="C03.solve", rows=cfg.grid_n, cols=cfg.grid_n, edges=gens.edges_of(m.connection_list), component=comp,
                               opts=opts_json(ep), s=list(sol[0]), e=list(sol[-1]), picks=obs[2]), len(sol), dict(case=case, seed=cfg.seed, index=i, pool=ps)))
    outs = ctx.driver.run_parallel([r for r, *_ in reqs] + [r for r, *_ in certs])
    # ---- whole serial runs replayed on ONE shared stream by `generateSerial` (C03_dataset_*) ------------------
    for (rq, info, want_items), o in zip(ds_reqs, ctx.driver.run_parallel([r for r, *_ in ds_reqs])):
        ctx.traces_validated += 1
        if info.get("rejected"):
            want = gens.REJECT_REASON[info["rejected"]]
            if o.get("ok") or o.get("reason") != want or o.get("failed_at") != 0:
                ctx.disagree(f"dataset {info}: real generation raised ValueError for the start_coord; serial model reply {str(o)[:200]}, expected ok=false failed_at=0 reason={want}", info)
            continue
        if "error" in o or not o.get("ok"):
            ctx.disagree(f"dataset {info}: the serial model does not complete the run on the tapped streams: {str(o)[:300]}", info); continue
        items = o["items"]
        if len(items) != info["n"] or len(items) != len(want_items):
            ctx.disagree(f"dataset {info}: serial model returned {len(items)} items, the real run {len(want_items)} (n_mazes={info['n']})", info); continue
        for i, (it, (edges, sol)) in enumerate(zip(items, want_items)):
            if sorted(it["edges"]) != edges or it["solution"] != sol or not it.get("wf"):
                ctx.disagree(f"dataset {info}: item {i} of the serial model (solution {it['solution']}, wf={it.get('wf')}) differs from the real item (solution {sol})"
                             + ("" if sorted(it["edges"]) == edges else "; connection bits differ"), dict(info, index=i)); break
        if o.get("leftover_draws") or o.get("leftover_rands") or o.get("leftover_obs"):
            ctx.disagree(f"dataset {info}: the {info['n']} items of the serial model do not consume the tapped streams exactly: left draws={o.get('leftover_draws')} rands={o.get('leftover_rands')} obs={o.get('leftover_obs')}", info)
        ctx.count("dataset_replayed_whole"); ctx.count(f"dataset_replayed_whole_n={min(info['n'], 8)}")
    for (rq, info, edges, sol), o in zip(reqs, outs):
        ctx.traces_validated += 1
        if info.get("rejected"):
            want = gens.REJECT_REASON[info["rejected"]]
            if o.get("ok") or o.get("reason") != want:
                ctx.disagree(f"{info}: real generation raised ValueError for the start_coord; model reply {str(o)[:200]}, expected ok=false reason={want}", info)
            continue
        if not o.get("ok") and o.get("reason") in gens.REJECT_REASON.values():
            ctx.disagree(f"{info}: model rejects the start_coord ({o.get('reason')}) but the real code generated the item", info); continue
        if "error" in o or not o.get("ok"): ctx.disagree(f"{info}: model generator run did not complete: {o}", info); continue
        if sorted(o["gen"]["edges"]) != edges: ctx.disagree(f"{info}: connection bits differ", info); continue
        if o.get("solve") != "ok" or o.get("solution") != sol:
            ctx.disagree(f"{info}: model solve={o.get('solve')} {o.get('solution')} vs stored solution {sol} (s,e,picks={rq['s']},{rq['e']},{rq['picks']})", info)
        ctx.sample(dict(info=info, draws=rq["draws"][:20], s=rq["s"], e=rq["e"], solution=sol), limit=3)
    for (rq, n, info), o in zip(certs, outs[len(reqs):]):
        ctx.traces_validated += 1
        if o.get("solve") != "ok" or len(o.get("solution", [])) != n:
            ctx.disagree(f"parallel item {info}: verified model solve={o.get('solve')} optimal length {len(o.get('solution', []))} vs stored {n}", info)


def _all_pairs_shortest(ctx, m, n, info) -> bool:
    """the solver on EVERY ordered pair of one maze against BFS (used around a maze on which the correspondence broke)"""
    cl = np.asarray(m.connection_list)
    cells = list(itertools.product(range(n), range(n)))
    for s in cells:
        d = c02.bfs(n, n, cl, s)
        for e in cells:
            if e not in d: continue
            try:
                p = m.find_shortest_path(s, e)
            except Exception as ex:
                ctx.violate(f"{info}: find_shortest_path({s},{e}) raised {type(ex).__name__} on connected cells", dict(info, s=list(s), e=list(e), edges=gens.edges_of(cl))); return True
            ctx.case([str(info), s, e])
            if len(p) - 1 != d[e]:
                ctx.violate(f"{info}: a dataset item with start {s} and end {e} on this maze would store a {len(p)-1}-step solution, the shortest route has {d[e]} steps "
                            f"(find_shortest_path is what generate uses to solve every item)", dict(info, s=list(s), e=list(e), edges=gens.edges_of(cl), path=[[int(a), int(b)] for a, b in p])); return True
    return False


def _cfg_of(case, ep, seed, n_mazes, name="search"):
    from maze_dataset import MazeDatasetConfig
    from maze_dataset.generation.generators import GENERATORS_MAP
    epk = {k: ([tuple(x) for x in v] if isinstance(v, list) else v) for k, v in ep.items()}
    return MazeDatasetConfig(name=name, grid_n=case["rows"], n_mazes=n_mazes, maze_ctor=GENERATORS_MAP["gen_" + case["gen"]],
                             maze_ctor_kwargs=case["kwargs"], endpoint_kwargs=epk, seed=seed)


def _far_corner_datasets(ctx, n_mazes):
    """big mazes WITH cycles whose endpoints are pinned to opposite corners (the solver has to choose among many long routes; anything
    that is only a tie-breaker on small grids grows into a preference here): serial datasets, judged per item. Oracle only."""
    from maze_dataset import MazeDataset
    done = 0
    while done < n_mazes and not ctx.violations:
        g = ctx.rng.choice([128, 128, 100])
        corners = ctx.rng.choice([((0, 0), (g - 1, g - 1)), ((0, g - 1), (g - 1, 0)), ((g - 1, g - 1), (0, 0))])
        case = dict(gen="dfs_percolation", rows=g, cols=g, kwargs=dict(p=ctx.rng.choice([0.25, 0.3, 0.35])))
        ep = dict(allowed_start=[corners[0]], allowed_end=[corners[1]])
        k = min(4, n_mazes - done)
        cfg = _cfg_of(case, ep, ctx.rng.randint(0, 2**20), k, f"c03far{g}")
        try:
            ds = MazeDataset.generate(cfg, gen_parallel=False)
        except Exception as e:
            ctx.violate(f"serial generation on a {g}x{g} grid ({case}, endpoints pinned to {corners}) raised {type(e).__name__}: {str(e)[:200]}", dict(case=case, ep=opts_json(ep), seed=cfg.seed)); return
        done += k; ctx.count("far_corner_mazes", k)
        for i, m in enumerate(ds.mazes):
            bad = oracle_item(g, m, ep)
            ctx.case([cfg.name, cfg.seed, i, len(m.solution)], nontrivial=True)
            if bad:
                ctx.violate(f"serial item {i} of {case} (grid {g}, endpoints pinned to opposite corners {corners}) seed={cfg.seed}: {bad}", dict(case=case, ep=opts_json(ep), seed=cfg.seed, index=i)); return


def search(ctx):
    from maze_dataset import MazeDataset
    _far_corner_datasets(ctx, 60)
    if ctx.violations: return
    # 1. around the inputs on which the correspondence broke: same configuration and seed, every item judged, and the solver
    #    on every ordered pair of the very mazes involved
    seen = set()
    for d in ctx.disagreements[:12]:
        info = d.get("case") or {}
        if not isinstance(info, dict) or "case" not in info or "seed" not in info: continue
        key = (str(info["case"]), info["seed"])
        if key in seen: continue
        seen.add(key)
        try:
            ds = MazeDataset.generate(_cfg_of(info["case"], info.get("ep", {}), info["seed"], max(8, info.get("index", 0) + 1)))
        except ValueError:
            continue
        for i, m in enumerate(ds.mazes):
            bad = oracle_item(info["case"]["rows"], m, info.get("ep", {}))
            if bad:
                ctx.violate(f"item {i} of {info['case']} endpoint_kwargs={info.get('ep')} seed={info['seed']}: {bad}", dict(info, index=i)); return
            if _all_pairs_shortest(ctx, m, info["case"]["rows"], dict(case=info["case"], seed=info["seed"], index=i)): return
    # 2. datasets of mazes WITH cycles (where a solver defect can hide) and the general mix
    import random as pyrandom
    side = pyrandom.Random(ctx.rng.getstate()[1][0] ^ 0x5C04)
    for k in range(300 if ctx.quick else 3000):
        if k % 2 == 0:
            n = ctx.rng.randint(5, 10)
            case = dict(gen=ctx.rng.choice(["dfs_percolation", "percolation"]), rows=n, cols=n, kwargs={})
            case["kwargs"]["p"] = round(ctx.rng.uniform(0.15, 0.5), 2) if case["gen"] == "dfs_percolation" else round(ctx.rng.uniform(0.55, 0.9), 2)
            ep = {}
            cfg = _cfg_of(case, ep, ctx.rng.randint(0, 2**20), 16, f"c03s_{k}")
        elif k % 16 == 5:
            cfg, case, ep = make_cfg(side, 10_000 + k, "outside" if k % 64 == 5 else "grid_cell")   # side stream: main stream unchanged
        else:
            cfg, case, ep = make_cfg(ctx.rng, 10_000 + k)
        so = gens.start_outside(case)
        try:
            ds = MazeDataset.generate(cfg)
        except ValueError as e:
            if "solution could not be found" in (str(e.args[0]) if e.args else ""):
                ctx.violate(f"{case} {ep}: solver found no path between drawn endpoints", dict(case=case, ep=opts_json(ep), seed=cfg.seed)); return
            continue
        if so:
            ctx.violate(f"{case} {ep} seed={cfg.seed}: start_coord {case['kwargs']['start_coord']} is not a cell of the grid ({so}) but a dataset of {len(ds)} items was produced instead of ValueError",
                        dict(case=case, ep=opts_json(ep), seed=cfg.seed), key="start-coord-outside-grid"); return
        for i, m in enumerate(ds.mazes):
            ctx.case([cfg.name, i])
            bad = oracle_item(cfg.grid_n, m, ep)
            if bad:
                ctx.violate(f"item {i} of {case} endpoint_kwargs={ep} seed={cfg.seed}: {bad}", dict(case=case, ep=opts_json(ep), seed=cfg.seed, index=i)); return


def replay(ctx, rp):
    from maze_dataset import MazeDataset, MazeDatasetConfig
    from maze_dataset.generation.generators import GENERATORS_MAP
    c = rp["case"]
    if "edges" in c and "s" in c:
        from maze_dataset import LatticeMaze
        n = c["case"]["rows"]
        cl = np.zeros((2, n, n), dtype=bool)
        for d, i, j in c["edges"]: cl[d, i, j] = True
        p = LatticeMaze(connection_list=cl).find_shortest_path(tuple(c["s"]), tuple(c["e"]))
        want = c02.bfs(n, n, cl, tuple(c["s"]))[tuple(c["e"])]
        if len(p) - 1 != want: ctx.violate(f"replay: {len(p)-1}-step solution, shortest is {want}", c)
        return
    case = c["case"]; ep = {k: ([tuple(x) for x in v] if isinstance(v, list) else v) for k, v in c.get("ep", {}).items()}
    cfg = MazeDatasetConfig(name="replay", grid_n=case["rows"], n_mazes=max(8, c.get("index", 0) + 1), maze_ctor=GENERATORS_MAP["gen_" + case["gen"]],
                            maze_ctor_kwargs=case["kwargs"], endpoint_kwargs=ep, seed=c["seed"])
    so = gens.start_outside(case)
    try:
        with Tap() as t:
            ds = MazeDataset.generate(cfg, gen_parallel=False)
    except ValueError as e:
        msg = str(e.args[0]) if e.args else ""
        if "solution could not be found" in msg: ctx.violate(f"replay: solver found no path between drawn endpoints ({case})", c)
        elif so and (t.draws or t.rands): ctx.violate(f"replay: start_coord {case['kwargs']['start_coord']} ({so}) not rejected up front: {len(t.draws)} draws consumed before ValueError({msg[:100]!r})", c)
        return
    if so:
        ctx.violate(f"replay: start_coord {case['kwargs']['start_coord']} is not a cell of the grid ({so}) but a dataset of {len(ds)} items was produced", c); return
    for i, m in enumerate(ds.mazes):
        bad = oracle_item(cfg.grid_n, m, ep)
        if bad: ctx.violate(f"replay item {i}: {bad}", c)
