"""C09 — maze objects are values: total structural equality, consistent hash, valid ends.

Correspondence: real LatticeMaze / TargetedLatticeMaze / SolvedMaze / MazeDataset vs. the MZ.MV model (driver ops C09.*):
`==`, `!=`, reversed `==`, the exact object handed to the builtin `hash` inside `__hash__` (tapped by shadowing `hash`
as a module global of lattice_maze — no repo edit), constructor outcomes, dataset `==`, dict/set de-duplication.
Oracle (independent of the model, written from the property statement): same class and identical connection structure,
start, end, solution as nested lists of values; accepted endpoints are exactly the in-grid ones and rejection is ValueError."""
from __future__ import annotations
import copy, json, warnings
import numpy as np

RULE = ("pairs: base maze of each of the 3 kinds on random grid shapes rows,cols in 1..5 (non-square included; random connection "
        "bits, random in-grid endpoints / solution cell lists of length 1..6) x variants {identical object, equal copy with fresh "
        "arrays and other generation_meta, one connection bit flipped, start moved, end moved, one solution cell changed, solution "
        "lengthened, solution shortened, kind changed up/down, shape transposed with the same flat bits, other grid size, dtype "
        "variants (connection_list int8/int64/uint8, solution/endpoints int8/int16/int32), non-maze right-hand side}; each pair goes "
        "through ==, != (both orders), hash, set, dict.fromkeys, `in`, list ==. Endpoints: every start (with a valid end) and every "
        "end (with a valid start) in [-3, rows+3] x [-3, cols+3] on 8 shapes (quick) through TargetedLatticeMaze(...), "
        ".from_lattice_maze and SolvedMaze(solution=...), plus random both-free pairs. Datasets: equal copies, one maze changed, "
        "length changed, config field changed, n_mazes changed. non-trivial = the two sides are distinct objects; "
        "distinct = distinct canonical (variant, maze a, maze b) / (ctor, shape, start, end); later additions: endpoint / solution arrays that the caller overwrites after construction, far coordinates, hash history across interpreters")
ASSUMPTIONS = ["CPython set/dict lookup = same hash then == (modelled by MZ.MV.setAdd; validated on every dedupe case)",
               "arrays hold integer / boolean values (no NaN, no object arrays); coordinates are 2-element integer sequences",
               "configuration equality (cfg == cfg) is taken as given by the dataclass-generated comparison of MazeDatasetConfig"]
TRUSTED = ["builtin hash of bytes / tuples of bytes is a function of their content (parameter H of the model)",
           "tap: `hash` is shadowed as a module global of maze_dataset.maze.lattice_maze while observing, to record the hashed object"]

KINDS = ("lattice", "targeted", "solved")


# ---------------------------------------------------------------- helpers
def _exc(e: BaseException) -> str:
    for t in (ValueError, AssertionError, IndexError, KeyError, TypeError):
        if isinstance(e, t):
            return t.__name__
    return "other:" + type(e).__name__


def _arr_json(a) -> dict:
    a = np.asarray(a)
    return dict(dtype=str(a.dtype), shape=list(a.shape), data=[int(x) for x in a.reshape(-1).tolist()])


def _arr_from(j) -> np.ndarray:
    return np.array(j["data"], dtype=j["dtype"]).reshape(j["shape"])


def maze_json(m, meta: str | None = None) -> dict:
    from maze_dataset import SolvedMaze, TargetedLatticeMaze
    kind = "solved" if type(m) is SolvedMaze else "targeted" if type(m) is TargetedLatticeMaze else "lattice"
    j = dict(kind=kind, conn=_arr_json(m.connection_list), meta=meta if meta is not None else json.dumps(m.generation_meta, sort_keys=True, default=str))
    if kind != "lattice":
        j["start"] = _arr_json(m.start_pos); j["end"] = _arr_json(m.end_pos)
    if kind == "solved":
        j["sol"] = _arr_json(m.solution)
    return j


def maze_from_json(j):
    """rebuild a real maze object from its JSON form (used by replay); goes through the real constructors"""
    from maze_dataset import LatticeMaze, SolvedMaze, TargetedLatticeMaze
    gm = None
    try:
        gm = json.loads(j.get("meta", "null"))
    except Exception:
        gm = dict(tag=j.get("meta"))
    if not isinstance(gm, (dict, type(None))):
        gm = dict(tag=gm)
    cl = _arr_from(j["conn"])
    if j["kind"] == "lattice":
        return LatticeMaze(connection_list=cl, generation_meta=gm)
    if j["kind"] == "targeted":
        return TargetedLatticeMaze(connection_list=cl, start_pos=_arr_from(j["start"]), end_pos=_arr_from(j["end"]), generation_meta=gm)
    return SolvedMaze(connection_list=cl, solution=_arr_from(j["sol"]), generation_meta=gm)


def same_value(a, b) -> bool:
    """ORACLE from the property statement: same kind and identical connection structure, start, end, solution
    (generation metadata ignored). Plain nested-list comparison of values."""
    if type(a) is not type(b):
        return False
    names = ["connection_list"]
    if hasattr(a, "start_pos"): names += ["start_pos", "end_pos"]
    if hasattr(a, "solution"): names += ["solution"]
    for n in names:
        x, y = np.asarray(getattr(a, n)), np.asarray(getattr(b, n))
        if tuple(x.shape) != tuple(y.shape):
            return False
        if [int(v) for v in x.reshape(-1).tolist()] != [int(v) for v in y.reshape(-1).tolist()]:
            return False
    return True


class HashTap:
    """records the object handed to `hash` inside the maze classes' __hash__ (module-global shadow, removed on exit)"""
    def __enter__(self):
        import maze_dataset.maze.lattice_maze as lm
        self.lm, self.rec = lm, []
        def tapped(x):
            self.rec.append(x)
            return hash(x)
        lm.hash = tapped
        return self

    def __exit__(self, *a):
        try:
            del self.lm.hash
        except AttributeError:
            pass

    def key_of(self, m):
        """(hash value, canonical form of the hashed object) or (None, error name)"""
        self.rec.clear()
        try:
            h = hash(m)
        except Exception as e:
            return None, _exc(e)
        if len(self.rec) != 1:
            return h, "untapped:%d" % len(self.rec)
        x = self.rec[0]
        if isinstance(x, (bytes, bytearray)):
            return h, [list(x)]
        if isinstance(x, tuple) and all(isinstance(y, (bytes, bytearray)) for y in x):
            return h, [list(y) for y in x]
        return h, "unmodelled:" + type(x).__name__


def _try(f):
    try:
        return f()
    except Exception as e:
        return "raise:" + _exc(e)


# ---------------------------------------------------------------- generators
def _rand_cl(rng, rows, cols, dtype=bool):
    bits = [[[rng.random() < 0.5 for _ in range(cols)] for _ in range(rows)] for _ in range(2)]
    return np.array(bits, dtype=dtype)


def _rand_cell(rng, rows, cols):
    return (rng.randrange(rows), rng.randrange(cols))


def _base(rng, kind, rows, cols, tag):
    cl = _rand_cl(rng, rows, cols)
    gm = dict(tag=tag)
    if kind == "lattice":
        return _mk(kind, cl, gm=gm)
    if kind == "targeted":
        return _mk(kind, cl, _rand_cell(rng, rows, cols), _rand_cell(rng, rows, cols), gm=gm)
    return _mk(kind, cl, sol=[_rand_cell(rng, rows, cols) for _ in range(rng.randint(1, 6))], gm=gm)


class CtorRejected(Exception):
    """a real constructor raised on data the generators built to be valid (all endpoints / solution cells inside the grid)"""
    def __init__(self, kind, cl, start, end, sol, exc):
        super().__init__(f"{kind} constructor raised {_exc(exc)}: {str(exc)[:120]}")
        tl = lambda x: None if x is None else np.asarray(x).tolist()
        self.case = dict(family="ctor-valid", kind=kind, shape=list(np.asarray(cl).shape[1:]), start=tl(start), end=tl(end), sol=tl(sol), err=_exc(exc))


def _mk(kind, cl, start=None, end=None, sol=None, gm=None):
    from maze_dataset import LatticeMaze, SolvedMaze, TargetedLatticeMaze
    try:
        if kind == "lattice":
            return LatticeMaze(connection_list=cl, generation_meta=gm)
        if kind == "targeted":
            return TargetedLatticeMaze(connection_list=cl, start_pos=start, end_pos=end, generation_meta=gm)
        return SolvedMaze(connection_list=cl, solution=sol, generation_meta=gm)
    except Exception as e:
        raise CtorRejected(kind, cl, start, end, sol, e) from e


def _rejected(ctx, e: CtorRejected):
    c = e.case
    ctx.violate(f"{c['kind']} maze with in-grid data was rejected ({c['err']}): grid {c['shape']}, start={c['start']} end={c['end']} solution={c['sol']}",
                c, key="endpoint-rejected")


def _parts(m):
    kind = maze_json(m, "")["kind"]
    return (kind, m.connection_list.copy(),
            np.array(m.start_pos).copy() if kind != "lattice" else None,
            np.array(m.end_pos).copy() if kind != "lattice" else None,
            np.array(m.solution).copy() if kind == "solved" else None)


def _clone(m):
    """an equal maze built from fresh arrays through the real constructor (copy.deepcopy of a maze raises TypeError in
    muutils' __deepcopy__: json.dumps of an ndarray)"""
    kind, cl, st, en, sol = _parts(m)
    return _mk(kind, cl, st, en, sol, dict(clone=True))


def _other_cell(rng, cell, rows, cols):
    """an in-grid cell different from `cell`, or None on a 1x1 grid"""
    if rows * cols == 1:
        return None
    while True:
        c = _rand_cell(rng, rows, cols)
        if tuple(c) != tuple(int(v) for v in cell):
            return c


def variants(rng, a):
    """yield (variant name, right-hand side, expected_same or None (=ask the oracle))"""
    kind, cl, st, en, sol = _parts(a)
    rows, cols = cl.shape[1:]
    yield "identical", a
    yield "copy", _mk(kind, cl.copy(), st, en, sol, dict(tag="copy", other=[1, 2]))
    yield "copy2", _clone(a)
    # one connection bit flipped
    cl2 = cl.copy(); d, r, c = rng.randrange(2), rng.randrange(rows), rng.randrange(cols); cl2[d, r, c] = not cl2[d, r, c]
    yield "bit", _mk(kind, cl2, st, en, sol)
    if kind == "targeted":
        o = _other_cell(rng, st, rows, cols)
        if o is not None:
            yield "start", _mk(kind, cl, o, en)
        o = _other_cell(rng, en, rows, cols)
        if o is not None:
            yield "end", _mk(kind, cl, st, o)
        yield "swap-ends", _mk(kind, cl, en, st)
    if kind == "solved":
        i = rng.randrange(len(sol))
        o = _other_cell(rng, sol[i], rows, cols)
        if o is not None:
            s2 = sol.copy(); s2[i] = o
            yield "solcell", _mk(kind, cl, sol=s2)
        yield "sol-longer", _mk(kind, cl, sol=np.concatenate([sol, sol[-1:]]))
        yield "sol-longer-front", _mk(kind, cl, sol=np.concatenate([sol[:1], sol]))
        if len(sol) > 1:
            yield "sol-shorter", _mk(kind, cl, sol=sol[:-1])
            yield "sol-reversed", _mk(kind, cl, sol=sol[::-1].copy())
    # kind changed, same underlying data
    if kind == "lattice":
        c0 = _rand_cell(rng, rows, cols)
        yield "kind-up", _mk("targeted", cl, c0, c0)
        yield "kind-up2", _mk("solved", cl, sol=[c0])
    elif kind == "targeted":
        yield "kind-down", _mk("lattice", cl)
        yield "kind-up", _mk("solved", cl, sol=[tuple(st), tuple(en)])
    else:
        yield "kind-down", _mk("targeted", cl, sol[0], sol[-1])
        yield "kind-down2", _mk("lattice", cl)
    # shape changed: same flat bits, transposed grid shape; and a different grid size
    if rows != cols:
        clt = cl.reshape(2, cols, rows)
        ok = lambda p: p is None or (0 <= p[0] < cols and 0 <= p[1] < rows)
        if kind == "lattice" or (kind == "targeted" and ok(st) and ok(en)) or (kind == "solved" and ok(sol[0]) and ok(sol[-1])):
            yield "shape-transposed", _mk(kind, clt, st, en, sol)
    big = np.zeros((2, rows + 1, cols + 1), dtype=bool); big[:, :rows, :cols] = cl
    yield "shape-bigger", _mk(kind, big, st, en, sol)
    # dtype variants: equal values, other storage
    for dt in ("int8", "int64", "uint8"):
        yield "dtype-conn-" + dt, _mk(kind, cl.astype(dt), st, en, sol)
    if kind == "targeted":
        for dt in ("int8", "int32"):
            yield "dtype-ends-" + dt, _mk(kind, cl, st.astype(dt), en.astype(dt))
    if kind == "solved":
        for dt in ("int8", "int16", "int32"):
            yield "dtype-sol-" + dt, _mk(kind, cl.astype("int64") if dt == "int16" else cl, sol=sol.astype(dt))


FOREIGN = [3, None, "maze", (0, 0), 1.5, [1], {"a": 1}]


# ---------------------------------------------------------------- pair observation + oracle
def observe_pair(tap, a, b):
    ha, ka = tap.key_of(a)
    hb, kb = tap.key_of(b)
    obs = dict(eq=_try(lambda: a == b), ne=_try(lambda: a != b), eq_rev=_try(lambda: b == a), ne_rev=_try(lambda: b != a),
               hash_a_ok=ha is not None, hash_b_ok=hb is not None, hash_equal=(ha == hb) if (ha is not None and hb is not None) else None,
               key_a=ka, key_b=kb,
               set_len=_try(lambda: len({a, b})), dict_len=_try(lambda: len(dict.fromkeys([a, b]))),
               contains=_try(lambda: a in [b]), list_eq=_try(lambda: [a, a] == [b, b]), index=_try(lambda: [b].index(a) if a in [b] else -1))
    return obs


def judge_pair(ctx, variant, a, b, obs, case):
    """ORACLE: the property statement applied to the real code's observations"""
    same = same_value(a, b)
    dtype_family = variant.startswith("dtype-")
    for k in ("eq", "ne", "eq_rev", "ne_rev", "set_len", "dict_len", "contains", "list_eq", "index"):
        if isinstance(obs[k], str) and obs[k].startswith("raise:"):
            what = {"eq": "a == b", "ne": "a != b", "eq_rev": "b == a", "ne_rev": "b != a", "set_len": "{a, b}", "dict_len": "dict.fromkeys([a, b])",
                    "contains": "a in [b]", "list_eq": "[a, a] == [b, b]", "index": "[b].index(a)"}[k]
            key = "hash-raises" if (k in ("set_len", "dict_len") and not (obs["hash_a_ok"] and obs["hash_b_ok"])) else "eq-raises"
            ctx.violate(f"`{what}` raises {obs[k][6:]} for the pair variant={variant} (kinds {case['a']['kind']}/{case['b']['kind']}, "
                        f"grid {case['a']['conn']['shape'][1:]})", case, key=key)
            return
    if not (obs["hash_a_ok"] and obs["hash_b_ok"]):
        bad = "a" if not obs["hash_a_ok"] else "b"
        ctx.violate(f"hash({bad}) raises {obs['key_' + bad]} for a {case[bad]['kind']} maze (variant={variant})", case, key="hash-raises")
        return
    for k in ("eq", "eq_rev", "contains", "list_eq"):
        if obs[k] is not same and obs[k] != same:
            ctx.violate(f"`{k}` is {obs[k]!r} but the mazes are {'the same value' if same else 'different values'} "
                        f"(variant={variant}, kinds {case['a']['kind']}/{case['b']['kind']})", case, key="eq-wrong")
            return
    for k in ("eq", "ne", "eq_rev", "ne_rev"):
        if type(obs[k]) is not bool:
            ctx.violate(f"`{k}` returned {type(obs[k]).__name__}, not bool (variant={variant})", case, key="eq-wrong")
            return
    for k in ("ne", "ne_rev"):
        if obs[k] != (not same):
            ctx.violate(f"`{k}` is {obs[k]!r} but the mazes are {'the same value' if same else 'different values'} (variant={variant})",
                        case, key="eq-wrong")
            return
    if same and not obs["hash_equal"]:
        ctx.violate(f"equal mazes with different hashes: variant={variant}, kind {case['a']['kind']}, a == b is True but hash(a) != hash(b)"
                    + (f" (storage dtypes differ: conn {case['a']['conn']['dtype']}/{case['b']['conn']['dtype']}"
                       + (f", solution {case['a']['sol']['dtype']}/{case['b']['sol']['dtype']}" if "sol" in case["a"] else "") + ")" if dtype_family else ""),
                    case, key="eq-hash-dtype" if dtype_family else "eq-hash")
        return
    want = 1 if same else 2
    if obs["set_len"] != want or obs["dict_len"] != want:
        ctx.violate(f"set/dict de-duplication wrong: len({{a,b}})={obs['set_len']}, len(dict.fromkeys([a,b]))={obs['dict_len']}, expected {want} "
                    f"(variant={variant})", case, key="eq-hash-dtype" if dtype_family else "eq-hash")


def _pair_request(case):
    return dict(op="C09.eq", a=case["a"], b=case["b"])


def _compare_pair_model(ctx, case, obs, o):
    if "error" in o:
        ctx.disagree(f"driver error {o['error']}", case); return
    ctx.traces_validated += 1
    impl = dict(eq=obs["eq"], ne=obs["ne"], eq_rev=obs["eq_rev"], key_a=obs["key_a"], key_b=obs["key_b"])
    model = dict(eq=o["eq"], ne=o["ne"], eq_rev=o["eq_rev"], key_a=o["key_a"], key_b=o["key_b"])
    if impl != model:
        diff = {k: (impl[k], model[k]) for k in impl if impl[k] != model[k]}
        short = {k: (str(v[0])[:80], str(v[1])[:80]) for k, v in diff.items()}
        ctx.disagree(f"model and real maze classes differ on variant={case['variant']} kinds {case['a']['kind']}/{case['b']['kind']}: (impl, model) = {short}", case)
    elif obs["hash_equal"] is not None and o["key_equal"] != obs["hash_equal"]:
        ctx.disagree(f"hashed-bytes equality {o['key_equal']} vs hash equality {obs['hash_equal']} on variant={case['variant']}", case)


def run_pairs(ctx, n_bases, collect=True):
    cases = []
    with HashTap() as tap:
        for i in range(n_bases):
            kind = KINDS[i % 3]
            rows, cols = ctx.rng.randint(1, 5), ctx.rng.randint(1, 5)
            try:
                a = _base(ctx.rng, kind, rows, cols, f"b{i}")
                vs = list(variants(ctx.rng, a))
            except CtorRejected as e:
                _rejected(ctx, e)
                if not collect: return cases
                continue
            for variant, b in vs:
                case = dict(family="pair", variant=variant, a=maze_json(a), b=maze_json(b), same_object=a is b)
                obs = observe_pair(tap, a, b)
                ctx.case((variant, case["a"], case["b"]), nontrivial=a is not b)
                ctx.count("variant=" + variant.split("-")[0]); ctx.count("kind=" + kind); ctx.count(f"grid={rows}x{cols}")
                judge_pair(ctx, variant, a, b, obs, case)
                cases.append((case, obs))
                if variant in ("bit", "dtype-sol-int8") and kind == "solved":
                    ctx.sample(dict(variant=variant, a=case["a"], b=case["b"], eq=obs["eq"], hash_equal=obs["hash_equal"]), limit=3)
                if not collect and ctx.violations:
                    return cases
            # non-maze right-hand sides: never raise, never equal
            for x in FOREIGN:
                r = dict(eq=_try(lambda: a == x), ne=_try(lambda: a != x), eq_rev=_try(lambda: x == a), inl=_try(lambda: a in [x]))
                ctx.case(("foreign", maze_json(a), repr(x)), nontrivial=True); ctx.count("variant=foreign")
                if r != dict(eq=False, ne=True, eq_rev=False, inl=False):
                    ctx.violate(f"comparison of a {kind} maze with the non-maze {x!r} gives {r} (expected False/True/False/False, no exception)",
                                dict(family="foreign", a=maze_json(a), x=repr(x)), key="eq-raises" if any(isinstance(v, str) for v in r.values()) else "eq-wrong")
    return cases


def run_reloaded(ctx, n_mazes=4):
    """the library's own route to other storage dtypes: save a generated dataset (minimal and full format) and read it back;
    every maze must equal its reloaded copy and hash the same"""
    import maze_dataset.dataset.maze_dataset as md
    from maze_dataset import MazeDataset, MazeDatasetConfig
    cases = []
    old = md.SERIALIZE_MINIMAL_THRESHOLD
    try:
        for thr, name in ((1, "dtype-reloaded-minimal"), (None, "reloaded-full")):
            g = ctx.rng.randint(2, 4)
            ds = MazeDataset.from_config(MazeDatasetConfig(name="rt", grid_n=g, n_mazes=n_mazes, seed=ctx.rng.randrange(1000)),
                                         load_local=False, save_local=False, do_download=False, gen_parallel=False, verbose=False)
            md.set_serialize_minimal_threshold(thr)
            p = ctx.workdir / f"c09_{name}.zanj"
            ds.save(p)
            back = MazeDataset.read(p)
            p.unlink()
            with HashTap() as tap:
                for a, b in zip(ds.mazes, back.mazes):
                    case = dict(family="pair", variant=name, a=maze_json(a), b=maze_json(b), same_object=False)
                    obs = observe_pair(tap, a, b)
                    ctx.case((name, case["a"], case["b"]), nontrivial=True); ctx.count("variant=" + name)
                    judge_pair(ctx, name, a, b, obs, case)
                    cases.append((case, obs))
            r = _try(lambda: ds == back)
            ctx.case((name, "dataset", [maze_json(m) for m in ds.mazes]))
            if r is not True:
                ctx.violate(f"a dataset saved ({name}) and read back does not compare equal to the original: {r}",
                            dict(family="reloaded", variant=name, grid_n=g, n_mazes=n_mazes), key="dataset-eq")
    finally:
        md.set_serialize_minimal_threshold(old)
    return cases


# ---------------------------------------------------------------- de-duplication
def run_dedupe(ctx, n):
    out = []
    for i in range(n):
        kind = KINDS[i % 3]
        rows, cols = ctx.rng.randint(1, 4), ctx.rng.randint(1, 4)
        try:
            a = _base(ctx.rng, kind, rows, cols, "d")
            pool = [a] + [b for _, b in variants(ctx.rng, a)]
        except CtorRejected as e:
            _rejected(ctx, e); continue
        ms = [ctx.rng.choice(pool) for _ in range(ctx.rng.randint(2, 9))]
        ms += [_clone(ctx.rng.choice(ms))]
        case = dict(family="dedupe", mazes=[maze_json(m, str(k)) for k, m in enumerate(ms)])
        ctx.case(case["mazes"], nontrivial=True); ctx.count("family=dedupe")
        # oracle: first occurrence of each value class
        want = []
        for k, m in enumerate(ms):
            if not any(same_value(ms[w], m) for w in want):
                want.append(k)
        pos = {}
        for k, m in enumerate(ms):
            pos.setdefault(id(m), k)
        got_d = _try(lambda: [pos[id(m)] for m in dict.fromkeys(ms)])
        got_s = _try(lambda: len(set(ms)))
        if got_d != want or got_s != len(want):
            ctx.violate(f"de-duplication through dict/set keeps {got_d} (set size {got_s}) but the distinct values are first seen at {want} "
                        f"({len(ms)} {kind}-derived mazes on {rows}x{cols})", case,
                        key="hash-raises" if isinstance(got_d, str) and "TypeError" in got_d else "eq-hash")
        out.append((case, got_d))
    return out


# ---------------------------------------------------------------- endpoints
def in_grid(rows, cols, p):
    return 0 <= p[0] < rows and 0 <= p[1] < cols


def observe_ctor(ctor, cl, start, end):
    from maze_dataset import LatticeMaze, SolvedMaze, TargetedLatticeMaze
    try:
        if ctor == "targeted":
            m = TargetedLatticeMaze(connection_list=cl, start_pos=tuple(start), end_pos=tuple(end))
        elif ctor == "targeted-np":
            # the caller's own arrays, which the caller goes on using (overwrites in place) once the maze is built: a maze is a value, it
            # keeps the endpoints it was built with
            sa, ea = np.array(start), np.array(end)
            m = TargetedLatticeMaze(connection_list=cl, start_pos=sa, end_pos=ea)
            sa += 100; ea[:] = -1
        elif ctor == "from_lattice_maze":
            buf = np.array([list(start), list(end)])
            m = TargetedLatticeMaze.from_lattice_maze(LatticeMaze(connection_list=cl), buf[0], buf[1]) if (start[0] + end[1]) % 2 else \
                TargetedLatticeMaze.from_lattice_maze(LatticeMaze(connection_list=cl), list(start), list(end))
            buf += 77
        elif ctor == "solved":
            if (start[0] + end[0]) % 2:
                sol = np.array([list(start), list(end)])
                m = SolvedMaze(connection_list=cl, solution=sol)
                sol -= 50
            else:
                m = SolvedMaze(connection_list=cl, solution=[tuple(start), tuple(end)])
        elif ctor == "solved-mid":
            m = SolvedMaze(connection_list=cl, solution=[tuple(start), (0, 0), tuple(end)])
        elif ctor == "solved-from":
            m = SolvedMaze.from_lattice_maze(LatticeMaze(connection_list=cl), [tuple(start), tuple(end)])
        elif ctor == "solved-single":
            m = SolvedMaze(connection_list=cl, solution=[tuple(start)])
        else:
            raise RuntimeError(ctor)
    except Exception as e:
        return dict(ok=False, err=_exc(e))
    return dict(ok=True, start=[int(v) for v in m.start_pos], end=[int(v) for v in m.end_pos])


def judge_ctor(ctx, ctor, rows, cols, start, end, obs, case):
    """ORACLE: accepted exactly when both ends are inside the grid; rejection is ValueError; the held ends are the given ones"""
    if ctor == "solved-single":
        end = start
    good = in_grid(rows, cols, start) and in_grid(rows, cols, end)
    if obs["ok"] and not good:
        bad = ("start_pos", start) if not in_grid(rows, cols, start) else ("end_pos", end)
        ctx.violate(f"{ctor}: {bad[0]}={tuple(bad[1])} outside the {rows}x{cols} grid was accepted (maze holds start={obs['start']} end={obs['end']})",
                    case, key="endpoint-accepted")
    elif not obs["ok"] and good:
        ctx.violate(f"{ctor}: in-grid start={tuple(start)} end={tuple(end)} on a {rows}x{cols} grid was rejected with {obs['err']}", case, key="endpoint-rejected")
    elif not obs["ok"] and obs["err"] != "ValueError":
        ctx.violate(f"{ctor}: out-of-grid start={tuple(start)} end={tuple(end)} on a {rows}x{cols} grid raises {obs['err']} instead of ValueError", case,
                    key="endpoint-wrong-error")
    elif obs["ok"] and (obs["start"] != list(start) or obs["end"] != list(end)):
        ctx.violate(f"{ctor}: constructed maze holds start={obs['start']} end={obs['end']} but start={tuple(start)} end={tuple(end)} were given", case,
                    key="endpoint-wrong")


def _ctor_request(ctor, cl, start, end):
    conn = _arr_json(cl)
    if ctor in ("targeted", "targeted-np", "from_lattice_maze"):
        return dict(op="C09.targeted", conn=conn, start=list(start), end=list(end))
    sol = {"solved": [start, end], "solved-from": [start, end], "solved-mid": [start, (0, 0), end], "solved-single": [start]}[ctor]
    return dict(op="C09.solved", conn=conn, sol=_arr_json(np.array(sol, dtype=np.int64)), start_arg=None, end_arg=None, allow_invalid=False)


CTORS = ("targeted", "targeted-np", "from_lattice_maze", "solved", "solved-mid", "solved-from", "solved-single")


def endpoint_cases(ctx, shapes, n_random):
    for rows, cols in shapes:
        valid = (rows - 1, cols - 1)
        for r in range(-3, rows + 4):
            for c in range(-3, cols + 4):
                yield rows, cols, (r, c), valid
                yield rows, cols, valid, (r, c)
                yield rows, cols, (0, 0), (r, c)
    for _ in range(n_random):
        rows, cols = ctx.rng.randint(1, 6), ctx.rng.randint(1, 6)
        p = lambda: (ctx.rng.randint(-3, rows + 3), ctx.rng.randint(-3, cols + 3))
        yield rows, cols, p(), p()
    for rows, cols, s, e in [(3, 3, (0, -128), (0, 0)), (3, 3, (-2**31, 0), (0, 0)), (3, 3, (0, 0), (2**31, 0)), (2, 5, (0, 0), (4, 1)), (5, 2, (1, 4), (0, 0))]:
        yield rows, cols, s, e
    # far outside: values that wrap to an in-grid coordinate in 8, 16 or 32 bits
    for far in (127, 128, 255, 256, 257, -255, -256, 65536, 65537, -65535, 2**32, 2**32 + 1, -2**32 + 1, 2**40):
        yield 3, 3, (far, 0), (1, 1)
        yield 3, 3, (1, 1), (0, far)
        yield 2, 4, (1, far), (far, 0)


def run_endpoints(ctx, shapes, n_random, stop_on_violation=False):
    out, k = [], 0
    for rows, cols, start, end in endpoint_cases(ctx, shapes, n_random):
        cl = np.zeros((2, rows, cols), dtype=bool)
        # every constructor on the diagonal / boundary band, a rotating one elsewhere (keeps the quick tier short)
        band = any(v in (-1, 0) for v in (start[0], start[1], end[0], end[1])) or start[0] in (rows - 1, rows) or start[1] in (cols - 1, cols) \
            or end[0] in (rows - 1, rows) or end[1] in (cols - 1, cols)
        ctors = CTORS if band else (CTORS[k % len(CTORS)],)
        k += 1
        for ctor in ctors:
            case = dict(family="endpoint", ctor=ctor, shape=[rows, cols], start=list(start), end=list(end))
            obs = observe_ctor(ctor, cl, start, end)
            good = in_grid(rows, cols, start) and in_grid(rows, cols, end)
            ctx.case((ctor, rows, cols, start, end), nontrivial=True)
            ctx.count("family=endpoint"); ctx.count("endpoint=" + ("inside" if good else "negative" if min(*start, *end) < 0 else "too-large"))
            judge_ctor(ctx, ctor, rows, cols, start, end, obs, case)
            out.append((case, obs, _ctor_request(ctor, cl, start, end)))
            if stop_on_violation and ctx.violations:
                return out
    return out


def run_hash_history(ctx, n):
    """hash consistency along a HISTORY: (a) a maze that was hashed in another interpreter (other PYTHONHASHSEED), pickled and loaded here
    must hash like an equal maze built here (sets and dicts mix both); (b) a maze whose lattice is replaced after it was hashed — the way
    gen_dfs_percolation does it — must hash like an equal fresh maze"""
    import pickle, subprocess, sys, common as C
    from maze_dataset import LatticeMaze, TargetedLatticeMaze, SolvedMaze
    specs = []
    for _ in range(n):
        g = ctx.rng.randint(2, 4)
        cl = np.array([[[ctx.rng.random() < 0.5 for _ in range(g)] for _ in range(g)] for _ in range(2)]); cl[0, -1, :] = False; cl[1, :, -1] = False
        specs.append((g, cl))
    code = ("import sys, pickle, numpy as np\nsys.path.insert(0, sys.argv[1])\nimport warnings; warnings.filterwarnings('ignore')\n"
            "from maze_dataset import LatticeMaze, TargetedLatticeMaze, SolvedMaze\n"
            "cls = pickle.loads(bytes.fromhex(sys.argv[2]))\nout = []\n"
            "for cl in cls:\n"
            "    ms = [LatticeMaze(connection_list=cl), TargetedLatticeMaze(connection_list=cl, start_pos=np.array([0,0]), end_pos=np.array([1,1])), SolvedMaze(connection_list=cl, solution=np.array([[0,0],[0,1]]), allow_invalid=True)]\n"
            "    for m in ms: hash(m); {m}\n"
            "    out.append(ms)\n"
            "sys.stdout.buffer.write(pickle.dumps(out))\n")
    try:
        p = subprocess.run([sys.executable, "-c", code, str(C.REPO), pickle.dumps([cl for _, cl in specs]).hex()], capture_output=True, timeout=600,
                           env=dict(__import__("os").environ, PYTHONHASHSEED=str(4242 + ctx.seed)))
        theirs = pickle.loads(p.stdout)
    except Exception as e:
        ctx.notes.append(f"hash-history probe: child interpreter failed ({type(e).__name__})"); theirs = []
    for (g, cl), ms in zip(specs, theirs):
        mine = [LatticeMaze(connection_list=cl), TargetedLatticeMaze(connection_list=cl, start_pos=np.array([0, 0]), end_pos=np.array([1, 1])),
                SolvedMaze(connection_list=cl, solution=np.array([[0, 0], [0, 1]]), allow_invalid=True)]
        for a, b in zip(ms, mine):
            ctx.case(("hash-across-interpreters", type(a).__name__, maze_json(b)), nontrivial=True); ctx.count("family=hash-history")
            eq = _try(lambda: a == b)
            if eq is True and (hash(a) != hash(b) or len({a, b}) != 1):
                ctx.violate(f"a {type(a).__name__} hashed and pickled in another interpreter (other PYTHONHASHSEED) and loaded here equals a maze built here but hashes "
                            f"differently (set keeps {len({a, b})})", dict(family="hash-history", variant="pickled-across-interpreters", a=maze_json(b)), key="eq-hash-history")
                return
    for g, cl in specs:
        m = LatticeMaze(connection_list=cl.copy()); hash(m)
        new = cl.copy(); idx = (0, 0, 0) if g > 1 else (1, 0, 0)
        new[idx] = not new[idx]
        m.__dict__["connection_list"] = new          # what gen_dfs_percolation does to the maze gen_dfs returned
        fresh = LatticeMaze(connection_list=new.copy())
        ctx.case(("hash-after-lattice-replaced", maze_json(fresh)), nontrivial=True); ctx.count("family=hash-history")
        if _try(lambda: m == fresh) is True and hash(m) != hash(fresh):
            ctx.violate("a maze whose connection_list was replaced after it had been hashed (as gen_dfs_percolation does) equals a fresh maze with the new lattice "
                        "but keeps the old hash", dict(family="hash-history", variant="lattice-replaced-after-hash", a=maze_json(fresh)), key="eq-hash-history")
            return


def run_ctor_edge(ctx):
    """constructor branches that are not part of the property's oracle: only model vs. code"""
    from maze_dataset import SolvedMaze
    cl = np.zeros((2, 2, 3), dtype=bool)
    out = []
    specs = [dict(sol=np.zeros((0,)), start_arg=None, end_arg=None, allow_invalid=False),
             dict(sol=np.array([1, 2]), start_arg=None, end_arg=None, allow_invalid=False),
             dict(sol=np.zeros((0,)), start_arg=None, end_arg=None, allow_invalid=True),
             dict(sol=np.array([[0, 0], [1, 2]]), start_arg=[0, 1], end_arg=None, allow_invalid=False),
             dict(sol=np.array([[0, 0], [1, 2]]), start_arg=[0, 0], end_arg=[1, 1], allow_invalid=False),
             dict(sol=np.array([[0, 0], [1, 2]]), start_arg=[0, 0], end_arg=[1, 2], allow_invalid=False),
             dict(sol=np.array([[0, 0], [1, 2]]), start_arg=[0, 1], end_arg=[1, 1], allow_invalid=True),
             dict(sol=np.array([[0, 0, 0], [1, 2, 0]]), start_arg=None, end_arg=None, allow_invalid=False),
             dict(sol=np.array([[0, 0], [5, 5], [1, 2]]), start_arg=None, end_arg=None, allow_invalid=False)]
    for s in specs:
        try:
            m = SolvedMaze(connection_list=cl, solution=s["sol"], start_pos=s["start_arg"], end_pos=s["end_arg"], allow_invalid=s["allow_invalid"])
            obs = dict(ok=True, start=[int(v) for v in m.start_pos], end=[int(v) for v in m.end_pos])
        except Exception as e:
            obs = dict(ok=False, err=_exc(e))
        sj = dict(dtype=str(s["sol"].dtype), shape=list(s["sol"].shape), data=[int(v) for v in s["sol"].reshape(-1).tolist()])
        case = dict(family="ctor-edge", sol=sj, start_arg=s["start_arg"], end_arg=s["end_arg"], allow_invalid=s["allow_invalid"])
        ctx.case(case, nontrivial=True); ctx.count("family=ctor-edge")
        out.append((case, obs, dict(op="C09.solved", conn=_arr_json(cl), sol=sj, start_arg=s["start_arg"], end_arg=s["end_arg"], allow_invalid=s["allow_invalid"])))
    return out


# ---------------------------------------------------------------- datasets
CFG_FIELDS = ("name", "seq_len_min", "seq_len_max", "seed", "applied_filters", "grid_n", "maze_ctor", "maze_ctor_kwargs", "endpoint_kwargs")


def cfg_same(c1, c2) -> bool:
    """ORACLE for "configurations are equal": every declared field except n_mazes (declared compare=False in the source)"""
    return all(getattr(c1, f) == getattr(c2, f) for f in CFG_FIELDS)


def _cfg(**kw):
    from maze_dataset import MazeDatasetConfig
    base = dict(name="ds", grid_n=3, n_mazes=4, seed=42)
    base.update(kw)
    if "maze_ctor" in base and isinstance(base["maze_ctor"], str):
        from maze_dataset.generation import GENERATORS_MAP
        base["maze_ctor"] = GENERATORS_MAP[base["maze_ctor"]]
    return MazeDatasetConfig(**base)


def dataset_cases(ctx, n):
    """yield (variant, cfg_kwargs_a, cfg_kwargs_b, mazes_a, mazes_b)"""
    for i in range(n):
        g = ctx.rng.randint(2, 4)
        ms = [_base(ctx.rng, "solved", g, g, f"m{k}") for k in range(ctx.rng.randint(0, 5))]
        cp = lambda l: [_clone(m) for m in l]
        ka = dict(grid_n=g, n_mazes=len(ms))
        yield "same-lists", ka, ka, ms, ms
        yield "equal-copies", ka, dict(ka), ms, cp(ms)
        if ms:
            j = ctx.rng.randrange(len(ms))
            alts = [b for v, b in variants(ctx.rng, ms[j]) if v in ("bit", "solcell", "sol-longer", "sol-shorter", "kind-down")]
            m2 = cp(ms); m2[j] = ctx.rng.choice(alts)
            yield "one-maze-changed", ka, ka, ms, m2
            yield "shorter", ka, ka, ms, cp(ms[:-1])
            yield "longer", ka, ka, ms, cp(ms) + cp(ms[:1])
            if len(ms) > 1 and not same_value(ms[0], ms[-1]):
                yield "reordered", ka, ka, ms, cp(ms[::-1])
            yield "dtype-int8", ka, ka, ms, [_mk("solved", m.connection_list, sol=np.array(m.solution).astype("int8")) for m in ms]
        for fld, val in [("name", "other"), ("seed", 7), ("grid_n", g + 1), ("maze_ctor", "gen_wilson"), ("maze_ctor_kwargs", dict(do_forks=False)),
                         ("endpoint_kwargs", dict(deadend_start=True)), ("applied_filters", [dict(name="path_length", args=(1,), kwargs={})]),
                         ("seq_len_max", 100)]:
            yield "cfg-" + fld, ka, dict(ka, **{fld: val}), ms, cp(ms)
        yield "cfg-n_mazes", ka, dict(ka, n_mazes=len(ms) + 5), ms, cp(ms)


def run_datasets(ctx, n, stop_on_violation=False):
    from maze_dataset import MazeDataset
    out = []
    it = dataset_cases(ctx, n)
    while True:
        try:
            variant, ka, kb, ma, mb = next(it)
        except StopIteration:
            break
        except CtorRejected as e:
            _rejected(ctx, e); it = dataset_cases(ctx, max(1, n // 4)); n = 0
            if stop_on_violation: return out
            break
        da, db = MazeDataset(_cfg(**ka), ma), MazeDataset(_cfg(**kb), mb)
        if variant == "same-lists":
            db = MazeDataset(da.cfg, da.mazes)
        case = dict(family="dataset", variant=variant, cfg_a={k: str(v) for k, v in ka.items()}, cfg_b={k: str(v) for k, v in kb.items()},
                    a=[maze_json(m) for m in ma], b=[maze_json(m) for m in mb], cfg_kwargs=[_plain(ka), _plain(kb)])
        obs = dict(eq=_try(lambda: da == db), ne=_try(lambda: da != db), eq_rev=_try(lambda: db == da), foreign=_try(lambda: da == 3),
                   cfg_eq=_try(lambda: da.cfg == db.cfg))
        ctx.case((variant, case["cfg_a"], case["cfg_b"], case["a"], case["b"]), nontrivial=True); ctx.count("dataset=" + variant.split("-")[0])
        want_cfg = cfg_same(da.cfg, db.cfg)
        want = want_cfg and len(ma) == len(mb) and all(same_value(x, y) for x, y in zip(ma, mb))
        bad = [k for k in ("eq", "ne", "eq_rev", "foreign", "cfg_eq") if isinstance(obs[k], str)]
        if bad:
            ctx.violate(f"dataset comparison `{bad[0]}` raises {obs[bad[0]][6:]} (variant={variant}, {len(ma)} vs {len(mb)} mazes)", case, key="dataset-eq")
        elif obs["eq"] != want or obs["eq_rev"] != want or obs["ne"] != (not want) or obs["foreign"] is not False:
            ctx.violate(f"dataset == gives {obs['eq']} (reversed {obs['eq_rev']}, != {obs['ne']}, ==3 {obs['foreign']}) but configurations are "
                        f"{'equal' if want_cfg else 'different'} and maze lists {'equal' if want == want_cfg and want_cfg else 'as in the case'}; expected {want} "
                        f"(variant={variant}, {len(ma)} vs {len(mb)} mazes)", case, key="dataset-eq")
        out.append((case, obs, dict(op="C09.dataset", cfg_eq=bool(obs["cfg_eq"]) if not isinstance(obs["cfg_eq"], str) else False, a=case["a"], b=case["b"])))
        if stop_on_violation and ctx.violations:
            return out
    return out


def _plain(kw):
    return {k: (v if not callable(v) else getattr(v, "__name__", str(v))) for k, v in kw.items()}


# ---------------------------------------------------------------- entry points
SHAPES_Q = [(1, 1), (1, 3), (2, 2), (2, 3), (3, 2), (3, 3), (4, 2), (5, 5)]
SHAPES_T = SHAPES_Q + [(1, 6), (6, 1), (2, 7), (7, 3), (4, 4), (6, 6), (8, 5), (10, 10)]


def run(ctx):
    warnings.filterwarnings("ignore")
    q = ctx.quick
    # ---- real code + oracle
    pairs = run_pairs(ctx, 150 if q else 3750)
    pairs += run_reloaded(ctx, 4 if q else 40)
    dd = run_dedupe(ctx, 60 if q else 1500)
    ends = run_endpoints(ctx, SHAPES_Q if q else SHAPES_T, 400 if q else 10000)
    edge = run_ctor_edge(ctx)
    run_hash_history(ctx, 6 if q else 60)
    dss = run_datasets(ctx, 12 if q else 300)
    # ---- model
    reqs = [_pair_request(c) for c, _ in pairs] + [dict(op="C09.dedupe", mazes=c["mazes"]) for c, _ in dd] \
        + [r for _, _, r in ends] + [r for _, _, r in edge] + [r for _, _, r in dss]
    outs = ctx.driver.run_parallel(reqs)
    it = iter(outs)
    for case, obs in pairs:
        _compare_pair_model(ctx, case, obs, next(it))
    for case, got in dd:
        o = next(it)
        if "error" in o:
            ctx.disagree(f"driver error {o['error']}", case); continue
        ctx.traces_validated += 1
        if [int(x) for x in o["kept"]] != got:
            ctx.disagree(f"model de-duplication keeps {o['kept']} but dict.fromkeys keeps {got}", case)
    for case, obs, _ in ends + edge:
        o = next(it)
        if "error" in o:
            ctx.disagree(f"driver error {o['error']}", case); continue
        ctx.traces_validated += 1
        model = dict(ok=o["ok"], err=o.get("err")) if not o["ok"] else dict(ok=True, start=o["start"], end=o["end"])
        impl = dict(ok=False, err=obs["err"]) if not obs["ok"] else obs
        if model != impl:
            ctx.disagree(f"constructor model and code differ on {case}: model={model} impl={impl}", case)
    for case, obs, _ in dss:
        o = next(it)
        if "error" in o:
            ctx.disagree(f"driver error {o['error']}", case); continue
        ctx.traces_validated += 1
        if o["eq"] != obs["eq"]:
            ctx.disagree(f"dataset == : model {o['eq']} vs code {obs['eq']} (variant={case['variant']})", dict(family="dataset", variant=case["variant"]))
    ctx.sample(dict(endpoint_example=ends[5][0], outcome=ends[5][1]), limit=5)
    ctx.sample(dict(dataset_example=dss[2][0]["variant"], eq=dss[2][1]["eq"]), limit=5)


def search(ctx):
    """oracle-only, wider exploration of the real code; stops at the first violation"""
    warnings.filterwarnings("ignore")
    run_endpoints(ctx, SHAPES_T, 2000, stop_on_violation=True)
    if ctx.violations: return
    run_hash_history(ctx, 30)
    if ctx.violations: return
    run_datasets(ctx, 30, stop_on_violation=True)
    if ctx.violations: return
    run_reloaded(ctx, 10)
    if ctx.violations: return
    for _ in range(20):
        run_pairs(ctx, 60, collect=False)
        if ctx.violations: return
        run_dedupe(ctx, 30)
        if ctx.violations: return


def replay(ctx, rp):
    warnings.filterwarnings("ignore")
    case = rp.get("case", rp)
    fam = case.get("family")
    if fam == "pair":
        a = maze_from_json(case["a"])
        b = a if case.get("same_object") else maze_from_json(case["b"])
        with HashTap() as tap:
            obs = observe_pair(tap, a, b)
        ctx.case((case["variant"], case["a"], case["b"]))
        judge_pair(ctx, case["variant"], a, b, obs, case)
        print("replay pair:", {k: v for k, v in obs.items() if not k.startswith("key_")})
    elif fam == "foreign":
        a = maze_from_json(case["a"])
        for x in FOREIGN:
            r = dict(eq=_try(lambda: a == x), ne=_try(lambda: a != x), eq_rev=_try(lambda: x == a), inl=_try(lambda: a in [x]))
            ctx.case(("foreign", case["a"], repr(x)))
            if r != dict(eq=False, ne=True, eq_rev=False, inl=False):
                ctx.violate(f"comparison of a maze with the non-maze {x!r} gives {r}", case, key="eq-raises")
    elif fam == "endpoint":
        rows, cols = case["shape"]
        cl = np.zeros((2, rows, cols), dtype=bool)
        obs = observe_ctor(case["ctor"], cl, tuple(case["start"]), tuple(case["end"]))
        ctx.case((case["ctor"], rows, cols, case["start"], case["end"]))
        judge_ctor(ctx, case["ctor"], rows, cols, tuple(case["start"]), tuple(case["end"]), obs, case)
        print("replay endpoint:", obs)
    elif fam == "ctor-valid":
        rows, cols = case["shape"]
        ctx.case(("ctor-valid", case))
        try:
            _mk(case["kind"], np.zeros((2, rows, cols), dtype=bool), case["start"], case["end"], case["sol"])
            print("replay ctor-valid: accepted")
        except CtorRejected as e:
            print("replay ctor-valid:", e)
            _rejected(ctx, e)
    elif fam == "dedupe":
        ms = [maze_from_json(dict(j, meta="null")) for j in case["mazes"]]
        want = []
        for k, m in enumerate(ms):
            if not any(same_value(ms[w], m) for w in want):
                want.append(k)
        pos = {id(m): k for k, m in reversed(list(enumerate(ms)))}
        got_d = _try(lambda: [pos[id(m)] for m in dict.fromkeys(ms)])
        ctx.case(case["mazes"])
        if got_d != want:
            ctx.violate(f"de-duplication keeps {got_d}, distinct values first seen at {want}", case, key="eq-hash")
    elif fam == "dataset":
        from maze_dataset import MazeDataset
        ka, kb = case["cfg_kwargs"]
        for k in (ka, kb):
            if "applied_filters" in k:
                k["applied_filters"] = [dict(name=f["name"], args=tuple(f["args"]), kwargs=f["kwargs"]) for f in k["applied_filters"]]
        ma, mb = [maze_from_json(j) for j in case["a"]], [maze_from_json(j) for j in case["b"]]
        da, db = MazeDataset(_cfg(**ka), ma), MazeDataset(_cfg(**kb), mb)
        obs = dict(eq=_try(lambda: da == db), ne=_try(lambda: da != db))
        want = cfg_same(da.cfg, db.cfg) and len(ma) == len(mb) and all(same_value(x, y) for x, y in zip(ma, mb))
        ctx.case((case["variant"], case["a"], case["b"]))
        print("replay dataset:", obs, "expected", want)
        if obs["eq"] != want or obs["ne"] != (not want):
            ctx.violate(f"dataset == gives {obs['eq']} / != gives {obs['ne']}, expected {want} (variant={case['variant']})", case, key="dataset-eq")
    else:
        raise SystemExit(f"unknown replay family {fam!r}")
