import MazeVerif.Lemmas.PixelsRoundTrip
/-! ASCII rendering = the pixel picture character for character; reading the character grid back gives the picture. -/
namespace MZ.Pix

/-- the character paired with a colour in `ASCII_PIXEL_PAIRINGS` -/
def charOf? (col : RGB) : Option Char := (pairings.find? (fun p => p.2 = col)).map (·.1)

theorem spec_cases (m : Maze) (se ss : Bool) (x y : Nat) :
    specPx m se ss x y = basePx m x y ∨ (se = true ∧ (specPx m se ss x y = cStart ∨ specPx m se ss x y = cEnd)) ∨
    (ss = true ∧ specPx m se ss x y = cPath) := by
  cases m with
  | lattice r c E => left; rfl
  | targeted r c E s e =>
    simp only [specPx]
    split
    · next h =>
      split
      · exact Or.inr (Or.inl ⟨h, Or.inr rfl⟩)
      · split
        · exact Or.inr (Or.inl ⟨h, Or.inl rfl⟩)
        · left; rfl
    · left; rfl
  | solved r c E s rest =>
    have inner : (if ss = true then (if (x, y) ∈ betweenPix (s :: rest) then cPath else if (x, y) ∈ (s :: rest).map pixOf then cPath
        else basePx (.solved r c E s rest) x y) else basePx (.solved r c E s rest) x y) = basePx (.solved r c E s rest) x y ∨
        (ss = true ∧ (if ss = true then (if (x, y) ∈ betweenPix (s :: rest) then cPath else if (x, y) ∈ (s :: rest).map pixOf then cPath
        else basePx (.solved r c E s rest) x y) else basePx (.solved r c E s rest) x y) = cPath) := by
      split
      · next h =>
        split
        · exact Or.inr ⟨h, rfl⟩
        · split
          · exact Or.inr ⟨h, rfl⟩
          · left; rfl
      · left; rfl
    simp only [specPx]
    split
    · next h =>
      split
      · exact Or.inr (Or.inl ⟨h, Or.inr rfl⟩)
      · split
        · exact Or.inr (Or.inl ⟨h, Or.inl rfl⟩)
        · rcases inner with h' | h'
          · exact Or.inl h'
          · exact Or.inr (Or.inr h')
    · rcases inner with h' | h'
      · exact Or.inl h'
      · exact Or.inr (Or.inr h')

theorem basePx_cases (m : Maze) (x y : Nat) :
    (basePx m x y = cOpen ∧ (asPixelsBW m.rows m.cols m.edges).px x y = true) ∨
    (basePx m x y = cWall ∧ (asPixelsBW m.rows m.cols m.edges).px x y = false) := by
  unfold basePx
  cases (asPixelsBW m.rows m.cols m.edges).px x y <;> simp

/-- the replacement loop of `as_ascii`, evaluated -/
theorem asciiReplace_px (pg : Img RGB) (a0 : Img Char) (se ss : Bool) (x y : Nat) :
    (asciiReplace pg a0 se ss).px x y =
    if ss = true ∧ pg.px x y = cPath then chPath else if se = true ∧ pg.px x y = cEnd then chEnd
    else if se = true ∧ pg.px x y = cStart then chStart else a0.px x y := by
  cases se <;> cases ss <;> simp [asciiReplace, pairings, chWall, chOpen, chStart, chEnd, chPath]

theorem asciiReplace_dims (pg : Img RGB) (a0 : Img Char) (se ss : Bool) :
    (asciiReplace pg a0 se ss).h = a0.h ∧ (asciiReplace pg a0 se ss).w = a0.w := by
  cases se <;> cases ss <;> simp [asciiReplace, pairings, chWall, chOpen, chStart, chEnd, chPath]

theorem asAsciiGrid_spec (m : Maze) (se ss : Bool) (hv : Valid m) (hf : ¬ (ss = true ∧ se = false)) :
    ∃ a, asAsciiGrid m se ss = .ok a ∧ a.h = 2 * m.rows + 1 ∧ a.w = 2 * m.cols + 1 ∧
      ∀ x y, charOf? (specPx m se ss x y) = some (a.px x y) := by
  obtain ⟨img, h1, h2, h3, h4⟩ := asPixels_spec m se ss hv hf
  obtain ⟨bh, bw⟩ := bw_dims m.rows m.cols m.edges
  refine ⟨asciiReplace img ((asPixelsBW m.rows m.cols m.edges).map fun b => if b then chOpen else chWall) se ss,
    by simp only [asAsciiGrid, h1], (asciiReplace_dims _ _ _ _).1.trans bh, (asciiReplace_dims _ _ _ _).2.trans bw, ?_⟩
  intro x y
  rw [asciiReplace_px, h4]
  simp only [Img.map]
  rcases spec_cases m se ss x y with h | ⟨hse, h | h⟩ | ⟨hss, h⟩
  · rw [h]
    rcases basePx_cases m x y with ⟨hb, hw⟩ | ⟨hb, hw⟩ <;> rw [hb, hw] <;>
      simp [charOf?, pairings, cWall, cOpen, cStart, cEnd, cPath]
  · rw [h]; simp [charOf?, pairings, cWall, cOpen, cStart, cEnd, cPath, hse]
  · rw [h]; simp [charOf?, pairings, cWall, cOpen, cStart, cEnd, cPath, hse]
  · rw [h]; simp [charOf?, pairings, cWall, cOpen, cStart, cEnd, cPath, hss]

/-- reading the characters back into colours restores the picture -/
theorem asciiToPixels_spec (m : Maze) (se ss : Bool) (a : Img Char)
    (ha : ∀ x y, charOf? (specPx m se ss x y) = some (a.px x y)) (x y : Nat) :
    (asciiToPixels a).px x y = specPx m se ss x y := by
  have key : ∀ (col : RGB) (ch : Char), charOf? col = some ch →
      (if ch = chPath then cPath else if ch = chEnd then cEnd else if ch = chStart then cStart else if ch = chOpen then cOpen
       else if ch = chWall then cWall else ((0, 0, 0) : RGB)) = col := by
    intro col ch h
    simp only [charOf?, pairings, List.find?_cons, List.find?_nil] at h
    repeat' split at h
    all_goals simp at h
    all_goals subst h
    all_goals simp_all [chWall, chOpen, chStart, chEnd, chPath]
  have := key _ _ (ha x y)
  rw [← this]
  simp [asciiToPixels, pairings, Img.full]

theorem asciiToPixels_dims (a : Img Char) : (asciiToPixels a).h = a.h ∧ (asciiToPixels a).w = a.w := by
  simp [asciiToPixels, pairings, Img.full]

end MZ.Pix
