import MazeVerif.DriverOps.Util
import MazeVerif.Model.Gen
import MazeVerif.Model.WilsonProb
import MazeVerif.Model.WilsonProbFast
namespace MZ.Drv.C19
open Lean MZ.Drv MZ.WStep MZ.WProb

/-- the ranges (`arity`) of the draws consumed by a run of the step machine, in order -/
def arities (rows cols : Nat) : WS → List Nat → Nat → List Nat
  | _, _, 0 => []
  | s, draws, fuel + 1 =>
    if finished rows cols s then []
    else match draws with
      | [] => []
      | k :: rest => arity rows cols s :: (if k < arity rows cols s then arities rows cols (next rows cols s k) rest fuel else [])

def jRat (q : Rat) : Json := Json.arr #[jInt q.num, jNat q.den]

/-- driver ops of property C19 (`"op": "C19.<name>"`) -/
def handle (op : String) (j : Json) : R Json := do
  match op with
  | "C19.run" =>
    -- replay a tapped `gen_wilson` run on the step machine AND on the nested-loop model of C01
    let rows ← getNat j "rows"; let cols ← getNat j "cols"; let draws ← getNatList j "draws"
    let fuel := draws.length + 1
    let nested := (genWilsonTop rows cols draws (64 * (draws.length + rows * cols) + 64)).map fun s => s.E
    let ar := match draws with
      | a :: b :: rest => arities rows cols { vis := 1 <<< (a * cols + b), edges := 0, path := [] } rest fuel
      | _ => []
    match run rows cols draws fuel with
    | some (s, rest) =>
      pure <| obj [("ok", true), ("mask", jNat s.edges), ("edges", jEdges (edgesOfMask rows cols s.edges)),
                   ("leftover", jNat rest.length), ("arities", jNats ar),
                   ("start_ranges", jNats [max (rows - 1) 1, max (cols - 1) 1]),
                   ("nested_ok", nested.isSome), ("nested_edges", jEdges (nested.getD [])),
                   ("spanning", isSpanningMask rows cols s.edges)]
    | none => pure <| obj [("ok", false), ("arities", jNats ar), ("nested_ok", nested.isSome)]
  | "C19.law" =>
    -- exact law of the machine after n draws: finished masks with probabilities, unfinished mass, the spanning trees
    -- ("fast": true iterates with `lawK`, the key-once merge the 2x5/5x2 tables evaluate; same masses, see `tableOKK_eq`)
    let rows ← getNat j "rows"; let cols ← getNat j "cols"; let n ← getNat j "n"
    let fast := match j.getObjVal? "fast" with | .ok (Json.bool b) => b | _ => false
    let d := if fast then lawK rows cols n else law rows cols n
    let span := allSpanningMasks rows cols
    let tt := span.map fun T => (T, massFin (wilson rows cols) (edgesAre T) d)
    let other := massFin (wilson rows cols) (fun s => !span.contains s.edges) d
    pure <| obj [("trees", jList (fun (x : Nat × Rat) => Json.arr #[jNat x.1, jRat x.2]) tt),
                 ("unfinished", jRat (massUnfin (wilson rows cols) d)), ("other", jRat other),
                 ("states", jNat d.length), ("n_trees", jNat span.length)]
  | "C19.next" =>
    -- one transition of the step machine from an explicitly given state (exhaustive state-space correspondence)
    let rows ← getNat j "rows"; let cols ← getNat j "cols"
    let st : WS := { vis := ← getNat j "vis", edges := ← getNat j "edges", path := ← getNatList j "path" }
    let k ← getNat j "k"
    let ar := arity rows cols st
    let s' := next rows cols st k
    pure <| obj [("arity", jNat ar), ("finished_before", finished rows cols st), ("in_range", decide (k < ar)),
                 ("vis", jNat s'.vis), ("edges", jNat s'.edges), ("path", jNats s'.path),
                 ("finished", finished rows cols s'), ("next_arity", jNat (arity rows cols s'))]
  | "C19.starts" =>
    let rows ← getNat j "rows"; let cols ← getNat j "cols"
    pure <| obj [("starts", jList (fun (s : WS) => obj [("vis", jNat s.vis), ("edges", jNat s.edges), ("path", jNats s.path)]) (starts rows cols)),
                 ("ranges", jNats [max (rows - 1) 1, max (cols - 1) 1])]
  | "C19.spanning" =>
    let rows ← getNat j "rows"; let cols ← getNat j "cols"; let masks ← getNatList j "masks"
    pure <| obj [("is_spanning", Json.arr (masks.map fun m => Json.bool (isSpanningMask rows cols m)).toArray)]
  | _ => throw s!"unknown op {op}"

end MZ.Drv.C19
