import MazeVerif.Lemmas.CornerFirst
import Std.Data.String.ToNat
import Std.Data.String.ToInt
/-! Lemmas for property C14: token rendering is injective, the vocabulary blocks are pairwise disjoint (classified by the
    leading characters), `tokenToIndex` inverts list indexing on duplicate-free lists, codec lemmas. -/
namespace MZ.Vocab
open List

/-! ### generic list facts -/

theorem nodup_map_of_inj_on {α β} {f : α → β} : ∀ {l : List α}, (∀ a ∈ l, ∀ b ∈ l, f a = f b → a = b) → l.Nodup → (l.map f).Nodup
  | [], _, _ => by simp
  | x :: xs, hinj, hn => by
    have hn' := List.nodup_cons.mp hn
    rw [List.map_cons, List.nodup_cons]
    refine ⟨?_, nodup_map_of_inj_on (fun a ha b hb => hinj a (List.mem_cons_of_mem _ ha) b (List.mem_cons_of_mem _ hb)) hn'.2⟩
    intro hmem
    obtain ⟨y, hy, hfy⟩ := List.mem_map.mp hmem
    have : y = x := hinj y (List.mem_cons_of_mem _ hy) x (List.mem_cons_self) hfy
    exact hn'.1 (this ▸ hy)

theorem nodup_map_of_injective {α β} {f : α → β} (hf : ∀ a b, f a = f b → a = b) {l : List α} (hn : l.Nodup) : (l.map f).Nodup :=
  nodup_map_of_inj_on (fun a _ b _ => hf a b) hn

/-- two lists whose elements are told apart by a classifier can be appended without creating duplicates -/
theorem nodup_append_of_cls {α} (f : α → Nat) (c : Nat) {l1 l2 : List α} (h1 : l1.Nodup) (h2 : l2.Nodup)
    (hc1 : ∀ t ∈ l1, f t = c) (hc2 : ∀ t ∈ l2, f t ≠ c) : (l1 ++ l2).Nodup := by
  rw [List.nodup_append]
  refine ⟨h1, h2, fun a ha b hb hab => ?_⟩
  subst hab
  exact hc2 a hb (hc1 a ha)

theorem append_sep_inj {α} {a : α} : ∀ {l1 l2 r1 r2 : List α}, a ∉ l1 → a ∉ l2 → l1 ++ a :: r1 = l2 ++ a :: r2 → l1 = l2 ∧ r1 = r2
  | [], [], _, _, _, _, h => by simpa using h
  | [], y :: ys, _, _, _, h2, h => by
    simp only [List.nil_append, List.cons_append, List.cons.injEq] at h
    exact absurd (h.1 ▸ List.mem_cons_self) h2
  | x :: xs, [], _, _, h1, _, h => by
    simp only [List.nil_append, List.cons_append, List.cons.injEq] at h
    exact absurd (h.1 ▸ List.mem_cons_self) h1
  | x :: xs, y :: ys, _, _, h1, h2, h => by
    simp only [List.cons_append, List.cons.injEq] at h
    have ih := append_sep_inj (fun hm => h1 (List.mem_cons_of_mem _ hm)) (fun hm => h2 (List.mem_cons_of_mem _ hm)) h.2
    exact ⟨by rw [h.1, ih.1], ih.2⟩

theorem getElem?_append3 {α} (pre seg post : List α) (i : Nat) (h : i < seg.length) :
    (pre ++ seg ++ post)[pre.length + i]? = seg[i]? := by
  rw [List.append_assoc, List.getElem?_append_right (by omega)]
  rw [show pre.length + i - pre.length = i by omega, List.getElem?_append_left h]

/-! ### `np.ndindex` is row-major -/

theorem getElem?_flatMap_range {α} (f : Nat → List α) (n : Nat) (hf : ∀ i, (f i).length = n) :
    ∀ (m i j : Nat), i < m → j < n → ((List.range m).flatMap f)[i * n + j]? = (f i)[j]?
  | 0, _, _, hi, _ => by omega
  | m + 1, i, j, hi, hj => by
    have hlen : ((List.range m).flatMap f).length = m * n := by
      simp [List.length_flatMap, hf, sum_replicate_const]
    rw [List.range_succ, List.flatMap_append]
    by_cases him : i < m
    · have : i * n + j < ((List.range m).flatMap f).length := by
        rw [hlen]
        have : (i + 1) * n ≤ m * n := Nat.mul_le_mul_right n (by omega)
        rw [Nat.succ_mul] at this; omega
      rw [List.getElem?_append_left this]
      exact getElem?_flatMap_range f n hf m i j him hj
    · have : i = m := by omega
      subst this
      rw [List.getElem?_append_right (by rw [hlen]; omega), hlen]
      simp

theorem ndindex_getElem? (n i j : Nat) (hi : i < n) (hj : j < n) : (ndindex n)[i * n + j]? = some (i, j) := by
  unfold ndindex
  rw [getElem?_flatMap_range _ n (by simp) n i j hi hj]
  simp [hj]

/-! ### rendering of numbers and coordinates -/

theorem toList_lparen : ("(" : String).toList = ['('] := by decide
theorem toList_comma : ("," : String).toList = [','] := by decide
theorem toList_rparen : (")" : String).toList = [')'] := by decide
theorem toList_plus : ("+" : String).toList = ['+'] := by decide
theorem toList_minus : ("-" : String).toList = ['-'] := by decide
theorem toList_reserve : ("<RESERVE_" : String).toList = ['<', 'R', 'E', 'S', 'E', 'R', 'V', 'E', '_'] := by decide
theorem toList_empty : ("" : String).toList = [] := by decide

theorem toList_coordToken (x : P) :
    (coordToken x).toList = '(' :: (Nat.toDigits 10 x.1 ++ ',' :: (Nat.toDigits 10 x.2 ++ [')'])) := by
  simp [coordToken, String.toList_append, Nat.toList_repr, toList_lparen, toList_comma, toList_rparen]

theorem comma_notMem_toDigits (n : Nat) : ',' ∉ Nat.toDigits 10 n := by
  intro h
  have := Nat.isDigit_of_mem_toDigits (by decide) (by decide) h
  exact absurd this (by decide)

theorem toDigits_injective {m n : Nat} (h : Nat.toDigits 10 m = Nat.toDigits 10 n) : m = n := by
  apply Nat.repr_injective
  rw [← String.toList_inj, Nat.toList_repr, Nat.toList_repr, h]

theorem coordToken_injective {x y : P} (h : coordToken x = coordToken y) : x = y := by
  have h' := congrArg String.toList h
  rw [toList_coordToken, toList_coordToken] at h'
  simp only [List.cons.injEq, true_and] at h'
  obtain ⟨h1, h2⟩ := append_sep_inj (comma_notMem_toDigits _) (comma_notMem_toDigits _) h'
  have h3 := List.append_cancel_right h2
  exact Prod.ext (toDigits_injective h1) (toDigits_injective h3)

theorem Int.repr_of_nonneg' {i : Int} (h : 0 ≤ i) : Int.repr i = Nat.repr i.toNat := by
  cases i with
  | ofNat m => rfl
  | negSucc m => exact absurd h (Int.not_le.mpr (Int.negSucc_lt_zero m))

theorem Int.repr_of_neg' {i : Int} (h : i < 0) : Int.repr i = "-" ++ Nat.repr i.natAbs := by
  cases i with
  | ofNat m => exact absurd h (Int.not_lt.mpr (Int.natCast_nonneg m))
  | negSucc m => rfl

/-! ### classification of tokens by their leading characters -/

/-- 1: `+…`, 2: `-` followed by something, 3: `(` followed by something, 5: `<R…`, 4: leading digit, 0: everything else -/
def cls (t : List Char) : Nat :=
  match t with
  | [] => 0
  | c :: r =>
    if c = '+' then 1
    else if c = '-' then (if r = [] then 0 else 2)
    else if c = '(' then (if r = [] then 0 else 3)
    else if c = '<' then (if r.head? = some 'R' then 5 else 0)
    else if c.isDigit then 4 else 0

def scls (t : String) : Nat := cls t.toList

theorem cls_digits (n : Nat) : cls (Nat.toDigits 10 n) = 4 := by
  have hne := Nat.toDigits_ne_nil (n := n) (b := 10)
  match hd : Nat.toDigits 10 n with
  | [] => exact absurd hd hne
  | c :: r =>
    have hc : c.isDigit = true := Nat.isDigit_of_mem_toDigits (b := 10) (n := n) (by decide) (by decide) (by rw [hd]; simp)
    have h1 : c ≠ '+' := by intro h; subst h; exact absurd hc (by decide)
    have h2 : c ≠ '-' := by intro h; subst h; exact absurd hc (by decide)
    have h3 : c ≠ '(' := by intro h; subst h; exact absurd hc (by decide)
    have h4 : c ≠ '<' := by intro h; subst h; exact absurd hc (by decide)
    simp [cls, h1, h2, h3, h4, hc]

theorem scls_natRepr (n : Nat) : scls (Nat.repr n) = 4 := by
  simp [scls, Nat.toList_repr, cls_digits]

theorem scls_coordToken (x : P) : scls (coordToken x) = 3 := by
  have hne := Nat.toDigits_ne_nil (n := x.1) (b := 10)
  simp [scls, toList_coordToken, cls, hne]

theorem scls_plus (n : Nat) (post : String) : scls ("+" ++ Nat.repr n ++ post) = 1 := by
  simp [scls, String.toList_append, toList_plus, cls]

theorem scls_minus (n : Nat) (post : String) : scls ("-" ++ Nat.repr n ++ post) = 2 := by
  have hne := Nat.toDigits_ne_nil (n := n) (b := 10)
  simp [scls, String.toList_append, toList_minus, Nat.toList_repr, cls, hne]

theorem scls_reserve (s post : String) : scls ("<RESERVE_" ++ s ++ post) = 5 := by
  simp [scls, String.toList_append, toList_reserve, cls]

/-! ### `tokenToIndex` -/

theorem lookupLast_some {t : String} : ∀ {l : List String} {k j : Nat}, lookupLast t l k = some j → k ≤ j ∧ l[j - k]? = some t
  | [], _, _, h => by simp [lookupLast] at h
  | x :: xs, k, j, h => by
    unfold lookupLast at h
    split at h
    next j' hj' =>
      cases h
      have ih := lookupLast_some hj'
      refine ⟨by omega, ?_⟩
      have : j - k = (j - (k + 1)) + 1 := by omega
      rw [this, List.getElem?_cons_succ]; exact ih.2
    next hnone =>
      split at h
      next hx => cases h; subst hx; simp
      next => cases h

theorem lookupLast_none {t : String} : ∀ {l : List String} {k : Nat}, lookupLast t l k = none ↔ t ∉ l
  | [], _ => by simp [lookupLast]
  | x :: xs, k => by
    unfold lookupLast
    have ih := lookupLast_none (t := t) (l := xs) (k := k + 1)
    split
    next j hj =>
      have : t ∈ xs := by
        by_cases hm : t ∈ xs
        · exact hm
        · rw [ih.mpr hm] at hj; cases hj
      simp [this]
    next hnone =>
      have hnot : t ∉ xs := ih.mp hnone
      by_cases hx : x = t
      · simp [hx]
      · have : ¬ t = x := fun h => hx h.symm
        simp [hx, hnot, this]

theorem lookupLast_getElem : ∀ {l : List String} (k i : Nat) (h : i < l.length), l.Nodup → lookupLast l[i] l k = some (k + i)
  | [], _, _, h, _ => by simp at h
  | x :: xs, k, 0, _, hn => by
    have hn' := List.nodup_cons.mp hn
    unfold lookupLast
    have : lookupLast x xs (k + 1) = none := lookupLast_none.mpr hn'.1
    simp [this]
  | x :: xs, k, i + 1, h, hn => by
    have hn' := List.nodup_cons.mp hn
    have h' : i < xs.length := by simpa using h
    unfold lookupLast
    have ih := lookupLast_getElem (l := xs) (k + 1) i h' hn'.2
    simp only [List.getElem_cons_succ, ih]
    congr 1; omega

/-- on a duplicate-free list `tokenToIndex` is the inverse of indexing -/
theorem tokenToIndex_getElem {voc : List String} (hn : voc.Nodup) (i : Nat) (h : i < voc.length) :
    tokenToIndex voc voc[i] = some i := by
  have := lookupLast_getElem 0 i h hn
  simpa [tokenToIndex] using this

theorem getElem?_of_tokenToIndex {voc : List String} {t : String} {i : Nat} (h : tokenToIndex voc t = some i) :
    voc[i]? = some t := by
  have := (lookupLast_some h).2
  simpa using this

theorem tokenToIndex_none {voc : List String} {t : String} : tokenToIndex voc t = none ↔ t ∉ voc := lookupLast_none

theorem tokenToIndex_isSome {voc : List String} {t : String} (h : t ∈ voc) : ∃ i, tokenToIndex voc t = some i := by
  cases hq : tokenToIndex voc t with
  | none => exact absurd h (tokenToIndex_none.mp hq)
  | some i => exact ⟨i, rfl⟩

/-! ### codec -/

theorem encode_ok {voc : List String} : ∀ {ts : List String}, (∀ t ∈ ts, t ∈ voc) →
    ∃ ids, encode voc ts = .ok ids ∧ ids.length = ts.length ∧ (∀ k (h : k < ts.length), ∃ i, ids[k]? = some i ∧ voc[i]? = some ts[k])
  | [], _ => ⟨[], rfl, rfl, fun k h => by simp at h⟩
  | t :: ts, hall => by
    obtain ⟨i, hi⟩ := tokenToIndex_isSome (hall t List.mem_cons_self)
    obtain ⟨ids, he, hl, hk⟩ := encode_ok (voc := voc) (ts := ts) (fun u hu => hall u (List.mem_cons_of_mem _ hu))
    refine ⟨i :: ids, by simp [encode, hi, he], by simp [hl], ?_⟩
    intro k hk'
    cases k with
    | zero => exact ⟨i, by simp, by simpa using getElem?_of_tokenToIndex hi⟩
    | succ k => simpa using hk k (by simpa using hk')

theorem encode_error {voc : List String} : ∀ {ts : List String}, (∃ t ∈ ts, t ∉ voc) → encode voc ts = .error .tokenError
  | [], h => by obtain ⟨t, ht, _⟩ := h; cases ht
  | t :: ts, h => by
    unfold encode
    cases hq : tokenToIndex voc t with
    | none => rfl
    | some i =>
      have ht : t ∈ voc := by
        by_cases hm : t ∈ voc
        · exact hm
        · rw [tokenToIndex_none.mpr hm] at hq; cases hq
      have : ∃ u ∈ ts, u ∉ voc := by
        obtain ⟨u, hu, hnu⟩ := h
        rcases List.mem_cons.mp hu with rfl | hu'
        · exact absurd ht hnu
        · exact ⟨u, hu', hnu⟩
      simp [encode_error this]

theorem encode_only_tokenError {voc : List String} : ∀ {ts : List String} {e : Err}, encode voc ts = .error e → e = .tokenError
  | [], _, h => by simp [encode] at h
  | t :: ts, e, h => by
    unfold encode at h
    split at h
    · cases h; rfl
    · split at h
      · cases h
      next e' he' => cases h; exact encode_only_tokenError he'

theorem decodeNonneg_ok {voc : List String} : ∀ {ids : List Int}, (∀ i ∈ ids, 0 ≤ i ∧ i < voc.length) →
    ∃ ts, decodeNonneg voc ids = .ok ts ∧ ts.length = ids.length ∧ (∀ k (h : k < ids.length), ts[k]? = voc[(ids[k]).toNat]?)
  | [], _ => ⟨[], rfl, rfl, fun k h => by simp at h⟩
  | i :: is, hall => by
    have hi := hall i List.mem_cons_self
    have hlt : i.toNat < voc.length := by omega
    obtain ⟨ts, he, hl, hk⟩ := decodeNonneg_ok (voc := voc) (ids := is) (fun u hu => hall u (List.mem_cons_of_mem _ hu))
    refine ⟨voc[i.toNat] :: ts, by simp [decodeNonneg, List.getElem?_eq_getElem hlt, he], by simp [hl], ?_⟩
    intro k hk'
    cases k with
    | zero => simp [List.getElem?_eq_getElem hlt]
    | succ k => simpa using hk k (by simpa using hk')

theorem decodeNonneg_error {voc : List String} : ∀ {ids : List Int}, (∃ i ∈ ids, (voc.length : Int) ≤ i) →
    decodeNonneg voc ids = .error .tokenError
  | [], h => by obtain ⟨t, ht, _⟩ := h; cases ht
  | i :: is, h => by
    unfold decodeNonneg
    cases hq : voc[i.toNat]? with
    | none => rfl
    | some t =>
      have hlt : i.toNat < voc.length := by
        by_cases hh : i.toNat < voc.length
        · exact hh
        · rw [List.getElem?_eq_none (by omega)] at hq; cases hq
      have : ∃ u ∈ is, (voc.length : Int) ≤ u := by
        obtain ⟨u, hu, hnu⟩ := h
        rcases List.mem_cons.mp hu with rfl | hu'
        · omega
        · exact ⟨u, hu', hnu⟩
      simp [decodeNonneg_error this]

theorem decode_ok {voc : List String} {ids : List Int} (h : ∀ i ∈ ids, 0 ≤ i ∧ i < voc.length) :
    ∃ ts, decode voc ids = .ok ts ∧ ts.length = ids.length ∧ (∀ k (h : k < ids.length), ts[k]? = voc[(ids[k]).toNat]?) := by
  have hany : ids.any (fun i => decide (i < 0)) = false := by
    rw [List.any_eq_false]; intro i hi; have := (h i hi).1; simp; omega
  unfold decode; rw [hany]; exact decodeNonneg_ok h

theorem decode_error {voc : List String} {ids : List Int} (h : ∃ i ∈ ids, i < 0 ∨ (voc.length : Int) ≤ i) :
    decode voc ids = .error .tokenError := by
  unfold decode
  by_cases hany : ids.any (fun i => decide (i < 0)) = true
  · simp [hany]
  · have hany' : ids.any (fun i => decide (i < 0)) = false := by simpa using hany
    rw [hany']
    obtain ⟨i, hi, hbad⟩ := h
    have hnn : ¬ i < 0 := by
      rw [List.any_eq_false] at hany'
      simpa using hany' i hi
    exact decodeNonneg_error ⟨i, hi, by omega⟩

end MZ.Vocab
