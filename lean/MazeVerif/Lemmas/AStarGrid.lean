import MazeVerif.Lemmas.AStar
import MazeVerif.Lemmas.DfsMeta
/-! Instantiation of the abstract A* theorem on the maze graph, plus the termination bound. -/
namespace MZ.AStar
open MZ

/-- the graph `find_shortest_path` actually walks: `get_coord_neighbors` -/
def GAdj (rows cols : Nat) (E : List Edge) (a b : Cell) : Prop :=
  b ∈ nbrs a ∧ inGrid rows cols b ∧ edgeOf a b ∈ E

theorem mem_coordNeighbors_iff {rows cols : Nat} {E : List Edge} {a b : Cell} :
    b ∈ coordNeighbors rows cols E a ↔ GAdj rows cols E a b := by
  simp [coordNeighbors, connected, GAdj, List.contains_iff_mem]

/-- a stored adjacency is a lattice step whose `edgeOf` bit is set -/
theorem adj_iff_edgeOf {E : List Edge} {a b : Cell} : Adj E a b ↔ b ∈ nbrs a ∧ edgeOf a b ∈ E := by
  constructor
  · intro h
    obtain ⟨a1, a2⟩ := a
    rcases h with ⟨rfl, h2⟩ | ⟨h1, h2⟩ | ⟨rfl, h2⟩ | ⟨h1, h2⟩
    · exact ⟨by simp [nbrs], by rw [edgeOf_down]; exact h2⟩
    · obtain ⟨b1, b2⟩ := b
      simp only [Prod.mk.injEq] at h1; obtain ⟨rfl, rfl⟩ := h1
      refine ⟨by simp [nbrs], ?_⟩
      have := edgeOf_up (b1 + 1) a2; simp at this; rw [this]; exact h2
    · exact ⟨by simp [nbrs], by rw [edgeOf_right]; exact h2⟩
    · obtain ⟨b1, b2⟩ := b
      simp only [Prod.mk.injEq] at h1; obtain ⟨rfl, rfl⟩ := h1
      refine ⟨by simp [nbrs], ?_⟩
      have := edgeOf_left a1 (b2 + 1); simp at this; rw [this]; exact h2
  · rintro ⟨h1, h2⟩; exact adj_edgeOf h1 h2

/-- on a well-formed maze the searched graph is the semantic adjacency -/
theorem gadj_iff_adj {rows cols : Nat} {E : List Edge} (hwf : WF rows cols E) {a b : Cell} :
    GAdj rows cols E a b ↔ Adj E a b := by
  constructor
  · rintro ⟨h1, _, h3⟩; exact adj_iff_edgeOf.mpr ⟨h1, h3⟩
  · intro h
    obtain ⟨h1, h3⟩ := adj_iff_edgeOf.mp h
    refine ⟨h1, ?_, h3⟩
    obtain ⟨e, he, hends⟩ := adj_ends h
    have := hwf e he
    rcases hends with h | h <;> rw [h] at this
    · exact this.2.2
    · exact this.2.1

theorem manhattan_consistent (e : Cell) {a b : Cell} (h : b ∈ nbrs a) : manhattan e a ≤ manhattan e b + 1 := by
  obtain ⟨a1, a2⟩ := a
  simp only [nbrs, List.mem_cons, List.not_mem_nil, or_false] at h
  rcases h with rfl | rfl | rfl | rfl <;> simp only [manhattan] <;> omega

/-! ### termination: each iteration closes a new grid cell -/

theorem foldl_relax_closed (h : Cell → Int) (c : Cell) : ∀ (l : List Cell) (t : AS),
    (l.foldl (relax h c) t).closed = t.closed := by
  intro l; induction l with
  | nil => intro t; rfl
  | cons x xs ihx =>
    intro t; simp only [List.foldl_cons]; rw [ihx]
    unfold relax; split
    · rfl
    · split
      · rfl
      · split <;> rfl

theorem foldl_relax_opn (h : Cell → Int) (c : Cell) : ∀ (l : List Cell) (t : AS) (v : Cell),
    v ∈ (l.foldl (relax h c) t).opn → v ∈ t.opn ∨ v ∈ l := by
  intro l; induction l with
  | nil => intro t v hv; exact Or.inl hv
  | cons x xs ihx =>
    intro t v hv
    simp only [List.foldl_cons] at hv
    rcases ihx _ v hv with h1 | h1
    · unfold relax at h1
      split at h1
      · exact Or.inl h1
      · split at h1
        · simp only [List.mem_append, List.mem_cons, List.not_mem_nil, or_false] at h1
          rcases h1 with h1 | rfl
          · exact Or.inl h1
          · exact Or.inr (by simp)
        · split at h1 <;> exact Or.inl h1
    · exact Or.inr (List.mem_cons_of_mem _ h1)

/-- bookkeeping invariant for the termination bound -/
structure GridInv (rows cols : Nat) (s : AS) : Prop where
  opnGrid : ∀ v ∈ s.opn, inGrid rows cols v
  closedGrid : ∀ v ∈ s.closed, inGrid rows cols v
  closedNodup : s.closed.Nodup
  opnNodup : s.opn.Nodup
  disj : ∀ v ∈ s.opn, v ∉ s.closed

theorem gridInv_relax {rows cols : Nat} (h : Cell → Int) (c : Cell) {t : AS} (inv : GridInv rows cols t)
    {nb : Cell} (hnb : inGrid rows cols nb) : GridInv rows cols (relax h c t nb) := by
  unfold relax
  split
  · exact inv
  · next hnc =>
    split
    · next hno =>
      refine ⟨?_, inv.closedGrid, inv.closedNodup, ?_, ?_⟩
      · intro v hv
        simp only [List.mem_append, List.mem_cons, List.not_mem_nil, or_false] at hv
        rcases hv with hv | rfl
        · exact inv.opnGrid v hv
        · exact hnb
      · rw [List.nodup_append]
        refine ⟨inv.opnNodup, by simp, ?_⟩
        intro a ha b hb; simp at hb; subst hb; intro hab; subst hab; exact hno ha
      · intro v hv
        simp only [List.mem_append, List.mem_cons, List.not_mem_nil, or_false] at hv
        rcases hv with hv | rfl
        · exact inv.disj v hv
        · exact hnc
    · split
      · exact inv
      · exact ⟨inv.opnGrid, inv.closedGrid, inv.closedNodup, inv.opnNodup, inv.disj⟩

theorem gridInv_fold {rows cols : Nat} (h : Cell → Int) (c : Cell) : ∀ (l : List Cell) (t : AS),
    GridInv rows cols t → (∀ x ∈ l, inGrid rows cols x) → GridInv rows cols (l.foldl (relax h c) t) := by
  intro l; induction l with
  | nil => intro t ht _; exact ht
  | cons y ys ih =>
    intro t ht hl
    simp only [List.foldl_cons]
    exact ih _ (gridInv_relax h c ht (hl y (by simp))) (fun x hx => hl x (List.mem_cons_of_mem _ hx))

theorem gridInv_expand {rows cols : Nat} {E : List Edge} {e : Cell} {s : AS} (inv : GridInv rows cols s)
    {c : Cell} (hc : c ∈ s.opn) :
    GridInv rows cols (expand (coordNeighbors rows cols E) (manhattan e) s c) ∧
    (expand (coordNeighbors rows cols E) (manhattan e) s c).closed.length = s.closed.length + 1 := by
  have hcl : (expand (coordNeighbors rows cols E) (manhattan e) s c).closed = c :: s.closed := by
    simp [expand, foldl_relax_closed, close]
  refine ⟨?_, by rw [hcl]; simp⟩
  unfold expand
  apply gridInv_fold
  · refine ⟨?_, ?_, ?_, ?_, ?_⟩
    · intro v hv; exact inv.opnGrid v (List.mem_of_mem_erase hv)
    · intro v hv
      rcases List.mem_cons.mp hv with rfl | h1
      · exact inv.opnGrid _ hc
      · exact inv.closedGrid v h1
    · exact List.nodup_cons.mpr ⟨inv.disj c hc, inv.closedNodup⟩
    · exact inv.opnNodup.erase c
    · intro v hv hmem
      rcases List.mem_cons.mp hmem with rfl | h1
      · exact ((inv.opnNodup.mem_erase_iff).mp hv).1 rfl
      · exact inv.disj v (List.mem_of_mem_erase hv) h1
  · intro x hx; exact (mem_coordNeighbors_iff.mp hx).2.1

/-- the main loop never runs out of fuel when given `rows*cols + 1` iterations (whatever the picks are) -/
theorem run_no_outOfFuel {rows cols : Nat} {E : List Edge} {e : Cell} {H0 : Int} : ∀ (fuel : Nat) (s : AS) (picks : List Cell),
    GridInv rows cols s → rows * cols + 1 ≤ fuel + s.closed.length →
    run (coordNeighbors rows cols E) (manhattan e) e H0 fuel s picks ≠ .outOfFuel := by
  intro fuel
  induction fuel with
  | zero =>
    intro s picks inv hf
    have := (all_of_length inv.closedNodup inv.closedGrid).1
    omega
  | succ fuel ih =>
    intro s picks inv hf
    unfold run
    split
    · simp
    · split
      · simp
      · next c rest =>
        split
        · next hlegal =>
          split
          · simp
          · obtain ⟨inv', hlen⟩ := gridInv_expand (E := E) (e := e) inv hlegal.1
            exact ih _ rest inv' (by rw [hlen]; omega)
        · simp

end MZ.AStar

namespace MZ.AStar
open MZ

theorem walk_append {A : Cell → Cell → Prop} {a b c : Cell} {n m : Nat} (w1 : Walk A a b n) (w2 : Walk A b c m) :
    Walk A a c (n + m) := by
  induction w1 with
  | nil _ => simpa using w2
  | cons hab _ ih => have := Walk.cons hab (ih w2); rwa [Nat.add_right_comm] at this

theorem reach_iff_walk {E : List Edge} {a b : Cell} : Reach E a b ↔ ∃ n, Walk (Adj E) a b n := by
  constructor
  · intro h
    induction h with
    | refl => exact ⟨0, .nil _⟩
    | step _ hadj ih => obtain ⟨n, w⟩ := ih; exact ⟨n + 1, w.snoc hadj⟩
  · rintro ⟨n, w⟩
    induction w with
    | nil _ => exact .refl _
    | cons hab _ ih => exact (Reach.step (.refl _) hab).trans ih

theorem walk_congr {A B : Cell → Cell → Prop} (h : ∀ a b, A a b ↔ B a b) {a b : Cell} {n : Nat} :
    Walk A a b n ↔ Walk B a b n := by
  constructor <;> intro w
  · induction w with
    | nil _ => exact .nil _
    | cons hab _ ih => exact .cons ((h _ _).mp hab) ih
  · induction w with
    | nil _ => exact .nil _
    | cons hab _ ih => exact .cons ((h _ _).mpr hab) ih

theorem isWalkList_congr {A B : Cell → Cell → Prop} (h : ∀ a b, A a b → B a b) :
    ∀ {l : List Cell}, IsWalkList A l → IsWalkList B l
  | [], hl => hl
  | [_], _ => trivial
  | _ :: b :: rest, hl => ⟨h _ _ hl.1, isWalkList_congr h (l := b :: rest) hl.2⟩

end MZ.AStar
