import MazeVerif.Model.Dataset
/-! Model of SERIAL dataset generation: `MazeDataset.generate(cfg, gen_parallel=False)` (maze_dataset.py:283-340, serial
    branch `list(map(_generate_maze_helper, range(cfg.n_mazes)))`) with `_generate_maze_helper` (maze_dataset.py:176-195):

        maze     = cfg.maze_ctor(grid_shape, **cfg.maze_ctor_kwargs)      -- `genMaze`
        solution = maze.generate_random_path(**cfg.endpoint_kwargs)       -- `endpointDraws` + `solveItem`
        return SolvedMaze.from_lattice_maze(maze, solution)               -- `Item`

    All items draw from ONE global random stream, one after the other: the model threads ONE `Streams` value through
    the `n` helper calls, every call consuming a prefix of what the previous call left.

    * `draws`  — the integer draws (python `random` + `np.random.randint` / `np.random.choice` outputs) in call order;
    * `rands`  — the doubles of `np.random.rand(2, rows, cols)` (percolation generators) as exact rationals;
    * `obs`    — per item, the OBSERVED endpoint choice `(s, e)` and the A* tie-break picks. These stay relational inputs
                 as in the per-item model (`Model/Dataset.lean`): the code indexes `list(set)` / an array built from a
                 `set` with the drawn integer, so the drawn integers are consumed from `draws` (and must be in range),
                 while WHICH cell they select is "any legal one" (`endpointsOK`).

    Core only (no Mathlib / Batteries): the driver links this file. -/
namespace MZ

/-- `cfg.maze_ctor` + `cfg.maze_ctor_kwargs` -/
inductive GenCfg where
  | dfs (a : Args) (given : Option Cell)
  | prim (a : Args) (given : Option Cell)
  | wilson
  | percolation (p : Nat × Nat) (given : Option Cell)
  | dfsPercolation (p : Nat × Nat) (a : Args) (given : Option Cell)

/-- the part of `MazeDatasetConfig` generation depends on: `grid_shape`, `maze_ctor(+kwargs)`, `endpoint_kwargs` -/
structure DatasetCfg where
  rows : Nat
  cols : Nat
  gen : GenCfg
  opts : EndpointOpts := {}

/-- what the i-th helper call is observed to choose: endpoints and A* picks -/
structure Obs where
  s : Cell
  e : Cell
  picks : List Cell
deriving Repr, DecidableEq

/-- the shared random streams (and the not yet used observations) -/
structure Streams where
  draws : List Nat
  rands : List (Nat × Nat) := []
  obs : List Obs := []
deriving Repr, DecidableEq

/-- `get_connected_component()` read off `generation_meta` (lattice_maze.py:357-378): every cell when flagged fully
    connected, the recorded `visited_cells` otherwise (= `metaComponent` of Props/C12.lean, restated here because model
    files do not import proof files) -/
def compOfMeta (rows cols : Nat) (fullyConnected : Bool) (visited : List Cell) : List Cell :=
  if fullyConnected then cells rows cols else visited

/-- one generator call on the shared streams: the maze, its component and WHAT IT LEFT of the streams -/
structure MazeOut where
  edges : List Edge
  comp : List Cell
  draws : List Nat
  rands : List (Nat × Nat)

/-- `cfg.maze_ctor(grid_shape, **kwargs)` on the shared streams. The generator models of `Model/Gen.lean` are used as
    they are; this function only adds the leftover bookkeeping they do not all report:
    * dfs / prim: `DfsOut.leftover`;  wilson: `WSt.rng`;
    * percolation: the draws after `_random_start_coord`; `np.random.rand(2, rows, cols)` takes exactly
      `2 * rows * cols` doubles from the front of `rands`;
    * dfs_percolation: start and dfs are the SAME computation as `genDfsTop` on the same draws
      (`genDfsPercolationTop_dfsTop` in Lemmas/DatasetGen.lean), whose leftover is therefore the call's leftover. -/
def genMaze (rows cols : Nat) (g : GenCfg) (draws : List Nat) (rands : List (Nat × Nat)) (fuel : Nat) : Option MazeOut :=
  match g with
  | .dfs a given =>
    (genDfsTop rows cols a given draws fuel).map fun o =>
      { edges := o.edges, comp := compOfMeta rows cols o.fullyConnected o.visited, draws := o.leftover, rands := rands }
  | .prim a given =>
    (genPrimTop rows cols a given draws fuel).map fun o =>
      { edges := o.edges, comp := compOfMeta rows cols o.fullyConnected o.visited, draws := o.leftover, rands := rands }
  | .wilson =>
    (genWilsonTop rows cols draws fuel).map fun w =>
      { edges := w.E, comp := compOfMeta rows cols true [], draws := w.rng, rands := rands }
  | .percolation p given =>
    match startCoord rows cols given draws, genPercolationTop rows cols p given draws (rands.take (2 * rows * cols)) fuel with
    | some (_, d1), some o =>
      some { edges := o.edges, comp := compOfMeta rows cols false o.visited, draws := d1, rands := rands.drop (2 * rows * cols) }
    | _, _ => none
  | .dfsPercolation p a given =>
    match genDfsTop rows cols a given draws fuel,
          genDfsPercolationTop rows cols p a given draws (rands.take (2 * rows * cols)) fuel with
    | some d, some o =>
      some { edges := o.edges, comp := compOfMeta rows cols o.fullyConnected o.visited, draws := d.leftover,
             rands := rands.drop (2 * rows * cols) }
    | _, _ => none

/-- the two integers `generate_random_path` draws for the endpoints (lattice_maze.py:439-494), consumed from the shared
    stream. Default options: `np.random.choice(len(component), size=2, replace=False)` = two DISTINCT indices below the
    component size. Otherwise: `np.random.randint(0, len(allowed_start_set))`, then (after `discard(start_pos)` when
    `endpoints_not_equal`) `np.random.randint(0, len(allowed_end_set))`. Returns the leftover draws; `none` = stream
    exhausted or a value no such call can return. -/
def endpointDraws (rows cols : Nat) (E : List Edge) (comp : List Cell) (o : EndpointOpts) (s : Cell)
    (draws : List Nat) : Option (List Nat) :=
  match draws with
  | a :: b :: rest =>
    if o.isDefault then
      if a < comp.length ∧ b < comp.length ∧ a ≠ b then some rest else none
    else
      let ends := allowedSet rows cols E comp o.allowedEnd o.deadendEnd
      let ends' := if o.notEqual then ends.filter (fun c => c != s) else ends
      if a < (allowedSet rows cols E comp o.allowedStart o.deadendStart).length ∧ b < ends'.length then some rest else none
  | _ => none

/-- a `SolvedMaze` as `_generate_maze_helper` returns it: connection bits, the component its `generation_meta` gives,
    `start_pos` / `end_pos` and the stored solution -/
structure Item where
  edges : List Edge
  comp : List Cell
  s : Cell
  e : Cell
  sol : List Cell
deriving Repr, DecidableEq

/-- ONE call of `_generate_maze_helper` on the shared streams: the item and what is left of the streams.
    `none` = the call raises / the observation is not one the code can make:
    generator error (`ValueError` for a start outside the grid, …) or draws exhausted; the
    `assert grid_shape[0] > 1 and grid_shape[1] > 1` of `generate_random_path` (lattice_maze.py:423-425); no observation
    left; endpoint draws out of range; `solveItem` error (illegal endpoint choice, solver `ValueError`, illegal pick). -/
def serialItem (cfg : DatasetCfg) (genFuel solveFuel : Nat) (st : Streams) : Option (Item × Streams) :=
  match genMaze cfg.rows cfg.cols cfg.gen st.draws st.rands genFuel with
  | none => none
  | some m =>
    if 1 < cfg.rows ∧ 1 < cfg.cols then
      match st.obs with
      | [] => none
      | ob :: obs' =>
        match endpointDraws cfg.rows cfg.cols m.edges m.comp cfg.opts ob.s m.draws with
        | none => none
        | some d' =>
          match solveItem cfg.rows cfg.cols m.edges m.comp cfg.opts ob.s ob.e ob.picks solveFuel with
          | .ok sol => some ({ edges := m.edges, comp := m.comp, s := ob.s, e := ob.e, sol := sol },
                             { draws := d', rands := m.rands, obs := obs' })
          | .error _ => none
    else none

/-- `list(map(_generate_maze_helper, range(n)))` on ONE stream: item `i` starts on what items `0..i-1` left.
    Returns the items in index order and the leftover streams; `none` as soon as one call fails (the exception
    propagates out of `generate`, no dataset is produced). -/
def generateSerial (cfg : DatasetCfg) (genFuel solveFuel : Nat) : Nat → Streams → Option (List Item × Streams)
  | 0, st => some ([], st)
  | n + 1, st =>
    match serialItem cfg genFuel solveFuel st with
    | none => none
    | some (it, st') =>
      match generateSerial cfg genFuel solveFuel n st' with
      | none => none
      | some (its, st'') => some (it :: its, st'')

end MZ
