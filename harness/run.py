#!/venv/bin/python
"""./check <Cxx> [--tier quick|thorough] [--replay file]  — see harness/common.py for the pipeline."""
from __future__ import annotations
import argparse, importlib, json, os, random, shutil, sys, time, traceback, warnings
from pathlib import Path
warnings.filterwarnings("ignore")
sys.path.insert(0, str(Path(__file__).resolve().parent))
import common as C
sys.path.insert(0, str(C.REPO))

LEVEL = "proof"


def main() -> int:
    if os.environ.get("VERIF_TRACE_AFTER"):
        import faulthandler
        faulthandler.dump_traceback_later(int(os.environ["VERIF_TRACE_AFTER"]), repeat=True)
    ap = argparse.ArgumentParser()
    ap.add_argument("pid")
    ap.add_argument("--tier", default=os.environ.get("VERIF_TIER", "quick"), choices=["quick", "thorough"])
    ap.add_argument("--replay", default=None)
    ap.add_argument("--no-build", action="store_true")
    a = ap.parse_args()
    pid, tier = a.pid, a.tier
    seed = int(os.environ.get("VERIF_SEED", "0") or 0)
    t0 = time.time()
    work = C.VERIF / ".work" / f"{pid}_{os.getpid()}"
    work.mkdir(parents=True, exist_ok=True)
    ev_path = C.VERIF / "evidence" / f"{pid}.json"
    if str(C.REPO) != "/repo":   # a run against a scratch worktree (seeded-change testing) must not overwrite the committed evidence
        ev_path = C.VERIF / ".work" / "scratch_evidence" / f"{pid}.json"
    ev_path.parent.mkdir(parents=True, exist_ok=True)
    broken: list[str] = []      # proof obligations / correspondences that no longer check
    infra_error = None
    ctx = C.Ctx(pid=pid, tier=tier, seed=seed, workdir=work, driver=C.Driver(work), rng=random.Random(f"{pid}:{seed}"))
    aud = dict(names=[], examples=0, axioms={}, bad=[])
    try:
        mod = importlib.import_module(pid.lower())
        C.prepare_scratch_lean()
        # ---- 1. translate + build -------------------------------------------------------------
        with C.BuildLock():
            ok_t, log_t = C.translate()
            if not ok_t:
                broken.append("translator failed on the current source: " + log_t[-1500:])
            ok_d, log_d = C.lake_build(["mzdriver"])
            if not ok_d:
                broken.append("model/driver does not build: " + log_d[-3000:])
            ok_b, log_b = C.lake_build([f"MazeVerif.Props.{pid}"])
            if not ok_b:
                broken.append(f"proof obligations of MazeVerif.Props.{pid} do not check: " + "\n".join(
                    l for l in log_b.split("\n") if "error" in l.lower())[:3000])
        # ---- 2. hygiene + axiom audit --------------------------------------------------------
        hy = C.hygiene()
        if hy:
            broken.append("forbidden construct in Lean sources: " + "; ".join(hy[:10]))
        if ok_b:
            aud = C.audit(pid, work)
            for b in aud["bad"]:
                broken.append("audit: " + b)
            if tier == "thorough" and not a.replay:
                ok_l, log_l, n_l = C.leancheck(pid)
                ctx.notes.append(f"leanchecker re-checked {n_l} compiled modules (Props.{pid} and everything of this library it imports): {'ok' if ok_l else 'FAILED'}")
                if not ok_l:
                    broken.append("leanchecker rejects a compiled module: " + log_l)
        else:
            names, ex = C.registry(pid)
            aud = dict(names=names, examples=ex, axioms={}, bad=["build failed"])
        # ---- 3. correspondence + oracles on the real code -----------------------------------
        if a.replay:
            mod.replay(ctx, json.loads(Path(a.replay).read_text()))
        elif ok_d:
            mod.run(ctx)
        else:
            ctx.notes.append("driver unavailable: only the implementation-side oracles ran")
            if hasattr(mod, "search"):
                mod.search(ctx)
        for d in ctx.disagreements[:50]:
            broken.append("correspondence: " + d["what"])
        # ---- 3b. the anchored source changed since the model was last validated: look harder (never a verdict by itself) ----
        import fingerprint
        src_changed = fingerprint.changed_for(pid, C.REPO)
        if src_changed and not broken and not ctx.violations and hasattr(mod, "search") and ok_d and not a.replay:
            ctx.notes.append(f"code of {src_changed} differs from the recorded fingerprint (harness/fingerprints.json): running the failing-input search as well")
            mod.search(ctx)
        # ---- 4. failing-input search when something broke and no concrete violation yet -----
        if broken and not ctx.violations and hasattr(mod, "search") and ok_d:
            ctx.notes.append("obligation/correspondence broken -> failing-input search on the real code")
            mod.search(ctx)
    except Exception as e:
        tb_files = [f.filename for f in traceback.extract_tb(e.__traceback__)]
        if any(str(C.REPO) in fn for fn in tb_files) and str(C.REPO) in tb_files[-1] + " ".join(tb_files[-3:]):
            # the exception was raised INSIDE the code under test on an input the harness generated (this never happens on the tree the
            # harness was validated on): the correspondence is broken at that call; not an infrastructure failure
            where = [f for f in traceback.extract_tb(e.__traceback__) if str(C.REPO) in f.filename][-1]
            broken.append(f"correspondence: the code under test raised {type(e).__name__}: {str(e)[:200]} at {where.filename.replace(str(C.REPO) + '/', '')}:{where.lineno} "
                          f"({where.name}) during the check, on an input the harness generates for the unchanged code without error; "
                          + "".join(traceback.format_exception(e))[-1200:])
            try:
                if not ctx.violations and hasattr(mod, "search"):
                    mod.search(ctx)
            except Exception as e2:
                ctx.notes.append(f"failing-input search also stopped with {type(e2).__name__}: {str(e2)[:200]}")
        else:  # infrastructure failure, not a verdict
            infra_error = "".join(traceback.format_exception(e))[-4000:]

    # ---- 5. verdict ---------------------------------------------------------------------------
    known = [k for k in C.load_known_findings() if k["property"] == pid and k["kind"] == "finding"]
    known_keys = {k["key"]: k for k in known}
    new_viol, seen_known = [], {}
    for v in ctx.violations:
        if v["key"] in known_keys:
            seen_known.setdefault(v["key"], v)
        else:
            new_viol.append(v)
    out_lines = []
    for k, v in seen_known.items():
        out_lines.append(f"KNOWN-FINDING: property={pid} key={k} {known_keys[k]['text']} (reproduced: {v['what'][:160]})")
    exit_code = 0
    if new_viol:
        v = new_viol[0]
        rp = C.write_replay(pid, f"violation_{tier}_{seed}.json", dict(property=pid, kind="concrete-failing-input", what=v["what"],
                            case=C.jsonable(v["case"]), others=len(new_viol) - 1, broken_obligations=broken[:20],
                            rerun=f"./check {pid} --replay replays/{pid}/violation_{tier}_{seed}.json"))
        out_lines.append(f"VIOLATION property={pid} replay={rp}")
        exit_code = 1
    elif broken:
        rp = C.write_replay(pid, f"broken_{tier}_{seed}.json", dict(property=pid, kind="obligation-or-correspondence-broken",
                            broken=broken[:50], first_disagreements=C.jsonable(ctx.disagreements[:5]),
                            search=ctx.notes, evaluations=ctx.evaluations))
        out_lines.append(f"VIOLATION property={pid} replay={rp} no-failing-input-found")
        exit_code = 1
    if infra_error and exit_code == 0:
        print("INFRASTRUCTURE ERROR\n" + infra_error, file=sys.stderr)
        exit_code = 2

    # ---- 6. evidence --------------------------------------------------------------------------
    n_obl = len(aud["names"]) + aud["examples"]
    n_dis = (len([n for n in aud["names"] if n in aud["axioms"] and not any(b.startswith(n + ":") for b in aud["bad"])]) + aud["examples"]) if not any("do not check" in b or "build failed" in b for b in broken + aud["bad"]) else 0
    assumptions = list(getattr(sys.modules.get(pid.lower()), "ASSUMPTIONS", []))
    ev = dict(
        property_id=pid, tier=tier, seed=seed, level=LEVEL, wall_s=round(time.time() - t0, 2),
        violations=len(new_viol) + (1 if (broken and not new_viol) else 0),
        coverage=dict(
            obligations=max(n_obl, 1), discharged=n_dis,
            checker_cmd=f"cd lean && lake build MazeVerif.Props.{pid} mzdriver && lake env lean <generated #print axioms file for {len(aud['names'])} theorems>",
            trusted_base=["Lean 4.33 kernel", "axioms: " + ", ".join(sorted({x for v in aud["axioms"].values() for x in v}) or ["none"]),
                          "harness/translate.py + correspondence harness harness/%s.py (model validated against the code, not verified)" % pid.lower()]
                         + list(getattr(sys.modules.get(pid.lower()), "TRUSTED", [])),
            theorems=aud["names"], axioms_by_theorem=aud["axioms"], nonvacuity_examples=aud["examples"],
            evaluations=ctx.evaluations, distinct_nontrivial=len(ctx.nontrivial),
            rule=getattr(sys.modules.get(pid.lower()), "RULE", ""),
            traces_validated_against_impl=ctx.traces_validated,
            samples=C.jsonable(ctx.samples) or [{"note": "no sample recorded"}],
            input_distribution=ctx.histogram, exhaustive=ctx.exhaustive,
            correspondence_disagreements=len(ctx.disagreements), broken_obligations=broken[:20],
            known_findings_reproduced=sorted(seen_known), notes=ctx.notes, **ctx.extra),
        assumptions=assumptions)
    ev_path.write_text(json.dumps(ev, indent=1, default=str))
    shutil.rmtree(work, ignore_errors=True)
    for l in out_lines:
        print(l)
    print(f"[{pid}] tier={tier} seed={seed} obligations={n_obl} discharged={n_dis} evaluations={ctx.evaluations} "
          f"distinct_nontrivial={len(ctx.nontrivial)} disagreements={len(ctx.disagreements)} violations={len(new_viol)} "
          f"broken={len(broken)} wall={time.time()-t0:.1f}s exit={exit_code}")
    return exit_code


if __name__ == "__main__":
    sys.exit(main())
