import MazeVerif.Model.LegacyTok
/-! Lemmas for C07: Python string idioms on `List Char`, the scanner, the coordinate codec. Core Lean only. -/
namespace MZ.LT
open MZ.Gen.LT

/-! ### characters -/
theorem digit_ne {c d : Char} (h : c.isDigit = true) (hd : d.isDigit = false) : c ≠ d := by
  rintro rfl; simp [h] at hd

theorem isSpace_digit {c : Char} (h : c.isDigit = true) : isSpace c = false := by
  have h1 := digit_ne h (d := ' ') (by decide)
  have h2 := digit_ne h (d := '\t') (by decide)
  have h3 := digit_ne h (d := '\n') (by decide)
  have h4 := digit_ne h (d := '\r') (by decide)
  have h5 := digit_ne h (d := Char.ofNat 11) (by decide)
  have h6 := digit_ne h (d := Char.ofNat 12) (by decide)
  have h7 := digit_ne h (d := Char.ofNat 28) (by decide)
  have h8 := digit_ne h (d := Char.ofNat 29) (by decide)
  have h9 := digit_ne h (d := Char.ofNat 30) (by decide)
  have h10 := digit_ne h (d := Char.ofNat 31) (by decide)
  simp [isSpace, h1, h2, h3, h4, h5, h6, h7, h8, h9, h10]

theorem showNat_digit {n : Nat} {c : Char} (h : c ∈ showNat n) : c.isDigit = true :=
  Nat.isDigit_of_mem_toDigits (by decide) (by decide) h

theorem showNat_ne_nil (n : Nat) : showNat n ≠ [] := Nat.toDigits_ne_nil

theorem parse_show (n : Nat) : parseNat (showNat n) = n := Nat.ofDigitChars_ten_toDigits

theorem isDigitStr_showNat (n : Nat) : isDigitStr (showNat n) = true := by
  unfold isDigitStr
  have h1 : (showNat n).isEmpty = false := by
    cases h : showNat n with
    | nil => exact absurd h (showNat_ne_nil n)
    | cons _ _ => rfl
  rw [h1]
  simp only [Bool.not_false, Bool.true_and, List.all_eq_true]
  intro c hc; exact showNat_digit hc

/-! ### strip / split -/
theorem lstripP_append_of_all {p : Char → Bool} {a b : Str} (h : ∀ x ∈ a, p x = true) :
    lstripP p (a ++ b) = lstripP p b := by
  induction a with
  | nil => rfl
  | cons x xs ih =>
    have hx := h x (by simp)
    simp only [lstripP, List.cons_append, List.dropWhile_cons, hx, if_true]
    exact ih (fun y hy => h y (by simp [hy]))

theorem lstripP_of_head {p : Char → Bool} {s : Str} {a : Char} (h : s.head? = some a) (ha : p a = false) :
    lstripP p s = s := by
  cases s with
  | nil => rfl
  | cons x xs =>
    simp only [List.head?_cons, Option.some.injEq] at h; subst h
    simp [lstripP, List.dropWhile_cons, ha]

theorem rstripP_append_of_all {p : Char → Bool} {a b : Str} (h : ∀ x ∈ a, p x = true) :
    rstripP p (b ++ a) = rstripP p b := by
  unfold rstripP
  rw [List.reverse_append]
  have := lstripP_append_of_all (p := p) (a := a.reverse) (b := b.reverse) (fun x hx => h x (by simpa using hx))
  unfold lstripP at this
  rw [this]

theorem rstripP_of_last {p : Char → Bool} {s : Str} {b : Char} (h : s.getLast? = some b) (hb : p b = false) :
    rstripP p s = s := by
  unfold rstripP
  have h' : s.reverse.head? = some b := by rw [List.head?_reverse]; exact h
  have := lstripP_of_head (p := p) h' hb
  unfold lstripP at this
  rw [this, List.reverse_reverse]

/-- padding by whitespace is removed, nothing else, when the core starts and ends with non-space characters -/
theorem strip_pad {sp d sp' : Str} {a b : Char} (h1 : ∀ x ∈ sp, isSpace x = true) (h2 : ∀ x ∈ sp', isSpace x = true)
    (ha : d.head? = some a) (hb : d.getLast? = some b) (hsa : isSpace a = false) (hsb : isSpace b = false) :
    strip (sp ++ d ++ sp') = d := by
  unfold strip
  rw [List.append_assoc, lstripP_append_of_all h1]
  have hd : (d ++ sp').head? = some a := by
    cases d with
    | nil => simp at ha
    | cons x xs => simpa using ha
  rw [lstripP_of_head hd hsa, rstripP_append_of_all h2, rstripP_of_last hb hsb]

theorem strip_self {d : Str} {a b : Char} (ha : d.head? = some a) (hb : d.getLast? = some b)
    (hsa : isSpace a = false) (hsb : isSpace b = false) : strip d = d := by
  have := strip_pad (sp := []) (sp' := []) (d := d) (by simp) (by simp) ha hb hsa hsb
  simpa using this

theorem splitListAux_stop {α} [DecidableEq α] {sep : α} {w : List α} (acc rest : List α) (h : sep ∉ w) :
    splitListAux sep acc (w ++ sep :: rest) = (acc ++ w) :: splitListAux sep [] rest := by
  induction w generalizing acc with
  | nil => simp [splitListAux]
  | cons x xs ih =>
    have hx : x ≠ sep := by intro e; exact h (by simp [e])
    have hxs : sep ∉ xs := by intro e; exact h (by simp [e])
    simp only [List.cons_append, splitListAux, hx, if_false]
    rw [ih _ hxs]; simp

theorem splitListAux_end {α} [DecidableEq α] {sep : α} {w : List α} (acc : List α) (h : sep ∉ w) :
    splitListAux sep acc w = [acc ++ w] := by
  induction w generalizing acc with
  | nil => simp [splitListAux]
  | cons x xs ih =>
    have hx : x ≠ sep := by intro e; exact h (by simp [e])
    have hxs : sep ∉ xs := by intro e; exact h (by simp [e])
    simp only [splitListAux, hx, if_false]
    rw [ih _ hxs]; simp

/-! ### nonempty digit strings -/
theorem digits_ends {d : Str} (hne : d ≠ []) (hd : ∀ c ∈ d, c.isDigit = true) :
    ∃ a b, d.head? = some a ∧ d.getLast? = some b ∧ a.isDigit = true ∧ b.isDigit = true := by
  cases hh : d.head? with
  | none => simp [List.head?_eq_none_iff] at hh; exact absurd hh hne
  | some a =>
    cases hl : d.getLast? with
    | none => simp [List.getLast?_eq_none_iff] at hl; exact absurd hl hne
    | some b =>
      exact ⟨a, b, rfl, rfl, hd a (List.mem_of_mem_head? hh), hd b (List.mem_of_mem_getLast? hl)⟩

/-! ### the coordinate codec: `coord_str_to_tuple_noneable` on a rendered coordinate, with optional blank padding -/
def AllSp (s : Str) : Prop := ∀ x ∈ s, x = ' '

theorem AllSp.isSpace {s : Str} (h : AllSp s) : ∀ x ∈ s, isSpace x = true := by
  intro x hx; rw [h x hx]; decide

/-- the rendered coordinate `( r , c )` with arbitrary blank padding around the numbers -/
def paddedCoord (sp1 sp2 sp3 sp4 : Str) (r c : Nat) : Str :=
  '(' :: (sp1 ++ showNat r ++ sp2 ++ ',' :: (sp3 ++ showNat c ++ sp4)) ++ [')']

theorem inner_clean {sp1 sp2 sp3 sp4 : Str} {r c : Nat} (h1 : AllSp sp1) (h2 : AllSp sp2) (h3 : AllSp sp3) (h4 : AllSp sp4)
    (q : Char) (hq1 : q ≠ ' ') (hq2 : q ≠ ',') (hq3 : q.isDigit = false) :
    q ∉ (sp1 ++ showNat r ++ sp2 ++ ',' :: (sp3 ++ showNat c ++ sp4)) := by
  intro hm
  simp only [List.mem_append, List.mem_cons] at hm
  rcases hm with ((hm | hm) | hm) | hm | (hm | hm) | hm
  · exact hq1 (h1 _ hm)
  · exact digit_ne (showNat_digit hm) hq3 rfl
  · exact hq1 (h2 _ hm)
  · exact hq2 hm
  · exact hq1 (h3 _ hm)
  · exact digit_ne (showNat_digit hm) hq3 rfl
  · exact hq1 (h4 _ hm)

theorem padded_last {sp1 sp2 sp3 sp4 : Str} {r c : Nat} : (paddedCoord sp1 sp2 sp3 sp4 r c).getLast? = some ')' := by
  unfold paddedCoord
  rw [← List.cons_append]; exact List.getLast?_concat

theorem coordParts_padded {sp1 sp2 sp3 sp4 : Str} (r c : Nat) (h1 : AllSp sp1) (h2 : AllSp sp2) (h3 : AllSp sp3) (h4 : AllSp sp4) :
    strip (paddedCoord sp1 sp2 sp3 sp4 r c) = paddedCoord sp1 sp2 sp3 sp4 r c ∧
    coordParts (paddedCoord sp1 sp2 sp3 sp4 r c) = [showNat r, showNat c] := by
  obtain ⟨ar, br, har, hbr, dar, dbr⟩ := digits_ends (showNat_ne_nil r) (fun _ h => showNat_digit h)
  obtain ⟨ac, bc, hac, hbc, dac, dbc⟩ := digits_ends (showNat_ne_nil c) (fun _ h => showNat_digit h)
  let inner : Str := sp1 ++ showNat r ++ sp2 ++ ',' :: (sp3 ++ showNat c ++ sp4)
  have hstrip : strip (paddedCoord sp1 sp2 sp3 sp4 r c) = paddedCoord sp1 sp2 sp3 sp4 r c := by
    apply strip_self (a := '(') (b := ')')
    · simp [paddedCoord]
    · exact padded_last
    · decide
    · decide
  refine ⟨hstrip, ?_⟩
  unfold coordParts
  rw [hstrip]
  -- lstrip "("
  have hopen : '(' ∉ inner := inner_clean h1 h2 h3 h4 '(' (by decide) (by decide) (by decide)
  have hclose : ')' ∉ inner := inner_clean h1 h2 h3 h4 ')' (by decide) (by decide) (by decide)
  have hinner_ne : inner ≠ [] := by simp [inner]
  have e1 : lstripP (· == '(') (paddedCoord sp1 sp2 sp3 sp4 r c) = inner ++ [')'] := by
    show lstripP (· == '(') ('(' :: (inner ++ [')'])) = inner ++ [')']
    have : lstripP (· == '(') ('(' :: (inner ++ [')'])) = lstripP (· == '(') (inner ++ [')']) := by
      simp [lstripP, List.dropWhile_cons]
    rw [this]
    cases hi : inner with
    | nil => exact absurd hi hinner_ne
    | cons x xs =>
      have hx : x ≠ '(' := by intro e; exact hopen (by rw [hi, e]; simp)
      exact lstripP_of_head (a := x) (by simp) (by simpa using hx)
  rw [e1]
  have e2 : rstripP (· == ')') (inner ++ [')']) = inner := by
    rw [rstripP_append_of_all (by simp)]
    cases hl : inner.getLast? with
    | none => simp [List.getLast?_eq_none_iff] at hl; exact absurd hl hinner_ne
    | some b =>
      have hb : b ≠ ')' := by intro e; exact hclose (by rw [← e]; exact List.mem_of_mem_getLast? hl)
      exact rstripP_of_last hl (by simpa using hb)
  rw [e2]
  -- strip inner
  have e3 : strip inner = showNat r ++ sp2 ++ ',' :: (sp3 ++ showNat c) := by
    have : inner = sp1 ++ (showNat r ++ sp2 ++ ',' :: (sp3 ++ showNat c)) ++ sp4 := by simp [inner]
    rw [this]
    apply strip_pad (a := ar) (b := bc) h1.isSpace h4.isSpace
    · cases hs : showNat r with
      | nil => exact absurd hs (showNat_ne_nil r)
      | cons x xs => rw [hs] at har; simpa using har
    · have hne : showNat c ≠ [] := showNat_ne_nil c
      rw [show showNat r ++ sp2 ++ ',' :: (sp3 ++ showNat c) = (showNat r ++ sp2 ++ ',' :: sp3) ++ showNat c by simp]
      rw [List.getLast?_append]
      rw [hbc]; rfl
    · exact isSpace_digit dar
    · exact isSpace_digit dbc
  rw [e3]
  have hcomma1 : ',' ∉ showNat r ++ sp2 := by
    intro hm; simp only [List.mem_append] at hm
    rcases hm with hm | hm
    · exact digit_ne (showNat_digit hm) (by decide) rfl
    · exact absurd (h2 _ hm) (by decide)
  have hcomma2 : ',' ∉ sp3 ++ showNat c := by
    intro hm; simp only [List.mem_append] at hm
    rcases hm with hm | hm
    · exact absurd (h3 _ hm) (by decide)
    · exact digit_ne (showNat_digit hm) (by decide) rfl
  unfold splitList
  rw [splitListAux_stop [] _ hcomma1, splitListAux_end [] hcomma2]
  simp only [List.nil_append, List.map_cons, List.map_nil]
  have s1 : strip (showNat r ++ sp2) = showNat r := by
    have := strip_pad (sp := []) (d := showNat r) (sp' := sp2) (by simp) h2.isSpace har hbr (isSpace_digit dar) (isSpace_digit dbr)
    simpa using this
  have s2 : strip (sp3 ++ showNat c) = showNat c := by
    have := strip_pad (sp := sp3) (d := showNat c) (sp' := []) h3.isSpace (by simp) hac hbc (isSpace_digit dac) (isSpace_digit dbc)
    simpa using this
  rw [s1, s2]

theorem coordNoneable_padded {sp1 sp2 sp3 sp4 : Str} (r c : Nat) (h1 : AllSp sp1) (h2 : AllSp sp2) (h3 : AllSp sp3) (h4 : AllSp sp4) :
    coordNoneable (paddedCoord sp1 sp2 sp3 sp4 r c) = some [r, c] := by
  obtain ⟨hs, hp⟩ := coordParts_padded r c h1 h2 h3 h4
  have hic : strIsCoord (paddedCoord sp1 sp2 sp3 sp4 r c) = true := by
    unfold strIsCoord
    simp only [hs, hp]
    have a1 : (paddedCoord sp1 sp2 sp3 sp4 r c).head? = some '(' := by simp [paddedCoord]
    have a2 : (paddedCoord sp1 sp2 sp3 sp4 r c).getLast? = some ')' := padded_last
    have a3 : ',' ∈ paddedCoord sp1 sp2 sp3 sp4 r c := by simp [paddedCoord]
    simp [a1, a2, a3, isDigitStr_showNat]
  unfold coordNoneable
  rw [hic]
  simp [coordStrToTuple, hp, parse_show]

/-- a token that cannot be a coordinate: its first character is neither blank nor `(` -/
theorem strIsCoord_of_head {s : Str} {a : Char} (h : s.head? = some a) (hs : isSpace a = false) (ha : a ≠ '(') :
    strIsCoord s = false := by
  have : (strip s).head? = some a := by
    unfold strip
    rw [lstripP_of_head h hs]
    cases s with
    | nil => simp at h
    | cons x xs =>
      simp only [List.head?_cons, Option.some.injEq] at h; subst h
      unfold rstripP
      -- the first character survives `rstrip` because it is not a space
      have : ∀ (l : Str), (((x :: l).reverse.dropWhile isSpace).reverse).head? = some x := by
        intro l
        rw [List.reverse_cons, List.dropWhile_append]
        have hx : [x].dropWhile isSpace = [x] := by simp [List.dropWhile_cons, hs]
        split
        · rw [hx]; rfl
        · simp
      exact this xs
  unfold strIsCoord
  simp [this, ha]

theorem coordNoneable_of_head {s : Str} {a : Char} (h : s.head? = some a) (hs : isSpace a = false) (ha : a ≠ '(') :
    coordNoneable s = none := by
  unfold coordNoneable; rw [strIsCoord_of_head h hs ha]; rfl

end MZ.LT
