/-! # Model of `maze_dataset.utils.all_instances` and of tokenizer identification (property C15)

Mirrors, line by line:
* `utils.py:315-399` `all_instances` (bool / dataclass abstract / dataclass concrete / tuple / Union / Literal),
  wrapped by `_all_instances_wrapper` + `_apply_validation_func` (`utils.py:232-312`): the result of EVERY
  recursive call is filtered by the validation function found for that type (exact key, else first hit in
  `__mro__` order). In the model each `Ty` node carries the *resolved* predicate `p` (the translator resolves
  the lookup per node; `bool`, `Literal` and `tuple[...]` nodes carry none because no key of
  `MAZE_TOKENIZER_MODULAR_DEFAULT_VALIDATION_FUNCS` can hit them — the translator checks that).
* `maze_tokenizer.py:476-498` `_TokenizerElement._stringify` / `.name`, `:1983-1986` `MazeTokenizerModular.name`.
* `maze_tokenizer.py:516-522,1925-1934` `__hash__` / `hash_int` (blake2b of the name: a parameter).
* `maze_tokenizer.py:713-726` `_load_tokenizer_element` and muutils' `serialize` (scheme only).
* `maze_tokenizer.py:2039-2046,2087-2101` `is_legacy_equivalent` / `from_legacy`.

Core Lean only (the driver links this file). -/
namespace MZ.AI

/-- a `Literal[...]` argument -/
inductive Atom where
  | str (s : String)
  | int (i : Int)
deriving DecidableEq, Repr, Inhabited

/-- run-time values: `obj cls fs` is an instance of the dataclass with `__qualname__ = cls` whose
    `__dataclass_fields__` (in order, `_type_` included) hold `fs`. -/
inductive Val where
  | b (v : Bool)
  | lit (a : Atom)
  | tup (vs : List Val)
  | obj (cls : String) (fs : List Val)
deriving Repr, Inhabited

mutual
def Val.decEq : (x y : Val) → Decidable (x = y)
  | .b x, .b y => if h : x = y then isTrue (by rw [h]) else isFalse (by intro e; cases e; exact h rfl)
  | .lit x, .lit y => if h : x = y then isTrue (by rw [h]) else isFalse (by intro e; cases e; exact h rfl)
  | .tup xs, .tup ys => match Val.decEqL xs ys with
    | isTrue h => isTrue (by rw [h])
    | isFalse h => isFalse (by intro e; cases e; exact h rfl)
  | .obj c xs, .obj d ys =>
    if hc : c = d then
      match Val.decEqL xs ys with
      | isTrue h => isTrue (by rw [h, hc])
      | isFalse h => isFalse (by intro e; cases e; exact h rfl)
    else isFalse (by intro e; cases e; exact hc rfl)
  | .b _, .lit _ | .b _, .tup _ | .b _, .obj _ _ | .lit _, .b _ | .lit _, .tup _ | .lit _, .obj _ _
  | .tup _, .b _ | .tup _, .lit _ | .tup _, .obj _ _ | .obj _ _, .b _ | .obj _ _, .lit _ | .obj _ _, .tup _ =>
    isFalse (by intro e; cases e)
def Val.decEqL : (xs ys : List Val) → Decidable (xs = ys)
  | [], [] => isTrue rfl
  | [], _ :: _ => isFalse (by intro e; cases e)
  | _ :: _, [] => isFalse (by intro e; cases e)
  | x :: xs, y :: ys => match Val.decEq x y with
    | isTrue h => match Val.decEqL xs ys with
      | isTrue h2 => isTrue (by rw [h, h2])
      | isFalse h2 => isFalse (by intro e; cases e; exact h2 rfl)
    | isFalse h => isFalse (by intro e; cases e; exact h rfl)
end
instance : DecidableEq Val := Val.decEq

/-- finite-valued types as `all_instances` sees them. `p` = the validation function `_apply_validation_func`
    resolves for that node (`fun _ => true` when the lookup finds nothing). -/
inductive Ty where
  | bool
  | lit (vals : List Atom)
  | tuple (ts : List Ty)
  | union (p : Val → Bool) (ts : List Ty)
  | data (name : String) (p : Val → Bool) (fields : List Ty)
  | abstr (p : Val → Bool) (subs : List Ty)

/-- `itertools.product(*ls)`: first component varies slowest -/
def product : List (List Val) → List (List Val)
  | [] => [[]]
  | xs :: rest => xs.flatMap fun x => (product rest).map fun tl => x :: tl

mutual
/-- `all_instances(type_, validation_funcs)` after the wrapper's filter -/
def allInstances : Ty → List Val
  | .bool => [.b true, .b false]                                            -- utils.py:345-346
  | .lit vals => vals.map .lit                                               -- :392-394
  | .tuple ts => (product (allList ts)).map .tup                             -- :371-384
  | .union p ts => (concatList ts).filter p                                  -- :385-391 + filter by exact key
  | .data name p fields => ((product (allList fields)).map (.obj name)).filter p   -- :357-370 + MRO filter
  | .abstr p subs => (concatList subs).filter p                              -- :348-356 + MRO filter
def allList : List Ty → List (List Val)
  | [] => []
  | t :: ts => allInstances t :: allList ts
def concatList : List Ty → List Val
  | [] => []
  | t :: ts => allInstances t ++ concatList ts
end

mutual
/-- decision procedure for membership in the enumeration (`Lemmas/TokName.lean`: `checkTy_sound`) -/
def checkTy : Ty → Val → Bool
  | .bool, .b _ => true
  | .lit vals, .lit a => vals.contains a
  | .tuple ts, .tup vs => checkTys ts vs
  | .union p ts, v => checkSome ts v && p v
  | .data name p fields, .obj n fs => n == name && checkTys fields fs && p (.obj n fs)
  | .abstr p subs, v => checkSome subs v && p v
  | _, _ => false
def checkTys : List Ty → List Val → Bool
  | [], [] => true
  | t :: ts, v :: vs => checkTy t v && checkTys ts vs
  | _, _ => false
def checkSome : List Ty → Val → Bool
  | [], _ => false
  | t :: ts, v => checkTy t v || checkSome ts v
end

/-! ## Validation predicates in tabulated form (what the translator emits) -/

/-- the shape of one `is_valid` implementation: constant, or a finite table over ONE field it reads -/
inductive LPred where
  | all
  | none
  | field (i : Nat) (ok : List Val)   -- field number `i` (dataclass order) must be one of `ok`
deriving Inhabited

def LPred.eval : LPred → Val → Bool
  | .all, _ => true
  | .none, _ => false
  | .field i ok, .obj _ fs => match fs[i]? with
    | some x => ok.contains x
    | Option.none => false
  | .field _ _, _ => false

/-- `lambda x: x.is_valid()` — dynamic dispatch on the concrete class of `x` -/
def dispatch (tbl : List (String × LPred)) : Val → Bool
  | .obj cls fs => match tbl.lookup cls with
    | some q => q.eval (.obj cls fs)
    | Option.none => false
  | _ => false

/-- a validation function given as the finite list of accepted values (used for the Union key) -/
def inTable (ok : List Val) (v : Val) : Bool := ok.contains v

/-! ## Names (`_stringify`, `name`) -/

def atomStr : Atom → String
  | .str s => s
  | .int i => toString i

/-- characters after the last '.' (structural, so that it evaluates in the kernel) -/
def lastSeg : List Char → List Char → List Char
  | [], acc => acc.reverse
  | c :: cs, acc => if c = '.' then lastSeg cs [] else lastSeg cs (c :: acc)

/-- characters before the first '(' -/
def headSeg : List Char → List Char
  | [] => []
  | c :: cs => if c = '(' then [] else c :: headSeg cs

/-- `type(self).__name__` from the qualified name -/
def shortName (q : String) : String := String.ofList (lastSeg q.toList [])

/-- `", ".join(parts)` on token lists -/
def sepBy : List (List String) → List String
  | [] => []
  | [x] => x
  | x :: y :: r => x ++ [", "] ++ sepBy (y :: r)

mutual
/-- token list of `_TokenizerElement.name` (`fn cls` = the keys of `self.__dict__`, i.e. the dataclass field names).
    For values that are not objects: `str(x)` as used for tuple members. -/
def nameToks (fn : String → List String) : Val → List String
  | .obj cls fs => [shortName cls, "("] ++ sepBy (fieldToks fn (fn cls) fs) ++ [")"]
  | .b x => [if x then "True" else "False"]
  | .lit a => [atomStr a]
  | .tup vs => ["("] ++ (tupToks fn vs).flatten ++ [")"]
/-- `[_stringify(k, v) for k, v in self.__dict__.items() if k != "_type_"]`, one token list per member -/
def fieldToks (fn : String → List String) : List String → List Val → List (List String)
  | k :: ks, v :: vs =>
    if k = "_type_" then fieldToks fn ks vs
    else (match v with
      | .b x => [k, "=", if x then "T" else "F"]
      | .obj cls fs => nameToks fn (.obj cls fs)
      | .tup xs => [k, "=", "("] ++ (tupToks fn xs).flatten ++ [")"]
      | .lit a => [k, "=", atomStr a]) :: fieldToks fn ks vs
  | _, _ => []
/-- `[str(x) + ", " for x in v]` -/
def tupToks (fn : String → List String) : List Val → List (List String)
  | [] => []
  | x :: xs => (nameToks fn x ++ [", "]) :: tupToks fn xs
end

/-- `_TokenizerElement.name`. (The `"." in output` branch of the real property can never fire: `__name__` has no dot
    and the first "(" directly follows it — the translator checks that no class name contains "." or "(".) -/
def elName (fn : String → List String) (v : Val) : String := String.join (nameToks fn v)

/-- `MazeTokenizerModular.name` = `"-".join([type(self).__name__, self.prompt_sequencer.name])` -/
def mtmName (fn : String → List String) : Val → Option String
  | .obj cls [ps] => some (shortName cls ++ "-" ++ elName fn ps)
  | _ => none

/-- `hash_int`: the external digest applied to the UTF-8 name -/
def hashInt (blake : String → Nat) (fn : String → List String) (v : Val) : Option Nat :=
  (mtmName fn v).map blake

/-- CPython's `hash()` of a non-negative int returned by `__hash__` (reduction modulo 2^61-1) -/
def pyHash (n : Nat) : Nat := n % (2 ^ 61 - 1)

/-! ## Serialization scheme (`serialize` of a `SerializableDataclass`, `_load_tokenizer_element`) -/

/-- `format.split("(")[0]` -/
def fmtHead (f : String) : String := String.ofList (headSeg f.toList)

/-- the `__format__` string muutils writes for a dataclass -/
def fmtOf (cls : String) : String := shortName cls ++ "(SerializableDataclass)"

inductive J where
  | bool (b : Bool)
  | str (s : String)
  | int (i : Int)
  | arr (xs : List J)
  | obj (kv : List (String × J))
deriving Inhabited

mutual
/-- `x.serialize()`: `__format__` first, then every dataclass field under its name; tuples become lists -/
def ser (fn : String → List String) : Val → J
  | .b x => .bool x
  | .lit (.str s) => .str s
  | .lit (.int i) => .int i
  | .tup vs => .arr (serL fn vs)
  | .obj cls fs => .obj (("__format__", .str (fmtOf cls)) :: serF fn (fn cls) fs)
def serL (fn : String → List String) : List Val → List J
  | [] => []
  | v :: vs => ser fn v :: serL fn vs
def serF (fn : String → List String) : List String → List Val → List (String × J)
  | k :: ks, v :: vs => (k, ser fn v) :: serF fn ks vs
  | _, _ => []
end

/-- keyword construction `cls(**kwargs)`: each declared field must be supplied -/
def pick : List String → List (String × Val) → Option (List Val)
  | [], _ => some []
  | k :: ks, kvs => match kvs.lookup k, pick ks kvs with
    | some v, some vs => some (v :: vs)
    | _, _ => none

mutual
/-- `load`: `cls_name = format.split("(")[0]`, `cls = getattr(namespace, cls_name)` (modelled by `resolve`, which
    returns the qualified name or fails), `kwargs = {k: load_item_recursive(v)}`, `cls(**kwargs)` (fields re-ordered
    to dataclass order by keyword); a JSON list becomes a tuple. -/
def load (resolve : String → Option String) (fn : String → List String) : J → Option Val
  | .bool x => some (.b x)
  | .str s => some (.lit (.str s))
  | .int i => some (.lit (.int i))
  | .arr xs => (loadL resolve fn xs).map .tup
  | .obj (("__format__", .str f) :: kv) =>
    match resolve (fmtHead f) with
    | some cls =>
      match loadF resolve fn kv with
      | some kvs => (pick (fn cls) kvs).map (.obj cls)
      | none => none
    | none => none
  | .obj _ => none
def loadL (resolve : String → Option String) (fn : String → List String) : List J → Option (List Val)
  | [] => some []
  | x :: xs => match load resolve fn x, loadL resolve fn xs with
    | some v, some vs => some (v :: vs)
    | _, _ => none
def loadF (resolve : String → Option String) (fn : String → List String) : List (String × J) → Option (List (String × Val))
  | [] => some []
  | (k, x) :: r => match load resolve fn x, loadF resolve fn r with
    | some v, some vs => some ((k, v) :: vs)
    | _, _ => none
end

/-! ## Legacy modes -/

/-- `is_legacy_equivalent`: `any(self == from_legacy(m) for m in TokenizationMode)` -/
def isLegacyEquivalent (fromLegacy : List (String × Val)) (v : Val) : Bool :=
  fromLegacy.any fun mv => decide (v = mv.2)

/-! ## helpers used by the driver -/

/-- polynomial fingerprint of a string list (order-sensitive), modulo the Mersenne prime 2^61-1 -/
def fingerprint (names : List String) : Nat :=
  names.foldl (fun acc s => (acc * 1000003 + s.foldl (fun h c => (h * 257 + c.toNat) % (2 ^ 61 - 1)) 7) % (2 ^ 61 - 1)) 0

end MZ.AI
