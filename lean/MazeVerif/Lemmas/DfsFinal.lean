import MazeVerif.Lemmas.DfsInv
import Batteries.Data.List.Perm
import Mathlib.Data.List.Nodup
namespace MZ

/-- frontier invariant, valid in "default mode": forks on, depth test never blocks -/
structure InvF (rows cols : Nat) (s : St) : Prop where
  frontier : ∀ c ∈ s.visited, cands rows cols s.visited c ≠ [] → c ∈ s.stack
  depth : s.depth ≤ s.visited.length

theorem cands_append_subset {rows cols vis cur nb x} (h : x ∈ cands rows cols (vis ++ [nb]) cur) :
    x ∈ cands rows cols vis cur ∧ x ≠ nb := by
  rw [mem_cands] at h ⊢
  obtain ⟨h1, h2, h3⟩ := h
  simp only [List.mem_append, List.mem_cons, List.not_mem_nil, or_false, not_or] at h2
  exact ⟨⟨h1, h2.1, h3⟩, h2.2⟩

theorem mem_eraseIdx_of_ne {l : List Cell} {i : Nat} {cur c : Cell} (hi : l[i]? = some cur) (hc : c ∈ l) (hne : c ≠ cur) :
    c ∈ l.eraseIdx i := by
  rw [List.mem_eraseIdx_iff_getElem?]
  obtain ⟨j, hj, hjc⟩ := List.getElem_of_mem hc
  refine ⟨j, ?_, by simp [hj, hjc]⟩
  intro hji; subst hji
  rw [List.getElem?_eq_getElem hj] at hi
  simp at hi; exact hne (by rw [← hjc, hi])

theorem nbrs_nodup (c : Cell) : (nbrs c).Nodup := by
  obtain ⟨a, b⟩ := c
  simp [nbrs]; omega

theorem cands_nodup {rows cols vis cur} : (cands rows cols vis cur).Nodup :=
  (nbrs_nodup cur).filter _

theorem InvF.step {rows cols a start s s'} (invT : InvT rows cols start s) (inv : InvF rows cols s)
    (hforks : a.doForks = true) (hdepth : 2 * (s.visited.length : Int) ≤ a.maxDepth)
    (h : Step rows cols a s s') : InvF rows cols s' := by
  cases h with
  | extend i cur nb rng' hcur hnb hd =>
    refine ⟨?_, by simp; have := inv.depth; omega⟩
    intro c hc hne
    simp only [List.mem_append, List.mem_cons, List.not_mem_nil, or_false] at hc ⊢
    rcases hc with hc | rfl
    · -- an old cell that still has an unvisited neighbour
      obtain ⟨x, hx⟩ := List.exists_mem_of_ne_nil _ hne
      obtain ⟨hxold, hxne⟩ := cands_append_subset hx
      have hcS : c ∈ s.stack := inv.frontier c hc (List.ne_nil_of_mem hxold)
      left
      by_cases hcc : c = cur
      · subst hcc
        -- cur had two distinct candidates nb and x, so it was pushed back
        have hlen : (cands rows cols s.visited c).length > 1 := by
          have hsub : List.Subperm [x, nb] (cands rows cols s.visited c) := by
            apply List.subperm_of_subset
            · simp [hxne]
            · intro y hy; simp at hy; rcases hy with rfl | rfl <;> assumption
          have := hsub.length_le; simp at this; omega
        simp [hforks, hlen]
      · have := mem_eraseIdx_of_ne hcur hcS hcc
        split
        · exact List.mem_append_left _ this
        · exact this
    · right; rfl
  | back i cur rng' hcur hwhy =>
    refine ⟨?_, by simp; have := inv.depth; omega⟩
    intro c hc hne
    have hcS : c ∈ s.stack := inv.frontier c hc hne
    have hcc : c ≠ cur := by
      rintro rfl
      rcases hwhy with h0 | h1
      · exact hne h0
      · have := inv.depth; apply h1; simp only at *; omega
    exact mem_eraseIdx_of_ne hcur hcS hcc

end MZ

namespace MZ

theorem mem_cells {rows cols : Nat} {c : Cell} : c ∈ cells rows cols ↔ inGrid rows cols c := by
  obtain ⟨a, b⟩ := c
  simp only [cells, List.mem_flatMap, List.mem_range, List.mem_map, Prod.mk.injEq, inGrid]
  constructor
  · rintro ⟨i, hi, j, hj, rfl, rfl⟩; omega
  · rintro ⟨h1, h2, h3, h4⟩
    exact ⟨a.toNat, by omega, b.toNat, by omega, by omega, by omega⟩

theorem cells_nodup (rows cols : Nat) : (cells rows cols).Nodup := by
  unfold cells
  rw [List.nodup_flatMap]
  refine ⟨fun i _ => List.Nodup.map (fun a b h => by simp at h; omega) List.nodup_range, ?_⟩
  refine List.Pairwise.imp_of_mem ?_ (List.nodup_range (n := rows))
  intro i j _ _ hij
  simp only [Function.onFun, List.disjoint_left, List.mem_map, List.mem_range]
  rintro c ⟨a, _, rfl⟩ ⟨b, _, hb⟩
  simp at hb; omega

theorem length_cells (rows cols : Nat) : (cells rows cols).length = rows * cols := by
  simp [cells, List.length_flatMap]

/-- a non-empty set of grid cells none of which has an in-grid neighbour outside the set is the whole grid -/
theorem closure {rows cols : Nat} {S : List Cell}
    (hclosed : ∀ c ∈ S, cands rows cols S c = []) :
    ∀ (n : Nat) (c t : Cell), c ∈ S → inGrid rows cols c → inGrid rows cols t →
      (t.1 - c.1).natAbs + (t.2 - c.2).natAbs = n → t ∈ S := by
  intro n
  induction n with
  | zero =>
    intro c t hc _ _ h
    have : t = c := by
      obtain ⟨t1, t2⟩ := t; obtain ⟨c1, c2⟩ := c
      simp only [Prod.mk.injEq] at *; omega
    exact this ▸ hc
  | succ n ih =>
    intro c t hc hgc hgt h
    obtain ⟨t1, t2⟩ := t; obtain ⟨c1, c2⟩ := c
    simp only [inGrid] at hgc hgt
    simp only at h
    -- pick a neighbour of c one step closer to t
    have key : ∀ c' : Cell, c' ∈ nbrs (c1, c2) → inGrid rows cols c' →
        (t1 - c'.1).natAbs + (t2 - c'.2).natAbs = n → (t1, t2) ∈ S := by
      intro c' hn hg hd
      have hc' : c' ∈ S := by
        by_cases hnot : c' ∈ S
        · exact hnot
        · have : c' ∈ cands rows cols S (c1, c2) := mem_cands.mpr ⟨hn, hnot, hg⟩
          rw [hclosed _ hc] at this; simp at this
      exact ih c' (t1, t2) hc' hg (by simp [inGrid]; omega) hd
    by_cases h1 : t2 > c2
    · exact key (c1, c2 + 1) (by simp [nbrs]) (by simp [inGrid]; omega) (by simp; omega)
    · by_cases h2 : t2 < c2
      · exact key (c1, c2 - 1) (by simp [nbrs]) (by simp [inGrid]; omega) (by simp; omega)
      · by_cases h3 : t1 > c1
        · exact key (c1 + 1, c2) (by simp [nbrs]) (by simp [inGrid]; omega) (by simp; omega)
        · exact key (c1 - 1, c2) (by simp [nbrs]) (by simp [inGrid]; omega) (by simp; omega)

theorem all_of_closed {rows cols : Nat} {S : List Cell} {c0 : Cell} (h0 : c0 ∈ S) (hg : inGrid rows cols c0)
    (hclosed : ∀ c ∈ S, cands rows cols S c = []) (t : Cell) (ht : inGrid rows cols t) : t ∈ S :=
  closure hclosed _ c0 t h0 hg ht rfl

/-- a duplicate-free list of grid cells that is at least as long as the grid has cells is the whole grid -/
theorem all_of_length {rows cols : Nat} {S : List Cell} (hnd : S.Nodup) (hgrid : ∀ c ∈ S, inGrid rows cols c) :
    S.length ≤ rows * cols ∧ (rows * cols ≤ S.length → ∀ t, inGrid rows cols t → t ∈ S) := by
  have hsub : List.Subperm S (cells rows cols) :=
    List.subperm_of_subset hnd (fun c hc => mem_cells.mpr (hgrid c hc))
  refine ⟨by simpa [length_cells] using hsub.length_le, ?_⟩
  intro hle t ht
  have hp := hsub.perm_of_length_le (by simpa [length_cells] using hle)
  exact hp.symm.subset (mem_cells.mpr ht)

def defaultArgs (rows cols : Nat) (rs : Bool) : Args :=
  { nAcc := rows * cols, maxDepth := 2 * ((rows * cols : Nat) : Int), doForks := true, randStack := rs }

theorem loop_inv {rows cols rs start} : ∀ (fuel : Nat) (s s' : St),
    InvT rows cols start s → InvF rows cols s →
    loop rows cols (defaultArgs rows cols rs) fuel s = some s' →
    InvT rows cols start s' ∧ InvF rows cols s' ∧ ¬ (s'.stack ≠ [] ∧ s'.visited.length < rows * cols) := by
  intro fuel
  induction fuel with
  | zero => intro s s' _ _ h; simp [loop] at h
  | succ fuel ih =>
    intro s s' hT hF h
    unfold loop at h
    split at h
    · next hcond =>
      split at h
      · next s1 hstep =>
        have hS := step_spec hstep
        have hlt : s.visited.length < rows * cols := by simpa [defaultArgs] using hcond.2
        exact ih s1 s' (hT.step hS) (hF.step hT rfl (by simp [defaultArgs]; omega) hS) h
      · simp at h
    · next hcond =>
      simp only [Option.some.injEq] at h; subst h
      exact ⟨hT, hF, by simpa [defaultArgs] using hcond⟩

/-- C01 (DFS half) in prototype form: default arguments, any start in the grid, any recorded draws, any fuel,
    plain or randomized stack: if the run completes, every grid cell is visited, the edges are duplicate-free,
    there are exactly rows*cols-1 of them, every edge joins two grid cells, and every cell is reachable from start. -/
theorem genDfs_default_spanning {rows cols : Nat} {rs : Bool} {start : Cell} {rng : List Nat} {fuel : Nat} {s : St}
    (hs : inGrid rows cols start)
    (h : genDfs rows cols (defaultArgs rows cols rs) start rng fuel = some s) :
    (∀ t, inGrid rows cols t → t ∈ s.visited ∧ Reach s.edges start t) ∧
    s.edges.Nodup ∧ s.edges.length + 1 = rows * cols ∧
    (∀ e ∈ s.edges, (e.1 = 0 ∨ e.1 = 1) ∧ inGrid rows cols (ends e).1 ∧ inGrid rows cols (ends e).2) := by
  obtain ⟨hT, hF, hexit⟩ := loop_inv fuel _ _ (InvT.init hs) ⟨by
      intro c hc _; simpa [init] using hc, by simp [init]⟩ h
  have hlen := all_of_length hT.nodup hT.grid
  have hall : ∀ t, inGrid rows cols t → t ∈ s.visited := by
    by_cases hst : s.stack = []
    · have hclosed : ∀ c ∈ s.visited, cands rows cols s.visited c = [] := by
        intro c hc
        by_cases hne : cands rows cols s.visited c = []
        · exact hne
        · have := hF.frontier c hc hne
          rw [hst] at this; simp at this
      have hstart : start ∈ s.visited := hT.hstart
      exact all_of_closed hstart hs hclosed
    · have : rows * cols ≤ s.visited.length := by
        have := hexit; simp only [not_and, Nat.not_lt] at this; exact this hst
      exact hlen.2 this
  refine ⟨fun t ht => ⟨hall t ht, hT.reach t (hall t ht)⟩, hT.enodup, ?_, ?_⟩
  · have := hT.len
    have h1 := hlen.1
    have h2 : rows * cols ≤ s.visited.length := by
      have hc := List.subperm_of_subset (l₁ := cells rows cols) (l₂ := s.visited) (cells_nodup rows cols)
        (fun c hc => hall c (mem_cells.mp hc))
      simpa [length_cells] using hc.length_le
    omega
  · intro e he
    exact ⟨hT.edim e he, hT.grid _ (hT.eends e he).1, hT.grid _ (hT.eends e he).2⟩

end MZ
