"""C06 — modular tokenization is a faithful, decodable encoding of the maze.

Correspondence: the real `MazeTokenizerModular.to_tokens` / region tokenizers vs. the Lean model `MZ.Tok.toTokens`,
`adjToks`, `pathToks` (driver ops C06.full / C06.adj / C06.path).  The driver *decodes the implementation's tokens* with the
Lean decoder, checks `ValidOrder` of the observed edge order (shuffles are permitted nondeterminism, handled relationally),
re-encodes with that order and the harness compares token for token; it also compares the Lean decoder's reading with the
specification record `info` and with the independent plain-Python decoder below.

Oracle (independent of the model, written from the property statement): `oracle_full`, `oracle_adj`, `oracle_path`."""
from __future__ import annotations
import itertools, random as pyrandom, warnings
from collections import Counter
import numpy as np

RULE = ("quick: every one of the 9 coordinate x 216 adjacency-list configurations on 2 untargeted mazes (4x4 cyclic, 3x3 tree) and every one of the "
        "9 x 1008 path configurations on 3 solved mazes (5x5; shortest solutions and one backtracking walk), exhaustively; plus 360 full "
        "tokenizers (every adjacency configuration and 360 seed-dependent path configurations, all 9 coordinate tokenizers, AOTP(post T/F)/AOP) "
        "x 6 mazes (untargeted/targeted/solved x tree/cyclic, grid 2..7), one 50x50 maze for the vocabulary edge and the 20x20 corridor of "
        "finding F4; thorough: the two sweeps on 12 mazes each (grid 2..9), 20000 sampled full tokenizers on grids 2..12 and 50x50/30x30 mazes. "
        "non-trivial = the region/sequence contains at least one edge resp. one step; distinct = distinct (configuration, maze) pair; later additions: maze.as_tokens(tokenizer) as well as tokenizer.to_tokens(maze), mazes without connections / full lattices / targeted mazes with start = end / integer-stored connection lists, one-cell and last-row solutions, churn of short-lived mazes, and every list returned by the element-level API edited in place by the caller before anything is tokenized")
ASSUMPTIONS = [
    "mazes are square (maze.grid_n is used by AllLatticeEdges), grid 2..50, connection_list has no True entry in the last row of dim 0 / last column of dim 1",
    "consecutive solution cells are lattice neighbours (solutions are walks along connections; SolvedMaze itself does not validate this)",
    "endpoints/solution coordinates are in the grid (non-negative)",
    "vocabulary clause: UT needs grid <= 50, CTT needs coordinates < 128, Distance needs every step <= 255 (violated by long corridors: known finding distance-step>255)",
]
TRUSTED = [
    "string <-> structured token conversion in the driver (Tok.ofStr / Tok.str): every implementation token is read and re-rendered, the strings are compared",
    "harness/translate_tok.py (vocabulary blocks, VOCAB fields referenced by name, CARDINAL_MAP resolved to tokens); the expanded Lean vocabulary is compared with VOCAB_LIST as a multiset on every run",
    "numpy_rng.permuted / numpy_rng.shuffle / random.shuffle are abstracted by the observed emission order constrained by ValidOrder",
    "the model covers the valid configuration space only (Ungrouped, pre=False, Singles/Forks): the harness checks that all_instances still yields 9/216/1008 region configurations",
]

F4_KEY = "distance-step>255"
CARD = {"NORTH": (-1, 0), "SOUTH": (1, 0), "EAST": (0, 1), "WEST": (0, -1)}
DELIMS = ["<ADJLIST_START>", "<ADJLIST_END>", "<ORIGIN_START>", "<ORIGIN_END>", "<TARGET_START>", "<TARGET_END>", "<PATH_START>", "<PATH_END>"]


class Bad(Exception):
    """the oracle found the token sequence does not encode the maze"""


def need(cond, msg):
    if not cond:
        raise Bad(msg)


# ------------------------------------------------------------------------------------------------
# real objects <-> JSON
# ------------------------------------------------------------------------------------------------
def _imports():
    from maze_dataset.tokenization import (CoordTokenizers, EdgeGroupings, EdgePermuters, EdgeSubsets, AdjListTokenizers, TargetTokenizers,
                                           StepSizes, StepTokenizers, PathTokenizers, PromptSequencers, MazeTokenizerModular)
    return dict(CoordTokenizers=CoordTokenizers, EdgeGroupings=EdgeGroupings, EdgePermuters=EdgePermuters, EdgeSubsets=EdgeSubsets,
                AdjListTokenizers=AdjListTokenizers, TargetTokenizers=TargetTokenizers, StepSizes=StepSizes, StepTokenizers=StepTokenizers,
                PathTokenizers=PathTokenizers, PromptSequencers=PromptSequencers, MazeTokenizerModular=MazeTokenizerModular)


class Unmodelled(Exception):
    pass


def ct_json(ct):
    n = type(ct).__name__
    if n == "UT": return dict(ut=True)
    if n == "CTT": return dict(pre=bool(ct.pre), intra=bool(ct.intra), post=bool(ct.post))
    raise Unmodelled(f"coord tokenizer {n}")


def adj_json(at):
    n = type(at).__name__
    if n not in ("AdjListCoord", "AdjListCardinal"): raise Unmodelled(f"adj list tokenizer {n}")
    g = at.edge_grouping
    if type(g).__name__ != "Ungrouped" or at.pre: raise Unmodelled(f"edge grouping {type(g).__name__} / pre={at.pre}")
    s = type(at.edge_subset).__name__
    if s == "AllLatticeEdges": sub = "all"
    elif s == "ConnectionEdges": sub = "walls" if at.edge_subset.walls else "conn"
    else: raise Unmodelled(f"edge subset {s}")
    p = {"SortedCoords": "sorted", "RandomCoords": "random", "BothCoords": "both"}.get(type(at.edge_permuter).__name__)
    if p is None: raise Unmodelled(f"edge permuter {type(at.edge_permuter).__name__}")
    return dict(cardinal=(n == "AdjListCardinal"), post=bool(at.post), shuffle=bool(at.shuffle_d0), ordinal=int(g.connection_token_ordinal),
                subset=sub, permuter=p)


def path_json(pt):
    if type(pt).__name__ != "StepSequence": raise Unmodelled(f"path tokenizer {type(pt).__name__}")
    ss = type(pt.step_size).__name__
    if ss not in ("Singles", "Forks"): raise Unmodelled(f"step size {ss}")
    names = []
    for s in pt.step_tokenizers:
        k = {"Coord": "coord", "Cardinal": "cardinal", "Relative": "relative", "Distance": "distance"}.get(type(s).__name__)
        if k is None: raise Unmodelled(f"step tokenizer {type(s).__name__}")
        names.append(k)
    return dict(forks=(ss == "Forks"), steps=names, pre=bool(pt.pre), intra=bool(pt.intra), post=bool(pt.post))


def prompt_json(ps):
    n = type(ps).__name__
    if n == "AOP": return dict(aotp=False)
    if n == "AOTP":
        if type(ps.target_tokenizer).__name__ != "Unlabeled": raise Unmodelled(f"target tokenizer {type(ps.target_tokenizer).__name__}")
        return dict(aotp=True, target_post=bool(ps.target_tokenizer.post))
    raise Unmodelled(f"prompt sequencer {n}")


def mk_ct(j):
    I = _imports()
    return I["CoordTokenizers"].UT() if j.get("ut") else I["CoordTokenizers"].CTT(pre=j["pre"], intra=j["intra"], post=j["post"])


def mk_adj(j):
    I = _imports()
    cls = I["AdjListTokenizers"].AdjListCardinal if j["cardinal"] else I["AdjListTokenizers"].AdjListCoord
    sub = I["EdgeSubsets"].AllLatticeEdges() if j["subset"] == "all" else I["EdgeSubsets"].ConnectionEdges(walls=(j["subset"] == "walls"))
    per = {"sorted": I["EdgePermuters"].SortedCoords, "random": I["EdgePermuters"].RandomCoords, "both": I["EdgePermuters"].BothCoords}[j["permuter"]]()
    return cls(pre=False, post=j["post"], shuffle_d0=j["shuffle"], edge_grouping=I["EdgeGroupings"].Ungrouped(connection_token_ordinal=j["ordinal"]),
               edge_subset=sub, edge_permuter=per)


def mk_path(j):
    I = _imports()
    st = I["StepTokenizers"]
    m = dict(coord=st.Coord, cardinal=st.Cardinal, relative=st.Relative, distance=st.Distance)
    return I["PathTokenizers"].StepSequence(step_size=(I["StepSizes"].Forks() if j["forks"] else I["StepSizes"].Singles()),
                                            step_tokenizers=tuple(m[s]() for s in j["steps"]), pre=j["pre"], intra=j["intra"], post=j["post"])


def mk_full(cj):
    I = _imports()
    ct, at, pt = mk_ct(cj["ct"]), mk_adj(cj["adj"]), mk_path(cj["path"])
    if cj["prompt"]["aotp"]:
        ps = I["PromptSequencers"].AOTP(coord_tokenizer=ct, adj_list_tokenizer=at, path_tokenizer=pt,
                                        target_tokenizer=I["TargetTokenizers"].Unlabeled(post=cj["prompt"]["target_post"]))
    else:
        ps = I["PromptSequencers"].AOP(coord_tokenizer=ct, adj_list_tokenizer=at, path_tokenizer=pt)
    return I["MazeTokenizerModular"](prompt_sequencer=ps)


def maze_json(maze):
    cl = np.asarray(maze.connection_list)
    j = dict(rows=int(cl.shape[1]), cols=int(cl.shape[2]), edges=[[int(d), int(r), int(c)] for d, r, c in np.argwhere(cl)])
    if hasattr(maze, "solution"):
        j.update(kind="solved", start=[int(x) for x in maze.start_pos], end=[int(x) for x in maze.end_pos],
                 sol=[[int(a), int(b)] for a, b in maze.solution])
    elif hasattr(maze, "start_pos"):
        j.update(kind="targeted", start=[int(x) for x in maze.start_pos], end=[int(x) for x in maze.end_pos])
    else:
        j.update(kind="plain")
    return j


def mk_maze(j):
    from maze_dataset import LatticeMaze, TargetedLatticeMaze, SolvedMaze
    cl = np.zeros((2, j["rows"], j["cols"]), dtype=np.bool_)
    for d, r, c in j["edges"]:
        cl[d, r, c] = True
    if j["kind"] == "plain": return LatticeMaze(connection_list=cl)
    if j["kind"] == "targeted": return TargetedLatticeMaze(connection_list=cl, start_pos=np.array(j["start"]), end_pos=np.array(j["end"]))
    return SolvedMaze(connection_list=cl, solution=np.array(j["sol"]))


# ------------------------------------------------------------------------------------------------
# independent oracle (plain Python, from the property statement)
# ------------------------------------------------------------------------------------------------
def o_adj(mj, a, b):
    """is there a connection between lattice neighbours a, b (None when they are not lattice neighbours)"""
    (i, j), (k, l) = a, b
    if abs(i - k) + abs(j - l) != 1: return None
    E = mj["_eset"]
    if i == k: return (1, i, min(j, l)) in E
    return (0, min(i, k), j) in E


def o_prepare(mj):
    if "_eset" not in mj:
        mj["_eset"] = {tuple(e) for e in mj["edges"]}
    return mj


def o_coord(ctj, toks, pos):
    if ctj.get("ut"):
        need(pos < len(toks), "coordinate expected at end of input")
        t = toks[pos]
        need(len(t) >= 5 and t[0] == "(" and t[-1] == ")" and t.count(",") == 1, f"UT coordinate token expected, got {t!r}")
        a, b = t[1:-1].split(",")
        need(a.isdigit() and b.isdigit(), f"UT coordinate token expected, got {t!r}")
        return (int(a), int(b)), pos + 1
    def lit(s, pos):
        need(pos < len(toks) and toks[pos] == s, f"{s!r} expected at {pos}, got {toks[pos] if pos < len(toks) else None!r}")
        return pos + 1
    def num(pos):
        need(pos < len(toks) and toks[pos].isdigit(), f"coordinate number expected at {pos}, got {toks[pos] if pos < len(toks) else None!r}")
        return int(toks[pos]), pos + 1
    if ctj["pre"]: pos = lit("(", pos)
    a, pos = num(pos)
    if ctj["intra"]: pos = lit(",", pos)
    b, pos = num(pos)
    if ctj["post"]: pos = lit(")", pos)
    return (a, b), pos


def o_decode_adj(ctj, aj, toks):
    pos, out = 0, []
    while pos < len(toks):
        order = [0, 2]; order.insert(aj["ordinal"], 1)
        lead = trail = lab = None
        for what in order:
            if what == 1:
                need(pos < len(toks) and toks[pos] in ("<-->", "<XX>"), f"connector or wall token expected at {pos}, got {toks[pos] if pos < len(toks) else None!r}")
                lab = toks[pos] == "<-->"; pos += 1
            elif what == 0:
                lead, pos = o_coord(ctj, toks, pos)
            else:
                if aj["cardinal"]:
                    need(pos < len(toks) and toks[pos] in CARD, f"cardinal token expected at {pos}, got {toks[pos] if pos < len(toks) else None!r}")
                    trail = toks[pos]; pos += 1
                else:
                    trail, pos = o_coord(ctj, toks, pos)
        if aj["cardinal"]:
            d = CARD[trail]; trail = (lead[0] + d[0], lead[1] + d[1])
        if aj["post"]:
            need(pos < len(toks) and toks[pos] == ";", f"';' expected at {pos}")
            pos += 1
        out.append((lead, trail, lab))
    return out


def oracle_adj(ctj, aj, mj, toks):
    """adjacency region: exactly the selected edge set, right multiplicity/orientation discipline, each edge correctly labelled"""
    o_prepare(mj)
    edges = o_decode_adj(ctj, aj, toks)
    n, m = mj["rows"], mj["cols"]
    for a, b, lab in edges:
        need(0 <= a[0] < n and 0 <= a[1] < m and 0 <= b[0] < n and 0 <= b[1] < m, f"edge {a}-{b} leaves the {n}x{m} grid")
        real = o_adj(mj, a, b)
        need(real is not None, f"edge {a}-{b} does not join lattice neighbours")
        need(real == lab, f"edge {a}-{b} is marked {'connection' if lab else 'wall'} but the maze has a {'connection' if real else 'wall'} there")
    und = Counter(frozenset([a, b]) for a, b, _ in edges)
    all_e = [frozenset([(i, j), (i, j + 1)]) for i in range(n) for j in range(m - 1)] + [frozenset([(i, j), (i + 1, j)]) for i in range(n - 1) for j in range(m)]
    if aj["subset"] == "all": exp = set(all_e)
    else: exp = {e for e in all_e if o_adj(mj, *tuple(e)) == (aj["subset"] == "conn")}
    mult = 2 if aj["permuter"] == "both" else 1
    missing, extra = exp - set(und), set(und) - exp
    need(not missing, f"edge(s) missing from the adjacency region: {sorted(tuple(sorted(e)) for e in missing)[:3]} (subset={aj['subset']})")
    need(not extra, f"edge(s) outside the selected subset listed: {sorted(tuple(sorted(e)) for e in extra)[:3]} (subset={aj['subset']})")
    wrong = [tuple(sorted(e)) for e, v in und.items() if v != mult]
    need(not wrong, f"edge(s) listed {und[frozenset(wrong[0])] if wrong else 0} times instead of {mult}: {wrong[:3]}")
    if mult == 2:
        need(len({(a, b) for a, b, _ in edges}) == len(edges), "BothCoords: an edge appears twice in the same orientation")
    if aj["permuter"] == "sorted":
        need(all(a <= b for a, b, _ in edges), "SortedCoords: an edge has its larger coord first")
    if not aj["shuffle"]:
        und_seq = [tuple(sorted((a, b))) for a, b, _ in edges]
        if aj["permuter"] == "sorted":
            need(und_seq == sorted(und_seq), "shuffle_d0=False with SortedCoords: edges are not in sorted order")
    return edges


def o_rel(prev, cur, nxt):
    d0 = (cur[0] - prev[0], cur[1] - prev[1]); d1 = (nxt[0] - cur[0], nxt[1] - cur[1])
    if d1 == (0, 0): return "STAY"
    if prev == nxt: return "BACKWARD"
    if d0 == d1: return "FORWARD"
    cross = d0[0] * d1[1] - d0[1] * d1[0]
    return "LEFT" if cross == 1 else "RIGHT"


def o_expected_steps(pj, mj):
    o_prepare(mj)
    sol = [tuple(c) for c in mj["sol"]]
    r, c = mj["rows"], mj["cols"]
    def deg(a):
        return sum(1 for b in [(a[0], a[1] + 1), (a[0], a[1] - 1), (a[0] + 1, a[1]), (a[0] - 1, a[1])]
                   if 0 <= b[0] < r and 0 <= b[1] < c and o_adj(mj, a, b))
    if not pj["forks"]: idx = list(range(len(sol)))
    else: idx = [i for i, a in enumerate(sol) if i in (0, len(sol) - 1) or deg(a) > 2]
    return sol, list(zip(idx[:-1], idx[1:]))


def oracle_path(ctj, pj, mj, toks):
    """path region: leading coordinate iff Coord is used; per step (by the step size) the end coordinate, the cardinal and the
    relative direction of the first move of the step, and the number of moves"""
    sol, steps = o_expected_steps(pj, mj)
    pos, names = 0, pj["steps"]
    def lit(s, pos, what):
        need(pos < len(toks) and toks[pos] == s, f"{what}: {s!r} expected at path position {pos}, got {toks[pos] if pos < len(toks) else None!r}")
        return pos + 1
    if "coord" in names:
        if pj["pre"]: pos = lit("STEP", pos, "leading coord")
        c, pos = o_coord(ctj, toks, pos)
        need(c == sol[0], f"path starts with {c}, the solution starts at {sol[0]}")
        if pj["intra"]: pos = lit(":", pos, "leading coord")
    for (i, j) in steps:
        if pj["pre"]: pos = lit("STEP", pos, f"step {i}->{j}")
        for nm in names:
            need(pos < len(toks), f"step {i}->{j}: tokens end early")
            if nm == "coord":
                c, pos = o_coord(ctj, toks, pos)
                need(c == sol[j], f"step {i}->{j}: coordinate {c} given, the step ends at {sol[j]}")
            elif nm == "cardinal":
                need(toks[pos] in CARD, f"step {i}->{j}: cardinal token expected, got {toks[pos]!r}")
                d = CARD[toks[pos]]
                need((sol[i][0] + d[0], sol[i][1] + d[1]) == sol[i + 1], f"step {i}->{j}: {toks[pos]} given but the move is {sol[i]}->{sol[i + 1]}")
                pos += 1
            elif nm == "relative":
                prev = sol[i - 1] if i > 0 else (sol[0][0] + 1, sol[0][1])
                exp = o_rel(prev, sol[i], sol[i + 1])
                need(toks[pos] == exp, f"step {i}->{j}: relative direction {toks[pos]!r} given, expected {exp} (prev {prev}, at {sol[i]}, next {sol[i + 1]})")
                pos += 1
            else:
                need(toks[pos] == "+%d" % (j - i), f"step {i}->{j}: distance token {toks[pos]!r} given, expected '+{j - i}'")
                pos += 1
            if pj["intra"]: pos = lit(":", pos, f"step {i}->{j}")
        if pj["post"]: pos = lit("THEN", pos, f"step {i}->{j}")
    need(pos == len(toks), f"{len(toks) - pos} unexpected token(s) after the last step: {toks[pos:pos + 4]}")
    return steps


_VOCAB = None
def vocab_set():
    global _VOCAB
    if _VOCAB is None:
        from maze_dataset import VOCAB_LIST
        _VOCAB = set(VOCAB_LIST)
    return _VOCAB


def oracle_full(cj, mj, toks):
    """whole sequence: vocabulary, regions delimited once and in order (only those the maze kind has), contents"""
    vs = vocab_set()
    notin = [t for t in toks if t not in vs]
    need(not notin, f"token(s) outside the vocabulary: {notin[:3]}")
    want = {"plain": DELIMS[:2], "targeted": DELIMS[:6], "solved": DELIMS}[mj["kind"]]
    got = [t for t in toks if t in DELIMS]
    need(got == want, f"region delimiters are {got}, expected {want} for a {mj['kind']} maze")
    need(toks[0] == want[0] and toks[-1] == want[-1], "tokens before the first or after the last region")
    idx = {d: toks.index(d) for d in want}
    edges = oracle_adj(cj["ct"], cj["adj"], mj, toks[idx["<ADJLIST_START>"] + 1: idx["<ADJLIST_END>"]])
    res = dict(edges=edges)
    if mj["kind"] == "plain":
        return res
    need(idx["<ORIGIN_START>"] == idx["<ADJLIST_END>"] + 1 and idx["<TARGET_START>"] == idx["<ORIGIN_END>"] + 1, "tokens between regions")
    org = toks[idx["<ORIGIN_START>"] + 1: idx["<ORIGIN_END>"]]
    c, p = o_coord(cj["ct"], org, 0)
    need(p == len(org), "extra tokens in the origin region")
    need(c == tuple(mj["start"]), f"origin region gives {c}, the maze starts at {tuple(mj['start'])}")
    tg = toks[idx["<TARGET_START>"] + 1: idx["<TARGET_END>"]]
    if cj["prompt"]["aotp"]:
        c, p = o_coord(cj["ct"], tg, 0)
        need(c == tuple(mj["end"]), f"target region gives {c}, the maze ends at {tuple(mj['end'])}")
        if cj["prompt"]["target_post"]:
            need(p < len(tg) and tg[p] == "||", "'||' expected after the target"); p += 1
        need(p == len(tg), "extra tokens in the target region")
    else:
        need(tg == [], "AOP: the target region must be empty")
    if mj["kind"] == "targeted":
        return res
    need(idx["<PATH_START>"] == idx["<TARGET_END>"] + 1, "tokens between regions")
    res["steps"] = oracle_path(cj["ct"], cj["path"], mj, toks[idx["<PATH_START>"] + 1: idx["<PATH_END>"]])
    return res


def max_step(pj, mj):
    _, steps = o_expected_steps(pj, mj)
    return max([j - i for i, j in steps], default=0)


# ------------------------------------------------------------------------------------------------
# running the real code
# ------------------------------------------------------------------------------------------------
def err_kind(e):
    for k in ("ValueError", "AssertionError", "IndexError", "TokenError", "KeyError"):
        if type(e).__name__ == k: return k
    return "other:" + type(e).__name__


def call(f):
    try:
        return [str(t) for t in f()], None
    except Exception as e:   # noqa: BLE001 - exceptions of the code under test are data here
        return None, e


def judge_exception(ctx, level, cj, mj, e):
    """the real code raised on a valid input: a violation of the property; the Distance>255 case is keyed as the known finding"""
    pj = cj.get("path")
    key = "unlisted"
    if pj is not None and mj.get("kind") == "solved" and "distance" in pj["steps"] and max_step(pj, mj) > 255 and type(e).__name__ == "AttributeError":
        key = F4_KEY
    ctx.violate(f"{level}: the tokenizer raised {type(e).__name__}: {str(e)[:120]} on a {mj['rows']}x{mj['cols']} {mj.get('kind', '')} maze"
                + (f" (longest step {max_step(pj, mj)} > 255 has no I_ token)" if key == F4_KEY else ""),
                dict(level=level, cfg=cj, maze=strip(mj)), key=key)


def strip(mj):
    return {k: v for k, v in mj.items() if not k.startswith("_")}


class Batch:
    """requests to the Lean driver with their per-reply checks, flushed in chunks"""
    def __init__(self, ctx, limit=24000):
        self.ctx, self.limit, self.reqs, self.cbs = ctx, limit, [], []

    def add(self, req, cb):
        self.reqs.append(req); self.cbs.append(cb)
        if len(self.reqs) >= self.limit: self.flush()

    def flush(self):
        if not self.reqs: return
        outs = self.ctx.driver.run_parallel(self.reqs)
        for cb, o in zip(self.cbs, outs):
            cb(o)
        self.reqs, self.cbs = [], []


def canon_edges(edges):
    return [[a[0], a[1], b[0], b[1], bool(l)] for a, b, l in edges]


def check_adj(ctx, batch, ct, at, maze, do_model=True):
    ctj, aj, mj = ct_json(ct), adj_json(at), maze_json(maze)
    case = dict(level="adj", cfg=dict(ct=ctj, adj=aj), maze=strip(mj))
    toks, e = call(lambda: at.to_tokens(maze, coord_tokenizer=ct))
    ctx.count("adj:" + aj["subset"] + "/" + aj["permuter"] + ("/card" if aj["cardinal"] else "/coord"))
    if e is not None:
        ctx.case(case, nontrivial=False)
        judge_exception(ctx, "adjacency region", dict(ct=ctj, adj=aj), mj, e)
        oedges = None
    else:
        ctx.case(case, nontrivial=len(toks) > 0)
        try:
            vs = vocab_set(); notin = [t for t in toks if t not in vs]
            need(not notin, f"token(s) outside the vocabulary: {notin[:3]}")
            oedges = oracle_adj(ctj, aj, mj, toks)
        except Bad as b:
            ctx.violate(f"adjacency region does not encode the maze: {b} [cfg ct={ctj} adj={aj}, {mj['rows']}x{mj['cols']} maze]", dict(case, tokens=toks))
            oedges = None
    if not do_model: return
    def cb(o):
        ctx.traces_validated += 1
        what = f"adjacency region ct={ctj} adj={aj} on {mj['rows']}x{mj['cols']}"
        if "error" in o or "unreadable" in o:
            ctx.disagree(f"{what}: driver says {o}", case); return
        if toks is None:
            if o.get("model") is not None: ctx.disagree(f"{what}: the code raised {err_kind(e)} but the model yields tokens", case)
            return
        if o.get("decoded") is None:
            ctx.disagree(f"{what}: the Lean decoder rejects the implementation's tokens {toks[:12]}…", case); return
        if not o["valid_order"]: ctx.disagree(f"{what}: observed edge order is not a ValidOrder of the selected edges", case)
        if o["model"] != toks: ctx.disagree(f"{what}: model tokens differ from the implementation's: model={str(o['model'])[:200]} impl={str(toks)[:200]}", case)
        if o["decoded"] != o["spec"]: ctx.disagree(f"{what}: Lean decoding differs from the specification record (labels from Adj)", case)
        if oedges is not None and o["decoded"] != canon_edges(oedges): ctx.disagree(f"{what}: Lean decoder and Python oracle read the tokens differently", case)
        if len(toks) > 30 and aj["shuffle"]: ctx.sample(dict(cfg=case["cfg"], grid=[mj["rows"], mj["cols"]], tokens_head=toks[:14], n_edges=len(o["decoded"])), limit=2)
    batch.add(dict(op="C06.adj", ct=ctj, adj=aj, maze=strip(mj), tokens=toks), cb)


def canon_pathinfo(ctj, pj, mj):
    """the oracle's expectation in the driver's JSON shape"""
    sol, steps = o_expected_steps(pj, mj)
    out = []
    for i, j in steps:
        vals = []
        for nm in pj["steps"]:
            if nm == "coord": vals.append(["coord", sol[j][0], sol[j][1]])
            elif nm == "cardinal":
                d = (sol[i + 1][0] - sol[i][0], sol[i + 1][1] - sol[i][1])
                vals.append(["card", {v: k for k, v in CARD.items()}[d].lower()])
            elif nm == "relative":
                prev = sol[i - 1] if i > 0 else (sol[0][0] + 1, sol[0][1])
                vals.append(["rel", o_rel(prev, sol[i], sol[i + 1]).lower()])
            else: vals.append(["dist", j - i])
        out.append(vals)
    return dict(start=(list(sol[0]) if "coord" in pj["steps"] else None), steps=out)


def check_path(ctx, batch, ct, pt, maze, do_model=True):
    ctj, pj, mj = ct_json(ct), path_json(pt), maze_json(maze)
    case = dict(level="path", cfg=dict(ct=ctj, path=pj), maze=strip(mj))
    toks, e = call(lambda: pt.to_tokens(maze, coord_tokenizer=ct))
    ctx.count("path:" + ("forks" if pj["forks"] else "singles") + "/" + str(len(pj["steps"])) + "tok")
    ok = False
    if e is not None:
        ctx.case(case, nontrivial=False)
        judge_exception(ctx, "path region", dict(ct=ctj, path=pj), mj, e)
    else:
        ctx.case(case, nontrivial=len(mj["sol"]) > 1)
        try:
            vs = vocab_set(); notin = [t for t in toks if t not in vs]
            need(not notin, f"token(s) outside the vocabulary: {notin[:3]}")
            oracle_path(ctj, pj, mj, toks); ok = True
        except Bad as b:
            ctx.violate(f"path region does not encode the solution: {b} [cfg ct={ctj} path={pj}, solution {mj['sol'][:8]}…]", dict(case, tokens=toks))
    if not do_model: return
    def cb(o):
        ctx.traces_validated += 1
        what = f"path region ct={ctj} path={pj} on {mj['rows']}x{mj['cols']} len {len(mj['sol'])}"
        if "error" in o or "unreadable" in o:
            ctx.disagree(f"{what}: driver says {o}", case); return
        if not o["valid_cfg"]: ctx.disagree(f"{what}: configuration is outside PathCfg.Valid", case)
        if toks is None:
            if o.get("model") is not None: ctx.disagree(f"{what}: the code raised {err_kind(e)} but the model yields tokens", case)
            return
        if o["model"] != toks: ctx.disagree(f"{what}: model tokens differ: model={str(o['model'])[:200]} impl={str(toks)[:200]}", case)
        if o["decoded"] is None or o["decoded"] != o["spec"]: ctx.disagree(f"{what}: Lean decoding of the implementation's tokens differs from the specification record", case)
        if ok and o["spec"] != canon_pathinfo(ctj, pj, mj): ctx.disagree(f"{what}: Lean specification record differs from the Python oracle's expectation", case)
        if pj["forks"] and len(pj["steps"]) >= 3 and len(toks) > 8: ctx.sample(dict(cfg=case["cfg"], sol=mj["sol"], tokens=toks[:24], step_indices=o["idxs"]), limit=4)
    batch.add(dict(op="C06.path", ct=ctj, path=pj, maze=strip(mj), sol=mj["sol"], tokens=toks), cb)


def full_json(tok):
    ps = tok.prompt_sequencer
    return dict(ct=ct_json(ps.coord_tokenizer), adj=adj_json(ps.adj_list_tokenizer), prompt=prompt_json(ps), path=path_json(ps.path_tokenizer))


def check_full(ctx, batch, tok, maze, do_model=True, cj=None):
    cj = cj or full_json(tok)
    mj = maze_json(maze)
    case = dict(level="full", cfg=cj, maze=strip(mj))
    # both public routes to the same sequence: tokenizer.to_tokens(maze) and maze.as_tokens(tokenizer) (one of them per case: shuffling
    # tokenizers draw random numbers, so the two cannot be compared call against call)
    route = "as_tokens" if (len(mj["edges"]) + mj["rows"] + len(str(cj))) % 2 else "to_tokens"
    toks, e = call((lambda: maze.as_tokens(tok)) if route == "as_tokens" else (lambda: tok.to_tokens(maze)))
    ctx.count("route=" + route)
    ctx.count("full:" + mj["kind"] + ("/aotp" if cj["prompt"]["aotp"] else "/aop"))
    ctx.count(f"grid={mj['rows']}")
    ores = None
    if e is not None:
        ctx.case(case, nontrivial=False)
        judge_exception(ctx, "whole sequence", cj, mj, e)
    else:
        ctx.case(case, nontrivial=True)
        try:
            ores = oracle_full(cj, mj, toks)
        except Bad as b:
            ctx.violate(f"token sequence does not encode the {mj['kind']} maze: {b} [cfg={cj}]", dict(case, tokens=toks))
    if not do_model: return
    def cb(o):
        ctx.traces_validated += 1
        what = f"whole sequence cfg={cj} on {mj['rows']}x{mj['cols']} {mj['kind']}"
        if "error" in o or "unreadable" in o:
            ctx.disagree(f"{what}: driver says {o}", case); return
        if toks is None:
            if o.get("model") is not None: ctx.disagree(f"{what}: the code raised {err_kind(e)} but the model yields tokens", case)
            return
        if o.get("decoded") is None:
            ctx.disagree(f"{what}: the Lean decoder rejects the implementation's tokens", case); return
        if not o["valid_order"]: ctx.disagree(f"{what}: observed edge order is not a ValidOrder of the selected edges", case)
        if o["model"] != toks: ctx.disagree(f"{what}: model tokens differ: model={str(o['model'])[:200]} impl={str(toks)[:200]}", case)
        if not o["decoded_eq_spec"]: ctx.disagree(f"{what}: Lean decoding differs from the specification record `info`", case)
        if ores is not None:
            if o["decoded"]["edges"] != canon_edges(ores["edges"]): ctx.disagree(f"{what}: Lean decoder and Python oracle read the adjacency region differently", case)
            if mj["kind"] == "solved" and o["decoded"]["path"] != canon_pathinfo(cj["ct"], cj["path"], mj):
                ctx.disagree(f"{what}: Lean decoder and Python oracle read the path region differently", case)
        if mj["kind"] == "solved" and len(toks) < 90: ctx.sample(dict(cfg=cj, maze=strip(mj), tokens=toks), limit=2)
    batch.add(dict(op="C06.full", ct=cj["ct"], adj=cj["adj"], prompt=cj["prompt"], path=cj["path"], maze=strip(mj), tokens=toks), cb)


# ------------------------------------------------------------------------------------------------
# generators
# ------------------------------------------------------------------------------------------------
def seed_all(ctx):
    s = ctx.rng.randrange(2 ** 31)
    np.random.seed(s); pyrandom.seed(s)
    try:
        import maze_dataset.generation as G
        G.numpy_rng = np.random.default_rng(s)
        import maze_dataset.tokenization.maze_tokenizer as MT
        MT.numpy_rng = G.numpy_rng
    except Exception:
        pass


def gen_lattice(ctx, n, cyclic):
    from maze_dataset import LatticeMazeGenerators
    if cyclic:
        return LatticeMazeGenerators.gen_dfs_percolation(np.array([n, n]), p=ctx.rng.choice([0.1, 0.2, 0.4]))
    return LatticeMazeGenerators.gen_dfs(np.array([n, n]))


def rand_walk(ctx, m, length):
    """a walk along connections that may turn back (exercises BACKWARD)"""
    n = m.connection_list.shape[1]
    for _ in range(50):
        c = (ctx.rng.randrange(n), ctx.rng.randrange(n))
        walk = [c]
        for _ in range(length):
            nb = [tuple(int(x) for x in b) for b in m.get_coord_neighbors(np.array(walk[-1]))]
            if not nb: break
            walk.append(ctx.rng.choice(nb))
        if len(walk) > 1: return walk
    return [c]


def as_kind(ctx, m, kind, walk=False):
    from maze_dataset import TargetedLatticeMaze, SolvedMaze
    if kind == "plain": return m
    if walk:
        sol = rand_walk(ctx, m, ctx.rng.randrange(2, 14))
    else:
        sol = [tuple(int(x) for x in c) for c in m.generate_random_path()]
    if kind == "targeted": return TargetedLatticeMaze.from_lattice_maze(m, np.array(sol[0]), np.array(sol[-1]))
    return SolvedMaze.from_lattice_maze(m, sol)


def corridor(n):
    """n x n serpentine corridor solved end to end: every interior cell has degree 2 (finding F4 for n*n-1 > 255)"""
    from maze_dataset import SolvedMaze
    cl = np.zeros((2, n, n), dtype=np.bool_)
    sol = []
    for r in range(n):
        cols = range(n) if r % 2 == 0 else range(n - 1, -1, -1)
        for c in cols: sol.append((r, c))
        cl[1, r, : n - 1] = True
        if r + 1 < n: cl[0, r, (n - 1) if r % 2 == 0 else 0] = True
    return SolvedMaze(connection_list=cl, solution=np.array(sol))


_SPACE = None
def space(ctx):
    """the three region configuration lists from the real `all_instances`; their sizes are part of the correspondence"""
    global _SPACE
    if _SPACE is None:
        from maze_dataset.utils import all_instances
        from maze_dataset.tokenization.all_tokenizers import MAZE_TOKENIZER_MODULAR_DEFAULT_VALIDATION_FUNCS as VF
        I = _imports()
        cts = list(all_instances(I["CoordTokenizers"]._CoordTokenizer, VF))
        ats = list(all_instances(I["AdjListTokenizers"]._AdjListTokenizer, VF))
        pts = list(all_instances(I["PathTokenizers"]._PathTokenizer, VF))
        tts = list(all_instances(I["TargetTokenizers"]._TargetTokenizer, VF))
        pss = [c.__name__ for c in (I["PromptSequencers"].AOTP, I["PromptSequencers"].AOP)]
        _SPACE = (cts, ats, pts, tts)
    cts, ats, pts, tts = _SPACE
    if (len(cts), len(ats), len(pts), len(tts)) != (9, 216, 1008, 2):
        ctx.disagree(f"the valid configuration space changed: {len(cts)} coord x {len(ats)} adjacency x {len(pts)} path x {len(tts)} target "
                     "region configurations instead of 9 x 216 x 1008 x 2 — the model's TokCfg no longer mirrors it", dict(space=[len(cts), len(ats), len(pts), len(tts)]))
    return _SPACE


def prompt_variants(ctx):
    return [dict(aotp=True, target_post=False), dict(aotp=True, target_post=True), dict(aotp=False)]


def safe(ctx, what, f):
    try:
        f()
    except Unmodelled as u:
        ctx.disagree(f"{what}: configuration outside the modelled space: {u}", dict(what=what))


def check_vocab(ctx):
    from maze_dataset import VOCAB_LIST, VOCAB
    o = ctx.driver.run([dict(op="C06.vocab", upto=300)])[0]
    ctx.traces_validated += 1
    if "error" in o:
        ctx.disagree(f"C06.vocab: {o}", {}); return
    if sorted(o["vocab"]) != sorted(VOCAB_LIST):
        a, b = Counter(o["vocab"]), Counter(VOCAB_LIST)
        ctx.disagree(f"expanded Lean vocabulary differs from VOCAB_LIST: only in Lean {list((a - b))[:5]}, only in code {list((b - a))[:5]}", {})
    if len(set(VOCAB_LIST)) != len(VOCAB_LIST):
        ctx.violate("VOCAB_LIST contains a duplicate token", dict(dups=[t for t, c in Counter(VOCAB_LIST).items() if c > 1][:5]))
    for d in range(300):
        real = getattr(VOCAB, f"I_{d:03}", None)
        model = o["dist"][d] if o["distLo"] <= d < o["distHi"] else None
        if real != model:
            ctx.disagree(f"Distance token table differs at d={d}: code {real!r} model {model!r}", dict(d=d)); break
    if not o["reread"]:
        ctx.disagree("two fixed tokens of the modular tokenizer render to the same string (Tok.ofStr ∘ Tok.str ≠ id)", dict(fixed=o["fixed"]))
    ctx.case(dict(vocab=len(VOCAB_LIST)))


def SolvedMaze_from(m, sol):
    from maze_dataset import SolvedMaze
    return SolvedMaze.from_lattice_maze(m, [tuple(int(x) for x in c) for c in sol])


def sweep_mazes(ctx, n_adj, n_path, gmax):
    adj_m, path_m = [], []
    for k in range(n_adj):
        n = [4, 3][k] if k < 2 else ctx.rng.randrange(2, gmax + 1)
        adj_m.append(gen_lattice(ctx, n, cyclic=(k % 2 == 0)))
    # the same kind of maze with its connection structure stored as 0/1 INTEGERS (np.unpackbits output, a 0/1 literal, astype(int8)):
    # the library accepts it and treats it as the same maze (== and hash); its tokens must encode it all the same
    from maze_dataset import LatticeMaze
    for dt in (["uint8"] if n_adj <= 2 else ["uint8", "int8", "int64"]):
        m0 = gen_lattice(ctx, 3, cyclic=True)
        adj_m.append(LatticeMaze(connection_list=np.asarray(m0.connection_list).astype(dt)))
    for k in range(n_path):
        n = 5 if k < 3 else ctx.rng.randrange(2, gmax + 1)
        m = gen_lattice(ctx, n, cyclic=(k % 2 == 0))
        path_m.append(as_kind(ctx, m, "solved", walk=(k % 3 == 2)))
    # a solution that starts on the LAST row and crosses the grid (the agent's initial heading is a virtual cell below the start),
    # on a tree and on a cyclic maze: long fork-to-fork segments with turns
    for cyc in (False, True):
        m = gen_lattice(ctx, 5, cyclic=cyc)
        try:
            path_m.append(SolvedMaze_from(m, m.find_shortest_path((4, ctx.rng.randrange(5)), (0, ctx.rng.randrange(5)))))
        except ValueError:
            pass
    # degenerate but legal: a solved maze whose start is its end (one-cell solution, no step at all), at a fork cell and at a dead end
    from maze_dataset import SolvedMaze
    m = gen_lattice(ctx, 4, cyclic=True)
    deg = m.coord_degrees()
    for pick in (np.unravel_index(int(np.argmax(deg)), deg.shape), np.unravel_index(int(np.argmin(deg)), deg.shape)):
        path_m.append(SolvedMaze.from_lattice_maze(m, [tuple(int(x) for x in pick)]))
    return adj_m, path_m


def run_sweeps(ctx, batch, n_adj, n_path, gmax, do_model=True):
    cts, ats, pts, _ = space(ctx)
    adj_m, path_m = sweep_mazes(ctx, n_adj, n_path, gmax)
    for ct in cts:
        for at in ats:
            for m in adj_m:
                safe(ctx, "adj sweep", lambda: check_adj(ctx, batch, ct, at, m, do_model))
            if ctx.violations and not do_model: return
        for pt in pts:
            for m in path_m:
                safe(ctx, "path sweep", lambda: check_path(ctx, batch, ct, pt, m, do_model))
            if ctx.violations and not do_model: return
    ctx.exhaustive = True


def sample_cfgs(ctx, k):
    """k full configurations: adjacency configurations cycled (all 216 once k >= 216), path configurations from a seed-dependent shuffle
    (all 1008 once k >= 1008), coordinate tokenizers and prompt variants cycled against them"""
    cts, ats, pts, _ = space(ctx)
    pv = prompt_variants(ctx)
    a_idx = list(range(len(ats))); p_idx = list(range(len(pts)))
    ctx.rng.shuffle(a_idx); ctx.rng.shuffle(p_idx)
    out = []
    for i in range(k):
        ct = cts[(i + i // len(cts)) % len(cts)]
        at = ats[a_idx[i % len(a_idx)]]; pt = pts[p_idx[i % len(p_idx)]]
        pr = pv[(i + i // 3 + i // 9) % 3] if i < 2000 else ctx.rng.choice(pv)
        if i >= 2000:
            ct = ctx.rng.choice(cts)
        out.append(dict(ct=ct_json(ct), adj=adj_json(at), prompt=pr, path=path_json(pt)))
    return out


def six_mazes(ctx, gmin, gmax):
    out = []
    for kind in ("plain", "targeted", "solved"):
        for cyclic in (False, True):
            m = gen_lattice(ctx, ctx.rng.randrange(gmin, gmax + 1), cyclic)
            out.append(as_kind(ctx, m, kind, walk=(kind == "solved" and ctx.rng.random() < 0.25)))
    # extremes of the domain: no connection at all (every cell isolated, the adjacency region may be empty), the full lattice (no wall to list),
    # and a targeted maze whose start is its end
    r = ctx.rng.random()
    if r < 0.5:
        from maze_dataset import LatticeMazeGenerators, TargetedLatticeMaze
        n = ctx.rng.randrange(gmin, gmax + 1)
        out[0] = LatticeMazeGenerators.gen_percolation(np.array([n, n]), p=0.0 if r < 0.25 else 1.0)
        m = out[3]; n = m.connection_list.shape[1]; c0 = np.array([ctx.rng.randrange(n), ctx.rng.randrange(n)])
        out[3] = TargetedLatticeMaze(connection_list=m.connection_list, start_pos=c0, end_pos=c0.copy())
    if ctx.rng.random() < 0.5:   # start == end: one-cell solution
        from maze_dataset import SolvedMaze
        m = out[-1]; n = m.connection_list.shape[1]
        out[-1] = SolvedMaze(connection_list=m.connection_list, solution=np.array([[ctx.rng.randrange(n), ctx.rng.randrange(n)]]))
    return out


def run_full(ctx, batch, n_cfg, gmin, gmax, mazes_per_cfg=6, do_model=True):
    pool = [six_mazes(ctx, gmin, gmax) for _ in range(8 if ctx.quick else 40)]
    for i, cj in enumerate(sample_cfgs(ctx, n_cfg)):
        tok = mk_full(cj)
        ms = pool[i % len(pool)]
        for m in ms[:mazes_per_cfg] if mazes_per_cfg >= 6 else [ms[(i + t) % 6] for t in range(mazes_per_cfg)]:
            safe(ctx, "full", lambda: check_full(ctx, batch, tok, m, do_model, cj))
        if ctx.violations and not do_model: return


def run_big(ctx, batch, sizes, do_model=True):
    """vocabulary edge: large grids (UT block is 50x50)"""
    cfgs = sample_cfgs(ctx, 4 if ctx.quick else 24)
    for n in sizes:
        m = gen_lattice(ctx, n, cyclic=True)
        sm = as_kind(ctx, m, "solved")
        for k, cj in enumerate(cfgs):
            if ctx.quick and k >= 2 and n >= 40: break
            safe(ctx, "big", lambda: check_full(ctx, batch, mk_full(cj), sm, do_model, cj))


def run_f4(ctx, batch):
    """the known finding: StepSizes.Forks + Distance on a 20x20 corridor (one step of 399 moves), and the largest step that still works"""
    base = dict(ct=dict(ut=True), adj=dict(cardinal=False, post=True, shuffle=True, ordinal=1, subset="conn", permuter="random"),
                prompt=dict(aotp=True, target_post=False), path=dict(forks=True, steps=["coord", "distance"], pre=False, intra=False, post=False))
    for n in (16, 20):    # 16x16: one step of 255 moves (fits), 20x20: 399 (does not)
        safe(ctx, "f4", lambda: check_full(ctx, batch, mk_full(base), corridor(n), True, base))


def run_churn(ctx, batch, n, do_model=True):
    """short-lived mazes: generate, tokenize, judge, DISCARD — again and again with a few fixed tokenizers, so that later mazes are
    allocated where earlier ones lived (anything remembered per maze object, per address or per maze value shows here), and each
    maze is tokenized twice in a row by the same tokenizer (the second answer must describe the same maze)"""
    import gc
    cts, ats, pts, _ = space(ctx)
    toks = []
    for cj in sample_cfgs(ctx, 6):
        toks.append((cj, mk_full(cj)))
    for i in range(n):
        g = ctx.rng.randint(2, 5)
        m = as_kind(ctx, gen_lattice(ctx, g, cyclic=bool(i % 2)), ctx.rng.choice(["plain", "targeted", "solved"]))
        for cj, tok in toks[: 3 if i % 2 else 6]:
            safe(ctx, "churn", lambda: check_full(ctx, batch, tok, m, do_model and i < 12, cj))
            safe(ctx, "churn", lambda: check_full(ctx, batch, tok, m, False, cj))
        ctx.count("churn_mazes")
        del m
        if i % 5 == 0: gc.collect()
        if [v for v in ctx.violations if v["key"] != F4_KEY]: return


def caller_owned_results(ctx):
    """everything the public element-level API hands out belongs to the caller: the token lists returned by every coordinate tokenizer for
    every cell, by adjacency / path / whole-sequence tokenizers for a small maze, are edited in place here (insert, append, clear), BEFORE
    the checks of this run tokenize anything. A result that is also the library's own memo would poison every later tokenization."""
    cts, ats, pts, _ = space(ctx)
    n_edit = 0
    for ct in cts:
        for r in range(12):
            for c in range(12):
                for coord in (np.array([r, c]), (r, c)):
                    try:
                        out = ct.to_tokens(coord)
                    except Exception:
                        continue
                    if isinstance(out, list):
                        out.insert(0, "<ORIGIN_START>"); out.append("<ORIGIN_END>"); n_edit += 1
    m = corridor(3)
    for ct in cts[:3]:
        for at in ats[::40]:
            try:
                out = at.to_tokens(m, coord_tokenizer=ct)
                if isinstance(out, list): out.clear(); n_edit += 1
            except Exception: pass
        for pt in pts[::100]:
            try:
                out = pt.to_tokens(m, coord_tokenizer=ct)
                if isinstance(out, list): out.reverse(); out.append("<PATH_END>"); n_edit += 1
            except Exception: pass
    ctx.count("caller_edited_results", n_edit)


def run(ctx):
    warnings.filterwarnings("ignore")
    seed_all(ctx)
    batch = Batch(ctx)
    check_vocab(ctx)
    caller_owned_results(ctx)
    run_churn(ctx, batch, 40 if ctx.quick else 600)
    if ctx.quick:
        run_sweeps(ctx, batch, 2, 3, 5)
        run_full(ctx, batch, 360, 2, 7)
        run_big(ctx, batch, [50])
    else:
        run_sweeps(ctx, batch, 12, 12, 9)
        run_full(ctx, batch, 20000, 2, 12, mazes_per_cfg=2)
        run_big(ctx, batch, [50, 30, 49])
    run_f4(ctx, batch)
    batch.flush()


def search(ctx):
    """oracle-only, wider: both sweeps on more mazes, then sampled full tokenizers; stops at the first violation"""
    warnings.filterwarnings("ignore")
    seed_all(ctx)
    batch = Batch(ctx)
    before = len([v for v in ctx.violations if v["key"] != F4_KEY])
    def found():
        return len([v for v in ctx.violations if v["key"] != F4_KEY]) > before
    run_churn(ctx, batch, 150, do_model=False)
    if found(): return
    cts, ats, pts, _ = space(ctx)
    adj_m, path_m = sweep_mazes(ctx, 6, 6, 7)
    for ct in cts:
        for at in ats:
            for m in adj_m:
                safe(ctx, "adj search", lambda: check_adj(ctx, batch, ct, at, m, False))
            if found(): return
        for pt in pts:
            for m in path_m:
                safe(ctx, "path search", lambda: check_path(ctx, batch, ct, pt, m, False))
            if found(): return
    pool = [six_mazes(ctx, 2, 9) for _ in range(20)]
    for i, cj in enumerate(sample_cfgs(ctx, 1500 if ctx.quick else 6000)):
        tok = mk_full(cj)
        for m in pool[i % len(pool)]:
            safe(ctx, "full search", lambda: check_full(ctx, batch, tok, m, False, cj))
        if found(): return


def replay(ctx, rp):
    warnings.filterwarnings("ignore")
    case = rp.get("case", rp)
    batch = Batch(ctx)
    mj = case["maze"]; cj = case["cfg"]
    if case["level"] == "adj":
        mj = dict(mj, kind="plain")
        check_adj(ctx, batch, mk_ct(cj["ct"]), mk_adj(cj["adj"]), mk_maze(mj))
    elif case["level"] == "path":
        check_path(ctx, batch, mk_ct(cj["ct"]), mk_path(cj["path"]), mk_maze(mj))
    else:
        check_full(ctx, batch, mk_full(cj), mk_maze(mj), True, cj)
    batch.flush()
