import MazeVerif.Model.Cache
/-! Helper lemmas about the `from_config` model (`MZ.Cache`): what `diff = []` means field by field,
    inversion of `checkAndSave` / `fromConfig` on a successful return, independence of the generate path from
    the file state. -/
namespace MZ.Cache

/-- the two configs agree on every dataclass field other than `n_mazes` (field list generated from the source) -/
def AgreeModN (a b : Cfg) : Prop :=
  a.filters = b.filters ∧
  ∀ f ∈ allFields, f ≠ "n_mazes" → f ≠ "applied_filters" → a.fields.lookup f = b.fields.lookup f

/-- the tolerated difference: the served dataset's filter list is the request's followed by exactly one
    `collect_generation_meta()` record (which leaves every maze's connection list and solution alone — it is what
    saving in a minimal format appends in place); every other field except `n_mazes` agrees -/
def MetaOnly (a b : Cfg) : Prop :=
  b.filters = a.filters ++ [cgmRec] ∧
  ∀ f ∈ allFields, f ≠ "n_mazes" → f ≠ "applied_filters" → a.fields.lookup f = b.fields.lookup f

/-- tie to the source: the compared fields are exactly all fields but `n_mazes` -/
theorem compared_eq : comparedFields = allFields.filter (fun f => f ≠ "n_mazes") := by decide

theorem filters_compared : "applied_filters" ∈ comparedFields := by decide

theorem nmazes_not_compared : "n_mazes" ∉ comparedFields := by decide

/-- tie to the source: the allowance tests the key set `{applied_filters}` and the record the filter wrapper appends -/
theorem allowance_eq : allowanceKeys = ["applied_filters"] ∧ allowanceRec = some cgmRec := by decide

theorem fieldDiffers_false_iff (a b : Cfg) (f : String) :
    fieldDiffers a b f = false ↔
      (if f = "applied_filters" then a.filters = b.filters else a.fields.lookup f = b.fields.lookup f) := by
  unfold fieldDiffers
  by_cases h : f = "applied_filters" <;> simp [h]

theorem fieldsAgree_of_no_diff {a b : Cfg} {S : List String}
    (h : ∀ f ∈ comparedFields, f ∉ S → fieldDiffers a b f = false) :
    ∀ f ∈ allFields, f ≠ "n_mazes" → f ≠ "applied_filters" → f ∉ S → a.fields.lookup f = b.fields.lookup f := by
  intro f hf hn ha hS
  have hc : f ∈ comparedFields := by
    rw [compared_eq]; exact List.mem_filter.mpr ⟨hf, by simpa using hn⟩
  have := (fieldDiffers_false_iff a b f).mp (h f hc hS)
  simpa [ha] using this

theorem diff_nil_iff (a b : Cfg) : diff a b = [] ↔ AgreeModN a b := by
  unfold diff
  rw [List.filter_eq_nil_iff]
  constructor
  · intro h
    have h' : ∀ f ∈ comparedFields, fieldDiffers a b f = false := by
      intro f hf; have := h f hf; simpa using this
    refine ⟨?_, ?_⟩
    · have := (fieldDiffers_false_iff a b _).mp (h' _ filters_compared)
      simpa using this
    · intro f hf hn ha
      exact fieldsAgree_of_no_diff (S := []) (fun f hf _ => h' f hf) f hf hn ha (by simp)
  · rintro ⟨hfil, hfld⟩ f hf
    have hmem : f ∈ allFields ∧ f ≠ "n_mazes" := by
      rw [compared_eq] at hf
      have := List.mem_filter.mp hf
      exact ⟨this.1, by simpa using this.2⟩
    have : fieldDiffers a b f = false := by
      rw [fieldDiffers_false_iff]
      by_cases ha : f = "applied_filters"
      · simp [ha, hfil]
      · simp [ha, hfld f hmem.1 hmem.2 ha]
    simp [this]

theorem metaAllowed_iff (a b : Cfg) :
    metaAllowed a b = true ↔ ((∀ f ∈ diff a b, f = "applied_filters") ∧ "applied_filters" ∈ diff a b ∧
      b.filters = a.filters ++ [cgmRec]) := by
  unfold metaAllowed
  rw [allowance_eq.1, allowance_eq.2]
  simp [List.all_eq_true, and_assoc]

theorem metaAllowed_spec (a b : Cfg) (h : metaAllowed a b = true) : MetaOnly a b := by
  obtain ⟨hall, _, hb⟩ := (metaAllowed_iff a b).mp h
  refine ⟨hb, ?_⟩
  -- every compared field other than applied_filters is absent from the diff
  have hnot : ∀ f ∈ comparedFields, f ∉ ["applied_filters"] → fieldDiffers a b f = false := by
    intro f hf hS
    by_cases hfd : fieldDiffers a b f = false
    · exact hfd
    · exfalso
      have hmem : f ∈ diff a b := by
        unfold diff; exact List.mem_filter.mpr ⟨hf, by simpa using hfd⟩
      exact hS (by simp [hall f hmem])
  intro f hf hn hap
  exact fieldsAgree_of_no_diff hnot f hf hn hap (by simpa using hap)

/-! ### inversion of `checkAndSave` -/

/-- the config check of dataset.py:283-305 lets dataset `d` through (without raising) -/
def passes {μ} (fl : Flags) (cfg : Cfg) (d : DS μ) : Bool :=
  !(!(diff cfg d.cfg).isEmpty && fl.exceptOnMismatch && !(fl.allowMetaMismatch && metaAllowed cfg d.cfg))

theorem passes_spec {μ} (fl : Flags) (cfg : Cfg) (d : DS μ) (he : fl.exceptOnMismatch = true)
    (h : passes fl cfg d = true) :
    diff cfg d.cfg = [] ∨ (fl.allowMetaMismatch = true ∧ metaAllowed cfg d.cfg = true) := by
  unfold passes at h
  by_cases hd : diff cfg d.cfg = []
  · exact Or.inl hd
  · right
    have : (diff cfg d.cfg).isEmpty = false := by
      cases hdd : diff cfg d.cfg with
      | nil => exact absurd hdd hd
      | cons _ _ => rfl
    simp [this, he] at h
    exact h

/-- `checkAndSave` on a dataset, as a three-way case split -/
theorem checkAndSave_ds {μ} (fl : Flags) (w : World μ) (cfg : Cfg) (d : DS μ) (dl g : Bool) :
    checkAndSave fl w cfg (some (.ds d)) dl g =
      if passes fl cfg d = true then
        if (fl.saveLocal && !dl) = true then
          match w.saveCut with
          | some junk => ⟨.error .saveInterrupted, junk⟩
          | none => ⟨.ok ⟨saveImage w d, dl, g, !(diff cfg d.cfg).isEmpty && !fl.exceptOnMismatch, true⟩, .okDs (saveImage w d)⟩
        else ⟨.ok ⟨d, dl, g, !(diff cfg d.cfg).isEmpty && !fl.exceptOnMismatch, false⟩, w.read⟩
      else ⟨.error (.configMismatch (diff cfg d.cfg)), w.read⟩ := by
  unfold checkAndSave passes
  by_cases hc : (!(diff cfg d.cfg).isEmpty && fl.exceptOnMismatch && !(fl.allowMetaMismatch && metaAllowed cfg d.cfg)) = true
  · simp only [hc, ↓reduceIte, Bool.not_true, Bool.false_eq_true]
  · have hc' := Bool.eq_false_iff.mpr hc
    simp only [hc', Bool.false_eq_true, ↓reduceIte, Bool.not_false]
    split
    · cases w.saveCut <;> rfl
    · rfl

theorem checkAndSave_ok {μ} (fl : Flags) (w : World μ) (cfg : Cfg) (o : Option (Obj μ)) (dl g : Bool) (r : Res μ)
    (h : (checkAndSave fl w cfg o dl g).res = .ok r) :
    ∃ d, o = some (.ds d) ∧ passes fl cfg d = true ∧
    r.out = (if r.saved = true then saveImage w d else d) ∧ r.didLoadLocal = dl ∧ r.generated = g ∧
    r.warned = (!(diff cfg d.cfg).isEmpty && !fl.exceptOnMismatch) ∧
    r.saved = (fl.saveLocal && !dl) ∧
    (checkAndSave fl w cfg o dl g).fileAfter = (if r.saved = true then .okDs r.out else w.read) ∧
    (r.saved = true → w.saveCut = none) := by
  match o with
  | none => simp [checkAndSave] at h
  | some .other => simp [checkAndSave] at h
  | some (.ds d) =>
    rw [checkAndSave_ds] at h ⊢
    refine ⟨d, rfl, ?_⟩
    by_cases hp : passes fl cfg d = true
    · simp only [hp, ↓reduceIte] at h ⊢
      by_cases hs : (fl.saveLocal && !dl) = true
      · simp only [hs, ↓reduceIte] at h ⊢
        cases hcut : w.saveCut with
        | some junk => simp [hcut] at h
        | none =>
          simp only [hcut, Except.ok.injEq] at h ⊢
          subst h
          simp
      · simp only [hs, Bool.false_eq_true, ↓reduceIte, Except.ok.injEq] at h ⊢
        subst h
        simp
    · simp [hp] at h

/-! ### where a successfully returned dataset came from -/

/-- `Provenance fl w cfg d didLoad generated`: the three ways `from_config` can come by the dataset it returns -/
inductive Provenance {μ} (fl : Flags) (w : World μ) (cfg : Cfg) (d : DS μ) : Bool → Bool → Prop
  | cache : fl.loadLocal = true → w.read = .okDs d → Provenance fl w cfg d true false
  | download : (fl.loadLocal = false ∨ w.read = .absent ∨ w.read = .raises) → fl.doDownload = true →
      w.download = .okDs d → Provenance fl w cfg d false false
  | generated (d0 : DS μ) : (fl.loadLocal = false ∨ w.read = .absent ∨ w.read = .raises) →
      (fl.doDownload = false ∨ w.download = .notImplemented) → fl.doGenerate = true →
      w.gen cfg = some d0 → applyFiltersFromConfig w d0 = .ok d → Provenance fl w cfg d false true

def NoCache {μ} (fl : Flags) (w : World μ) : Prop := fl.loadLocal = false ∨ w.read = .absent ∨ w.read = .raises

theorem tryLoad_none_iff {μ} (fl : Flags) (w : World μ) : tryLoad fl w = none ↔ NoCache fl w := by
  unfold tryLoad NoCache
  cases hl : fl.loadLocal <;> cases hr : w.read <;> simp

theorem tryLoad_ds_iff {μ} (fl : Flags) (w : World μ) (d : DS μ) :
    tryLoad fl w = some (.ds d) ↔ (fl.loadLocal = true ∧ w.read = .okDs d) := by
  unfold tryLoad
  cases hl : fl.loadLocal <;> cases hr : w.read <;> simp

theorem tryDownload_ds {μ} (fl : Flags) (w : World μ) (l : Option (Obj μ)) (d : DS μ)
    (h : tryDownload fl w l = .ok (some (.ds d))) :
    l = some (.ds d) ∨ (l = none ∧ fl.doDownload = true ∧ w.download = .okDs d) := by
  unfold tryDownload at h
  cases hd : fl.doDownload <;> cases l <;> cases hw : w.download <;> simp_all

theorem tryDownload_none {μ} (fl : Flags) (w : World μ) (l : Option (Obj μ))
    (h : tryDownload fl w l = .ok none) :
    l = none ∧ (fl.doDownload = false ∨ w.download = .notImplemented) := by
  unfold tryDownload at h
  cases hd : fl.doDownload <;> cases l <;> cases hw : w.download <;> simp_all

theorem tryDownload_of_none {μ} (fl : Flags) (w : World μ)
    (h : fl.doDownload = false ∨ w.download = .notImplemented) : tryDownload fl w none = .ok none := by
  unfold tryDownload
  rcases h with h | h <;> simp [h]

/-- a successful return: where the checked dataset came from, and that the rest was "check and save" on it -/
theorem fromConfig_ok {μ} (fl : Flags) (w : World μ) (cfg : Cfg) (r : Res μ)
    (h : (fromConfig fl w cfg).res = .ok r) :
    ∃ d, Provenance fl w cfg d r.didLoadLocal r.generated ∧
    fromConfig fl w cfg = checkAndSave fl w cfg (some (.ds d)) r.didLoadLocal r.generated := by
  unfold fromConfig at h ⊢
  by_cases hnw : (!(fl.loadLocal || fl.doDownload || fl.doGenerate)) = true
  · simp [hnw] at h
  · simp only [hnw, Bool.false_eq_true, ↓reduceIte] at h ⊢
    cases htd : tryDownload fl w (tryLoad fl w) with
    | error e => simp [htd] at h
    | ok o =>
      simp only [htd] at h ⊢
      unfold genCheckSave at h ⊢
      by_cases hg : (fl.doGenerate && o.isNone) = true
      · simp only [hg, ↓reduceIte] at h ⊢
        have ho : o = none := by
          cases o with
          | none => rfl
          | some _ => simp at hg
        subst ho
        obtain ⟨hl, hdl⟩ := tryDownload_none fl w _ htd
        cases hgen : w.gen cfg with
        | none => simp [hgen] at h
        | some d0 =>
          simp only [hgen] at h ⊢
          cases haf : applyFiltersFromConfig w d0 with
          | error e => simp [haf] at h
          | ok d' =>
            simp only [haf] at h ⊢
            obtain ⟨d, ho, _, _, hdl', hg', -⟩ := checkAndSave_ok fl w cfg _ _ _ r h
            simp only [Option.some.injEq, Obj.ds.injEq] at ho
            subst ho
            rw [hdl', hg']
            refine ⟨d', ?_, rfl⟩
            rw [hl]
            simp only [Option.isSome_none]
            have hg2 : fl.doGenerate = true := by
              simp only [Bool.and_eq_true] at hg; exact hg.1
            exact Provenance.generated d0 ((tryLoad_none_iff fl w).mp hl) hdl hg2 hgen haf
      · simp only [hg, Bool.false_eq_true, ↓reduceIte] at h ⊢
        obtain ⟨d, ho, _, _, hdl', hg', -⟩ := checkAndSave_ok fl w cfg _ _ _ r h
        subst ho
        rw [hdl', hg']
        refine ⟨d, ?_, rfl⟩
        rcases tryDownload_ds fl w _ _ htd with hl | ⟨hl, hdd, hdw⟩
        · rw [hl]
          simp only [Option.isSome_some]
          obtain ⟨h1, h2⟩ := (tryLoad_ds_iff fl w _).mp hl
          exact Provenance.cache h1 h2
        · rw [hl]
          simp only [Option.isSome_none]
          exact Provenance.download ((tryLoad_none_iff fl w).mp hl) hdd hdw

/-- no usable cache file, no download: the request generates (exact characterisation) -/
theorem fromConfig_regen {μ} (fl : Flags) (w : World μ) (cfg : Cfg)
    (hc : NoCache fl w) (hd : fl.doDownload = false ∨ w.download = .notImplemented) (hg : fl.doGenerate = true) :
    fromConfig fl w cfg =
      match w.gen cfg with
      | none => ⟨.error .generateRaised, w.read⟩
      | some d =>
        match applyFiltersFromConfig w d with
        | .error e => ⟨.error e, w.read⟩
        | .ok d' => checkAndSave fl w cfg (some (.ds d')) false true := by
  unfold fromConfig
  have hl := (tryLoad_none_iff fl w).mpr hc
  simp only [hg, Bool.or_true, Bool.not_true, Bool.false_eq_true, ↓reduceIte, hl, tryDownload_of_none fl w hd]
  unfold genCheckSave
  simp only [hg, Option.isNone_none, Bool.and_self, ↓reduceIte]
  cases w.gen cfg with
  | none => rfl
  | some d => cases applyFiltersFromConfig w d <;> rfl

/-- a cache file that reads as a dataset is what gets checked; nothing is generated, nothing downloaded -/
theorem fromConfig_cached {μ} (fl : Flags) (w : World μ) (cfg : Cfg) (d : DS μ)
    (hl : fl.loadLocal = true) (hr : w.read = .okDs d) :
    fromConfig fl w cfg = checkAndSave fl w cfg (some (.ds d)) true false := by
  unfold fromConfig
  have h1 : tryLoad fl w = some (.ds d) := (tryLoad_ds_iff fl w d).mpr ⟨hl, hr⟩
  simp only [hl, Bool.true_or, Bool.not_true, Bool.false_eq_true, ↓reduceIte, h1]
  unfold tryDownload genCheckSave
  simp

/-! ### the generate path does not look at the file -/

theorem filterLoop_congr {μ} (w w' : World μ) (hk : w'.known = w.known) (ha : w'.applyFilter = w.applyFilter) :
    ∀ (fs : List FilterRec) (d : DS μ), filterLoop w' fs d = filterLoop w fs d
  | [], d => rfl
  | fi :: rest, d => by
    simp only [filterLoop, hk, ha]
    cases w.known fi.name
    · rfl
    · simp only [↓reduceIte]
      cases w.applyFilter fi d with
      | none => rfl
      | some d' => exact filterLoop_congr w w' hk ha rest d'

theorem applyFilters_congr {μ} (w w' : World μ) (hk : w'.known = w.known) (ha : w'.applyFilter = w.applyFilter)
    (hlen : w'.len = w.len) (d : DS μ) : applyFiltersFromConfig w' d = applyFiltersFromConfig w d := by
  simp only [applyFiltersFromConfig, filterLoop_congr w w' hk ha, hlen]

/-! ### faithful generate / filters: the regenerated dataset passes the config check -/

/-- what `register_dataset_filter`'s wrapper promises (dataset.py:497-508): the record is appended, `n_mazes` is
    the only other config field touched (the filter body itself is C08's subject) -/
def FaithfulFilters {μ} (w : World μ) : Prop :=
  ∀ fi d d', w.applyFilter fi d = some d' →
    d'.cfg.filters = d.cfg.filters ++ [fi] ∧ ∀ f, f ≠ "n_mazes" → d'.cfg.fields.lookup f = d.cfg.fields.lookup f

theorem lookup_setField (fs : List (String × String)) (k v f : String) (h : f ≠ k) :
    (setField fs k v).lookup f = fs.lookup f := by
  induction fs with
  | nil => rfl
  | cons p rest ih =>
    obtain ⟨pk, pv⟩ := p
    unfold setField at ih ⊢
    simp only [List.map_cons]
    by_cases hp : pk = k
    · have h1 : (f == k) = false := by simpa using h
      have h2 : (f == pk) = false := by rw [hp]; exact h1
      simp only [hp, ↓reduceIte, List.lookup_cons, h1]
      exact ih
    · simp only [hp, ↓reduceIte, List.lookup_cons]
      cases (f == pk) with
      | true => rfl
      | false => exact ih

theorem filterLoop_faithful {μ} (w : World μ) (hf : FaithfulFilters w) :
    ∀ (fs : List FilterRec) (d out : DS μ), filterLoop w fs d = .ok out →
      out.cfg.filters = d.cfg.filters ++ fs ∧ ∀ f, f ≠ "n_mazes" → out.cfg.fields.lookup f = d.cfg.fields.lookup f
  | [], d, out, h => by
    simp only [filterLoop, Except.ok.injEq] at h
    subst h; simp
  | fi :: rest, d, out, h => by
    unfold filterLoop at h
    cases hk : w.known fi.name with
    | false => simp [hk] at h
    | true =>
      simp only [hk, ↓reduceIte] at h
      cases ha : w.applyFilter fi d with
      | none => simp [ha] at h
      | some d' =>
        simp only [ha] at h
        obtain ⟨h1, h2⟩ := filterLoop_faithful w hf rest d' out h
        obtain ⟨h3, h4⟩ := hf fi d d' ha
        refine ⟨by rw [h1, h3]; simp, fun f hn => by rw [h2 f hn, h4 f hn]⟩

theorem filterLoop_total {μ} (w : World μ) :
    ∀ (fs : List FilterRec) (d : DS μ), (∀ fi ∈ fs, w.known fi.name = true ∧ ∀ d, (w.applyFilter fi d).isSome) →
      ∃ out, filterLoop w fs d = .ok out
  | [], d, _ => ⟨d, rfl⟩
  | fi :: rest, d, h => by
    obtain ⟨hk, ht⟩ := h fi (by simp)
    unfold filterLoop
    simp only [hk, ↓reduceIte]
    cases ha : w.applyFilter fi d with
    | none => have := ht d; simp [ha] at this
    | some d' => exact filterLoop_total w rest d' (fun fi' hm => h fi' (by simp [hm]))

/-- faithful `generate` (returns a dataset carrying a copy of the request config) + faithful, non-raising
    filters ⇒ `_apply_filters_from_config` succeeds and its result agrees with the request modulo `n_mazes` -/
theorem regen_agrees {μ} (w : World μ) (cfg : Cfg) (d0 : DS μ) (hcfg : d0.cfg = cfg) (hf : FaithfulFilters w)
    (ht : ∀ fi ∈ cfg.filters, w.known fi.name = true ∧ ∀ d, (w.applyFilter fi d).isSome) :
    ∃ fresh, applyFiltersFromConfig w d0 = .ok fresh ∧ diff cfg fresh.cfg = [] := by
  obtain ⟨out, hout⟩ := filterLoop_total w d0.cfg.filters
    { d0 with cfg := { d0.cfg with filters := [] } } (by rw [hcfg]; exact ht)
  obtain ⟨h1, h2⟩ := filterLoop_faithful w hf _ _ _ hout
  simp only [List.nil_append] at h1
  refine ⟨updateSelfConfig w.len out, ?_, ?_⟩
  · unfold applyFiltersFromConfig
    simp only [hout]
    have : (updateSelfConfig w.len out).cfg.filters = d0.cfg.filters := h1
    simp [this]
  · rw [diff_nil_iff]
    refine ⟨?_, ?_⟩
    · show cfg.filters = out.cfg.filters
      rw [h1, hcfg]
    · intro f _ hn _
      show cfg.fields.lookup f = (setField out.cfg.fields "n_mazes" _).lookup f
      rw [lookup_setField _ _ _ _ hn, h2 f hn, hcfg]

theorem Provenance.inv_true {μ} {fl : Flags} {w : World μ} {cfg : Cfg} {d : DS μ} {g : Bool}
    (h : Provenance fl w cfg d true g) : fl.loadLocal = true ∧ w.read = .okDs d ∧ g = false := by
  cases h with
  | cache h1 h2 => exact ⟨h1, h2, rfl⟩

/-- the dataset a fresh generation of `cfg` gives in world `w` (and it passes the config check) -/
def Fresh {μ} (w : World μ) (cfg : Cfg) (fresh : DS μ) : Prop :=
  ∃ d0, w.gen cfg = some d0 ∧ applyFiltersFromConfig w d0 = .ok fresh ∧ diff cfg fresh.cfg = []

theorem passes_of_agree {μ} (fl : Flags) (cfg : Cfg) (d : DS μ) (hdiff : diff cfg d.cfg = []) :
    passes fl cfg d = true := by
  simp [passes, hdiff]

theorem checkAndSave_agree {μ} (fl : Flags) (w : World μ) (cfg : Cfg) (d : DS μ) (dl g : Bool)
    (hdiff : diff cfg d.cfg = []) :
    checkAndSave fl w cfg (some (.ds d)) dl g =
      if (fl.saveLocal && !dl) = true then
        match w.saveCut with
        | some junk => ⟨.error .saveInterrupted, junk⟩
        | none => ⟨.ok ⟨saveImage w d, dl, g, false, true⟩, .okDs (saveImage w d)⟩
      else ⟨.ok ⟨d, dl, g, false, false⟩, w.read⟩ := by
  rw [checkAndSave_ds, passes_of_agree fl cfg d hdiff]
  simp only [hdiff, List.isEmpty_nil, Bool.not_true, Bool.false_and, ↓reduceIte]

theorem regen_fresh {μ} (fl : Flags) (w : World μ) (cfg : Cfg) (fresh : DS μ)
    (hc : NoCache fl w) (hd : fl.doDownload = false ∨ w.download = .notImplemented) (hg : fl.doGenerate = true)
    (hf : Fresh w cfg fresh) :
    fromConfig fl w cfg = checkAndSave fl w cfg (some (.ds fresh)) false true := by
  obtain ⟨d0, hgen, haf, _⟩ := hf
  rw [fromConfig_regen fl w cfg hc hd hg]
  simp only [hgen, haf]

theorem regen_fresh_uncut {μ} (fl : Flags) (w : World μ) (cfg : Cfg) (fresh : DS μ)
    (hc : NoCache fl w) (hd : fl.doDownload = false ∨ w.download = .notImplemented) (hg : fl.doGenerate = true)
    (hf : Fresh w cfg fresh) (hs : fl.saveLocal = true) (hcut : w.saveCut = none) :
    fromConfig fl w cfg = ⟨.ok ⟨saveImage w fresh, false, true, false, true⟩, .okDs (saveImage w fresh)⟩ := by
  rw [regen_fresh fl w cfg fresh hc hd hg hf, checkAndSave_agree fl w cfg fresh false true hf.choose_spec.2.2]
  simp [hs, hcut]

theorem regen_fresh_cut {μ} (fl : Flags) (w : World μ) (cfg : Cfg) (fresh : DS μ) (junk : ReadOutcome μ)
    (hc : NoCache fl w) (hd : fl.doDownload = false ∨ w.download = .notImplemented) (hg : fl.doGenerate = true)
    (hf : Fresh w cfg fresh) (hs : fl.saveLocal = true) (hcut : w.saveCut = some junk) :
    fromConfig fl w cfg = ⟨.error .saveInterrupted, junk⟩ := by
  rw [regen_fresh fl w cfg fresh hc hd hg hf, checkAndSave_agree fl w cfg fresh false true hf.choose_spec.2.2]
  simp [hs, hcut]

theorem regen_fresh_nosave {μ} (fl : Flags) (w : World μ) (cfg : Cfg) (fresh : DS μ)
    (hc : NoCache fl w) (hd : fl.doDownload = false ∨ w.download = .notImplemented) (hg : fl.doGenerate = true)
    (hf : Fresh w cfg fresh) (hs : fl.saveLocal = false) :
    fromConfig fl w cfg = ⟨.ok ⟨fresh, false, true, false, false⟩, w.read⟩ := by
  rw [regen_fresh fl w cfg fresh hc hd hg hf, checkAndSave_agree fl w cfg fresh false true hf.choose_spec.2.2]
  simp [hs]

/-- a file that reads as dataset `d`: served iff it passes the check; never rewritten -/
theorem cached_passes {μ} (fl : Flags) (w : World μ) (cfg : Cfg) (d : DS μ)
    (hl : fl.loadLocal = true) (hr : w.read = .okDs d) (hp : passes fl cfg d = true) :
    fromConfig fl w cfg = ⟨.ok ⟨d, true, false, !(diff cfg d.cfg).isEmpty && !fl.exceptOnMismatch, false⟩, .okDs d⟩ := by
  rw [fromConfig_cached fl w cfg d hl hr, checkAndSave_ds, hp]
  simp [hr]

theorem cached_rejects {μ} (fl : Flags) (w : World μ) (cfg : Cfg) (d : DS μ)
    (hl : fl.loadLocal = true) (hr : w.read = .okDs d) (hp : passes fl cfg d = false) :
    fromConfig fl w cfg = ⟨.error (.configMismatch (diff cfg d.cfg)), .okDs d⟩ := by
  rw [fromConfig_cached fl w cfg d hl hr, checkAndSave_ds, hp]
  simp [hr]

/-! ### the in-place `collect_generation_meta` of the minimal save, and what it does to the next request -/

theorem diff_filters_only (a b : Cfg) (hf : a.filters ≠ b.filters)
    (hfld : ∀ f ∈ allFields, f ≠ "n_mazes" → f ≠ "applied_filters" → a.fields.lookup f = b.fields.lookup f) :
    diff a b = ["applied_filters"] := by
  have key : ∀ f ∈ comparedFields, fieldDiffers a b f = (f == "applied_filters") := by
    intro f hfm
    have hmem : f ∈ allFields ∧ f ≠ "n_mazes" := by
      rw [compared_eq] at hfm
      have := List.mem_filter.mp hfm
      exact ⟨this.1, by simpa using this.2⟩
    unfold fieldDiffers
    by_cases ha : f = "applied_filters"
    · simp [ha, hf]
    · simp [ha, hfld f hmem.1 hmem.2 ha]
  unfold diff
  rw [List.filter_congr key]
  decide

theorem saveImage_cfg {μ} (w : World μ) (d : DS μ) (hm : minimalSave w d = true) :
    (saveImage w d).cfg.filters = d.cfg.filters ++ [cgmRec] ∧
    ∀ f, f ≠ "n_mazes" → (saveImage w d).cfg.fields.lookup f = d.cfg.fields.lookup f := by
  unfold saveImage
  simp only [hm, ↓reduceIte]
  exact ⟨rfl, fun f hn => lookup_setField _ _ _ _ hn⟩

theorem saveImage_id {μ} (w : World μ) (d : DS μ) (hm : minimalSave w d = false) : saveImage w d = d := by
  unfold saveImage; simp [hm]

/-- what `save` wrote (and mutated the returned object into) still passes the request's own check: unchanged when
    the save was not a collecting minimal save; otherwise it differs from the checked dataset exactly by the trailing
    `collect_generation_meta` record, which the allowance tolerates -/
theorem saveImage_passes {μ} (fl : Flags) (w : World μ) (cfg : Cfg) (d : DS μ)
    (hdiff : diff cfg d.cfg = []) (ha : fl.allowMetaMismatch = true ∨ minimalSave w d = false) :
    passes fl cfg (saveImage w d) = true := by
  cases hm : minimalSave w d with
  | false => rw [saveImage_id w d hm]; exact passes_of_agree fl cfg d hdiff
  | true =>
    have ha' : fl.allowMetaMismatch = true := by
      rcases ha with h | h
      · exact h
      · rw [hm] at h; cases h
    obtain ⟨hfil, hfld⟩ := (diff_nil_iff _ _).mp hdiff
    obtain ⟨h1, h2⟩ := saveImage_cfg w d hm
    have hf2 : (saveImage w d).cfg.filters = cfg.filters ++ [cgmRec] := by rw [h1, ← hfil]
    have hfne : cfg.filters ≠ (saveImage w d).cfg.filters := by
      rw [hf2]; intro h
      have := congrArg List.length h
      simp at this
    have hd : diff cfg (saveImage w d).cfg = ["applied_filters"] :=
      diff_filters_only _ _ hfne (fun f hf hn ha => by rw [h2 f hn]; exact hfld f hf hn ha)
    have hma : metaAllowed cfg (saveImage w d).cfg = true := by
      rw [metaAllowed_iff, hd]
      exact ⟨by simp, by simp, hf2⟩
    simp [passes, ha', hma]

/-- with the allowance switched off, a collecting minimal save leaves a file the same request rejects
    (`allow_generation_metadata_filter_mismatch=False` is documented to do that) -/
theorem saveImage_rejected_without_allowance {μ} (fl : Flags) (w : World μ) (cfg : Cfg) (d : DS μ)
    (hdiff : diff cfg d.cfg = []) (hm : minimalSave w d = true) (ha : fl.allowMetaMismatch = false)
    (he : fl.exceptOnMismatch = true) :
    passes fl cfg (saveImage w d) = false := by
  obtain ⟨hfil, hfld⟩ := (diff_nil_iff _ _).mp hdiff
  obtain ⟨h1, h2⟩ := saveImage_cfg w d hm
  have hfne : cfg.filters ≠ (saveImage w d).cfg.filters := by
    rw [h1, ← hfil]; intro h
    have := congrArg List.length h
    simp at this
  have hd : diff cfg (saveImage w d).cfg = ["applied_filters"] :=
    diff_filters_only _ _ hfne (fun f hf hn ha => by rw [h2 f hn]; exact hfld f hf hn ha)
  simp [passes, hd, he, ha]

end MZ.Cache
