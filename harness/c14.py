"""C14 — token vocabularies and token-id codecs are fixed, duplicate-free, invertible.

Correspondence (model vs. real code, exhaustive): all 4096 positions of VOCAB_LIST / VOCAB_TOKEN_TO_INDEX against `MZ.Vocab.vocab`
/ `tokenToIndex`; `corner_first_ndindex(n)` and `np.ndindex(n, n)` for every n <= 50 against `cornerFirst n` / `ndindex n` (plus the
Lean-verified checker `cornerSpecOK` on the real output); `MazeTokenizer(mode, n).token_arr / tokenizer_map` for all three legacy
modes x max_grid_size 1..50 (and None); `encode` / `decode` of the modular and the legacy tokenizers on all single tokens / ids,
random sequences and malformed sequences (unknown tokens, negative and too large ids -> TokenError).

Oracles (plain Python, written from the property statement, independent of the Lean model): the published layout in closed form
(`golden_vocab`), a sort-free closed form of the corner-first order (`oracle_corner_first`), duplicate-freeness, map = inverse of
list, row-major order, prefix compatibility for every pair of sizes, round trips and TokenError for everything outside the vocabulary."""
from __future__ import annotations
import json, warnings
from pathlib import Path

RULE = ("exhaustive: every position 0..4095 of VOCAB_LIST (one case each), corner_first_ndindex(n) for every n in 0..50 (thorough: 0..64), "
        "every legacy mode x max_grid_size 1..50 (+ None) with every token of token_arr looked up, encode/decode of every single token / id of "
        "the modular vocabulary (legacy: every token/id of a seeded sample of sizes in quick, all sizes in thorough); random: token / id sequences of "
        "length 0..40 over the vocabulary and the same sequences with 1-3 unknown tokens / out-of-range ids (negative, >= len) spliced in; "
        "non-trivial = position / non-empty sequence / n >= 2; distinct = distinct canonical case (position, n, (mode, n), (vocabulary, sequence)); later additions: tokenizers built in descending / interleaved size order, re-sized tokenizers with clear_cache, container helper calls, bracket tokens in joined strings, and corner_first_ndindex results shuffled and thinned in place by the caller before anything else is asked, ids carried by numpy arrays, 0-d arrays and torch tensors")
ASSUMPTIONS = ["CPython `sorted` is stable and `np.ndindex(n, n)` is row-major (both validated for every n <= 50 on every run)",
               "dataclass field order of `_VOCAB_BASE` = base-class fields then `_VOCAB_FIELDS` in declaration order, names distinct (validated: the whole list is compared)",
               "`str(int)` = Lean `Nat.repr`/`Int.repr` (validated on every numeric token)",
               "token ids are Python ints (bool/float/None ids and non-str tokens are outside the property's domain)",
               "`text.split()` / `' '.join` (the str forms of encode/decode) are Python builtins, checked only against the list forms"]
TRUSTED = ["harness/translate_vocab.py (block structure of _VOCAB_FIELDS, parsed with ast) next to harness/translate.py",
           "kernel evaluation (`decide +kernel`) of 1585 string equalities tying Generated/Constants.lean to Generated/VocabBlocks.lean, and of the 68 literal tokens' pairwise distinctness"]

MODES = ["AOTP_UT_rasterized", "AOTP_UT_uniform", "AOTP_CTT_indexed"]
NEG_KEY = "decode-negative-id-wraps"

# ------------------------------------------------------------------------------------------------------------------
# oracles: the published layout, written out by hand (NOT derived from the repository or from the Lean model)
# ------------------------------------------------------------------------------------------------------------------
GOLD_SPECIALS = ["<ADJLIST_START>", "<ADJLIST_END>", "<TARGET_START>", "<TARGET_END>", "<ORIGIN_START>", "<ORIGIN_END>",
                 "<PATH_START>", "<PATH_END>", "<-->", ";", "<PADDING>"]
GOLD_MISC = ["(", ",", ")", "=", "||", ":", "THEN", "-", "<UNK>"]
GOLD_DIRS = ["NORTH", "SOUTH", "EAST", "WEST", "NORTHEAST", "NORTHWEST", "SOUTHEAST", "SOUTHWEST", "CENTER"]
GOLD_PATH = ["NORTH", "SOUTH", "EAST", "WEST", "FORWARD", "BACKWARD", "LEFT", "RIGHT", "STAY"]
GOLD_TAIL = ["STEP", "ADJ_GROUP", "&", "<XX>"]


def oracle_corner_first(n: int) -> list[tuple[int, int]]:
    """corner-first order in closed form, shell by shell (shell m = cells with max(x, y) == m), no sorting involved.
    even m: (i,m) for even i<m; then for j<m: (j,m) if j odd, (m,j); then (m,m).
    odd  m: for j<m: (j,m) if j even, (m,j); then (i,m) for odd i<m; then (m,m)."""
    out = []
    for m in range(n):
        if m % 2 == 0:
            out += [(i, m) for i in range(0, m, 2)]
            for j in range(m):
                if j % 2 == 1:
                    out.append((j, m))
                out.append((m, j))
        else:
            for j in range(m):
                if j % 2 == 0:
                    out.append((j, m))
                out.append((m, j))
            out += [(i, m) for i in range(1, m, 2)]
        out.append((m, m))
    return out


def golden_vocab() -> list[str]:
    v = list(GOLD_SPECIALS) + list(GOLD_MISC)
    v += ["TARGET_" + c for c in "ABCDEFGHIJKLMNOPQRSTUVWXYZ"]
    v += ["TARGET_" + d for d in GOLD_DIRS] + list(GOLD_PATH)
    v += ["+%d" % i for i in range(256)] + ["%d" % i for i in range(128)] + ["%d" % i for i in range(-256, 0)]
    v += list(GOLD_TAIL) + ["<RESERVE_%d>" % i for i in range(708, 1596)]
    v += ["(%d,%d)" % xy for xy in oracle_corner_first(50)]
    return v


def golden_block(i: int) -> str:
    for lo, name in [(1596, "UT coordinate block"), (708, "RESERVE block"), (704, "PATH_PRE..ADJLIST_WALL"), (448, "negative ints I_N"),
                     (320, "CTT ints"), (64, "positive ints I_"), (55, "PATH_ directions"), (46, "TARGET_ directions"), (20, "TARGET_A..Z"),
                     (11, "COORD_PRE..UNKNOWN"), (0, "special tokens")]:
        if i >= lo:
            return name
    return "?"


# ------------------------------------------------------------------------------------------------------------------
# helpers
# ------------------------------------------------------------------------------------------------------------------
def _imports():
    warnings.filterwarnings("ignore")
    import numpy as np
    import maze_dataset
    from maze_dataset import VOCAB, VOCAB_LIST, VOCAB_TOKEN_TO_INDEX, SPECIAL_TOKENS
    from maze_dataset.utils import corner_first_ndindex
    from maze_dataset.tokenization import MazeTokenizer, MazeTokenizerModular, TokenizationMode
    from maze_dataset.tokenization.maze_tokenizer import TokenError
    return dict(np=np, VOCAB=VOCAB, VOCAB_LIST=VOCAB_LIST, MAP=VOCAB_TOKEN_TO_INDEX, SPECIAL=SPECIAL_TOKENS, cf=corner_first_ndindex,
                MT=MazeTokenizer, MTM=MazeTokenizerModular, TM=TokenizationMode, TokenError=TokenError)


def _outcome(R, fn):
    """canonical outcome of a call of the real code: ('ok', value) | ('err', name)"""
    try:
        return ("ok", fn())
    except R["TokenError"]:
        return ("err", "TokenError")
    except TypeError:
        return ("err", "TypeError")
    except ValueError:
        return ("err", "ValueError")
    except KeyError:
        return ("err", "KeyError")
    except IndexError:
        return ("err", "IndexError")
    except AssertionError:
        return ("err", "AssertionError")
    except Exception as e:  # noqa
        return ("err", "other:" + type(e).__name__)


def _model_outcome(o):
    if "error" in o:
        return ("driver-error", o["error"])
    if "ok" in o:
        return ("ok", o["ok"])
    return ("err", o["err"])


_tok_cache = {}


def _legacy(R, mode, n):
    k = (mode, n)
    if k not in _tok_cache:
        _tok_cache[k] = R["MT"](tokenization_mode=R["TM"][mode], max_grid_size=n)
    return _tok_cache[k]


def _voc_json(voc):
    return "modular" if voc == "modular" else dict(mode=voc[0], n=voc[1])


def _real_vocab(R, voc):
    """(token list, token->id map, encode, decode) of the real tokenizer selected by `voc`"""
    if voc == "modular":
        return R["VOCAB_LIST"], R["MAP"], R["MTM"].encode, R["MTM"].decode
    t = _legacy(R, voc[0], voc[1])
    return t.token_arr, t.tokenizer_map, t.encode, t.decode


class _Budget:
    """at most `k` violations reported per oracle group (the first one is what the check prints)"""
    def __init__(self, ctx, k=3): self.ctx, self.k, self.n = ctx, k, {}
    def violate(self, group, what, case, key="unlisted"):
        self.n[group] = self.n.get(group, 0) + 1
        if self.n[group] <= self.k:
            self.ctx.violate(what, case, key=key)


# ------------------------------------------------------------------------------------------------------------------
# oracle checks on the real code (each takes a JSON-able `case` so that `replay` can re-run it)
# ------------------------------------------------------------------------------------------------------------------
def check_vocab_global(ctx, R, B):
    """length, duplicate-freeness, map = inverse of list, special tokens first, tokenizer views"""
    L, M = R["VOCAB_LIST"], R["MAP"]
    case = dict(kind="vocab_global")
    ctx.case(case)
    if len(L) != 4096:
        B.violate("vocab", f"len(VOCAB_LIST) = {len(L)}, the published vocabulary has 4096 tokens", dict(case, length=len(L)))
    seen = {}
    for i, t in enumerate(L):
        if t in seen:
            B.violate("vocab", f"VOCAB_LIST has a duplicate: token {t!r} at positions {seen[t]} and {i}", dict(kind="vocab_pos", i=i, other=seen[t], token=t))
        else:
            seen[t] = i
    if len(M) != len(L):
        B.violate("vocab", f"VOCAB_TOKEN_TO_INDEX has {len(M)} keys for {len(L)} tokens", dict(case, map_len=len(M)))
    if list(R["VOCAB"].values()) != list(L):
        B.violate("vocab", "VOCAB_LIST is not list(VOCAB.values())", case)
    if list(L[:len(GOLD_SPECIALS)]) != GOLD_SPECIALS or list(R["SPECIAL"].values()) != GOLD_SPECIALS:
        B.violate("vocab", f"the special tokens are not the first {len(GOLD_SPECIALS)} entries in the published order: {list(L[:11])}", case)
    m = R["MTM"]()
    if m.token_arr is not L and list(m.token_arr) != list(L):
        B.violate("vocab", "MazeTokenizerModular().token_arr differs from VOCAB_LIST", case)
    if dict(m.tokenizer_map) != dict(M) or m.vocab_size != len(L):
        B.violate("vocab", "MazeTokenizerModular().tokenizer_map / vocab_size differ from VOCAB_TOKEN_TO_INDEX / len(VOCAB_LIST)", case)
    if m.padding_token_index != 10:
        B.violate("vocab", f"padding_token_index = {m.padding_token_index}, published id of <PADDING> is 10", case)


def check_vocab_pos(ctx, R, B, i, gold=None):
    """position i holds the published token, and that token's id is i"""
    L, M = R["VOCAB_LIST"], R["MAP"]
    gold = gold or golden_vocab()
    case = dict(kind="vocab_pos", i=i)
    ctx.case(case)
    ctx.count("vocab:" + golden_block(i))
    if i >= len(L):
        B.violate("vocab", f"VOCAB_LIST has no position {i} (published token {gold[i]!r})", case); return
    if L[i] != gold[i]:
        B.violate("vocab", f"VOCAB_LIST[{i}] = {L[i]!r} but the published layout has {gold[i]!r} at id {i} ({golden_block(i)})",
                  dict(case, got=L[i], expected=gold[i]))
    if M.get(L[i]) != i:
        B.violate("vocab", f"VOCAB_TOKEN_TO_INDEX[{L[i]!r}] = {M.get(L[i])!r}, but the token sits at position {i}", dict(case, token=L[i], mapped=M.get(L[i])))


def check_corner(ctx, R, B, n, cache=None):
    """corner_first_ndindex(n) is the published order; it extends every smaller size"""
    case = dict(kind="corner", n=n)
    ctx.case(case, nontrivial=n >= 2)
    ctx.count("corner:n<=10" if n <= 10 else "corner:n<=50" if n <= 50 else "corner:n>50")
    impl = [tuple(int(c) for c in x) for x in R["cf"](n)]
    exp = oracle_corner_first(n)
    if impl != exp:
        k = next((k for k in range(min(len(impl), len(exp))) if impl[k] != exp[k]), min(len(impl), len(exp)))
        B.violate("corner", f"corner_first_ndindex({n})[{k}] = {impl[k] if k < len(impl) else None} but the corner-first order has {exp[k] if k < len(exp) else None} there "
                            f"(length {len(impl)} vs {len(exp)})", dict(case, index=k))
    if sorted(impl) != [(i, j) for i in range(n) for j in range(n)]:
        B.violate("corner", f"corner_first_ndindex({n}) is not a rearrangement of the {n}x{n} grid", case)
    if cache is not None:
        for m, prev in cache.items():
            if m < n and impl[:len(prev)] != prev:
                k = next(k for k in range(len(prev)) if k >= len(impl) or impl[k] != prev[k])
                B.violate("corner", f"corner_first_ndindex({m}) is not a prefix of corner_first_ndindex({n}): entry {k} is {prev[k]} vs {impl[k] if k < len(impl) else None}",
                          dict(kind="corner_prefix", n=m, m=n, index=k))
                break
        cache[n] = impl
    return impl


def check_corner_prefix(ctx, R, B, n, m):
    case = dict(kind="corner_prefix", n=n, m=m)
    ctx.case(case)
    a = [tuple(int(c) for c in x) for x in R["cf"](n)]
    b = [tuple(int(c) for c in x) for x in R["cf"](m)]
    if b[:len(a)] != a:
        k = next(k for k in range(len(a)) if k >= len(b) or a[k] != b[k])
        B.violate("corner", f"corner_first_ndindex({n}) is not a prefix of corner_first_ndindex({m}): entry {k} is {a[k]} vs {b[k] if k < len(b) else None}", dict(case, index=k))


def check_legacy(ctx, R, B, mode, n, uniform_cache=None):
    """token_arr duplicate-free, tokenizer_map its inverse, published order per mode, prefix compatibility (uniform)"""
    case = dict(kind="legacy", mode=mode, n=n)
    ctx.case(case, nontrivial=n >= 2)
    ctx.count("legacy:" + mode)
    t = _legacy(R, mode, n)
    arr, mp = list(t.token_arr), t.tokenizer_map
    if len(set(arr)) != len(arr):
        d = next(x for k, x in enumerate(arr) if x in arr[:k])
        B.violate("legacy", f"MazeTokenizer({mode}, max_grid_size={n}).token_arr contains {d!r} twice", dict(case, token=d))
    if len(mp) != len(arr) or any(mp.get(x) != k for k, x in enumerate(arr)):
        k = next((k for k, x in enumerate(arr) if mp.get(x) != k), None)
        B.violate("legacy", f"MazeTokenizer({mode}, {n}).tokenizer_map is not the inverse of token_arr (position {k}: {arr[k] if k is not None else None!r} -> "
                            f"{mp.get(arr[k]) if k is not None else None}; {len(mp)} keys for {len(arr)} tokens)", dict(case, index=k))
    if t.vocab_size != len(arr) or t.padding_token_index != 10:
        B.violate("legacy", f"MazeTokenizer({mode}, {n}): vocab_size {t.vocab_size} / padding_token_index {t.padding_token_index} disagree with token_arr", case)
    if arr[:11] != GOLD_SPECIALS:
        B.violate("legacy", f"MazeTokenizer({mode}, {n}).token_arr does not start with the special tokens", case)
    if mode == "AOTP_UT_rasterized":
        exp = GOLD_SPECIALS + ["(%d,%d)" % (i, j) for i in range(n) for j in range(n)]
        if arr != exp:
            k = next((k for k in range(min(len(arr), len(exp))) if arr[k] != exp[k]), min(len(arr), len(exp)))
            B.violate("legacy", f"rasterized token_arr for max_grid_size={n} is not row-major: position {k} holds {arr[k] if k < len(arr) else None!r}, row-major order has "
                                f"{exp[k] if k < len(exp) else None!r}", dict(case, index=k))
    elif mode == "AOTP_UT_uniform":
        exp = GOLD_SPECIALS + ["(%d,%d)" % xy for xy in oracle_corner_first(n)]
        if arr != exp:
            k = next((k for k in range(min(len(arr), len(exp))) if arr[k] != exp[k]), min(len(arr), len(exp)))
            B.violate("legacy", f"uniform token_arr for max_grid_size={n}: position {k} holds {arr[k] if k < len(arr) else None!r}, corner-first order has "
                                f"{exp[k] if k < len(exp) else None!r}", dict(case, index=k))
        if uniform_cache is not None:
            for m, prev in uniform_cache.items():
                if m < n and arr[:len(prev)] != prev:
                    k = next(k for k in range(len(prev)) if k >= len(arr) or arr[k] != prev[k])
                    B.violate("legacy", f"uniform vocabulary for size {m} is not a prefix of the one for size {n}: id {k} is {prev[k]!r} vs {arr[k] if k < len(arr) else None!r}",
                              dict(kind="legacy_prefix", n=m, m=n, index=k))
                    break
            uniform_cache[n] = arr
        if n <= 50:
            ut = list(R["VOCAB_LIST"][1596:1596 + n * n])
            if ut != arr[11:]:
                B.violate("legacy", f"coordinate tokens of the uniform vocabulary for size {n} are not the first {n*n} entries of the modular coordinate block", case)
    else:
        exp = GOLD_SPECIALS + ["(", ",", ")"] + [str(i) for i in range(n)]
        if arr != exp:
            B.violate("legacy", f"indexed token_arr for max_grid_size={n} is {arr[11:20]}…, expected '(' ',' ')' then 0..{n-1}", case)
    return arr, mp


def check_legacy_prefix(ctx, R, B, n, m):
    case = dict(kind="legacy_prefix", n=n, m=m)
    ctx.case(case)
    a = list(_legacy(R, "AOTP_UT_uniform", n).token_arr); b = list(_legacy(R, "AOTP_UT_uniform", m).token_arr)
    if b[:len(a)] != a:
        k = next(k for k in range(len(a)) if k >= len(b) or a[k] != b[k])
        B.violate("legacy", f"uniform vocabulary for size {n} is not a prefix of the one for size {m}: id {k} is {a[k]!r} vs {b[k] if k < len(b) else None!r}", dict(case, index=k))


def check_encode(ctx, R, B, voc, toks):
    """encode on a token sequence: ids are the positions, decode gives the sequence back; unknown token -> TokenError"""
    arr, mp, enc, dec = _real_vocab(R, voc)
    case = dict(kind="encode", voc=_voc_json(voc), tokens=list(toks))
    known = all(t in set(arr) for t in toks) if len(toks) > 8 else all(t in arr for t in toks)
    ctx.case(case, nontrivial=len(toks) > 0)
    ctx.count(f"encode:{'known' if known else 'unknown-token'}:{voc if voc == 'modular' else voc[0]}")
    out = _outcome(R, lambda: [int(i) for i in enc(list(toks))])
    name = "MazeTokenizerModular" if voc == "modular" else f"MazeTokenizer({voc[0]}, {voc[1]})"
    if known:
        if out[0] != "ok":
            B.violate("codec", f"{name}.encode({list(toks)[:6]}…) raised {out[1]} on tokens of its own vocabulary", dict(case, outcome=out))
        else:
            ids = out[1]
            if len(ids) != len(toks) or any(not (0 <= i < len(arr)) or arr[i] != t for i, t in zip(ids, toks)):
                B.violate("codec", f"{name}.encode returned ids {ids[:8]} that are not the positions of {list(toks)[:8]}", dict(case, ids=ids))
            back = _outcome(R, lambda: list(dec(ids)))
            if back != ("ok", list(toks)):
                B.violate("codec", f"{name}.decode(encode(x)) != x for x = {list(toks)[:8]}: {back}", dict(case, ids=ids, back=back))
            if toks and all(t and not any(ch.isspace() for ch in t) for t in toks):
                s = _outcome(R, lambda: [int(i) for i in enc(" ".join(toks))])
                if s != out:
                    B.violate("codec", f"{name}.encode(str) differs from encode(list) on {list(toks)[:8]}", dict(case, str_form=s))
    else:
        if out != ("err", "TokenError"):
            bad = next(t for t in toks if t not in arr)
            B.violate("codec", f"{name}.encode of a sequence containing the unknown token {bad!r} gave {out} instead of TokenError", dict(case, outcome=out, unknown=bad))
    return case, out


def check_decode(ctx, R, B, voc, ids):
    """decode on an id sequence: tokens at these positions, encode gives the ids back; id outside [0, len) -> TokenError"""
    arr, mp, enc, dec = _real_vocab(R, voc)
    case = dict(kind="decode", voc=_voc_json(voc), ids=list(ids))
    valid = all(0 <= i < len(arr) for i in ids)
    ctx.case(case, nontrivial=len(ids) > 0)
    ctx.count(f"decode:{'valid' if valid else ('negative-id' if any(i < 0 for i in ids) else 'id>=len')}:{voc if voc == 'modular' else voc[0]}")
    out = _outcome(R, lambda: list(dec(list(ids))))
    name = "MazeTokenizerModular" if voc == "modular" else f"MazeTokenizer({voc[0]}, {voc[1]})"
    if valid:
        if out != ("ok", [arr[i] for i in ids]):
            B.violate("codec", f"{name}.decode({list(ids)[:8]}) = {out}, expected the tokens at these positions", dict(case, outcome=out))
        else:
            back = _outcome(R, lambda: [int(i) for i in enc(out[1])])
            if back != ("ok", list(ids)):
                B.violate("codec", f"{name}.encode(decode(ids)) != ids for ids = {list(ids)[:8]}: {back}", dict(case, back=back))
            if len(ids) and (len(ids) + ids[0]) % 3 == 0:
                # the ids as they come out of a model or an array library: numpy integer arrays, a 1-d torch tensor, lists of 0-d arrays / tensors
                import numpy as _np
                carriers = [("numpy int64 array", lambda: _np.array(list(ids), dtype=_np.int64)), ("list of 0-d numpy arrays", lambda: [_np.array(i) for i in ids])]
                try:
                    import torch as _t
                    carriers += [("1-d torch tensor", lambda: _t.tensor(list(ids))), ("list of 0-d torch tensors", lambda: [_t.tensor(i) for i in ids])]
                except Exception:
                    pass
                for label, mk in carriers:
                    o2 = _outcome(R, lambda: list(dec(mk())))
                    if o2 != out:
                        B.violate("codec", f"{name}.decode of the ids {list(ids)[:8]} given as a {label} = {o2}, given as a list of ints = {out[1][:8]}", dict(case, carrier=label, outcome=o2))
                        break
            j = _outcome(R, lambda: dec(list(ids), joined_tokens=True))
            if j != ("ok", " ".join(out[1])):
                B.violate("codec", f"{name}.decode(joined_tokens=True) is not the joined list form for ids {list(ids)[:8]}", dict(case, joined=j))
    else:
        if out != ("err", "TokenError"):
            bad = next(i for i in ids if not (0 <= i < len(arr)))
            wraps = out[0] == "ok" and bad < 0
            B.violate("codec-neg" if wraps else "codec",
                      f"{name}.decode of ids containing the invalid id {bad} (vocabulary size {len(arr)}) gave {str(out)[:120]} instead of TokenError",
                      dict(case, outcome=out, invalid_id=bad), key=NEG_KEY if wraps else "unlisted")
    return case, out


# ------------------------------------------------------------------------------------------------------------------
# case generation
# ------------------------------------------------------------------------------------------------------------------
BAD_TOKEN_CANDIDATES = ["(50,0)", "(0,50)", "(50,50)", "( 0,0)", "(0, 0)", "(0,0", "0,0)", "(00,0)", "+256", "+00", "-257", "-0", "128", "256", "007",
                        "<RESERVE_707>", "<RESERVE_1596>", "<RESERVE_>", "TARGET_a", "TARGET_", "north", "North", "", "<PAD>", "UT_00_00",
                        "COORD_PRE", "PADDING", "<padding>", "<ADJLIST_START", "ADJ", "&&", "|", "<-->;", "THEN ", " ", "\t", "(1,1)(1,1)", "+1.0", "1e3", "−1"]


def _seq_cases(ctx, R, voc, n_rand, n_bad):
    """random known sequences, and the same with unknown tokens / invalid ids spliced in"""
    arr = list(_real_vocab(R, voc)[0])
    N = len(arr)
    aset = set(arr)
    bad_toks = [t for t in BAD_TOKEN_CANDIDATES if t not in aset]
    if voc != "modular":
        bad_toks += [t for t in ["(%d,%d)" % (voc[1], 0), "(0,%d)" % voc[1], str(voc[1]), "+0", "<UNK>"] if t not in aset]
    bad_ids = [-1, -2, -N, -N - 1, N, N + 1, 2 * N, 2 ** 31, -2 ** 31, 10 ** 12, -(10 ** 12)]
    rng = ctx.rng
    enc_cases, dec_cases = [], []
    for _ in range(n_rand):
        k = rng.choice([0, 1, 2, 3, 5, 8, 13, 21, 40])
        if rng.random() < 0.5 and N > 11:
            ids = [rng.randrange(11, N) if rng.random() < 0.7 else rng.randrange(0, 11) for _ in range(k)]
        else:
            ids = [rng.randrange(N) for _ in range(k)]
        if k and rng.random() < 0.3:
            ids[rng.randrange(k)] = rng.choice([0, N - 1, 10, 11, min(N - 1, 1595), min(N - 1, 1596)])
        enc_cases.append([arr[i] for i in ids]); dec_cases.append(ids)
    for _ in range(n_bad):
        k = rng.choice([0, 1, 2, 5, 13])
        ids = [rng.randrange(N) for _ in range(k)]
        toks = [arr[i] for i in ids]
        for _ in range(rng.choice([1, 1, 2, 3])):
            toks.insert(rng.randrange(len(toks) + 1), rng.choice(bad_toks))
        enc_cases.append(toks)
        ids = list(ids)
        for _ in range(rng.choice([1, 1, 2, 3])):
            b = rng.choice(bad_ids) if rng.random() < 0.7 else rng.choice([-rng.randrange(1, N + 5), N + rng.randrange(0, 1000)])
            ids.insert(rng.randrange(len(ids) + 1), b)
        dec_cases.append(ids)
    return enc_cases, dec_cases


def _corner_range(ctx):
    return range(0, 51) if ctx.quick else range(0, 65)


# ------------------------------------------------------------------------------------------------------------------
# run: correspondence + oracles
# ------------------------------------------------------------------------------------------------------------------
def run(ctx):
    R = _imports()
    B = _Budget(ctx)
    reqs, tags = [], []     # driver requests and what to do with the reply

    def ask(req, tag):
        reqs.append(req); tags.append(tag)

    # ---- 0. corpus of past disagreements / violations first
    cdir = Path(__file__).resolve().parent / "corpus" / "C14"
    if cdir.is_dir():
        for p in sorted(cdir.glob("*.json")):
            _replay_case(ctx, R, B, json.loads(p.read_text()).get("case", {}))

    # ---- 1. the modular vocabulary: every position
    L = list(R["VOCAB_LIST"])
    gold = golden_vocab()
    check_vocab_global(ctx, R, B)
    for i in range(4096):
        check_vocab_pos(ctx, R, B, i, gold)
    ask(dict(op="C14.vocab"), ("vocab",))
    ask(dict(op="C14.lookup", voc="modular", tokens=L), ("lookup", "modular", L, [R["MAP"].get(t) for t in L]))

    # ---- 2. corner_first_ndindex / np.ndindex for every n
    # (first: what the helper hands out is the caller's — every size's list, asked for in both spellings, is shuffled and thinned in place
    #  and thrown away; anything below that is built from a shared memo of it would be wrong from here on)
    import random as _r
    for n in list(_corner_range(ctx)) + list(range(1, 51)):
        for args in ((n,), (n, 2)):
            try:
                out = R["cf"](*args)
                if isinstance(out, list) and out:
                    _r.Random(n).shuffle(out); out.pop(); out.append(out[0])
            except Exception:
                pass
    ctx.count("caller_edited_helper_results")
    cache = {}
    for n in _corner_range(ctx):
        impl = check_corner(ctx, R, B, n, cache)
        nd = [tuple(int(c) for c in x) for x in R["np"].ndindex(n, n)]
        ask(dict(op="C14.corner", n=n, impl=[list(x) for x in impl]), ("corner", n, impl, nd))

    # ---- 3. legacy tokenizers: all modes x sizes
    ucache = {}
    sizes = list(range(1, 51))
    for mode in MODES:
        for n in sizes:
            arr, mp = check_legacy(ctx, R, B, mode, n, ucache if mode == "AOTP_UT_uniform" else None)
            ask(dict(op="C14.token_arr", mode=mode, n=n), ("token_arr", mode, n, arr))
            ask(dict(op="C14.lookup", voc=dict(mode=mode, n=n), tokens=arr + ["(0,0", "?"]), ("lookup", (mode, n), arr + ["(0,0", "?"], [mp.get(t) for t in arr + ["(0,0", "?"]]))
        t = _legacy(R, mode, None)
        ctx.case(dict(kind="legacy", mode=mode, n=None), nontrivial=False)
        ask(dict(op="C14.token_arr", mode=mode, n=None), ("token_arr", mode, None, t.token_arr))

    # ---- 3a. the helper methods of the token containers are exercised FIRST-hand here (nothing else in the library calls them): using them
    #          must not change what the containers hold (values()/keys()/len read the instance dict)
    try:
        from maze_dataset.constants import SPECIAL_TOKENS, VOCAB, VOCAB_LIST
        before = (list(SPECIAL_TOKENS.values()), len(SPECIAL_TOKENS), list(VOCAB.values()) == list(VOCAB_LIST), len(VOCAB))
        for cont, key in ((SPECIAL_TOKENS, "ADJLIST_START"), (SPECIAL_TOKENS, "PATH_END"), (VOCAB, "ADJLIST_START"), (VOCAB, "CTT_0")):
            for nm in ("get_abbrev",):
                f = getattr(cont, nm, None)
                if f is None: continue
                try: f(key)
                except Exception: pass
            list(cont.keys()); list(cont.items()); key in cont
        after = (list(SPECIAL_TOKENS.values()), len(SPECIAL_TOKENS), list(VOCAB.values()) == list(VOCAB_LIST), len(VOCAB))
        ctx.case(dict(kind="container-helpers"), nontrivial=True)
        if after != before or not all(isinstance(v, str) for v in after[0]):
            B.violate("vocab", f"after calling the token containers' helper methods (get_abbrev, keys, items) they hold something else: "
                      f"SPECIAL_TOKENS has {after[1]} values (was {before[1]}), VOCAB has {after[3]} (was {before[3]}), values()==VOCAB_LIST is {after[2]}", dict(kind="vocab", helpers=True))
    except ImportError:
        pass
    # ---- 3b. the vocabulary of a size must not depend on which sizes were built before it: FRESH tokenizer objects in descending and
    #          interleaved order (the ascending pass above used cached objects), every mode, compared with the ascending result
    order = list(range(50, 0, -1)) + [7, 50, 3, 49, 12, 2, 31, 30]
    for mode in MODES:
        for n in (order if not ctx.quick else order[:6] + order[40:] ):
            fresh = R["MT"](tokenization_mode=R["TM"][mode], max_grid_size=n)
            want = list(_legacy(R, mode, n).token_arr)
            got = list(fresh.token_arr)
            ctx.case(dict(kind="legacy-order", mode=mode, n=n), nontrivial=True); ctx.count("legacy_fresh_in_other_order")
            if got != want or dict(fresh.tokenizer_map) != {t: i for i, t in enumerate(want)}:
                k = next((i for i, (a, b) in enumerate(zip(got, want)) if a != b), min(len(got), len(want)))
                B.violate("legacy", f"MazeTokenizer({mode}, max_grid_size={n}) built after larger sizes has another vocabulary than the one built first: position {k} holds "
                          f"{got[k] if k < len(got) else None!r} instead of {want[k] if k < len(want) else None!r}", dict(kind="legacy", mode=mode, n=n, order=True))
                break

    # ---- 3c. ONE long-lived tokenizer re-sized in place (max_grid_size assigned, clear_cache() called as documented), after different
    #          parts of it were used: it must then be indistinguishable from a fresh tokenizer of the new size
    for mode in MODES:
        for used in ((), ("token_arr",), ("tokenizer_map",), ("token_arr", "tokenizer_map"), ("encode",), ("node_strings_map", "encode")):
            tok = R["MT"](tokenization_mode=R["TM"][mode], max_grid_size=5)
            try:
                for u in used:
                    if u == "encode": tok.encode(list(tok.token_arr[:3]))
                    else: getattr(tok, u, None)
                tok.max_grid_size = 6
                tok.clear_cache()
                fresh = R["MT"](tokenization_mode=R["TM"][mode], max_grid_size=6)
                got = (list(tok.token_arr), dict(tok.tokenizer_map), list(tok.decode(tok.encode(list(fresh.token_arr[11:20])))))
                want = (list(fresh.token_arr), dict(fresh.tokenizer_map), list(fresh.token_arr[11:20]))
            except Exception as e:
                got, want = f"{type(e).__name__}: {str(e)[:80]}", None
            ctx.case(dict(kind="legacy-resized", mode=mode, used=list(used)), nontrivial=True); ctx.count("legacy_resized_in_place")
            if got != want:
                B.violate("legacy", f"MazeTokenizer({mode}) used ({', '.join(used) or 'not at all'}) at max_grid_size=5, then set to 6 and clear_cache()d, is not a fresh size-6 tokenizer: "
                          + (got if isinstance(got, str) else f"token_arr equal {got[0] == want[0]}, tokenizer_map equal {got[1] == want[1]}, decode(encode(x)) = {got[2][:4]} for x = {want[2][:4]}"),
                          dict(kind="legacy", mode=mode, n=6, resized=True, used=list(used)))
                break

    # ---- 4. codecs
    codec = []   # (kind, voc, seq)
    for seq in (["(", "3", ",", "4", ")"], ["(", "(0,1)"], [",", ")", "("], ["(", "<PATH_START>", "(1,1)", ")"], ["(", ")"], ["(", "7", ")", "(2,3)"]):
        if all(t in R["MAP"] for t in seq): codec.append(("encode", "modular", seq))
    for i in range(len(L)):                      # every single token / id of the modular vocabulary
        codec.append(("encode", "modular", [L[i]])); codec.append(("decode", "modular", [i]))
    for b in (-1, -2, -4095, -4096, -4097, 4096, 4097, 8192, 2 ** 31, -(2 ** 31), 2 ** 63, 10 ** 12):
        codec.append(("decode", "modular", [b])); codec.append(("decode", "modular", [0, b])); codec.append(("decode", "modular", [b, 4095]))
    for t in BAD_TOKEN_CANDIDATES:
        if t not in R["MAP"]:
            codec.append(("encode", "modular", [t])); codec.append(("encode", "modular", ["<PADDING>", t, "(0,0)"]))
    e, d = _seq_cases(ctx, R, "modular", 300 if ctx.quick else 6000, 200 if ctx.quick else 4000)
    codec += [("encode", "modular", x) for x in e] + [("decode", "modular", x) for x in d]
    leg_sizes = sorted(set([1, 2, 3, 50] + ctx.rng.sample(range(4, 50), 4))) if ctx.quick else sizes
    for mode in MODES:
        for n in leg_sizes:
            voc = (mode, n)
            arr = list(_legacy(R, mode, n).token_arr)
            for i, t in enumerate(arr):
                codec.append(("encode", voc, [t])); codec.append(("decode", voc, [i]))
            for b in (-1, -len(arr), -len(arr) - 1, len(arr), len(arr) + 1, 4096):
                codec.append(("decode", voc, [b])); codec.append(("decode", voc, [0, b]))
            e, d = _seq_cases(ctx, R, voc, 12 if ctx.quick else 40, 12 if ctx.quick else 40)
            codec += [("encode", voc, x) for x in e] + [("decode", voc, x) for x in d]
    for kind, voc, seq in codec:
        if kind == "encode":
            case, out = check_encode(ctx, R, B, voc, seq)
            ask(dict(op="C14.encode", voc=_voc_json(voc), tokens=list(seq)), ("codec", case, out))
        else:
            case, out = check_decode(ctx, R, B, voc, seq)
            ask(dict(op="C14.decode", voc=_voc_json(voc), ids=list(seq)), ("codec", case, out))
    # legacy tokenizer without max_grid_size (correspondence only; not part of the property)
    for mode in MODES:
        t = _legacy(R, mode, None)
        for toks in ([], ["<PADDING>"], ["x"]):
            out = _outcome(R, lambda: [int(i) for i in t.encode(list(toks))])
            ctx.case(dict(kind="encode", voc=dict(mode=mode, n=None), tokens=toks), nontrivial=False)
            ask(dict(op="C14.encode", voc=dict(mode=mode, n=None), tokens=toks), ("codec", dict(kind="encode", voc=dict(mode=mode, n=None), tokens=toks), out))
        for ids in ([], [0], [-1], [0, -1]):
            out = _outcome(R, lambda: list(t.decode(list(ids))))
            ctx.case(dict(kind="decode", voc=dict(mode=mode, n=None), ids=ids), nontrivial=False)
            ask(dict(op="C14.decode", voc=dict(mode=mode, n=None), ids=ids), ("codec", dict(kind="decode", voc=dict(mode=mode, n=None), ids=ids), out))

    # ---- 5. model vs implementation (at most 25 disagreements recorded per kind of reply; the total is kept in the notes)
    outs = ctx.driver.run_parallel(reqs)
    n_dis, real_disagree, cur = {}, ctx.disagree, [None]

    def capped(what, case):
        n_dis[cur[0]] = n_dis.get(cur[0], 0) + 1
        if n_dis[cur[0]] <= 25:
            real_disagree(what, case)
    ctx.disagree = capped
    for tag, o in zip(tags, outs):
        cur[0] = tag[0]
        if "error" in o:
            ctx.disagree(f"driver error on {tag[0]}: {o['error']}", dict(tag=str(tag)[:300])); continue
        ctx.traces_validated += 1
        if tag[0] == "vocab":
            mv = o["vocab"]
            if o["from_blocks"] != mv:
                ctx.disagree("model: block view of the vocabulary differs from the flat view", dict(kind="vocab_global"))
            if mv != L:
                k = next((k for k in range(min(len(mv), len(L))) if mv[k] != L[k]), min(len(mv), len(L)))
                ctx.disagree(f"model vocab and VOCAB_LIST differ at position {k}: model {mv[k] if k < len(mv) else None!r} vs code {L[k] if k < len(L) else None!r} "
                             f"(lengths {len(mv)}/{len(L)})", dict(kind="vocab_pos", i=k))
            ctx.traces_validated += len(L) - 1
            ctx.sample(dict(position=[0, 10, 11, 64, 320, 448, 704, 708, 1596, 4095], token=[L[i] for i in (0, 10, 11, 64, 320, 448, 704, 708, 1596, 4095) if i < len(L)]))
        elif tag[0] == "lookup":
            _, voc, toks, impl_ids = tag
            if o["ids"] != impl_ids:
                k = next(k for k in range(len(toks)) if o["ids"][k] != impl_ids[k])
                ctx.disagree(f"token->id map differs for {voc}: token {toks[k]!r} model {o['ids'][k]} vs code {impl_ids[k]}", dict(kind="lookup", voc=_voc_json(voc), token=toks[k]))
            ctx.traces_validated += len(toks) - 1
        elif tag[0] == "corner":
            _, n, impl, nd = tag
            mc = [tuple(x) for x in o["corner"]]
            if mc != impl:
                k = next((k for k in range(min(len(mc), len(impl))) if mc[k] != impl[k]), min(len(mc), len(impl)))
                ctx.disagree(f"cornerFirst {n} (model) differs from corner_first_ndindex({n}) at index {k}: {mc[k] if k < len(mc) else None} vs {impl[k] if k < len(impl) else None}",
                             dict(kind="corner", n=n))
            if [tuple(x) for x in o["ndindex"]] != nd:
                ctx.disagree(f"ndindex {n} (model) differs from np.ndindex({n},{n})", dict(kind="corner", n=n))
            if o.get("spec_ok") is not True:
                ctx.disagree(f"verified checker cornerSpecOK rejects corner_first_ndindex({n})", dict(kind="corner", n=n))
            if n == 4:
                ctx.sample(dict(corner_first_ndindex_4=[list(x) for x in impl]))
        elif tag[0] == "token_arr":
            _, mode, n, arr = tag
            if o["arr"] != arr:
                ctx.disagree(f"tokenArr {mode} {n} (model) differs from MazeTokenizer.token_arr", dict(kind="legacy", mode=mode, n=n))
            if n == 3:
                ctx.sample(dict(mode=mode, n=3, token_arr_tail=arr[11:]), limit=8)
        elif tag[0] == "codec":
            _, case, out = tag
            mo = _model_outcome(o)
            if mo != (out[0], out[1]):
                ctx.disagree(f"{case['kind']} differs on {str(case)[:200]}: model {str(mo)[:120]} vs code {str(out)[:120]}", case)
    ctx.disagree = real_disagree
    if n_dis:
        ctx.notes.append(f"model/implementation disagreements by reply kind (all, before capping): {n_dis}")
    ctx.exhaustive = True
    ctx.extra["exhaustive_domains"] = ["VOCAB_LIST positions 0..4095", f"corner_first_ndindex n in {list(_corner_range(ctx))[0]}..{list(_corner_range(ctx))[-1]} and all pairs n<m",
                                       "legacy modes x max_grid_size 1..50 (token_arr, tokenizer_map)", "encode/decode of every single token and id of the modular vocabulary"]


# ------------------------------------------------------------------------------------------------------------------
# search (oracle only, wider) and replay
# ------------------------------------------------------------------------------------------------------------------
def search(ctx):
    """deeper oracle-only exploration of the real code; stops at the first violation"""
    R = _imports()
    B = _Budget(ctx, k=1)
    check_vocab_global(ctx, R, B)
    if ctx.violations: return
    gold = golden_vocab()
    for i in range(4096):
        check_vocab_pos(ctx, R, B, i, gold)
        if ctx.violations: return
    cache = {}
    for n in range(0, 81):
        check_corner(ctx, R, B, n, cache)
        if ctx.violations: return
    uc = {}
    for mode in MODES:
        for n in list(range(1, 51)) + [0, 51, 64]:
            check_legacy(ctx, R, B, mode, n, uc if mode == "AOTP_UT_uniform" else None)
            if ctx.violations: return
    for voc in ["modular"] + [(m, n) for m in MODES for n in (1, 2, 3, 7, 20, 50)]:
        arr = list(_real_vocab(R, voc)[0])
        for i, t in enumerate(arr):
            check_encode(ctx, R, B, voc, [t]); check_decode(ctx, R, B, voc, [i])
            if ctx.violations: return
        for b in (-1, -2, -len(arr), -len(arr) - 1, len(arr), len(arr) + 1, 2 ** 31, -(2 ** 31)):
            for ids in ([b], [0, b], [b, len(arr) - 1]):
                check_decode(ctx, R, B, voc, ids)
                if ctx.violations: return
        e, d = _seq_cases(ctx, R, voc, 2000 if voc == "modular" else 100, 2000 if voc == "modular" else 100)
        for x in e:
            check_encode(ctx, R, B, voc, x)
            if ctx.violations: return
        for x in d:
            check_decode(ctx, R, B, voc, x)
            if ctx.violations: return


def _voc_of(v):
    return "modular" if v == "modular" else (v["mode"], v["n"])


def _replay_case(ctx, R, B, case):
    k = case.get("kind")
    if k == "vocab_global":
        check_vocab_global(ctx, R, B)
    elif k == "vocab_pos":
        check_vocab_global(ctx, R, B); check_vocab_pos(ctx, R, B, int(case["i"]))
    elif k == "corner":
        check_corner(ctx, R, B, int(case["n"]), {})
    elif k == "corner_prefix":
        check_corner_prefix(ctx, R, B, int(case["n"]), int(case["m"]))
    elif k == "legacy":
        if case.get("n") is not None:
            check_legacy(ctx, R, B, case["mode"], int(case["n"]), None)
    elif k == "legacy_prefix":
        check_legacy_prefix(ctx, R, B, int(case["n"]), int(case["m"]))
    elif k == "encode":
        if _voc_of(case["voc"]) == "modular" or case["voc"].get("n") is not None:
            check_encode(ctx, R, B, _voc_of(case["voc"]), list(case["tokens"]))
    elif k == "decode":
        if _voc_of(case["voc"]) == "modular" or case["voc"].get("n") is not None:
            check_decode(ctx, R, B, _voc_of(case["voc"]), [int(i) for i in case["ids"]])
    elif k == "lookup":
        voc = _voc_of(case["voc"])
        arr, mp, _, _ = _real_vocab(R, voc)
        check_encode(ctx, R, B, voc, [case["token"]])
    else:
        ctx.notes.append(f"replay: unknown case kind {k!r}")


def replay(ctx, rp):
    R = _imports()
    B = _Budget(ctx, k=1)
    _replay_case(ctx, R, B, rp.get("case", rp))
