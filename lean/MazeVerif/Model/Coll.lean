/-! Model of `MazeDatasetCollection.__getitem__` index arithmetic (collected_dataset.py:89-119):
    `dataset_cum_lengths = np.cumsum(dataset_lengths)`, `np.searchsorted(cum, index + 1)`,
    `index_adjusted = index - cum[dataset_idx-1]` when `dataset_idx > 0`. Core Lean only. -/
namespace MZ.Coll

/-- `np.cumsum(lens)` with a starting offset `acc` (offset 0 is the real code) -/
def cum : List Nat → Nat → List Nat
  | [], _ => []
  | l :: ls, acc => (acc + l) :: cum ls (acc + l)

/-- `np.searchsorted(a, v)` (side='left') on a non-decreasing list: number of entries `< v` -/
def searchsortedLeft : List Nat → Nat → Nat
  | [], _ => 0
  | a :: as, v => if a < v then 1 + searchsortedLeft as v else 0

def locateFrom (lens : List Nat) (acc i : Nat) : Nat × Nat :=
  let c := cum lens acc
  let k := searchsortedLeft c (acc + i + 1)
  let j := if k > 0 then (acc + i) - c.getD (k - 1) 0 else i
  (k, j)

/-- `(dataset_idx, index_adjusted)` computed by `__getitem__` for `index = i` -/
def locate (lens : List Nat) (i : Nat) : Nat × Nat := locateFrom lens 0 i

/-- the collection's `__getitem__` in the model: locate, then index the member (error branches explicit) -/
def getItem {α} (members : List (List α)) (i : Nat) : Option α :=
  let (k, j) := locate (members.map List.length) i
  match members[k]? with
  | none => none          -- IndexError on `self.maze_datasets[dataset_idx]`
  | some d => d[j]?       -- IndexError inside the member

/-- `len(collection)` = `sum(len(dataset) for dataset in self.maze_datasets)` -/
def len {α} (members : List (List α)) : Nat := (members.map List.length).sum

/-- `collection.mazes` = `list(itertools.chain.from_iterable(d.mazes for d in members))` -/
def mazes {α} (members : List (List α)) : List α := members.flatten

/-- `cfg.n_mazes` of the collection config: the property summing the member configs' `n_mazes` -/
def cfgNMazes (memberCfgCounts : List Nat) : Nat := memberCfgCounts.sum

end MZ.Coll
