import MazeVerif.Props.C01
import MazeVerif.Lemmas.Component
/-! # C12 — generation metadata tells the truth about reachability

`generation_meta` of the generator models (`Model/Gen.lean`): `start_coord`, `visited_cells`, `fully_connected`.
All theorems hold for every argument combination (accessible_cells as any count, any depth bound, forks on/off,
plain/randomized stack, ANY given `start_coord` or a random one), every grid shape and every draw list. No theorem
assumes the given start to be inside the grid: a given start outside the grid is rejected by `_random_start_coord`
(ValueError = the model's `none`, `C01_start_rejected`), so a run that returns has its start in the grid
(`C01_start_in_grid_of_success`; before that repair the real code returned `fully_connected=True` with an isolated
cell and a phantom visited cell — known_findings.txt, key start-coord-outside-grid). -/
namespace MZ
open SimpleGraph

/-- `get_connected_component()` as the code computes it from the metadata (lattice_maze.py:344-366):
    all cells when flagged fully connected, otherwise the recorded visited cells -/
def metaComponent (rows cols : Nat) (fullyConnected : Bool) (visited : List Cell) : List Cell :=
  if fullyConnected then cells rows cols else visited

private theorem dfsTop_inv {rows cols : Nat} (hr : 0 < rows) (hc : 0 < cols) {a given draws fuel o}
    (h : genDfsTop rows cols a given draws fuel = some o) :
    ∃ d1 s, inGrid rows cols o.start ∧ genDfs rows cols a o.start d1 fuel = some s ∧
      o.edges = s.edges ∧ o.visited = s.visited ∧ o.fullyConnected = decide (s.visited.length = rows * cols) := by
  unfold genDfsTop at h
  split at h
  · simp at h
  · next start d1 hst =>
    split at h
    · simp at h
    · next s hs =>
      simp only [Option.some.injEq] at h; subst h
      refine ⟨d1, s, ?_, hs, rfl, rfl, rfl⟩
      exact startCoord_in_grid' hr hc hst

/-- `visited_cells` is exactly the set of cells reachable from `start_coord` -/
theorem C12_dfs_visited_exact {rows cols : Nat} (hr : 0 < rows) (hc : 0 < cols) {a given draws fuel o}
    (h : genDfsTop rows cols a given draws fuel = some o) (t : Cell) :
    t ∈ o.visited ↔ Reach o.edges o.start t := by
  obtain ⟨d1, s, hin, hs, he, hv, _⟩ := dfsTop_inv hr hc h
  rw [he, hv]; exact genDfs_visited_exact hin hs t

/-- the plain dfs generator sets `fully_connected` exactly when every cell is reachable from every other -/
theorem C12_dfs_flag_iff {rows cols : Nat} (hr : 0 < rows) (hc : 0 < cols) {a given draws fuel o}
    (h : genDfsTop rows cols a given draws fuel = some o) :
    o.fullyConnected = true ↔ ∀ u v, inGrid rows cols u → inGrid rows cols v → Reach o.edges u v := by
  obtain ⟨d1, s, hin, hs, he, hv, hf⟩ := dfsTop_inv hr hc h
  rw [hf, he, decide_eq_true_iff]; exact genDfs_flag_iff hin hs

/-- the connections form a tree over precisely the visited cells: one connection per cell beyond the start, no cycle,
    every connection joins two visited cells, every visited cell lies in the grid and is listed once -/
theorem C12_dfs_tree_on_visited {rows cols : Nat} (hr : 0 < rows) (hc : 0 < cols) {a given draws fuel o}
    (h : genDfsTop rows cols a given draws fuel = some o) :
    o.edges.length + 1 = o.visited.length ∧ o.edges.Nodup ∧ o.visited.Nodup ∧ (graphOf o.edges).IsAcyclic ∧
    (∀ e ∈ o.edges, (ends e).1 ∈ o.visited ∧ (ends e).2 ∈ o.visited) ∧
    (∀ c ∈ o.visited, inGrid rows cols c) ∧ o.start ∈ o.visited := by
  obtain ⟨d1, s, hin, hs, he, hv, _⟩ := dfsTop_inv hr hc h
  obtain ⟨hT, _⟩ := loop_invT fuel _ _ (InvT.init hin) hs
  rw [he, hv]
  exact ⟨hT.len, hT.enodup, hT.nodup, genDfs_acyclic hin hs, hT.eends, hT.grid, hT.hstart⟩

/-- never more cells than requested (the start cell is always there) -/
theorem C12_dfs_count_le {rows cols : Nat} (hr : 0 < rows) (hc : 0 < cols) {a given draws fuel o}
    (h : genDfsTop rows cols a given draws fuel = some o) : o.visited.length ≤ max 1 a.nAcc := by
  obtain ⟨d1, s, hin, hs, _, hv, _⟩ := dfsTop_inv hr hc h
  rw [hv]; exact genDfs_count_le hin hs

/-- exactly the requested number (capped by the grid) when neither the depth bound nor a fork ban applies -/
theorem C12_dfs_count_eq {rows cols : Nat} (hr : 0 < rows) (hc : 0 < cols) {a given draws fuel o}
    (hf : a.doForks = true)
    (hd : 2 * ((rows * cols : Nat) : Int) ≤ a.maxDepth)
    (h : genDfsTop rows cols a given draws fuel = some o) :
    o.visited.length = min (max 1 a.nAcc) (rows * cols) := by
  obtain ⟨d1, s, hin, hs, _, hv, _⟩ := dfsTop_inv hr hc h
  rw [hv]; exact genDfs_count_eq hin hf hd hs

/-- `do_forks=False`: the tree is one corridor — the visited cells in order form a simple lattice walk from the
    start and the connections are exactly its consecutive pairs -/
theorem C12_no_forks_corridor {rows cols : Nat} (hr : 0 < rows) (hc : 0 < cols) {a given draws fuel o}
    (hf : a.doForks = false)
    (h : genDfsTop rows cols a given draws fuel = some o) :
    o.visited.head? = some o.start ∧ o.visited.Nodup ∧ Chain o.visited ∧ o.edges = pathEdges o.visited := by
  obtain ⟨d1, s, hin, hs, he, hv, _⟩ := dfsTop_inv hr hc h
  obtain ⟨h1, h2, h3, h4, _⟩ := genDfs_no_forks_corridor hin hf hs
  rw [he, hv]; exact ⟨h1, h2, h3, h4⟩

/-- gen_wilson flags `fully_connected=True` unconditionally — and it is true -/
theorem C12_wilson_flag_true {rows cols : Nat} (hr : 0 < rows) (hc : 0 < cols) {draws fuel s}
    (h : genWilsonTop rows cols draws fuel = some s) :
    ∀ u v, inGrid rows cols u → inGrid rows cols v → Reach s.E u v :=
  (C01_wilson_spanning hr hc h).2.2.2.1

/-- dfs+percolation keeps the dfs flag; extra connections cannot disconnect anything, so a set flag is still true -/
theorem C12_dfsperc_flag_sound {rows cols : Nat} (hr : 0 < rows) (hc : 0 < cols) {p a given draws rands fuel o}
    (h : genDfsPercolationTop rows cols p a given draws rands fuel = some o) (hflag : o.fullyConnected = true) :
    ∀ u v, inGrid rows cols u → inGrid rows cols v → Reach o.edges u v := by
  have hsub := (C01_dfsperc_wf hr hc h).2.2
  unfold genDfsPercolationTop at h
  split at h
  · simp at h
  · next start d1 hst =>
    split at h
    · simp at h
    · next s hs =>
      split at h
      · simp at h
      · simp only at h
        split at h
        · simp at h
        · simp only [Option.some.injEq] at h; subst h
          have hin : inGrid rows cols start := startCoord_in_grid' hr hc hst
          simp only [decide_eq_true_eq] at hflag
          intro u v hu hv
          exact ((genDfs_flag_iff hin hs).mp hflag u v hu hv).mono hsub

/-- consequence used by endpoint sampling (C03): any two cells of the component the code reads off the dfs metadata
    are mutually reachable -/
theorem C12_endpoints_reachable {rows cols : Nat} (hr : 0 < rows) (hc : 0 < cols) {a given draws fuel o}
    (h : genDfsTop rows cols a given draws fuel = some o) :
    ∀ u ∈ metaComponent rows cols o.fullyConnected o.visited,
    ∀ v ∈ metaComponent rows cols o.fullyConnected o.visited, Reach o.edges u v := by
  intro u hu v hv
  unfold metaComponent at hu hv
  cases hfl : o.fullyConnected with
  | true =>
    rw [hfl] at hu hv; simp only [if_true] at hu hv
    exact (C12_dfs_flag_iff hr hc h).mp hfl u v (mem_cells.mp hu) (mem_cells.mp hv)
  | false =>
    rw [hfl] at hu hv; simp only [Bool.false_eq_true, if_false] at hu hv
    exact ((C12_dfs_visited_exact hr hc h u).mp hu).symm.trans ((C12_dfs_visited_exact hr hc h v).mp hv)

/-! ## percolation generators: `visited_cells` is recomputed by `gen_connected_component_from(start_coord)` -/

theorem reach_inGrid {rows cols : Nat} {E : List Edge} (hwf : WF rows cols E) {a b : Cell}
    (ha : inGrid rows cols a) (h : Reach E a b) : inGrid rows cols b := by
  induction h with
  | refl => exact ha
  | step _ hadj _ => exact (Views.adj_inGrid hwf hadj).2

/-- gen_percolation: the recorded visited cells are exactly the cells reachable from the recorded start -/
theorem C12_percolation_visited_exact {rows cols : Nat} {p given draws rands fuel o}
    (h : genPercolationTop rows cols p given draws rands fuel = some o) (t : Cell) :
    t ∈ o.visited ↔ Reach o.edges o.start t := by
  have hwf := (C01_percolation_wf h).1
  unfold genPercolationTop at h
  split at h
  · simp at h
  · split at h
    · simp at h
    · split at h
      · simp at h
      · next vis hv =>
        simp only [Option.some.injEq] at h; subst h
        exact (componentFrom_exact hwf hv).1 t

/-- gen_dfs_percolation: likewise, on the union of the dfs tree and the percolated connections -/
theorem C12_dfsperc_visited_exact {rows cols : Nat} (hr : 0 < rows) (hc : 0 < cols) {p a given draws rands fuel o}
    (h : genDfsPercolationTop rows cols p a given draws rands fuel = some o) (t : Cell) :
    t ∈ o.visited ↔ Reach o.edges o.start t := by
  have hwf := (C01_dfsperc_wf hr hc h).1
  unfold genDfsPercolationTop at h
  split at h
  · simp at h
  · split at h
    · simp at h
    · split at h
      · simp at h
      · simp only at h
        split at h
        · simp at h
        · next vis hv =>
          simp only [Option.some.injEq] at h; subst h
          exact (componentFrom_exact hwf hv).1 t

/-- cells all reachable from one in-grid cell are in the grid and mutually reachable — what endpoint sampling needs -/
theorem C12_component_of_start_ok {rows cols : Nat} {E : List Edge} (hwf : WF rows cols E) {start : Cell}
    (hs : inGrid rows cols start) {V : List Cell} (hV : ∀ t, t ∈ V ↔ Reach E start t) :
    (∀ c ∈ V, inGrid rows cols c) ∧ ∀ u ∈ V, ∀ v ∈ V, Reach E u v :=
  ⟨fun c hc => reach_inGrid hwf hs ((hV c).mp hc),
   fun u hu v hv => ((hV u).mp hu).symm.trans ((hV v).mp hv)⟩

/-- gen_percolation, every `start_coord` argument: the recorded start lies in the grid and is visited, and every
    recorded visited cell lies in the grid (no phantom cell) -/
theorem C12_percolation_visited_in_grid {rows cols : Nat} (hr : 0 < rows) (hc : 0 < cols) {p given draws rands fuel o}
    (h : genPercolationTop rows cols p given draws rands fuel = some o) :
    inGrid rows cols o.start ∧ o.start ∈ o.visited ∧ ∀ c ∈ o.visited, inGrid rows cols c := by
  have hs := ((C01_start_in_grid_of_success hr hc (given := given)).2.2.1 h).1
  have hV := C12_percolation_visited_exact h
  exact ⟨hs, (hV _).mpr (Reach.refl _), (C12_component_of_start_ok (C01_percolation_wf h).1 hs hV).1⟩

/-- gen_dfs_percolation, every `start_coord` argument: likewise -/
theorem C12_dfsperc_visited_in_grid {rows cols : Nat} (hr : 0 < rows) (hc : 0 < cols) {p a given draws rands fuel o}
    (h : genDfsPercolationTop rows cols p a given draws rands fuel = some o) :
    inGrid rows cols o.start ∧ o.start ∈ o.visited ∧ ∀ c ∈ o.visited, inGrid rows cols c := by
  have hs := ((C01_start_in_grid_of_success hr hc (given := given)).2.2.2 h).1
  have hV := C12_dfsperc_visited_exact hr hc h
  exact ⟨hs, (hV _).mpr (Reach.refl _), (C12_component_of_start_ok (C01_dfsperc_wf hr hc h).1 hs hV).1⟩

/-! ## non-vacuity -/
example : (genDfsTop 3 3 ⟨4, 18, true, false⟩ (some (1, 1)) [0, 0, 0, 0] 50).map
    (fun o => (o.visited.length, o.fullyConnected)) = some (4, false) := by decide
example : (genDfsTop 2 3 ⟨6, 12, false, false⟩ (some (0, 0)) [0, 0, 0, 0, 0] 50).map
    (fun o => decide (o.edges = pathEdges o.visited)) = some true := by decide
-- the reproduced defect input: a start outside the grid yields no metadata at all (error branch), an in-grid one does
example : genDfsTop 3 3 (defaultArgs 3 3 false) (some (3, 0)) (List.replicate 36 0) 18 = none := by decide
example : (genDfsTop 3 3 (defaultArgs 3 3 false) (some (2, 2)) (List.replicate 36 0) 18).map
    (fun o => (o.start, o.visited.length, o.fullyConnected)) = some ((2, 2), 9, true) := by decide
example : (genPercolationTop 2 2 (1, 2) (some (1, 1)) [] [(0,2),(1,2),(0,2),(1,2),(1,2),(1,2),(1,2),(1,2)] 22).map
    (fun o => (o.start, o.visited)) = some ((1, 1), [(1, 1)]) := by decide

end MZ
