import MazeVerif.Lemmas.AStarGrid
import MazeVerif.Lemmas.AStarProgress
import MazeVerif.Lemmas.GenTie
/-! # C02 — the shortest-path solver is sound, optimal and complete on every maze

Model: `MZ.AStar.astar` (`Model/AStar.lean`, lattice_maze.py:267-342). Theorems hold for EVERY well-formed connection
structure (trees, cyclic, disconnected), every ordered pair of cells, every fuel, and **every legal pick sequence**
(all that `min(open_vtx, key=f_score)` guarantees, whatever CPython's set order does). -/
namespace MZ.AStar
open MZ

/-- number of steps of the returned path -/
def steps (path : List Cell) : Nat := path.length - 1

/-- full statement of C02 (proved as `C02_full_holds`) -/
def C02_full : Prop :=
  ∀ (rows cols : Nat) (E : List Edge), WF rows cols E → ∀ (start endc : Cell) (picks : List Cell) (fuel : Nat),
    -- a returned path is a walk from start to end along connections, of minimum length
    (∀ path, astar rows cols E start endc picks fuel = .found path →
      path.head? = some start ∧ path.getLast? = some endc ∧ IsWalkList (Adj E) path ∧
      Walk (Adj E) start endc (steps path) ∧ ∀ m, Walk (Adj E) start endc m → steps path ≤ m) ∧
    -- the ValueError branch is taken only when the cells are not connected
    (astar rows cols E start endc picks fuel = .noPath → ¬ Reach E start endc) ∧
    -- a path is returned only when they are
    (∀ path, astar rows cols E start endc picks fuel = .found path → Reach E start endc) ∧
    -- enough fuel: the loop ends by itself (at most one iteration per cell)
    (inGrid rows cols start → rows * cols + 1 ≤ fuel → astar rows cols E start endc picks fuel ≠ .outOfFuel)

private theorem spec {rows cols : Nat} {E : List Edge} (start endc : Cell) (picks : List Cell) (fuel : Nat) :
    (∀ path, astar rows cols E start endc picks fuel = .found path →
      ∃ n : Nat, (path.head? = some start ∧ path.getLast? = some endc ∧ path.length = n + 1 ∧
          IsWalkList (GAdj rows cols E) path) ∧
        Walk (GAdj rows cols E) start endc n ∧ ∀ m, Walk (GAdj rows cols E) start endc m → n ≤ m) ∧
    (astar rows cols E start endc picks fuel = .noPath → ∀ m, ¬ Walk (GAdj rows cols E) start endc m) := by
  unfold astar initState
  exact run_spec (Adj := GAdj rows cols E) (start := start) (fun a b => mem_coordNeighbors_iff)
    (fun a b hab => manhattan_consistent endc hab.1) fuel _ picks
    (inv_init _ _ (by simp [upd])) (by simp)

theorem C02_sound {rows cols : Nat} {E : List Edge} (hwf : WF rows cols E) {start endc : Cell} {picks fuel path}
    (h : astar rows cols E start endc picks fuel = .found path) :
    path.head? = some start ∧ path.getLast? = some endc ∧ IsWalkList (Adj E) path := by
  obtain ⟨n, ⟨h1, h2, _, h4⟩, _⟩ := (spec start endc picks fuel).1 path h
  exact ⟨h1, h2, isWalkList_congr (fun a b hab => (gadj_iff_adj hwf).mp hab) h4⟩

theorem C02_optimal {rows cols : Nat} {E : List Edge} (hwf : WF rows cols E) {start endc : Cell} {picks fuel path}
    (h : astar rows cols E start endc picks fuel = .found path) :
    Walk (Adj E) start endc (steps path) ∧ ∀ m, Walk (Adj E) start endc m → steps path ≤ m := by
  obtain ⟨n, ⟨_, _, h3, _⟩, hw, hmin⟩ := (spec start endc picks fuel).1 path h
  have hc : ∀ a b, GAdj rows cols E a b ↔ Adj E a b := fun a b => gadj_iff_adj hwf
  have hs : steps path = n := by simp [steps, h3]
  rw [hs]
  exact ⟨(walk_congr hc).mp hw, fun m wm => hmin m ((walk_congr hc).mpr wm)⟩

/-- completeness, error direction: the solver gives up (ValueError) only if no connection path exists -/
theorem C02_complete_error {rows cols : Nat} {E : List Edge} (hwf : WF rows cols E) {start endc : Cell} {picks fuel}
    (h : astar rows cols E start endc picks fuel = .noPath) : ¬ Reach E start endc := by
  intro hr
  obtain ⟨n, w⟩ := reach_iff_walk.mp hr
  exact (spec start endc picks fuel).2 h n ((walk_congr (fun a b => gadj_iff_adj hwf)).mpr w)

theorem C02_complete_found {rows cols : Nat} {E : List Edge} (hwf : WF rows cols E) {start endc : Cell} {picks fuel path}
    (h : astar rows cols E start endc picks fuel = .found path) : Reach E start endc :=
  reach_iff_walk.mpr ⟨_, (C02_optimal hwf h).1⟩

/-- connected cells are never answered with the error (for any legal picks and enough fuel the only other outcome is a path) -/
theorem C02_connected_not_error {rows cols : Nat} {E : List Edge} (hwf : WF rows cols E) {start endc : Cell} {picks fuel}
    (hr : Reach E start endc) : astar rows cols E start endc picks fuel ≠ .noPath :=
  fun h => C02_complete_error hwf h hr

/-- termination: `rows*cols + 1` iterations always suffice, for any picks -/
theorem C02_total {rows cols : Nat} {E : List Edge} {start endc : Cell} {picks fuel}
    (hs : inGrid rows cols start) (hf : rows * cols + 1 ≤ fuel) :
    astar rows cols E start endc picks fuel ≠ .outOfFuel := by
  unfold astar initState
  exact run_no_outOfFuel fuel _ picks
    ⟨by intro v hv; simp at hv; subst hv; exact hs, by simp, by simp, by simp, by simp⟩ (by simpa using hf)

/-- a query from a cell to itself returns the one-cell path (the only legal first pick is the start) -/
theorem C02_self {rows cols : Nat} {E : List Edge} (c : Cell) (rest : List Cell) (fuel : Nat) :
    astar rows cols E c c (c :: rest) (fuel + 1) = .found [c] := by
  simp [astar, run, initState, upd, recon, manhattan]

/-- and any other first pick is rejected as illegal, so `[c]` is the only possible answer -/
theorem C02_self_only {rows cols : Nat} {E : List Edge} (c x : Cell) (rest : List Cell) (fuel : Nat) (hx : x ≠ c) :
    astar rows cols E c c (x :: rest) (fuel + 1) = .illegalPick := by
  simp [astar, run, initState, hx]

theorem C02_full_holds : C02_full := by
  intro rows cols E hwf start endc picks fuel
  refine ⟨fun path h => ?_, C02_complete_error hwf, fun path h => C02_complete_found hwf h,
    fun hs hf => C02_total hs hf⟩
  obtain ⟨h1, h2, h3⟩ := C02_sound hwf h
  obtain ⟨h4, h5⟩ := C02_optimal hwf h
  exact ⟨h1, h2, h3, h4, h5⟩

/-! ## progress: legal picks exist, legal and sufficient picks never get stuck, connected cells get a shortest path

`C02_full` constrains `.found`, `.noPath`, `.outOfFuel` only; a run can also end in `.illegalPick` / `.outOfPicks`
(e.g. `picks = []`). The theorems below close that gap: the checked pick interface can always be satisfied
(`argminPick`), and EVERY way of satisfying it — any list whose picks are legal when used and that has `rows*cols`
entries, or any strategy `AS → Cell` that answers with a legal minimum on every non-empty open set (CPython's
`min(open_vtx, key=…)` is one; so is `argminStrat`) — ends in `.found` (connected) or `.noPath` (not connected). -/

/-- `PicksLegal` for a top-level call: every pick is a legal minimum at the moment `astar` uses it -/
def AstarPicksLegal (rows cols : Nat) (E : List Edge) (start endc : Cell) (picks : List Cell) : Prop :=
  PicksLegal (coordNeighbors rows cols E) (manhattan endc) endc (initState start endc) picks

/-- the pick list a strategy produces for a top-level call when asked `n` times -/
def astarStratPicks (rows cols : Nat) (E : List Edge) (start endc : Cell) (strat : AS → Cell) (n : Nat) : List Cell :=
  stratPicks (coordNeighbors rows cols E) (manhattan endc) strat n (initState start endc)

/-- a strategy is admissible when it answers with a legal minimum on EVERY state with a non-empty open set -/
def LegalStrategy (strat : AS → Cell) : Prop := ∀ s : AS, s.opn ≠ [] → Legal s (strat s)

/-- (1) in every state with a non-empty open set a legal pick exists, and `argminPick` computes one
    (the first f-minimal element of the open list); `argminPick` is `none` exactly on the empty open set -/
theorem C02_legal_pick_exists (s : AS) :
    (s.opn ≠ [] → ∃ c, argminPick s = some c ∧ c ∈ s.opn ∧ ∀ v ∈ s.opn, s.f c ≤ s.f v) ∧
    (argminPick s = none ↔ s.opn = []) := by
  refine ⟨fun h => ?_, argminPick_none_iff⟩
  obtain ⟨c, hc⟩ := argminPick_isSome h
  exact ⟨c, hc, argminPick_legal hc⟩

/-- `argminStrat` (first minimum of the open list) is an admissible strategy: the hypothesis of the strategy theorems
    is satisfiable -/
theorem C02_argmin_strategy_legal : LegalStrategy argminStrat := argminStrat_legal

/-- the picks of an admissible strategy are legal when used, and there are as many as asked for -/
theorem C02_strategy_picks_legal {rows cols : Nat} {E : List Edge} {start endc : Cell} {strat : AS → Cell}
    (hstrat : LegalStrategy strat) (n : Nat) :
    AstarPicksLegal rows cols E start endc (astarStratPicks rows cols E start endc strat n) ∧
    (astarStratPicks rows cols E start endc strat n).length = n :=
  ⟨stratPicks_legal _ _ _ hstrat n _, stratPicks_length _ _ _ n _⟩

/-- (2) a run whose picks are legal when used, with at least `rows*cols` picks and `rows*cols + 1` iterations, ends in
    `.found _` or `.noPath` — never `.illegalPick`, `.outOfPicks`, `.outOfFuel` (any connection list, well-formed or not) -/
theorem C02_never_stuck {rows cols : Nat} {E : List Edge} {start endc : Cell} {picks : List Cell} {fuel : Nat}
    (hs : inGrid rows cols start) (hleg : AstarPicksLegal rows cols E start endc picks)
    (hlen : rows * cols ≤ picks.length) (hf : rows * cols + 1 ≤ fuel) :
    (∃ p, astar rows cols E start endc picks fuel = .found p) ∨ astar rows cols E start endc picks fuel = .noPath := by
  unfold astar
  exact run_progress fuel _ picks (gridInv_init hs) hleg (by simpa [initState] using hlen) (by simpa [initState] using hf)

/-- (2, strategy form) the same for the picks of ANY admissible strategy asked `rows*cols` times -/
theorem C02_never_stuck_strategy {rows cols : Nat} {E : List Edge} {start endc : Cell} {strat : AS → Cell} {fuel : Nat}
    (hs : inGrid rows cols start) (hstrat : LegalStrategy strat) (hf : rows * cols + 1 ≤ fuel) :
    (∃ p, astar rows cols E start endc (astarStratPicks rows cols E start endc strat (rows * cols)) fuel = .found p) ∨
      astar rows cols E start endc (astarStratPicks rows cols E start endc strat (rows * cols)) fuel = .noPath := by
  obtain ⟨h1, h2⟩ := C02_strategy_picks_legal (rows := rows) (cols := cols) (E := E) (start := start) (endc := endc)
    hstrat (rows * cols)
  exact C02_never_stuck hs h1 (by rw [h2]; exact Nat.le_refl _) hf

/-- (3) connected cells: every legal and sufficient run returns a path, and it is a shortest walk from start to end -/
theorem C02_connected_returns_shortest {rows cols : Nat} {E : List Edge} (hwf : WF rows cols E) {start endc : Cell}
    {picks : List Cell} {fuel : Nat} (hs : inGrid rows cols start) (hr : Reach E start endc)
    (hleg : AstarPicksLegal rows cols E start endc picks) (hlen : rows * cols ≤ picks.length)
    (hf : rows * cols + 1 ≤ fuel) :
    ∃ path, astar rows cols E start endc picks fuel = .found path ∧
      path.head? = some start ∧ path.getLast? = some endc ∧ IsWalkList (Adj E) path ∧
      Walk (Adj E) start endc (steps path) ∧ ∀ m, Walk (Adj E) start endc m → steps path ≤ m := by
  rcases C02_never_stuck hs hleg hlen hf with ⟨p, hp⟩ | hno
  · obtain ⟨h1, h2, h3⟩ := C02_sound hwf hp
    obtain ⟨h4, h5⟩ := C02_optimal hwf hp
    exact ⟨p, hp, h1, h2, h3, h4, h5⟩
  · exact absurd hr (C02_complete_error hwf hno)

/-- (3, dual) cells that are not connected: every legal and sufficient run ends in the error branch -/
theorem C02_disconnected_returns_error {rows cols : Nat} {E : List Edge} (hwf : WF rows cols E) {start endc : Cell}
    {picks : List Cell} {fuel : Nat} (hs : inGrid rows cols start) (hr : ¬ Reach E start endc)
    (hleg : AstarPicksLegal rows cols E start endc picks) (hlen : rows * cols ≤ picks.length)
    (hf : rows * cols + 1 ≤ fuel) :
    astar rows cols E start endc picks fuel = .noPath := by
  rcases C02_never_stuck hs hleg hlen hf with ⟨p, hp⟩ | hno
  · exact absurd (C02_complete_found hwf hp) hr
  · exact hno

/-- the answer is decided by connectivity alone: under legal and sufficient picks, `.found` iff `Reach` -/
theorem C02_found_iff_reach {rows cols : Nat} {E : List Edge} (hwf : WF rows cols E) {start endc : Cell}
    {picks : List Cell} {fuel : Nat} (hs : inGrid rows cols start)
    (hleg : AstarPicksLegal rows cols E start endc picks) (hlen : rows * cols ≤ picks.length)
    (hf : rows * cols + 1 ≤ fuel) :
    ((∃ p, astar rows cols E start endc picks fuel = .found p) ↔ Reach E start endc) ∧
    (astar rows cols E start endc picks fuel = .noPath ↔ ¬ Reach E start endc) := by
  refine ⟨⟨fun ⟨p, hp⟩ => C02_complete_found hwf hp, fun hr => ?_⟩,
    ⟨C02_complete_error hwf, fun hr => C02_disconnected_returns_error hwf hs hr hleg hlen hf⟩⟩
  obtain ⟨p, hp, _⟩ := C02_connected_returns_shortest hwf hs hr hleg hlen hf
  exact ⟨p, hp⟩

/-- strong form of C02 (proved as `C02_full_strong_holds`): on top of `C02_full`, the solver ANSWERS -/
def C02_full_strong : Prop :=
  -- a legal pick exists in every state with a non-empty open set (and `argminPick` finds it)
  (∀ s : AS, s.opn ≠ [] → ∃ c, argminPick s = some c ∧ Legal s c) ∧
  -- admissible strategies exist
  (∃ strat : AS → Cell, LegalStrategy strat) ∧
  ∀ (rows cols : Nat) (E : List Edge), WF rows cols E → ∀ (start endc : Cell), inGrid rows cols start →
    -- A. every pick list that is legal when used and has `rows*cols` entries, every fuel ≥ `rows*cols + 1`
    (∀ (picks : List Cell) (fuel : Nat), AstarPicksLegal rows cols E start endc picks → rows * cols ≤ picks.length →
      rows * cols + 1 ≤ fuel →
      (Reach E start endc → ∃ path, astar rows cols E start endc picks fuel = .found path ∧
        path.head? = some start ∧ path.getLast? = some endc ∧ IsWalkList (Adj E) path ∧
        Walk (Adj E) start endc (steps path) ∧ ∀ m, Walk (Adj E) start endc m → steps path ≤ m) ∧
      (¬ Reach E start endc → astar rows cols E start endc picks fuel = .noPath)) ∧
    -- B. every admissible strategy (asked `rows*cols` times), every fuel ≥ `rows*cols + 1`
    (∀ (strat : AS → Cell) (fuel : Nat), LegalStrategy strat → rows * cols + 1 ≤ fuel →
      (Reach E start endc → ∃ path,
        astar rows cols E start endc (astarStratPicks rows cols E start endc strat (rows * cols)) fuel = .found path ∧
        path.head? = some start ∧ path.getLast? = some endc ∧ IsWalkList (Adj E) path ∧
        Walk (Adj E) start endc (steps path) ∧ ∀ m, Walk (Adj E) start endc m → steps path ≤ m) ∧
      (¬ Reach E start endc →
        astar rows cols E start endc (astarStratPicks rows cols E start endc strat (rows * cols)) fuel = .noPath))

theorem C02_full_strong_holds : C02_full_strong := by
  refine ⟨fun s h => ?_, ⟨argminStrat, C02_argmin_strategy_legal⟩, ?_⟩
  · obtain ⟨c, hc, hl⟩ := (C02_legal_pick_exists s).1 h
    exact ⟨c, hc, hl⟩
  · intro rows cols E hwf start endc hs
    refine ⟨fun picks fuel hleg hlen hf => ⟨fun hr => C02_connected_returns_shortest hwf hs hr hleg hlen hf,
      fun hr => C02_disconnected_returns_error hwf hs hr hleg hlen hf⟩, ?_⟩
    intro strat fuel hstrat hf
    obtain ⟨h1, h2⟩ := C02_strategy_picks_legal (rows := rows) (cols := cols) (E := E) (start := start) (endc := endc)
      hstrat (rows * cols)
    have hlen : rows * cols ≤ (astarStratPicks rows cols E start endc strat (rows * cols)).length := by
      rw [h2]; exact Nat.le_refl _
    exact ⟨fun hr => C02_connected_returns_shortest hwf hs hr h1 hlen hf,
      fun hr => C02_disconnected_returns_error hwf hs hr h1 hlen hf⟩

/-! ## non-vacuity: a cyclic 2x2 maze and a disconnected one -/
example : astar 2 2 [(0,0,0),(1,0,0),(0,0,1),(1,1,0)] (0,0) (1,1) [(0,0),(0,1),(1,1)] 9 = .found [(0,0),(0,1),(1,1)] := by decide
example : astar 2 2 [(1,0,0)] (0,0) (1,1) [(0,0),(0,1)] 9 = .noPath := by decide
example : WF 2 2 [(0,0,0),(1,0,0),(0,0,1),(1,1,0)] := by decide

/-! ## non-vacuity of the progress theorems (same cyclic 2x2 maze `Ecyc`, and the disconnected one `Ecut`) -/
-- (1) `argminPick` answers on a concrete state, `none` on the empty open set
example : argminPick (initState (0,0) (1,1)) = some (0,0) := by decide
example : argminPick (expand (coordNeighbors 2 2 [(0,0,0),(1,0,0),(0,0,1),(1,1,0)]) (manhattan (1,1))
    (initState (0,0) (1,1)) (0,0)) = some (0,1) := by decide
example : argminPick { initState (0,0) (1,1) with opn := [] } = none := by decide
-- the reviewer's witness is excluded by the length hypothesis only (its picks are vacuously legal) …
example : astar 2 2 [(0,0,0),(1,0,0),(0,0,1),(1,1,0)] (0,0) (1,1) [] 9 = .outOfPicks := by decide
example : AstarPicksLegal 2 2 [(0,0,0),(1,0,0),(0,0,1),(1,1,0)] (0,0) (1,1) [] ∧ ¬ (2 * 2 ≤ ([] : List Cell).length) :=
  ⟨trivial, by decide⟩
-- … and an illegal pick by the legality hypothesis
example : astar 2 2 [(0,0,0),(1,0,0),(0,0,1),(1,1,0)] (0,0) (1,1) [(0,0),(1,1),(1,1),(1,1)] 9 = .illegalPick := by decide
example : ¬ AstarPicksLegal 2 2 [(0,0,0),(1,0,0),(0,0,1),(1,1,0)] (0,0) (1,1) [(0,0),(1,1),(1,1),(1,1)] := by
  intro h
  have h1 := (h (by decide)).2 (by decide)
  have h2 := (h1 (by decide)).1
  exact absurd h2 (by decide)
-- (2)/(3) the strategy `argminStrat` asked rows*cols = 4 times: its picks, and the answers on a connected / a cut pair
example : astarStratPicks 2 2 [(0,0,0),(1,0,0),(0,0,1),(1,1,0)] (0,0) (1,1) argminStrat (2 * 2)
    = [(0,0),(0,1),(1,0),(1,1)] := by decide
example : astar 2 2 [(0,0,0),(1,0,0),(0,0,1),(1,1,0)] (0,0) (1,1)
    (astarStratPicks 2 2 [(0,0,0),(1,0,0),(0,0,1),(1,1,0)] (0,0) (1,1) argminStrat (2 * 2)) (2 * 2 + 1)
    = .found [(0,0),(0,1),(1,1)] := by decide
example : astar 2 2 [(1,0,0)] (0,0) (1,1) (astarStratPicks 2 2 [(1,0,0)] (0,0) (1,1) argminStrat (2 * 2)) (2 * 2 + 1)
    = .noPath := by decide
-- a hand-written legal and sufficient list (the OTHER tie-breaks: (1,0) first, then the goal) satisfies the hypotheses of
-- `C02_never_stuck` / `C02_connected_returns_shortest` and gives the other shortest path
example : AstarPicksLegal 2 2 [(0,0,0),(1,0,0),(0,0,1),(1,1,0)] (0,0) (1,1) [(0,0),(1,0),(1,1),(7,7)] := by
  refine fun _ => ⟨by decide, fun _ => fun _ => ⟨by decide, fun _ => fun _ => ⟨by decide, fun h => absurd rfl h⟩⟩⟩
example : astar 2 2 [(0,0,0),(1,0,0),(0,0,1),(1,1,0)] (0,0) (1,1) [(0,0),(1,0),(1,1),(7,7)] 5
    = .found [(0,0),(1,0),(1,1)] := by decide
example : Reach [(0,0,0),(1,0,0),(0,0,1),(1,1,0)] (0,0) (1,1) :=
  (Reach.step (.refl _) (Or.inl ⟨rfl, by decide⟩)).trans (Reach.step (.refl _) (Or.inr (Or.inr (Or.inl ⟨rfl, by decide⟩))))
example : WF 2 2 [(1,0,0)] ∧ inGrid 2 2 (0,0) := by decide

end MZ.AStar
