#!/usr/bin/env python3
"""Regenerates lean/MazeVerif.lean (the library root) = one import per module under lean/MazeVerif/."""
from pathlib import Path
L = Path(__file__).resolve().parent.parent / "lean"
order = {"Generated": 0, "Model": 1, "DriverOps": 2, "Lemmas": 3, "Props": 4}
mods = sorted((p.relative_to(L).with_suffix("") for p in (L / "MazeVerif").rglob("*.lean")), key=lambda p: (order.get(p.parts[1], 9), p.parts))
(L / "MazeVerif.lean").write_text("".join("import " + ".".join(m.parts) + "\n" for m in mods))
print(len(mods), "modules")
