"""C12 — generation metadata tells the truth about reachability. Shares the tapped generator runs and the model
correspondence with C01 (harness/c01.py, harness/gens.py); the oracle is the metadata clause set of the property."""
import c01 as base
import gens

RULE = base.RULE + "; judged by the metadata oracle: visited_cells == BFS-reachable set from start_coord, fully_connected flag vs. connectedness, tree over the visited cells, cell counts, corridor shape without forks, get_connected_component() cells mutually reachable"
ASSUMPTIONS = base.ASSUMPTIONS + ["gen_percolation / gen_dfs_percolation visited_cells: the model's component search is compared with the code on every run; its exactness theorem is C13_component"]
TRUSTED = base.TRUSTED


def run(ctx):
    base.ORACLE = gens.oracle_c12
    base.run(ctx)


def search(ctx):
    base.ORACLE = gens.oracle_c12
    base.search(ctx)


def replay(ctx, rp):
    base.ORACLE = gens.oracle_c12
    base.replay(ctx, rp)
