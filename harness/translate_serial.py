"""Emitter for C05: re-reads, with `ast` only, what `maze_dataset/dataset/maze_dataset.py` and `collected_dataset.py` SAY about
the storage formats: the `__format__` string each `_serialize_*` writes, the if/elif dispatch table of `MazeDataset.load`, the
`assert data["__format__"] == …` of each `_load_*`, the comparison `serialize()` uses against SERIALIZE_MINIMAL_THRESHOLD, the
dtypes of the `np.empty`/`np.array` stores of the minimal formats and the (uid, startswith-prefix) of the two zanj loader handlers.
`Props/C05.lean` proves the dispatch theorems about exactly these tables, so an edit of one string breaks a proof obligation."""
from __future__ import annotations
import ast
from pathlib import Path


def lstr(s: str) -> str:
    return '"' + s.replace("\\", "\\\\").replace('"', '\\"') + '"'


def _cls(tree: ast.Module, name: str) -> ast.ClassDef:
    for n in tree.body:
        if isinstance(n, ast.ClassDef) and n.name == name:
            return n
    raise KeyError(name)


def _method(cls: ast.ClassDef, name: str) -> ast.FunctionDef:
    for n in cls.body:
        if isinstance(n, ast.FunctionDef) and n.name == name:
            return n
    raise KeyError(name)


def _format_written(fn: ast.FunctionDef) -> str:
    """the `__format__` entry of the dict the serializer returns"""
    for n in ast.walk(fn):
        if isinstance(n, ast.Return) and n.value is not None:
            v = n.value
            if isinstance(v, ast.Dict):
                for k, x in zip(v.keys, v.values):
                    if isinstance(k, ast.Constant) and k.value == "__format__":
                        return ast.literal_eval(x)
            if isinstance(v, ast.Call) and getattr(v.func, "id", None) == "dict":
                for kw in v.keywords:
                    if kw.arg == "__format__":
                        return ast.literal_eval(kw.value)
    raise ValueError(f"no __format__ in the return value of {fn.name}")


def _is_fmt_subscript(n) -> bool:
    return (isinstance(n, ast.Subscript) and isinstance(n.slice, ast.Constant) and n.slice.value == "__format__")


def _fmt_eq(test) -> str:
    """`data["__format__"] == "<lit>"` -> lit"""
    if (isinstance(test, ast.Compare) and len(test.ops) == 1 and isinstance(test.ops[0], ast.Eq)
            and _is_fmt_subscript(test.left) and isinstance(test.comparators[0], ast.Constant)):
        return test.comparators[0].value
    raise ValueError("unexpected test " + ast.dump(test)[:200])


def _ret_loader(st) -> str | None:
    if isinstance(st, ast.Return) and isinstance(st.value, ast.Call) and isinstance(st.value.func, ast.Attribute):
        return st.value.func.attr
    return None


def _load_table(fn: ast.FunctionDef):
    """[(format, loader, legacy)] in if/elif order; legacy = (threshold literal, loader) for the profiling branch or None"""
    out = []
    node = next(s for s in fn.body if isinstance(s, ast.If))
    while True:
        fmt = _fmt_eq(node.test)
        loader, legacy = None, None
        for st in node.body:
            if isinstance(st, ast.If):      # `if SERIALIZE_MINIMAL_THRESHOLD == -1: return cls._load_legacy(data)`
                t = st.test
                if (isinstance(t, ast.Compare) and isinstance(t.left, ast.Name) and t.left.id == "SERIALIZE_MINIMAL_THRESHOLD"
                        and isinstance(t.ops[0], ast.Eq)):
                    legacy = (ast.literal_eval(t.comparators[0]), _ret_loader(st.body[0]))
                else:
                    raise ValueError("unexpected nested test in load: " + ast.dump(t)[:200])
            elif _ret_loader(st):
                loader = _ret_loader(st)
        if loader is None:
            raise ValueError("load branch without a loader for " + fmt)
        out.append((fmt, loader, legacy))
        if len(node.orelse) == 1 and isinstance(node.orelse[0], ast.If):
            node = node.orelse[0]
        else:
            if not any(isinstance(s, ast.Raise) for s in node.orelse):
                raise ValueError("load: final else does not raise")
            exc = next(s for s in node.orelse if isinstance(s, ast.Raise)).exc
            return out, getattr(getattr(exc, "func", None), "id", "other")


def _assert_fmt(fn: ast.FunctionDef) -> str:
    for st in fn.body:
        if isinstance(st, ast.Assert):
            return _fmt_eq(st.test)
    raise ValueError(f"{fn.name} has no format assertion")


def _threshold_cmp(fn: ast.FunctionDef):
    """`serialize`: `if THRESH is not None and len(self) <op> THRESH: return self.<A>()` / `return self.<B>()`"""
    iff = next(s for s in fn.body if isinstance(s, ast.If))
    t = iff.test
    if not (isinstance(t, ast.BoolOp) and isinstance(t.op, ast.And) and len(t.values) == 2):
        raise ValueError("serialize: unexpected condition " + ast.dump(t)[:200])
    nn, cmp = t.values
    if not (isinstance(nn, ast.Compare) and isinstance(nn.ops[0], ast.IsNot) and isinstance(nn.comparators[0], ast.Constant)
            and nn.comparators[0].value is None):
        raise ValueError("serialize: first conjunct is not `is not None`")
    if not (isinstance(cmp, ast.Compare) and isinstance(cmp.left, ast.Call) and getattr(cmp.left.func, "id", "") == "len"
            and isinstance(cmp.comparators[0], ast.Name) and cmp.comparators[0].id == "SERIALIZE_MINIMAL_THRESHOLD"):
        raise ValueError("serialize: second conjunct is not `len(self) <op> SERIALIZE_MINIMAL_THRESHOLD`")
    op = type(cmp.ops[0]).__name__
    then = _ret_loader(iff.body[0])
    other = next(_ret_loader(s) for s in fn.body if _ret_loader(s))
    return op, then, other


_OPS = {"GtE": "len ≥ thr", "Gt": "len > thr", "LtE": "len ≤ thr", "Lt": "len < thr", "Eq": "len = thr", "NotEq": "len ≠ thr"}


def _store_dtypes(fn: ast.FunctionDef) -> list[tuple[str, str]]:
    """(variable, dtype) of every `x = np.empty(..., dtype=np.T)` / `np.array(..., dtype=np.T)` in a serializer"""
    out = []
    for st in ast.walk(fn):
        tgt = val = None
        if isinstance(st, ast.AnnAssign) and isinstance(st.target, ast.Name):
            tgt, val = st.target.id, st.value
        elif isinstance(st, ast.Assign) and len(st.targets) == 1 and isinstance(st.targets[0], ast.Name):
            tgt, val = st.targets[0].id, st.value
        if tgt and isinstance(val, ast.Call) and isinstance(val.func, ast.Attribute) and val.func.attr in ("empty", "array", "zeros"):
            for kw in val.keywords:
                if kw.arg == "dtype":
                    out.append((tgt, ast.unparse(kw.value).removeprefix("np.")))
    return out


def _handlers(tree: ast.Module) -> list[tuple[str, str]]:
    out = []
    for n in ast.walk(tree):
        if isinstance(n, ast.Call) and getattr(n.func, "id", "") == "register_loader_handler":
            lh = n.args[0]
            uid = prefix = None
            for kw in lh.keywords:
                if kw.arg == "uid":
                    uid = ast.literal_eval(kw.value)
                if kw.arg == "check":
                    for c in ast.walk(kw.value):
                        if isinstance(c, ast.Call) and isinstance(c.func, ast.Attribute) and c.func.attr == "startswith":
                            prefix = ast.literal_eval(c.args[0])
            if uid is None or prefix is None:
                raise ValueError("loader handler without uid / startswith check")
            out.append((uid, prefix))
    return out


def emitters(repo: Path):
    dpath = repo / "maze_dataset" / "dataset" / "maze_dataset.py"
    cpath = repo / "maze_dataset" / "dataset" / "collected_dataset.py"
    dtree, ctree = ast.parse(dpath.read_text()), ast.parse(cpath.read_text())
    md = _cls(dtree, "MazeDataset")
    sers = ["_serialize_full", "_serialize_minimal", "_serialize_minimal_soln_cat"]
    written = [(s, _format_written(_method(md, s))) for s in sers]
    table, exc = _load_table(_method(md, "load"))
    loaders = sorted({l for _, l, _ in table} | {lg[1] for _, _, lg in table if lg})
    asserts = [(l, _assert_fmt(_method(md, l))) for l in loaders]
    op, then, other = _threshold_cmp(_method(md, "serialize"))
    if op not in _OPS:
        raise ValueError("serialize: unsupported comparison " + op)
    dts = [(s, v, t) for s in sers for v, t in _store_dtypes(_method(md, s))]
    coll = _cls(ctree, "MazeDatasetCollection")
    coll_fmt = _format_written(_method(coll, "serialize"))
    coll_assert = _assert_fmt(_method(coll, "load"))
    hs = _handlers(dtree) + _handlers(ctree)      # registration order: maze_dataset.py is imported by collected_dataset.py
    legacy = next((lg for _, _, lg in table if lg), None)
    L = ["namespace MZ.Gen.Serial\n"]
    L.append("/-- (`_serialize_*` method, the `__format__` string it writes) -/\ndef formatWritten : List (String × String) := ["
             + ", ".join(f"({lstr(a)}, {lstr(b)})" for a, b in written) + "]\n")
    L.append("/-- `MazeDataset.load`: (format string, loader) in if/elif order -/\ndef loadTable : List (String × String) := ["
             + ", ".join(f"({lstr(a)}, {lstr(b)})" for a, b, _ in table) + "]\n")
    L.append("/-- the profiling branch of `load`: (format, threshold value, loader) -/\ndef legacyBranch : Option (String × Int × String) := "
             + ("none" if legacy is None else f"some ({lstr(next(f for f, _, lg in table if lg))}, {legacy[0]}, {lstr(legacy[1])})") + "\n")
    L.append(f"/-- exception raised by `load` on an unknown format -/\ndef loadUnknownRaises : String := {lstr(exc)}\n")
    L.append("/-- (`_load_*` method, format string it asserts) -/\ndef loaderAsserts : List (String × String) := ["
             + ", ".join(f"({lstr(a)}, {lstr(b)})" for a, b in asserts) + "]\n")
    L.append(f"/-- `serialize()`: `SERIALIZE_MINIMAL_THRESHOLD is not None and len(self) {op} SERIALIZE_MINIMAL_THRESHOLD` -/\n"
             f"def thresholdCmp (len thr : Int) : Bool := decide ({_OPS[op]})\n")
    L.append(f"def serializeThen : String := {lstr(then)}\ndef serializeElse : String := {lstr(other)}\n")
    L.append("/-- (serializer, array variable, numpy dtype) of the array stores -/\ndef storeDtypes : List (String × String × String) := ["
             + ", ".join(f"({lstr(a)}, {lstr(b)}, {lstr(c)})" for a, b, c in dts) + "]\n")
    L.append(f"def collectionFormat : String := {lstr(coll_fmt)}\ndef collectionLoadAsserts : String := {lstr(coll_assert)}\n")
    L.append("/-- zanj loader handlers in registration order: (uid, prefix tested by `check` with `startswith`) -/\n"
             "def loaderHandlers : List (String × String) := [" + ", ".join(f"({lstr(a)}, {lstr(b)})" for a, b in hs) + "]\n")
    L.append("end MZ.Gen.Serial\n")
    return [("SerialFormats.lean", "\n".join(L))]
