import MazeVerif.DriverOps.Util
namespace MZ.Drv.C07
open Lean MZ.Drv

/-- driver ops of property C07 (`"op": "C07.<name>"`) -/
def handle (op : String) (_j : Json) : R Json := do
  match op with
  | _ => throw s!"unknown op {op}"

end MZ.Drv.C07
