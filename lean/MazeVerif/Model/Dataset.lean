import MazeVerif.Model.Gen
import MazeVerif.Model.AStar
/-! Model of one dataset item (`_generate_maze_helper`, maze_dataset.py:176-200): generator → `get_connected_component`
    → `generate_random_path` (lattice_maze.py:368-484) → `find_shortest_path` → `SolvedMaze` (start/end := first/last
    cell of the solution). The endpoint CHOICE is relational: the observed `(start, end)` is an input that must
    satisfy `endpointsOK` — the code indexes `list(set)` / an array built from a `set` with a random integer, so the
    choice is "any element", and the theorems quantify over all of them. Core only. -/
namespace MZ

/-- keyword arguments of `generate_random_path` (= `cfg.endpoint_kwargs`) -/
structure EndpointOpts where
  allowedStart : Option (List Cell) := none
  allowedEnd : Option (List Cell) := none
  deadendStart : Bool := false
  deadendEnd : Bool := false
  notEqual : Bool := false
deriving Repr

/-- `(allowed_start, allowed_end, deadend_start, deadend_end) == (None, None, False, False)`; note that
    `endpoints_not_equal` is not part of the test -/
def EndpointOpts.isDefault (o : EndpointOpts) : Bool :=
  o.allowedStart.isNone && o.allowedEnd.isNone && !o.deadendStart && !o.deadendEnd

/-- `len(self.get_coord_neighbors(x)) == 1` -/
def isDeadend (rows cols : Nat) (E : List Edge) (c : Cell) : Bool :=
  (coordNeighbors rows cols E c).length == 1

/-- `allowed_*_set`: component ∩ explicitly allowed cells, optionally only dead ends -/
def allowedSet (rows cols : Nat) (E : List Edge) (comp : List Cell) (allowed : Option (List Cell)) (deadend : Bool) : List Cell :=
  let a := match allowed with
    | none => comp
    | some l => comp.filter (fun c => l.contains c)
  if deadend then a.filter (isDeadend rows cols E) else a

/-- legality of an observed endpoint choice -/
def endpointsOK (rows cols : Nat) (E : List Edge) (comp : List Cell) (o : EndpointOpts) (s e : Cell) : Bool :=
  if o.isDefault then
    -- two distinct indices into the component array (`np.random.choice(n, size=2, replace=False)`)
    comp.contains s && comp.contains e && s != e
  else
    (allowedSet rows cols E comp o.allowedStart o.deadendStart).contains s &&
    (allowedSet rows cols E comp o.allowedEnd o.deadendEnd).contains e &&
    (!o.notEqual || e != s)

inductive ItemErr
  | illegalEndpoints    -- the observed choice is not one the code can make
  | noPath              -- `find_shortest_path` raised ValueError
  | solver (r : AStar.Result)  -- illegal pick / out of picks / out of fuel: observation problem, not a code outcome
deriving Repr

/-- `generate_random_path` + `SolvedMaze.from_lattice_maze`: the stored solution -/
def solveItem (rows cols : Nat) (E : List Edge) (comp : List Cell) (o : EndpointOpts) (s e : Cell)
    (picks : List Cell) (fuel : Nat) : Except ItemErr (List Cell) :=
  if endpointsOK rows cols E comp o s e then
    match AStar.astar rows cols E s e picks fuel with
    | .found p => .ok p
    | .noPath => .error .noPath
    | r => .error (.solver r)
  else .error .illegalEndpoints

/-- `SolvedMaze.__init__`: start/end are the first/last solution cells -/
def solvedStart (sol : List Cell) : Option Cell := sol.head?
def solvedEnd (sol : List Cell) : Option Cell := sol.getLast?

/-- `MazeDataset.generate`: one item per index, in index order; `item i` stands for whatever the i-th call of
    `_generate_maze_helper` returns on the draw stream it happens to get (serial: consecutive segments of one stream;
    parallel: segments of the worker's stream) -/
def generateDataset {α} (nMazes : Nat) (item : Nat → α) : List α := (List.range nMazes).map item

end MZ
