import MazeVerif.Lemmas.Pixels
/-! What the readers (`from_pixels` and its helpers) see in an image painted by `as_pixels`. -/
namespace MZ.Pix

theorem pixOf_parity (c : Cell) : (pixOf c).1 % 2 = 1 ∧ (pixOf c).2 % 2 = 1 := by
  simp only [pixOf]; omega

theorem pixOf_inj {a b : Cell} (ha : 0 ≤ a.1 ∧ 0 ≤ a.2) (hb : 0 ≤ b.1 ∧ 0 ≤ b.2) (h : pixOf a = pixOf b) : a = b := by
  obtain ⟨a1, a2⟩ := a
  obtain ⟨b1, b2⟩ := b
  simp only [pixOf, Prod.mk.injEq] at h ha hb ⊢
  omega

theorem mid_parity {rows cols : Nat} {a b : Cell} (ha : inGrid rows cols a) (hb : inGrid rows cols b) (hn : b ∈ nbrs a) :
    ¬ ((midOf a b).1 % 2 = 1 ∧ (midOf a b).2 % 2 = 1) := by
  obtain ⟨a1, a2⟩ := a
  obtain ⟨h1, h2, h3, h4⟩ := ha
  obtain ⟨k1, k2, k3, k4⟩ := hb
  simp only [nbrs, List.mem_cons, List.not_mem_nil, or_false] at hn
  rcases hn with rfl | rfl | rfl | rfl <;> simp only [midOf] at * <;> omega

theorem between_parity {rows cols : Nat} : ∀ {p : List Cell}, (∀ c ∈ p, inGrid rows cols c) → Chain p →
    ∀ q ∈ betweenPix p, ¬ (q.1 % 2 = 1 ∧ q.2 % 2 = 1)
  | [], _, _, q, hq => by simp [betweenPix] at hq
  | [_], _, _, q, hq => by simp [betweenPix] at hq
  | a :: b :: rest, hin, hch, q, hq => by
    simp only [betweenPix, List.mem_cons] at hq
    rcases hq with rfl | hq
    · exact mid_parity (hin a (by simp)) (hin b (by simp)) hch.1
    · exact between_parity (fun c hc => hin c (by simp [hc])) hch.2 q hq

theorem between_bw {rows cols : Nat} {E : List Edge} (hE : InArr rows cols E) : ∀ {p : List Cell},
    (∀ c ∈ p, inGrid rows cols c) → PathIn E p → ∀ q ∈ betweenPix p, (asPixelsBW rows cols E).px q.1 q.2 = true
  | [], _, _, q, hq => by simp [betweenPix] at hq
  | [_], _, _, q, hq => by simp [betweenPix] at hq
  | a :: b :: rest, hin, hp, q, hq => by
    simp only [betweenPix, List.mem_cons] at hq
    rcases hq with rfl | hq
    · exact (bw_mid_iff_adj hE (hin a (by simp)) (hin b (by simp)) (adj_nbr hp.1)).2 hp.1
    · exact between_bw hE (fun c hc => hin c (by simp [hc])) hp.2 q hq

theorem bw_at_pix {rows cols : Nat} {E : List Edge} {x y : Nat} {c : Cell} (h : (x, y) = pixOf c) :
    (asPixelsBW rows cols E).px x y = true := by
  have h1 : x = (pixOf c).1 := by rw [← h]
  have h2 : y = (pixOf c).2 := by rw [← h]
  rw [h1, h2]; exact bw_cell rows cols E c

theorem bw_at_map {rows cols : Nat} {E : List Edge} {x y : Nat} {p : List Cell} (h : (x, y) ∈ p.map pixOf) :
    (asPixelsBW rows cols E).px x y = true := by
  obtain ⟨c, _, hc⟩ := List.mem_map.1 h
  exact bw_at_pix hc.symm

theorem basePx_ne_wall (m : Maze) (x y : Nat) :
    basePx m x y ≠ cWall ↔ (asPixelsBW m.rows m.cols m.edges).px x y = true := by
  unfold basePx
  cases (asPixelsBW m.rows m.cols m.edges).px x y <;> simp <;> decide

/-- extra hypothesis for solved mazes: the solution walks through open connections -/
def SolPath : Maze → Prop
  | .solved _ _ E s rest => PathIn E (s :: rest)
  | _ => True

/-- a pixel of the picture is non-wall exactly where the black/white grid is open -/
theorem spec_ne_wall_iff (m : Maze) (se ss : Bool) (hv : Valid m) (hp : SolPath m) (hE : InArr m.rows m.cols m.edges)
    (x y : Nat) : specPx m se ss x y ≠ cWall ↔ (asPixelsBW m.rows m.cols m.edges).px x y = true := by
  cases m with
  | lattice r c E => exact basePx_ne_wall _ x y
  | targeted r c E s e =>
    simp only [specPx]
    split
    · split
      · next h => exact iff_of_true (by decide) (bw_at_pix h)
      · split
        · next h => exact iff_of_true (by decide) (bw_at_pix h)
        · exact basePx_ne_wall _ x y
    · exact basePx_ne_wall _ x y
  | solved r c E s rest =>
    have inner : (if ss = true then (if (x, y) ∈ betweenPix (s :: rest) then cPath else if (x, y) ∈ (s :: rest).map pixOf then cPath
        else basePx (.solved r c E s rest) x y) else basePx (.solved r c E s rest) x y) ≠ cWall ↔
        (asPixelsBW r c E).px x y = true := by
      split
      · split
        · next h => exact iff_of_true (by decide) (between_bw hE hv.1 hp (x, y) h)
        · split
          · next h => exact iff_of_true (by decide) (bw_at_map h)
          · exact basePx_ne_wall _ x y
      · exact basePx_ne_wall _ x y
    simp only [specPx]
    split
    · split
      · next h => exact iff_of_true (by decide) (bw_at_pix h)
      · split
        · next h => exact iff_of_true (by decide) (bw_at_pix h)
        · exact inner
    · exact inner

/-! ## cell pixels -/
theorem basePx_cell (m : Maze) (a : Cell) : basePx m (pixOf a).1 (pixOf a).2 = cOpen := by
  simp only [basePx, bw_cell, if_true]

theorem pix_eq_iff {rows cols : Nat} {a b : Cell} (ha : inGrid rows cols a) (hb : inGrid rows cols b) :
    ((pixOf a).1, (pixOf a).2) = pixOf b ↔ a = b := by
  constructor
  · intro h; exact pixOf_inj ⟨ha.1, ha.2.2.1⟩ ⟨hb.1, hb.2.2.1⟩ h
  · rintro rfl; rfl

theorem pix_mem_map_iff {rows cols : Nat} {a : Cell} {p : List Cell} (ha : inGrid rows cols a) (hp : ∀ c ∈ p, inGrid rows cols c) :
    ((pixOf a).1, (pixOf a).2) ∈ p.map pixOf ↔ a ∈ p := by
  simp only [List.mem_map]
  constructor
  · rintro ⟨c, hc, h⟩
    have := pixOf_inj ⟨(hp c hc).1, (hp c hc).2.2.1⟩ ⟨ha.1, ha.2.2.1⟩ h
    exact this ▸ hc
  · intro h; exact ⟨a, h, rfl⟩

theorem specPx_targeted_cell {r c : Nat} {E : List Edge} {s e : Cell} (hs : inGrid r c s) (he : inGrid r c e) (ss : Bool)
    {a : Cell} (ha : inGrid r c a) :
    specPx (.targeted r c E s e) true ss (pixOf a).1 (pixOf a).2 = if a = e then cEnd else if a = s then cStart else cOpen := by
  simp only [specPx, if_true, pix_eq_iff ha he, pix_eq_iff ha hs, basePx_cell]

theorem specPx_solved_cell {r c : Nat} {E : List Edge} {s : Cell} {rest : List Cell}
    (hin : ∀ x ∈ s :: rest, inGrid r c x) (hch : Chain (s :: rest)) {a : Cell} (ha : inGrid r c a) :
    specPx (.solved r c E s rest) true true (pixOf a).1 (pixOf a).2 =
      if a = (s :: rest).getLast (by simp) then cEnd else if a = s then cStart else if a ∈ s :: rest then cPath else cOpen := by
  have hb : ¬ ((pixOf a).1, (pixOf a).2) ∈ betweenPix (s :: rest) :=
    fun h => between_parity hin hch _ h (pixOf_parity a)
  simp only [specPx, if_true, pix_eq_iff ha (getLast_inGrid hin), pix_eq_iff ha (hin s (by simp)), hb, if_false,
    pix_mem_map_iff ha hin, basePx_cell]

/-! ## `positions`, `colorIn`, `readEdges` -/
theorem mem_positions {rows cols : Nat} (g : Img RGB) (hh : g.h = 2 * rows + 1) (hw : g.w = 2 * cols + 1) (col : RGB) (a : Cell) :
    a ∈ positions g col ↔ inGrid rows cols a ∧ g.px (pixOf a).1 (pixOf a).2 = col := by
  simp only [positions, List.mem_map, List.mem_filter, mem_natCells, decide_eq_true_eq, hh, hw]
  constructor
  · rintro ⟨p, ⟨⟨⟨h1, h2⟩, h3⟩, h4, h5⟩, rfl⟩
    have e1 : (pixOf (((p.1 / 2 : Nat) : Int), ((p.2 / 2 : Nat) : Int))).1 = p.1 := by simp only [pixOf]; omega
    have e2 : (pixOf (((p.1 / 2 : Nat) : Int), ((p.2 / 2 : Nat) : Int))).2 = p.2 := by simp only [pixOf]; omega
    refine ⟨⟨by simp only; omega, by simp only; omega, by simp only; omega, by simp only; omega⟩, ?_⟩
    rw [e1, e2]; exact h3
  · rintro ⟨⟨h1, h2, h3, h4⟩, h5⟩
    refine ⟨pixOf a, ⟨⟨⟨by simp only [pixOf]; omega, by simp only [pixOf]; omega⟩, h5⟩, (pixOf_parity a).1, (pixOf_parity a).2⟩, ?_⟩
    obtain ⟨a1, a2⟩ := a
    simp only [pixOf, Prod.mk.injEq] at h1 h3 ⊢
    omega

theorem positions_nodup (g : Img RGB) (col : RGB) : (positions g col).Nodup := by
  unfold positions
  refine List.Nodup.map_on ?_ (((natCells_nodup g.h g.w).filter _).filter _)
  intro p hp q hq h
  simp only [List.mem_filter, decide_eq_true_eq] at hp hq
  obtain ⟨p1, p2⟩ := p
  obtain ⟨q1, q2⟩ := q
  simp only [Prod.mk.injEq] at h hp hq ⊢
  omega

theorem eq_singleton_of_nodup {α} {l : List α} {a : α} (hn : l.Nodup) (h : ∀ x, x ∈ l ↔ x = a) : l = [a] := by
  match l, hn, h with
  | [], _, h => exact absurd ((h a).2 rfl) (by simp)
  | [x], _, h => have := (h x).1 (by simp); rw [this]
  | x :: y :: t, hn, h =>
    have hx := (h x).1 (by simp)
    have hy := (h y).1 (by simp)
    rw [List.nodup_cons] at hn
    exact absurd (by rw [hx, hy]; simp) hn.1

theorem colorIn_of_px (g : Img RGB) (col : RGB) {x y : Nat} (hx : x < g.h) (hy : y < g.w) (h : g.px x y = col) :
    colorIn g col = true := by
  simp only [colorIn, List.any_eq_true, decide_eq_true_eq]
  exact ⟨(x, y), mem_natCells.2 ⟨hx, hy⟩, h⟩

theorem colorIn_false (g : Img RGB) (col : RGB) (h : ∀ x y, x < g.h → y < g.w → g.px x y ≠ col) : colorIn g col = false := by
  rw [Bool.eq_false_iff]
  intro hc
  simp only [colorIn, List.any_eq_true, decide_eq_true_eq] at hc
  obtain ⟨p, hp, hpx⟩ := hc
  exact h p.1 p.2 (mem_natCells.1 hp).1 (mem_natCells.1 hp).2 hpx

theorem readEdges_congr (g g' : Img Bool) (rows cols : Nat) (h : ∀ x y, g.px x y = g'.px x y) :
    readEdges g rows cols = readEdges g' rows cols := by
  have : g.px = g'.px := funext fun x => funext fun y => h x y
  simp only [readEdges, this]

theorem mem_readEdges_bw {rows cols : Nat} {E : List Edge} (hE : InArr rows cols E) (e : Edge) :
    e ∈ readEdges (asPixelsBW rows cols E) rows cols ↔ e ∈ E := by
  obtain ⟨d, i, j⟩ := e
  simp only [readEdges, List.mem_append, List.mem_map, List.mem_filter, mem_natCells, Prod.mk.injEq]
  constructor
  · rintro (⟨p, ⟨_, h⟩, rfl, rfl, rfl⟩ | ⟨p, ⟨_, h⟩, rfl, rfl, rfl⟩)
    · have := (bw_even_odd hE (p.1 : Int) (p.2 : Int) (by omega) (by omega)).1 (by simpa using h)
      exact this
    · have := (bw_odd_even hE (p.1 : Int) (p.2 : Int) (by omega) (by omega)).1 (by simpa using h)
      exact this
  · intro h
    obtain ⟨hd, h1, h2, h3, h4⟩ := hE _ h
    simp only at hd h1 h2 h3 h4
    rcases hd with rfl | rfl
    · left
      refine ⟨(i.toNat, j.toNat), ⟨⟨by simp only; omega, by simp only; omega⟩, ?_⟩, rfl, by simp only; omega, by simp only; omega⟩
      exact (bw_even_odd hE i j h1 h3).2 h
    · right
      refine ⟨(i.toNat, j.toNat), ⟨⟨by simp only; omega, by simp only; omega⟩, ?_⟩, rfl, by simp only; omega, by simp only; omega⟩
      exact (bw_odd_even hE i j h1 h3).2 h

end MZ.Pix
