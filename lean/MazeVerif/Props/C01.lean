import MazeVerif.Lemmas.TreeAcyclic
import MazeVerif.Lemmas.Percolation
import MazeVerif.Lemmas.GenTie
/-! # C01 — generators emit well-formed lattice graphs; DFS and Wilson emit spanning trees

Models: `Model/Dfs.lean` (`gen_dfs` loop), `Model/Wilson.lean` (`gen_wilson`), `Model/Gen.lean` (start coordinate,
`gen_prim` alias, percolation, dfs+percolation). Every theorem quantifies over ALL draw lists (= every RNG state the
generator can be entered with), all fuel values, all grid shapes; "the run returns" is `= some …`. -/
namespace MZ
open SimpleGraph

/-- spanning tree of the `rows × cols` grid: well formed, duplicate-free, `rows*cols-1` connections, every cell
    reachable from every other, no cycle (Mathlib's `IsAcyclic` of the graph on cells induced by the stored edges) -/
def SpanningTree (rows cols : Nat) (E : List Edge) : Prop :=
  WF rows cols E ∧ E.Nodup ∧ E.length + 1 = rows * cols ∧
  (∀ a b, inGrid rows cols a → inGrid rows cols b → Reach E a b) ∧ (graphOf E).IsAcyclic

/-- arguments under which `gen_dfs` is unconstrained: forks on, depth bound not binding, no cell limit
    (the defaults `accessible_cells=None`, `max_tree_depth=None`, `do_forks=True` are an instance: `defaultArgs`) -/
def Unconstrained (rows cols : Nat) (a : Args) : Prop :=
  a.doForks = true ∧ 2 * ((rows * cols : Nat) : Int) ≤ a.maxDepth ∧ rows * cols ≤ a.nAcc

/-- full statement of C01 (kept visible); proved as `C01_full_holds` -/
def C01_full : Prop :=
  ∀ (rows cols : Nat), 0 < rows → 0 < cols →
    -- (1) every generator, all arguments, all random choices: well formed
    (∀ a given draws fuel o, (∀ c, given = some c → inGrid rows cols c) →
        genDfsTop rows cols a given draws fuel = some o → WF rows cols o.edges) ∧
    (∀ draws fuel s, genWilsonTop rows cols draws fuel = some s → WF rows cols s.E) ∧
    (∀ p given draws rands fuel o, genPercolationTop rows cols p given draws rands fuel = some o → WF rows cols o.edges) ∧
    (∀ p a given draws rands fuel o, (∀ c, given = some c → inGrid rows cols c) →
        genDfsPercolationTop rows cols p a given draws rands fuel = some o → WF rows cols o.edges) ∧
    -- (2) default / unconstrained dfs (plain or randomized stack = prim alias) and wilson: spanning trees
    (∀ a given draws fuel o, Unconstrained rows cols a → (∀ c, given = some c → inGrid rows cols c) →
        genDfsTop rows cols a given draws fuel = some o → SpanningTree rows cols o.edges) ∧
    (∀ draws fuel s, genWilsonTop rows cols draws fuel = some s → SpanningTree rows cols s.E) ∧
    -- (3) percolation extremes
    (∀ pd rands E, percolate rows cols (0, pd) rands = some E → E = []) ∧
    (∀ pn rands E, 0 < pn → (∀ r ∈ rands, r.1 < r.2) → percolate rows cols (pn, pn) rands = some E →
        ∀ e, e ∈ E ↔ (e.1 = 0 ∧ inGrid rows cols (e.2.1, e.2.2) ∧ e.2.1 + 1 < rows) ∨
                     (e.1 = 1 ∧ inGrid rows cols (e.2.1, e.2.2) ∧ e.2.2 + 1 < cols))

/-- `_random_start_coord` always lands inside the grid -/
theorem C01_start_in_grid {rows cols : Nat} (hr : 0 < rows) (hc : 0 < cols) {draws c rest}
    (h : randomStart rows cols draws = some (c, rest)) : inGrid rows cols c := by
  unfold randomStart at h
  split at h
  · split at h
    · next hlt => simp only [Option.some.injEq, Prod.mk.injEq] at h; obtain ⟨rfl, _⟩ := h; simp [inGrid]; omega
    · simp at h
  · simp at h

private theorem startCoord_in_grid {rows cols : Nat} (hr : 0 < rows) (hc : 0 < cols) {given draws c rest}
    (hg : ∀ c, given = some c → inGrid rows cols c)
    (h : startCoord rows cols given draws = some (c, rest)) : inGrid rows cols c := by
  unfold startCoord at h
  split at h
  · next c' => simp only [Option.some.injEq, Prod.mk.injEq] at h; obtain ⟨rfl, _⟩ := h; exact hg _ rfl
  · exact C01_start_in_grid hr hc h

/-- gen_dfs / gen_prim, EVERY argument combination, every draw list: shape respected, no connection leaves the grid,
    no connection stored twice, and the connections form a tree on the visited cells (one edge per new cell, acyclic). -/
theorem C01_dfs_wf {rows cols : Nat} (hr : 0 < rows) (hc : 0 < cols) {a given draws fuel o}
    (hg : ∀ c, given = some c → inGrid rows cols c)
    (h : genDfsTop rows cols a given draws fuel = some o) :
    WF rows cols o.edges ∧ o.edges.Nodup ∧ o.edges.length + 1 = o.visited.length ∧ (graphOf o.edges).IsAcyclic := by
  unfold genDfsTop at h
  split at h
  · simp at h
  · next start d1 hst =>
    split at h
    · simp at h
    · next s hs =>
      simp only [Option.some.injEq] at h; subst h
      have hin := startCoord_in_grid hr hc hg hst
      obtain ⟨hT, _⟩ := loop_invT fuel _ _ (InvT.init hin) hs
      exact ⟨fun e he => ⟨hT.edim e he, hT.grid _ (hT.eends e he).1, hT.grid _ (hT.eends e he).2⟩,
        hT.enodup, hT.len, genDfs_acyclic hin hs⟩

/-- default (more generally: unconstrained) gen_dfs, plain or randomized stack, any in-grid or random start,
    every draw list and fuel: a spanning tree of the whole grid. -/
theorem C01_dfs_spanning {rows cols : Nat} (hr : 0 < rows) (hc : 0 < cols) {a given draws fuel o}
    (ha : Unconstrained rows cols a) (hg : ∀ c, given = some c → inGrid rows cols c)
    (h : genDfsTop rows cols a given draws fuel = some o) : SpanningTree rows cols o.edges := by
  have hwf := C01_dfs_wf hr hc hg h
  unfold genDfsTop at h
  split at h
  · simp at h
  · next start d1 hst =>
    split at h
    · simp at h
    · next s hs =>
      simp only [Option.some.injEq] at h; subst h
      have hin := startCoord_in_grid hr hc hg hst
      have hcnt := genDfs_count_eq hin ha.1 ha.2.1 hs
      have hfull : s.visited.length = rows * cols := by
        have := ha.2.2
        have h1 : 1 ≤ rows * cols := Nat.mul_pos hr hc
        rw [hcnt]; omega
      refine ⟨hwf.1, hwf.2.1, by have := hwf.2.2.1; simp only at this; rw [hfull] at this; exact this, ?_, hwf.2.2.2⟩
      exact (genDfs_flag_iff hin hs).mp hfull

/-- the default arguments are unconstrained (so `C01_dfs_spanning` covers `gen_dfs(grid)` and `gen_prim(grid)`) -/
theorem C01_default_unconstrained (rows cols : Nat) (rs : Bool) : Unconstrained rows cols (defaultArgs rows cols rs) :=
  ⟨rfl, by simp [defaultArgs], by simp [defaultArgs]⟩

theorem C01_prim_spanning {rows cols : Nat} (hr : 0 < rows) (hc : 0 < cols) {a given draws fuel o}
    (ha : Unconstrained rows cols a) (hg : ∀ c, given = some c → inGrid rows cols c)
    (h : genPrimTop rows cols a given draws fuel = some o) : SpanningTree rows cols o.edges :=
  C01_dfs_spanning hr hc (a := { a with randStack := true }) ⟨ha.1, ha.2.1, ha.2.2⟩ hg h

/-- gen_wilson, every draw list and fuel: a spanning tree of the whole grid -/
theorem C01_wilson_spanning {rows cols : Nat} (hr : 0 < rows) (hc : 0 < cols) {draws fuel s}
    (h : genWilsonTop rows cols draws fuel = some s) : SpanningTree rows cols s.E := by
  unfold genWilsonTop at h
  split at h
  · simp at h
  · next start d1 hst =>
    have hin := C01_start_in_grid hr hc hst
    obtain ⟨hall, hnd, hlen, hwf⟩ := genWilson_spanning hin h
    exact ⟨hwf, hnd, hlen, fun a b ha hb => (hall a ha).2.symm.trans (hall b hb).2, genWilson_acyclic hin h⟩

/-- percolation, any `p`, any random array: well formed and duplicate-free -/
theorem C01_percolation_wf {rows cols : Nat} {p given draws rands fuel o}
    (h : genPercolationTop rows cols p given draws rands fuel = some o) : WF rows cols o.edges ∧ o.edges.Nodup := by
  unfold genPercolationTop at h
  split at h
  · simp at h
  · split at h
    · simp at h
    · next E hE =>
      split at h
      · simp at h
      · simp only [Option.some.injEq] at h; subst h
        exact ⟨percolate_wf hE, percolate_nodup hE⟩

theorem C01_percolation_p0 {rows cols : Nat} {pd rands E} (h : percolate rows cols (0, pd) rands = some E) : E = [] :=
  percolate_p0 h

/-- `p = 1`, all random numbers in `[0,1)`: every lattice edge of the grid and nothing else, each once -/
theorem C01_percolation_p1 {rows cols : Nat} {pn rands E} (hp : 0 < pn) (hr : ∀ r ∈ rands, r.1 < r.2)
    (h : percolate rows cols (pn, pn) rands = some E) :
    E.Nodup ∧ ∀ e, e ∈ E ↔ (e.1 = 0 ∧ inGrid rows cols (e.2.1, e.2.2) ∧ e.2.1 + 1 < rows) ∨
                          (e.1 = 1 ∧ inGrid rows cols (e.2.1, e.2.2) ∧ e.2.2 + 1 < cols) := by
  refine ⟨percolate_nodup h, fun e => ?_⟩
  rw [percolate_p1 hp hr h]; exact mem_latticeEdges

/-- dfs + percolation, all arguments: well formed, duplicate-free, and it contains the dfs tree -/
theorem C01_dfsperc_wf {rows cols : Nat} (hr : 0 < rows) (hc : 0 < cols) {p a given draws rands fuel o}
    (hg : ∀ c, given = some c → inGrid rows cols c)
    (h : genDfsPercolationTop rows cols p a given draws rands fuel = some o) :
    WF rows cols o.edges ∧ o.edges.Nodup ∧ ∀ e ∈ o.dfsEdges, e ∈ o.edges := by
  unfold genDfsPercolationTop at h
  split at h
  · simp at h
  · next start d1 hst =>
    split at h
    · simp at h
    · next s hs =>
      split at h
      · simp at h
      · next P hP =>
        simp only at h
        split at h
        · simp at h
        · simp only [Option.some.injEq] at h; subst h
          have hin := startCoord_in_grid hr hc hg hst
          obtain ⟨hT, _⟩ := loop_invT fuel _ _ (InvT.init hin) hs
          have hdfs : WF rows cols s.edges :=
            fun e he => ⟨hT.edim e he, hT.grid _ (hT.eends e he).1, hT.grid _ (hT.eends e he).2⟩
          refine ⟨?_, (allSlots_nodup rows cols).filter _, ?_⟩
          · intro e he
            simp only [List.mem_filter, Bool.or_eq_true, List.contains_iff_mem] at he
            rcases he.2 with h1 | h1
            · exact hdfs e h1
            · exact percolate_wf hP e h1
          · intro e he
            simp only [List.mem_filter, Bool.or_eq_true, List.contains_iff_mem]
            refine ⟨?_, Or.inl he⟩
            obtain ⟨hd, h1, h2⟩ := hdfs e he
            obtain ⟨d, i, j⟩ := e
            rw [mem_allSlots]; refine ⟨hd, ?_⟩
            rcases hd with hd | hd <;> simp only at hd <;> subst hd <;> simpa [ends] using h1

theorem C01_full_holds : C01_full := by
  intro rows cols hr hc
  refine ⟨fun a given draws fuel o hg h => (C01_dfs_wf hr hc hg h).1,
    fun draws fuel s h => (C01_wilson_spanning hr hc h).1,
    fun p given draws rands fuel o h => (C01_percolation_wf h).1,
    fun p a given draws rands fuel o hg h => (C01_dfsperc_wf hr hc hg h).1,
    fun a given draws fuel o ha hg h => C01_dfs_spanning hr hc ha hg h,
    fun draws fuel s h => C01_wilson_spanning hr hc h,
    fun pd rands E h => percolate_p0 h,
    fun pn rands E hp hr' h => (C01_percolation_p1 hp hr' h).2⟩

/-! ## non-vacuity: the hypotheses are met by concrete completed runs -/
example : (genDfsTop 2 3 (defaultArgs 2 3 false) none [0, 1, 0, 0, 0, 0, 0] 50).map (·.edges.length) = some 5 := by decide
example : (genDfsTop 2 2 (defaultArgs 2 2 true) (some (1, 1)) [0, 0, 0, 0, 1, 0] 50).map (·.visited.length) = some 4 := by decide
example : (genWilsonTop 2 2 [0, 0, 0, 0, 1, 1, 0, 1, 0] 50).map (·.E.length) = some 3 := by decide
example : percolate 2 2 (1, 1) [(0,2),(1,2),(0,2),(1,2),(0,2),(1,2),(0,2),(1,2)] = some [(0,0,0),(0,0,1),(1,0,0),(1,1,0)] := by decide
example : Unconstrained 3 4 (defaultArgs 3 4 true) := C01_default_unconstrained 3 4 true

end MZ
