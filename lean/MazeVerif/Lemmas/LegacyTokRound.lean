import MazeVerif.Lemmas.LegacyTokScan
/-! C07 lemmas, part 3: token level — delimiters, `tokens_between`, `list_split`, `from_adj_list`. -/
namespace MZ.LT
open MZ.Gen.LT

/-! ### delimiters vs. inner tokens -/
def delims : List Str :=
  [spADJLIST_START, spADJLIST_END, spORIGIN_START, spORIGIN_END, spTARGET_START, spTARGET_END, spPATH_START, spPATH_END]

def isDelim (t : Str) : Bool := delims.contains t

/-- a region body: no section delimiter inside -/
def Inner (l : List Str) : Prop := ∀ t ∈ l, isDelim t = false

theorem Inner.notMem {l : List Str} {d : Str} (h : Inner l) (hd : isDelim d = true) : d ∉ l := by
  intro hm; rw [h d hm] at hd; cases hd

theorem Inner.append {a b : List Str} (ha : Inner a) (hb : Inner b) : Inner (a ++ b) := by
  intro t ht; rcases List.mem_append.mp ht with h | h
  · exact ha t h
  · exact hb t h

/-- first character is neither `<` nor `;` (so the token is no special token) -/
def Plain (t : Str) : Prop := ∃ c w, t = c :: w ∧ c ≠ '<' ∧ c ≠ ';'

theorem Plain.not_delim {t : Str} (h : Plain t) : isDelim t = false := by
  obtain ⟨c, w, rfl, h1, _⟩ := h
  have : ∀ d ∈ delims, d.head? = some '<' := by decide
  cases hd : isDelim (c :: w) with
  | false => rfl
  | true =>
    have hm : (c :: w) ∈ delims := by simpa [isDelim] using hd
    have e := this _ hm
    simp only [List.head?_cons, Option.some.injEq] at e
    exact absurd e h1

theorem Plain.ne_connector {t : Str} (h : Plain t) : t ≠ spCONNECTOR := by
  obtain ⟨c, w, rfl, h1, _⟩ := h
  intro e; exact h1 (List.cons.inj e).1

theorem Plain.ne_endline {t : Str} (h : Plain t) : t ≠ spADJACENCY_ENDLINE := by
  obtain ⟨c, w, rfl, _, h2⟩ := h
  intro e; exact h2 (List.cons.inj e).1

theorem plain_showNat (n : Nat) : Plain (showNat n) := by
  cases h : showNat n with
  | nil => exact absurd h (showNat_ne_nil n)
  | cons c w =>
    have hc : c.isDigit = true := showNat_digit (by rw [h]; simp)
    exact ⟨c, w, rfl, digit_ne hc (by decide), digit_ne hc (by decide)⟩

theorem plain_coordToks {ct : CoordTok} {c : NCell} {t : Str} (h : t ∈ coordToks ct c) : Plain t := by
  cases ct with
  | ut =>
    simp only [coordToks, List.mem_singleton] at h
    subst h
    exact ⟨'(', showNat c.1 ++ vcCOORD_INTRA ++ showNat c.2 ++ vcCOORD_POST, by simp [vcCOORD_PRE], by decide, by decide⟩
  | ctt =>
    simp only [coordToks, List.mem_cons, List.mem_nil_iff, or_false] at h
    rcases h with rfl | rfl | rfl | rfl | rfl
    · exact ⟨'(', [], rfl, by decide, by decide⟩
    · exact plain_showNat _
    · exact ⟨',', [], rfl, by decide, by decide⟩
    · exact plain_showNat _
    · exact ⟨')', [], rfl, by decide, by decide⟩

theorem inner_coordToks (ct : CoordTok) (c : NCell) : Inner (coordToks ct c) :=
  fun _ h => (plain_coordToks h).not_delim

theorem inner_flatMap_coordToks (ct : CoordTok) (cs : List NCell) : Inner (cs.flatMap (coordToks ct)) := by
  intro t ht
  obtain ⟨c, _, hc⟩ := List.mem_flatMap.mp ht
  exact (plain_coordToks hc).not_delim

theorem inner_edgeToks (ct : CoordTok) (p : NCell × NCell) : Inner (edgeToks ct p) := by
  intro t ht
  simp only [edgeToks, List.mem_append, List.mem_singleton] at ht
  rcases ht with ((h | h) | h) | h
  · exact (plain_coordToks h).not_delim
  · subst h; decide
  · exact (plain_coordToks h).not_delim
  · subst h; decide

theorem inner_adjRegion (ct : CoordTok) (adj : List (NCell × NCell)) : Inner (adjRegion ct adj) := by
  intro t ht
  obtain ⟨p, _, hp⟩ := List.mem_flatMap.mp ht
  exact inner_edgeToks ct p t hp

theorem coordToks_ne_nil (ct : CoordTok) (c : NCell) : coordToks ct c ≠ [] := by
  cases ct <;> simp [coordToks]

/-! ### `tokens_between` -/
theorem count_lt_one {toks : List Str} {t : Str} (h : t ∈ toks) : ¬ (count toks t < 1) := by
  unfold count
  have : t ∈ toks.filter (· == t) := by simp [List.mem_filter, h]
  have := List.length_pos_of_mem this
  omega

theorem idxOf_at {pre post : List Str} {s : Str} (h : s ∉ pre) : (pre ++ s :: post).idxOf s = pre.length := by
  rw [List.idxOf_append, if_neg h]; simp

theorem take_drop_mid {α} (a b c : List α) : ((a ++ b ++ c).take (a.length + b.length)).drop a.length = b := by
  rw [List.take_left' (by simp), List.drop_left' rfl]

theorem tokensBetween_mid {pre mid post : List Str} {s e : Str} (hse : s ≠ e) (h1 : s ∉ pre) (h2 : e ∉ pre)
    (h3 : e ∉ mid) (hm : mid ≠ []) :
    tokensBetween (pre ++ s :: mid ++ e :: post) s e false false = .ok mid := by
  have hs : s ∈ pre ++ s :: mid ++ e :: post := by simp
  have he : e ∈ pre ++ s :: mid ++ e :: post := by simp
  have is : (pre ++ s :: mid ++ e :: post).idxOf s = pre.length := by
    rw [List.append_assoc]; exact idxOf_at h1
  have ie : (pre ++ s :: mid ++ e :: post).idxOf e = pre.length + 1 + mid.length := by
    have : pre ++ s :: mid ++ e :: post = (pre ++ s :: mid) ++ e :: post := by simp
    rw [this, idxOf_at (by
      intro hm'; rcases List.mem_append.mp hm' with h | h
      · exact h2 h
      · rcases List.mem_cons.mp h with h | h
        · exact hse h.symm
        · exact h3 h)]
    simp; omega
  have hlen : 0 < mid.length := List.length_pos_iff.mpr hm
  unfold tokensBetween
  rw [if_neg hse]
  have c1 := count_lt_one hs
  have c2 := count_lt_one he
  simp only [c1, c2, decide_false, Bool.or_self, Bool.false_eq_true, if_false, is, ie, Nat.add_zero]
  rw [if_pos (by omega)]
  have e1 : pre ++ s :: mid ++ e :: post = (pre ++ [s]) ++ mid ++ (e :: post) := by simp
  have e2 : pre.length + 1 + mid.length = (pre ++ [s]).length + mid.length := by simp
  have e3 : pre.length + 1 = (pre ++ [s]).length := by simp
  rw [e1, e2, e3, take_drop_mid]

theorem tokensBetween_incl {pre mid post : List Str} {s e : Str} (hse : s ≠ e) (h1 : s ∉ pre) (h2 : e ∉ pre)
    (h3 : e ∉ mid) :
    tokensBetween (pre ++ s :: mid ++ e :: post) s e true true = .ok (s :: mid ++ [e]) := by
  have hs : s ∈ pre ++ s :: mid ++ e :: post := by simp
  have he : e ∈ pre ++ s :: mid ++ e :: post := by simp
  have is : (pre ++ s :: mid ++ e :: post).idxOf s = pre.length := by
    rw [List.append_assoc]; exact idxOf_at h1
  have ie : (pre ++ s :: mid ++ e :: post).idxOf e = pre.length + 1 + mid.length := by
    have : pre ++ s :: mid ++ e :: post = (pre ++ s :: mid) ++ e :: post := by simp
    rw [this, idxOf_at (by
      intro hm'; rcases List.mem_append.mp hm' with h | h
      · exact h2 h
      · rcases List.mem_cons.mp h with h | h
        · exact hse h.symm
        · exact h3 h)]
    simp; omega
  unfold tokensBetween
  rw [if_neg hse]
  have c1 := count_lt_one hs
  have c2 := count_lt_one he
  simp only [c1, c2, decide_false, Bool.or_self, Bool.false_eq_true, if_false, is, ie, Nat.add_zero, if_true]
  rw [if_pos (by omega)]
  have e1 : pre ++ s :: mid ++ e :: post = pre ++ (s :: mid ++ [e]) ++ post := by simp
  have e2 : pre.length + 1 + mid.length + 1 = pre.length + (s :: mid ++ [e]).length := by simp; omega
  rw [e1, e2, take_drop_mid]

/-! ### `list_split` on the adjacency region and the per-edge decoding -/
def groupOf (ct : CoordTok) (p : NCell × NCell) : List Str := coordToks ct p.1 ++ [spCONNECTOR] ++ coordToks ct p.2

theorem endline_notin_group (ct : CoordTok) (p : NCell × NCell) : spADJACENCY_ENDLINE ∉ groupOf ct p := by
  intro h
  simp only [groupOf, List.mem_append, List.mem_singleton] at h
  rcases h with (h | h) | h
  · exact (plain_coordToks h).ne_endline rfl
  · revert h; decide
  · exact (plain_coordToks h).ne_endline rfl

theorem splitList_adjRegion (ct : CoordTok) : ∀ (adj : List (NCell × NCell)),
    splitList spADJACENCY_ENDLINE (adjRegion ct adj) = adj.map (groupOf ct) ++ [[]]
  | [] => rfl
  | p :: ps => by
    have ih := splitList_adjRegion ct ps
    unfold splitList at ih ⊢
    have e : adjRegion ct (p :: ps) = groupOf ct p ++ spADJACENCY_ENDLINE :: adjRegion ct ps := by
      simp [adjRegion, edgeToks, groupOf]
    rw [e, splitListAux_stop [] _ (endline_notin_group ct p), ih]; simp

theorem isWord_connector : IsWord spCONNECTOR := ⟨'<', _, rfl, by decide, by decide⟩

theorem edgeOfGroup_group (ct : CoordTok) (p : NCell × NCell) :
    edgeOfGroup (groupOf ct p) = .ok (Item.coord [p.1.1, p.1.2], Item.coord [p.2.1, p.2.2]) := by
  have h := stringsToCoords_include ct [.cell p.1, .sp spCONNECTOR, .cell p.2] (by
    intro s hs
    have : s = spCONNECTOR := by simpa using hs
    subst this; exact isWord_connector)
  have e : [Src.cell p.1, .sp spCONNECTOR, .cell p.2].flatMap (srcToks ct) = groupOf ct p := by
    simp [srcToks, groupOf]
  rw [e] at h
  unfold edgeOfGroup
  rw [h]
  simp [srcItem]

theorem groupOf_not_empty (ct : CoordTok) (p : NCell × NCell) : (groupOf ct p).isEmpty = false := by
  cases ct <;> simp [groupOf, coordToks]

theorem groupsToCoords_adj (ct : CoordTok) : ∀ (adj : List (NCell × NCell)),
    groupsToCoords (adj.map (groupOf ct) ++ [[]]) =
      .ok (adj.map fun p => (Item.coord [p.1.1, p.1.2], Item.coord [p.2.1, p.2.2]))
  | [] => by simp [groupsToCoords]
  | p :: ps => by
    have ih := groupsToCoords_adj ct ps
    simp only [List.map_cons, List.cons_append, groupsToCoords, groupOf_not_empty, edgeOfGroup_group, ih]
    simp [Except.map]

theorem pairsOfItems_adj : ∀ (adj : List (NCell × NCell)),
    pairsOfItems (adj.map fun p => (Item.coord [p.1.1, p.1.2], Item.coord [p.2.1, p.2.2])) = .ok adj
  | [] => rfl
  | p :: ps => by
    have ih := pairsOfItems_adj ps
    simp only [List.map_cons, pairsOfItems, itemCell, ih, Except.map]

theorem cellsOfItems_cells : ∀ (cs : List NCell), cellsOfItems (cs.map fun c => Item.coord [c.1, c.2]) = .ok cs
  | [] => rfl
  | c :: cs => by
    have ih := cellsOfItems_cells cs
    simp only [List.map_cons, cellsOfItems, ih, Except.map]

/-! ### `from_adj_list` -/
theorem adjEdge_pair {e : NEdge} (h : e.1 = 0 ∨ e.1 = 1) : adjEdge (pairOfEdge e) = .ok e := by
  obtain ⟨d, r, c⟩ := e
  have h1 : ¬ (r + 1 < r) := by omega
  have h2 : ¬ (c + 1 < c) := by omega
  rcases h with h | h <;> simp only at h <;> subst h <;> simp [adjEdge, pairOfEdge, h1, h2]

theorem adjEdge_swap {e : NEdge} (h : e.1 = 0 ∨ e.1 = 1) : adjEdge (swapPair (pairOfEdge e)) = .ok e := by
  obtain ⟨d, r, c⟩ := e
  have h1 : ¬ (r + 1 < r) := by omega
  have h2 : ¬ (c + 1 < c) := by omega
  rcases h with h | h <;> simp only at h <;> subst h <;> simp [adjEdge, pairOfEdge, swapPair, h1, h2]

theorem adjEdges_spec : ∀ (adj : List (NCell × NCell)) (E : List NEdge),
    (∀ p ∈ adj, ∃ e ∈ E, (e.1 = 0 ∨ e.1 = 1) ∧ (p = pairOfEdge e ∨ p = swapPair (pairOfEdge e))) →
    ∃ es, adjEdges adj = .ok es ∧ es.length = adj.length ∧
      ∀ x, x ∈ es ↔ ∃ p ∈ adj, ∃ e ∈ E, (p = pairOfEdge e ∨ p = swapPair (pairOfEdge e)) ∧ x = e ∧ adjEdge p = .ok x
  | [], _, _ => ⟨[], rfl, rfl, by simp⟩
  | p :: ps, E, h => by
    obtain ⟨es, hes, hlen, hmem⟩ := adjEdges_spec ps E (fun q hq => h q (by simp [hq]))
    obtain ⟨e, heE, hd, hp⟩ := h p (by simp)
    have hpe : adjEdge p = .ok e := by
      rcases hp with rfl | rfl
      · exact adjEdge_pair hd
      · exact adjEdge_swap hd
    refine ⟨e :: es, by simp [adjEdges, hpe, hes, Except.map], by simp [hlen], ?_⟩
    intro x
    constructor
    · intro hx
      rcases List.mem_cons.mp hx with rfl | hx
      · exact ⟨p, by simp, x, heE, hp, rfl, hpe⟩
      · obtain ⟨q, hq, r⟩ := (hmem x).mp hx
        exact ⟨q, by simp [hq], r⟩
    · rintro ⟨q, hq, e', he', hq', rfl, hqe⟩
      rcases List.mem_cons.mp hq with rfl | hq
      · rw [hpe] at hqe; cases hqe; simp
      · exact List.mem_cons_of_mem _ ((hmem x).mpr ⟨q, hq, x, he', hq', rfl, hqe⟩)

theorem maxIdx_le {k : Nat} : ∀ (adj : List (NCell × NCell)),
    (∀ p ∈ adj, p.1.1 ≤ k ∧ p.1.2 ≤ k ∧ p.2.1 ≤ k ∧ p.2.2 ≤ k) → maxIdx adj ≤ k
  | [], _ => Nat.zero_le _
  | p :: ps, h => by
    have ih := maxIdx_le ps (fun q hq => h q (by simp [hq]))
    obtain ⟨a, b, c, d⟩ := h p (by simp)
    simp only [maxIdx]; omega

theorem le_maxIdx : ∀ (adj : List (NCell × NCell)) (p : NCell × NCell), p ∈ adj →
    p.1.1 ≤ maxIdx adj ∧ p.1.2 ≤ maxIdx adj ∧ p.2.1 ≤ maxIdx adj ∧ p.2.2 ≤ maxIdx adj
  | q :: qs, p, h => by
    rcases List.mem_cons.mp h with rfl | h
    · simp only [maxIdx]; omega
    · have := le_maxIdx qs p h
      simp only [maxIdx]; omega

/-! ### stages of `_from_tokens_AOTP` on emitted token lists -/
theorem adjRegion_ne_nil (ct : CoordTok) {adj : List (NCell × NCell)} (h : adj ≠ []) : adjRegion ct adj ≠ [] := by
  cases adj with
  | nil => exact absurd rfl h
  | cons p ps => simp [adjRegion, edgeToks]

theorem pair_coords {e : NEdge} {p : NCell × NCell} (hp : p = pairOfEdge e ∨ p = swapPair (pairOfEdge e)) (k : Nat)
    (h1 : (pairOfEdge e).2.1 ≤ k) (h2 : (pairOfEdge e).2.2 ≤ k) :
    p.1.1 ≤ k ∧ p.1.2 ≤ k ∧ p.2.1 ≤ k ∧ p.2.2 ≤ k := by
  obtain ⟨d, r, c⟩ := e
  simp only [pairOfEdge] at h1 h2
  rcases hp with rfl | rfl <;> simp only [pairOfEdge, swapPair] <;> omega

theorem maxIdx_valid {m : LMaze} {adj : List (NCell × NCell)} (hsq : m.rows = m.cols) (hwf : m.WF)
    (hmax : m.maxIndexOccurs) (hv : ValidAdj m adj) : maxIdx adj + 1 = m.rows := by
  obtain ⟨e0, he0, hfar⟩ := hmax
  obtain ⟨p0, hp0, hpe0⟩ := hv.2 e0 he0
  have w0 := hwf e0 he0
  have hle : maxIdx adj ≤ m.rows - 1 := by
    apply maxIdx_le
    intro p hp
    obtain ⟨e, he, hpe⟩ := hv.1 p hp
    have w := hwf e he
    exact pair_coords hpe _ (by omega) (by omega)
  have hge := le_maxIdx adj p0 hp0
  have : m.rows - 1 ≤ maxIdx adj := by
    obtain ⟨d, r, c⟩ := e0
    simp only [pairOfEdge] at hfar w0
    rcases hpe0 with rfl | rfl <;> simp only [pairOfEdge, swapPair] at hge <;> omega
  omega

/-- stage 1 (lines 631-677): the adjacency section of an emitted token list decodes to the source grid and edge set -/
theorem latticeOfTokens_canon (ct : CoordTok) (m : LMaze) (adj : List (NCell × NCell)) (post : List Str)
    (hsq : m.rows = m.cols) (hwf : m.WF) (hmax : m.maxIndexOccurs) (hv : ValidAdj m adj) :
    ∃ es, latticeOfTokens (spADJLIST_START :: (adjRegion ct adj ++ spADJLIST_END :: post)) = .ok ⟨m.rows, m.cols, es⟩ ∧
      ∀ x, x ∈ es ↔ x ∈ m.edges := by
  have hne : adj ≠ [] := by
    obtain ⟨e0, he0, _⟩ := hmax
    obtain ⟨p0, hp0, _⟩ := hv.2 e0 he0
    intro h; rw [h] at hp0; cases hp0
  have hA : tokensBetween (spADJLIST_START :: (adjRegion ct adj ++ spADJLIST_END :: post)) spADJLIST_START spADJLIST_END false false
      = .ok (adjRegion ct adj) := by
    have := tokensBetween_mid (pre := []) (mid := adjRegion ct adj) (post := post) (s := spADJLIST_START) (e := spADJLIST_END)
      (by decide) (by simp) (by simp) ((inner_adjRegion ct adj).notMem (by decide)) (adjRegion_ne_nil ct hne)
    simpa using this
  have h1 : adjToksOf (spADJLIST_START :: (adjRegion ct adj ++ spADJLIST_END :: post)) = .ok (adjRegion ct adj) := by
    simp only [adjToksOf, if_true]; exact hA
  have h2 : groupsToCoords (splitList spADJACENCY_ENDLINE (adjRegion ct adj)) =
      .ok (adj.map fun p => (Item.coord [p.1.1, p.1.2], Item.coord [p.2.1, p.2.2])) := by
    rw [splitList_adjRegion, groupsToCoords_adj]
  have h3 : toAdjArray (adj.map fun p => (Item.coord [p.1.1, p.1.2], Item.coord [p.2.1, p.2.2])) = .ok adj := by
    unfold toAdjArray
    have : (adj.map fun p => (Item.coord [p.1.1, p.1.2], Item.coord [p.2.1, p.2.2])).isEmpty = false := by
      cases adj with
      | nil => exact absurd rfl hne
      | cons _ _ => rfl
    rw [this]; simp only [Bool.false_eq_true, if_false]; exact pairsOfItems_adj adj
  obtain ⟨es, hes, _, hmem⟩ := adjEdges_spec adj m.edges (by
    intro p hp
    obtain ⟨e, he, hpe⟩ := hv.1 p hp
    exact ⟨e, he, (hwf e he).1, hpe⟩)
  have hn := maxIdx_valid hsq hwf hmax hv
  refine ⟨es, ?_, ?_⟩
  · simp only [latticeOfTokens, h1, h2, h3, Except.bind, fromAdjList, hes, Except.map, hn]
    rw [← hsq]
  · intro x
    constructor
    · intro hx
      obtain ⟨_, _, e, he, _, rfl, _⟩ := (hmem x).mp hx
      exact he
    · intro hx
      obtain ⟨p, hp, hpe⟩ := hv.2 x hx
      have hd := (hwf x hx).1
      refine (hmem x).mpr ⟨p, hp, x, hx, hpe, rfl, ?_⟩
      rcases hpe with rfl | rfl
      · exact adjEdge_pair hd
      · exact adjEdge_swap hd

theorem stringsToCoords_one (ct : CoordTok) (c : NCell) :
    stringsToCoords (coordToks ct c) .error = .ok [Item.coord [c.1, c.2]] := by
  have := stringsToCoords_error ct [c]
  simpa using this

/-- stage 2 (lines 691-704) -/
theorem endpointsOfTokens_canon (ct : CoordTok) (A : List Str) (hA : Inner A) (s e : NCell) (post : List Str) :
    endpointsOfTokens (spADJLIST_START :: (A ++ spADJLIST_END :: spORIGIN_START :: (coordToks ct s ++ spORIGIN_END ::
      spTARGET_START :: (coordToks ct e ++ spTARGET_END :: post)))) = .ok (s, e) := by
  have ho := inner_coordToks ct s
  have ht := inner_coordToks ct e
  have b1 : tokensBetween (spADJLIST_START :: (A ++ spADJLIST_END :: spORIGIN_START :: (coordToks ct s ++ spORIGIN_END ::
      spTARGET_START :: (coordToks ct e ++ spTARGET_END :: post)))) spORIGIN_START spORIGIN_END false false = .ok (coordToks ct s) := by
    have := tokensBetween_mid (pre := spADJLIST_START :: (A ++ [spADJLIST_END])) (mid := coordToks ct s)
      (post := spTARGET_START :: (coordToks ct e ++ spTARGET_END :: post)) (s := spORIGIN_START) (e := spORIGIN_END)
      (by decide)
      (by simp only [List.mem_cons, List.mem_append, List.mem_nil_iff, or_false, not_or]
          exact ⟨by decide, hA.notMem (by decide), by decide⟩)
      (by simp only [List.mem_cons, List.mem_append, List.mem_nil_iff, or_false, not_or]
          exact ⟨by decide, hA.notMem (by decide), by decide⟩)
      (ho.notMem (by decide)) (coordToks_ne_nil ct s)
    simpa using this
  have b2 : tokensBetween (spADJLIST_START :: (A ++ spADJLIST_END :: spORIGIN_START :: (coordToks ct s ++ spORIGIN_END ::
      spTARGET_START :: (coordToks ct e ++ spTARGET_END :: post)))) spTARGET_START spTARGET_END false false = .ok (coordToks ct e) := by
    have := tokensBetween_mid (pre := spADJLIST_START :: (A ++ spADJLIST_END :: spORIGIN_START :: (coordToks ct s ++ [spORIGIN_END])))
      (mid := coordToks ct e) (post := post) (s := spTARGET_START) (e := spTARGET_END)
      (by decide)
      (by simp only [List.mem_cons, List.mem_append, List.mem_nil_iff, or_false, not_or]
          exact ⟨by decide, hA.notMem (by decide), by decide, by decide, ho.notMem (by decide), by decide⟩)
      (by simp only [List.mem_cons, List.mem_append, List.mem_nil_iff, or_false, not_or]
          exact ⟨by decide, hA.notMem (by decide), by decide, by decide, ho.notMem (by decide), by decide⟩)
      (ht.notMem (by decide)) (coordToks_ne_nil ct e)
    simpa using this
  simp only [endpointsOfTokens, b1, b2, stringsToCoords_one, Except.bind, List.length_singleton, ne_eq, not_true_eq_false,
    if_false, singleCell]

theorem pathTokens_canon (pre P : List Str) (h1 : spPATH_START ∉ pre) (h2 : spPATH_END ∉ pre) (h3 : spPATH_END ∉ P) :
    pathTokens (pre ++ spPATH_START :: P ++ [spPATH_END]) = P := by
  have is : (pre ++ spPATH_START :: P ++ [spPATH_END]).idxOf spPATH_START = pre.length := by
    rw [List.append_assoc]; exact idxOf_at h1
  have ie : (pre ++ spPATH_START :: P ++ [spPATH_END]).idxOf spPATH_END = pre.length + 1 + P.length := by
    rw [idxOf_at (by
      intro hm'; rcases List.mem_append.mp hm' with h | h
      · exact h2 h
      · rcases List.mem_cons.mp h with h | h
        · revert h; decide
        · exact h3 h)]
    simp; omega
  unfold pathTokens
  rw [is, ie]
  have e1 : pre ++ spPATH_START :: P ++ [spPATH_END] = (pre ++ [spPATH_START]) ++ P ++ [spPATH_END] := by simp
  have e2 : pre.length + 1 + P.length = (pre ++ [spPATH_START]).length + P.length := by simp
  have e3 : pre.length + 1 = (pre ++ [spPATH_START]).length := by simp
  rw [e1, e2, e3, take_drop_mid]

/-- stage 3 (lines 716-720) -/
theorem solutionOfTokens_canon (ct : CoordTok) (pre : List Str) (h1 : spPATH_START ∉ pre) (h2 : spPATH_END ∉ pre) (sol : List NCell) :
    solutionOfTokens (pre ++ spPATH_START :: sol.flatMap (coordToks ct) ++ [spPATH_END]) = .ok sol := by
  unfold solutionOfTokens
  rw [pathTokens_canon pre _ h1 h2 ((inner_flatMap_coordToks ct sol).notMem (by decide)), stringsToCoords_error]
  simp only [Except.bind]
  exact cellsOfItems_cells sol

theorem mkSolved_ok (m : LMaze) (sol : List NCell) (s e : NCell) (hs : sol.head? = some s) (he : sol.getLast? = some e)
    (h1 : inSquare m s = true) (h2 : inSquare m e = true) : mkSolved m sol = .ok (.solved m s e sol) := by
  cases sol with
  | nil => simp at hs
  | cons x xs =>
    simp only [List.head?_cons, Option.some.injEq] at hs; subst hs
    unfold mkSolved
    rw [he]
    simp [h1, h2]

theorem isTargetedToks_false {T : List Str} (h : spORIGIN_START ∉ T) : isTargetedToks T = false := by
  simp [isTargetedToks, h]
theorem isTargetedToks_true {T : List Str} (h1 : spORIGIN_START ∈ T) (h2 : spORIGIN_END ∈ T) (h3 : spTARGET_START ∈ T)
    (h4 : spTARGET_END ∈ T) : isTargetedToks T = true := by
  simp [isTargetedToks, h1, h2, h3, h4]
theorem hasPathToks_false {T : List Str} (h : spPATH_START ∉ T) : hasPathToks T = false := by
  simp [hasPathToks, h]
theorem hasPathToks_true {T : List Str} (h1 : spPATH_START ∈ T) (h2 : spPATH_END ∈ T) : hasPathToks T = true := by
  simp [hasPathToks, h1, h2]

theorem inSquare_rebuilt (m : LMaze) (es : List NEdge) (c : NCell) : inSquare ⟨m.rows, m.cols, es⟩ c = inSquare m c := rfl

/-- whole `_from_tokens_AOTP`, untargeted token list -/
theorem fromTokensAOTP_lattice (ct : CoordTok) (m : LMaze) (adj : List (NCell × NCell))
    (hsq : m.rows = m.cols) (hwf : m.WF) (hmax : m.maxIndexOccurs) (hv : ValidAdj m adj) :
    ∃ es, fromTokensAOTP ([spADJLIST_START] ++ adjRegion ct adj ++ [spADJLIST_END]) = .ok (.lattice ⟨m.rows, m.cols, es⟩) ∧
      ∀ x, x ∈ es ↔ x ∈ m.edges := by
  obtain ⟨es, h1, hmem⟩ := latticeOfTokens_canon ct m adj [] hsq hwf hmax hv
  have hA := inner_adjRegion ct adj
  have e : [spADJLIST_START] ++ adjRegion ct adj ++ [spADJLIST_END] = spADJLIST_START :: (adjRegion ct adj ++ spADJLIST_END :: []) := by simp
  refine ⟨es, ?_, hmem⟩
  rw [e]
  have f1 : isTargetedToks (spADJLIST_START :: (adjRegion ct adj ++ spADJLIST_END :: [])) = false := by
    apply isTargetedToks_false
    simp only [List.mem_cons, List.mem_append, List.mem_nil_iff, or_false, not_or]
    exact ⟨by decide, hA.notMem (by decide), by decide⟩
  have f2 : hasPathToks (spADJLIST_START :: (adjRegion ct adj ++ spADJLIST_END :: [])) = false := by
    apply hasPathToks_false
    simp only [List.mem_cons, List.mem_append, List.mem_nil_iff, or_false, not_or]
    exact ⟨by decide, hA.notMem (by decide), by decide⟩
  simp only [fromTokensAOTP, h1, f1, f2, Except.bind, Bool.false_eq_true, if_false]

/-- whole `_from_tokens_AOTP`, targeted token list -/
theorem fromTokensAOTP_targeted (ct : CoordTok) (m : LMaze) (adj : List (NCell × NCell)) (s e : NCell)
    (hsq : m.rows = m.cols) (hwf : m.WF) (hmax : m.maxIndexOccurs) (hv : ValidAdj m adj)
    (hs : inSquare m s = true) (he : inSquare m e = true) :
    ∃ es, fromTokensAOTP ([spADJLIST_START] ++ adjRegion ct adj ++ [spADJLIST_END] ++ ([spORIGIN_START] ++ coordToks ct s ++ [spORIGIN_END])
        ++ ([spTARGET_START] ++ coordToks ct e ++ [spTARGET_END])) = .ok (.targeted ⟨m.rows, m.cols, es⟩ s e) ∧
      ∀ x, x ∈ es ↔ x ∈ m.edges := by
  have hA := inner_adjRegion ct adj
  have ho := inner_coordToks ct s
  have ht := inner_coordToks ct e
  obtain ⟨es, h1, hmem⟩ := latticeOfTokens_canon ct m adj
    (spORIGIN_START :: (coordToks ct s ++ spORIGIN_END :: spTARGET_START :: (coordToks ct e ++ spTARGET_END :: []))) hsq hwf hmax hv
  have h2 := endpointsOfTokens_canon ct (adjRegion ct adj) hA s e []
  have e0 : [spADJLIST_START] ++ adjRegion ct adj ++ [spADJLIST_END] ++ ([spORIGIN_START] ++ coordToks ct s ++ [spORIGIN_END])
        ++ ([spTARGET_START] ++ coordToks ct e ++ [spTARGET_END]) =
      spADJLIST_START :: (adjRegion ct adj ++ spADJLIST_END :: spORIGIN_START :: (coordToks ct s ++ spORIGIN_END ::
        spTARGET_START :: (coordToks ct e ++ spTARGET_END :: []))) := by simp
  refine ⟨es, ?_, hmem⟩
  rw [e0]
  have f1 : isTargetedToks (spADJLIST_START :: (adjRegion ct adj ++ spADJLIST_END :: spORIGIN_START :: (coordToks ct s ++ spORIGIN_END ::
        spTARGET_START :: (coordToks ct e ++ spTARGET_END :: [])))) = true := by
    apply isTargetedToks_true <;> simp
  have f2 : hasPathToks (spADJLIST_START :: (adjRegion ct adj ++ spADJLIST_END :: spORIGIN_START :: (coordToks ct s ++ spORIGIN_END ::
        spTARGET_START :: (coordToks ct e ++ spTARGET_END :: [])))) = false := by
    apply hasPathToks_false
    simp only [List.mem_cons, List.mem_append, List.mem_nil_iff, or_false, not_or]
    exact ⟨by decide, hA.notMem (by decide), by decide, by decide, ho.notMem (by decide), by decide, by decide,
      ht.notMem (by decide), by decide⟩
  simp only [fromTokensAOTP, h1, h2, f1, f2, Except.bind, if_true, inSquare_rebuilt, hs, he, Bool.not_true, Bool.false_eq_true, if_false]

/-- whole `_from_tokens_AOTP`, solved token list -/
theorem fromTokensAOTP_solved (ct : CoordTok) (m : LMaze) (adj : List (NCell × NCell)) (s e : NCell) (sol : List NCell)
    (hsq : m.rows = m.cols) (hwf : m.WF) (hmax : m.maxIndexOccurs) (hv : ValidAdj m adj)
    (hs : inSquare m s = true) (he : inSquare m e = true) (hh : sol.head? = some s) (hl : sol.getLast? = some e) :
    ∃ es, fromTokensAOTP ([spADJLIST_START] ++ adjRegion ct adj ++ [spADJLIST_END] ++ ([spORIGIN_START] ++ coordToks ct s ++ [spORIGIN_END])
        ++ ([spTARGET_START] ++ coordToks ct e ++ [spTARGET_END]) ++ ([spPATH_START] ++ sol.flatMap (coordToks ct) ++ [spPATH_END]))
        = .ok (.solved ⟨m.rows, m.cols, es⟩ s e sol) ∧
      ∀ x, x ∈ es ↔ x ∈ m.edges := by
  have hA := inner_adjRegion ct adj
  have ho := inner_coordToks ct s
  have ht := inner_coordToks ct e
  have hP := inner_flatMap_coordToks ct sol
  obtain ⟨es, h1, hmem⟩ := latticeOfTokens_canon ct m adj
    (spORIGIN_START :: (coordToks ct s ++ spORIGIN_END :: spTARGET_START :: (coordToks ct e ++ spTARGET_END ::
      spPATH_START :: (sol.flatMap (coordToks ct) ++ [spPATH_END])))) hsq hwf hmax hv
  have h2 := endpointsOfTokens_canon ct (adjRegion ct adj) hA s e (spPATH_START :: (sol.flatMap (coordToks ct) ++ [spPATH_END]))
  have h3 := solutionOfTokens_canon ct
    (spADJLIST_START :: (adjRegion ct adj ++ spADJLIST_END :: spORIGIN_START :: (coordToks ct s ++ spORIGIN_END ::
        spTARGET_START :: (coordToks ct e ++ [spTARGET_END]))))
    (by simp only [List.mem_cons, List.mem_append, List.mem_nil_iff, or_false, not_or]
        exact ⟨by decide, hA.notMem (by decide), by decide, by decide, ho.notMem (by decide), by decide, by decide,
          ht.notMem (by decide), by decide⟩)
    (by simp only [List.mem_cons, List.mem_append, List.mem_nil_iff, or_false, not_or]
        exact ⟨by decide, hA.notMem (by decide), by decide, by decide, ho.notMem (by decide), by decide, by decide,
          ht.notMem (by decide), by decide⟩) sol
  have e0 : [spADJLIST_START] ++ adjRegion ct adj ++ [spADJLIST_END] ++ ([spORIGIN_START] ++ coordToks ct s ++ [spORIGIN_END])
        ++ ([spTARGET_START] ++ coordToks ct e ++ [spTARGET_END]) ++ ([spPATH_START] ++ sol.flatMap (coordToks ct) ++ [spPATH_END]) =
      spADJLIST_START :: (adjRegion ct adj ++ spADJLIST_END :: spORIGIN_START :: (coordToks ct s ++ spORIGIN_END ::
        spTARGET_START :: (coordToks ct e ++ spTARGET_END :: spPATH_START :: (sol.flatMap (coordToks ct) ++ [spPATH_END])))) := by simp
  have e1 : (spADJLIST_START :: (adjRegion ct adj ++ spADJLIST_END :: spORIGIN_START :: (coordToks ct s ++ spORIGIN_END ::
        spTARGET_START :: (coordToks ct e ++ [spTARGET_END])))) ++ spPATH_START :: sol.flatMap (coordToks ct) ++ [spPATH_END] =
      spADJLIST_START :: (adjRegion ct adj ++ spADJLIST_END :: spORIGIN_START :: (coordToks ct s ++ spORIGIN_END ::
        spTARGET_START :: (coordToks ct e ++ spTARGET_END :: spPATH_START :: (sol.flatMap (coordToks ct) ++ [spPATH_END])))) := by simp
  rw [e1] at h3
  refine ⟨es, ?_, hmem⟩
  rw [e0]
  have f1 : isTargetedToks (spADJLIST_START :: (adjRegion ct adj ++ spADJLIST_END :: spORIGIN_START :: (coordToks ct s ++ spORIGIN_END ::
        spTARGET_START :: (coordToks ct e ++ spTARGET_END :: spPATH_START :: (sol.flatMap (coordToks ct) ++ [spPATH_END]))))) = true := by
    apply isTargetedToks_true <;> simp
  have f2 : hasPathToks (spADJLIST_START :: (adjRegion ct adj ++ spADJLIST_END :: spORIGIN_START :: (coordToks ct s ++ spORIGIN_END ::
        spTARGET_START :: (coordToks ct e ++ spTARGET_END :: spPATH_START :: (sol.flatMap (coordToks ct) ++ [spPATH_END]))))) = true := by
    apply hasPathToks_true <;> simp
  simp only [fromTokensAOTP, h1, h2, h3, f1, f2, Except.bind, if_true, inSquare_rebuilt, hs, he, Bool.not_true, Bool.false_eq_true, if_false]
  exact mkSolved_ok _ sol s e hh hl (by simpa [inSquare_rebuilt] using hs) (by simpa [inSquare_rebuilt] using he)

end MZ.LT
