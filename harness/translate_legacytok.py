"""Emitter for C07 (legacy tokenization): re-emits from what the source SAYS (ast, no import)
 * the special tokens of `_SPECIAL_TOKENS_BASE` and the three CTT delimiter tokens of `_VOCAB_FIELDS` as `List Char` literals
   (so that theorems about the string level can compute with them without `String` internals),
 * the regular expression literal used by `token_utils.coords_string_split_UT`,
 * the slice constants of `get_tokens_up_to_path_start` are not needed here.
The Lean proofs in Lemmas/LegacyTok.lean / Props/C07.lean mention these constants, so an edited token or regex re-opens them."""
from __future__ import annotations
import ast
from pathlib import Path


def _chars(s: str) -> str:
    def one(ch):
        if ch == "'": return "'\\''"
        if ch == "\\": return "'\\\\'"
        if ch == "\n": return "'\\n'"
        if ch == "\t": return "'\\t'"
        if 32 <= ord(ch) < 127: return f"'{ch}'"
        return f"(Char.ofNat {ord(ch)})"
    return "[" + ", ".join(one(c) for c in s) + "]"


def _lstr(s: str) -> str:
    return '"' + s.replace("\\", "\\\\").replace('"', '\\"') + '"'


def emitters(repo: Path):
    cpath = Path(repo) / "maze_dataset" / "constants.py"
    upath = Path(repo) / "maze_dataset" / "token_utils.py"
    ctree = ast.parse(cpath.read_text())
    special = []
    for node in ast.walk(ctree):
        if isinstance(node, ast.ClassDef) and node.name == "_SPECIAL_TOKENS_BASE":
            for st in node.body:
                if isinstance(st, ast.AnnAssign) and isinstance(st.target, ast.Name) and st.value is not None:
                    special.append((st.target.id, ast.literal_eval(st.value)))
    vocab = {}
    for node in ctree.body:
        tgt = node.target if isinstance(node, ast.AnnAssign) else (node.targets[0] if isinstance(node, ast.Assign) else None)
        if isinstance(tgt, ast.Name) and tgt.id == "_VOCAB_FIELDS":
            for el in node.value.elts:
                if isinstance(el, ast.Tuple) and isinstance(el.elts[0], ast.Constant) and isinstance(el.elts[2], ast.Call):
                    for kw in el.elts[2].keywords:
                        if kw.arg == "default" and isinstance(kw.value, ast.Constant):
                            vocab[el.elts[0].value] = kw.value.value
    regex = None
    utree = ast.parse(upath.read_text())
    for node in ast.walk(utree):
        if isinstance(node, ast.FunctionDef) and node.name == "coords_string_split_UT":
            for sub in ast.walk(node):
                if isinstance(sub, ast.Call) and getattr(sub.func, "attr", "") == "findall" and sub.args and isinstance(sub.args[0], ast.Constant):
                    regex = sub.args[0].value
    L = ["namespace MZ.Gen.LT\n"]
    L.append("/-- `_SPECIAL_TOKENS_BASE` fields as character lists -/")
    for k, v in special:
        L.append(f"def sp{k} : List Char := {_chars(v)}")
    L.append("\n/-- `_SPECIAL_TOKENS_BASE` in source order (name, token) -/")
    L.append("def specialNames : List (String × List Char) := [" + ", ".join(f"({_lstr(k)}, sp{k})" for k, v in special) + "]")
    L.append("\n/-- `_VOCAB_FIELDS` CTT delimiters -/")
    for k in ("COORD_PRE", "COORD_INTRA", "COORD_POST"):
        L.append(f"def vc{k} : List Char := {_chars(vocab.get(k, ''))}")
    L.append("\n/-- first argument of `re.findall` in `coords_string_split_UT` ('<missing>' if the call is gone) -/")
    L.append(f"def utSplitRegex : String := {_lstr(regex if regex is not None else '<missing>')}")
    L.append("\nend MZ.Gen.LT\n")
    return [("LegacyTok.lean", "\n".join(L))]
