import MazeVerif.DriverOps.Util
import MazeVerif.Model.Serial
namespace MZ.Drv.C05
open Lean MZ.Drv MZ.Serial

/-! driver ops of property C05. The abstract parameters of the model are instantiated with observable tags:
    config = (grid_n, number of `collect_generation_meta` records appended), per-maze meta = Unit (presence),
    collected meta = number of per-maze dicts it was collected from (`none` if it was present before). -/

abbrev K := Nat × Nat
abbrev Mu := Unit
abbrev M := Nat

def env : Env K Mu M :=
  { gridN := fun c => c.1, addCollectFilter := fun c => (c.1, c.2 + 1), collect := fun l => l.length + 1,
    cfgJson := id, metaJson := id, mazeMetaJson := id }

def bitsOfString (s : String) : List Bool := s.toList.map (· == '1')
def stringOfBits (l : List Bool) : String := String.ofList (l.map fun b => if b then '1' else '0')

def asMaze (j : Json) : R (Maze Mu) := do
  let g ← getNat j "g"
  let cl ← getStr j "clist"
  let sol ← getCells j "sol"
  let s ← getCell j "start"
  let e ← getCell j "end"
  let hasMeta ← getBool j "meta"
  pure { gridN := g, clist := bitsOfString cl, sol, startPos := s, endPos := e, gmeta := if hasMeta then some () else none }

def asDS (j : Json) : R (DS K Mu M) := do
  let g ← getNat j "grid_n"
  let ms ← (← getArr j "mazes").mapM asMaze
  let coll ← getBool j "collected"
  pure { cfg := (g, 0), mazes := ms, collected := if coll then some 0 else none }

def asThr (j : Json) : R (Option Int) :=
  match j with
  | Json.null => pure none
  | v => do pure (some (← v.getInt?))

def getThr (j : Json) (k : String) : R (Option Int) :=
  match j.getObjVal? k with
  | .ok v => asThr v
  | .error _ => pure none

/-- observed `np.empty` contents: `pad[i]` = the entries of row `i` behind the solution -/
def asPad (j : Json) (lens : List Nat) : R (Nat → Nat → Coord) := do
  match optFld j "pad" with
  | none => pure fun _ _ => (0, 0)
  | some p =>
    let rows ← (← p.getArr?).toList.mapM fun r => do (← r.getArr?).toList.mapM asCell
    pure fun i k => ((rows[i]?).bind (·[k - lens.getD i 0]?)).getD (0, 0)

def jMaze (m : Maze Mu) : Json :=
  obj [("g", jNat m.gridN), ("clist", Json.str (stringOfBits m.clist)), ("sol", jCells m.sol), ("start", jCell m.startPos),
       ("end", jCell m.endPos), ("meta", Json.bool m.gmeta.isSome)]

def jDS (d : DS K Mu M) : Json :=
  obj [("grid_n", jNat d.cfg.1), ("filters_added", jNat d.cfg.2), ("mazes", jList jMaze d.mazes),
       ("collected", match d.collected with | none => Json.null | some n => jNat n)]

def jPayload : Payload Mu → Json
  | .full ms => obj [("kind", "full"), ("n", jNat ms.length)]
  | .minimal g cl lens sols => obj [("kind", "minimal"), ("g", jNat g), ("clists", jList (fun c => Json.str (stringOfBits c)) cl),
      ("lens", jInts lens), ("sols", jList jCells sols)]
  | .cat g cl ends lens concat => obj [("kind", "cat"), ("g", jNat g), ("clists", jList (fun c => Json.str (stringOfBits c)) cl),
      ("endpoints", jList (fun e => Json.arr #[jCell e.1, jCell e.2]) ends), ("lens", jInts lens), ("concat", jCells concat)]

def jExcept {α} (f : α → Json) : Except Err α → Json
  | .ok a => obj [("ok", f a)]
  | .error e => obj [("err", Json.str e.name)]

/-- serialize with the named method, then `load` (in memory) and `read` (through the handler) under `loadThr` -/
def roundTrip (name : String) (pad : Nat → Nat → Coord) (loadThr : Option Int) (ds : DS K Mu M) : Json :=
  match runSerializer env pad name ds with
  | .error e => obj [("ser_err", Json.str e.name)]
  | .ok (post, st) =>
    obj [("fmt", Json.str st.fmt), ("post", jDS post), ("payload", jPayload st.payload),
         ("stored_filters_added", jNat st.cfg.2),
         ("stored_collected", match st.collected with | none => Json.null | some n => jNat n),
         ("load", jExcept jDS (load env loadThr st)), ("read", jExcept jDS (read env loadThr st))]

def jOptStr : Option String → Json
  | none => Json.null
  | some s => Json.str s

def asPyKey (j : Json) : R PyKey := do
  let t ← getStr j "t"
  match t with
  | "b" => pure (.b (← getBool j "v"))
  | "i" => pure (.i (← getInt j "v"))
  | "s" => pure (.s (← getStr j "v"))
  | "t" => pure (.t (← getIntList j "v"))
  | "f" => pure (.f (← getStr j "v"))
  | _ => throw s!"unknown key kind {t}"

def handle (op : String) (j : Json) : R Json := do
  match op with
  | "C05.dataset" =>
    -- {grid_n, mazes, collected, pad?, load_thr?} → the three formats, each serialised, loaded and read
    let ds ← asDS j
    let lens := ds.mazes.map (·.sol.length)
    let pad ← asPad j lens
    let lthr ← getThr j "load_thr"
    pure <| obj [("full", roundTrip "_serialize_full" pad lthr ds),
                 ("minimal", roundTrip "_serialize_minimal" pad lthr ds),
                 ("cat", roundTrip "_serialize_minimal_soln_cat" pad lthr ds)]
  | "C05.dispatch" =>
    -- {len, thresholds:[null|int]} → serializer picked, format written, loader and zanj handler for that format
    let n ← getNat j "len"
    let thrs ← (← getArr j "thresholds").mapM asThr
    let rows := thrs.map fun t =>
      let ser := serializerName t n
      let fmt := match fmtOf ser with | .ok f => some f | .error _ => none
      obj [("serializer", Json.str ser), ("fmt", jOptStr fmt),
           ("loader", jOptStr (fmt.bind (loaderName t))), ("handler", jOptStr (fmt.bind selectHandler))]
    pure <| obj [("rows", Json.arr rows.toArray),
                 ("unknown_fmt_loader", jOptStr (loaderName none "MazeDataset:nonsense")),
                 ("unknown_raises", Json.str MZ.Gen.Serial.loadUnknownRaises),
                 ("collection_handler", jOptStr (selectHandler MZ.Gen.Serial.collectionFormat))]
  | "C05.collection" =>
    -- {members:[dataset], thr, collected} → per-member format, new member states, loaded members / error
    let members ← (← getArr j "members").mapM asDS
    let thr ← getThr j "thr"
    let coll ← getBool j "collected"
    match serializeColl env thr (fun _ _ _ => (0, 0)) members (if coll then some 0 else none) with
    | .error e => pure <| obj [("ser_err", Json.str e.name)]
    | .ok (post, st) =>
      let ld := loadColl env thr st
      pure <| obj [("fmt", Json.str st.fmt), ("member_fmts", jStrs (st.members.map (·.fmt))), ("post", jList jDS post),
                   ("cfg_filters_added", jNats (st.memberCfgs.map (·.2))),
                   ("handler", jOptStr (selectHandler st.fmt)),
                   ("load", jExcept (fun r => obj [("cfg_filters_added", jNats (r.1.map (·.2))), ("members", jList jDS r.2.1),
                                                   ("collected", Json.bool r.2.2.isSome)]) ld)]
  | "C05.meta" =>
    -- {meta:[[field,[[key,count],...]],...]} → json_serialize'd dict as ordered pairs
    let fields ← (← getArr j "meta").mapM fun f => do
      match (← f.getArr?).toList with
      | [k, cnts] =>
        let cs ← (← cnts.getArr?).toList.mapM fun c => do
          match (← c.getArr?).toList with
          | [key, n] => pure ((← asPyKey key), (← n.getNat?))
          | _ => throw "meta: expected [key,count]"
        pure ((← k.getStr?), cs)
      | _ => throw "meta: expected [field,counts]"
    let out := jsonMeta fields
    pure <| obj [("json", jList (fun (p : String × List (String × Nat)) =>
      Json.arr #[Json.str p.1, jList (fun (q : String × Nat) => Json.arr #[Json.str q.1, jNat q.2]) p.2]) out)]
  | _ => throw s!"unknown op {op}"

end MZ.Drv.C05
