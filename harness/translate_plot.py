"""Emitter for Generated/PlotConstants.lean: the literal constants of maze_dataset/plotting/plot_maze.py that the C20 model
depends on, read from the source text with `ast` (never imported)."""
from __future__ import annotations
import ast
from fractions import Fraction
from pathlib import Path


def _find(tree, cls, fn):
    for n in ast.walk(tree):
        if isinstance(n, ast.ClassDef) and n.name == cls:
            for m in n.body:
                if isinstance(m, ast.FunctionDef) and m.name == fn:
                    return m
    raise KeyError(f"{cls}.{fn}")


def _default(fn: ast.FunctionDef, arg: str):
    args = fn.args.args
    defs = fn.args.defaults
    for a, d in zip(args[len(args) - len(defs):], defs):
        if a.arg == arg:
            return ast.literal_eval(d)
    raise KeyError(arg)


def _num(node):
    return ast.literal_eval(node)


def _rat(x) -> str:
    f = Fraction(repr(x)) if isinstance(x, float) else Fraction(x)
    return f"({f.numerator}, {f.denominator})"


def emitters(repo: Path):
    src = (repo / "maze_dataset" / "plotting" / "plot_maze.py").read_text()
    tree = ast.parse(src)
    init = _find(tree, "MazePlot", "__init__")
    toimg = _find(tree, "MazePlot", "_lattice_maze_to_img")
    pm = _find(tree, "MazePlot", "_plot_maze")
    r2c = _find(tree, "MazePlot", "_rowcol_to_coord")
    ul = _default(init, "unit_length")
    scale = _default(toimg, "connection_val_scale")
    # `if self.node_values is None:` … `node_bdry_hack = …`, `connection_list_processed = …` in both branches
    branch = next(n for n in ast.walk(toimg) if isinstance(n, ast.If) and "node_values" in ast.unparse(n.test) and "is None" in ast.unparse(n.test))
    def assigned(body, name):
        for n in body:
            if isinstance(n, ast.Assign) and any(isinstance(t, ast.Name) and t.id == name for t in n.targets):
                return n.value
        raise KeyError(name)
    hack_none, hack_vals = _num(assigned(branch.body, "node_bdry_hack")), _num(assigned(branch.orelse, "node_bdry_hack"))
    inv_none = "logical_not" in ast.unparse(assigned(branch.body, "connection_list_processed"))
    inv_vals = "logical_not" in ast.unparse(assigned(branch.orelse, "connection_list_processed"))
    conn_none = ast.unparse(assigned(branch.body, "connection_values"))
    conn_vals = ast.unparse(assigned(branch.orelse, "connection_values"))
    # background: `img = -np.ones(…)`
    bg = next(n for n in ast.walk(toimg) if isinstance(n, ast.AnnAssign) and isinstance(n.target, ast.Name) and n.target.id == "img")
    bg_minus_ones = isinstance(bg.value, ast.UnaryOp) and isinstance(bg.value.op, ast.USub) and "np.ones" in ast.unparse(bg.value.operand)
    # gray imshow: `self.ax.imshow(img, cmap="gray", vmin=-1, vmax=1)`
    gray = next(n for n in ast.walk(pm) if isinstance(n, ast.Call) and ast.unparse(n.func).endswith("imshow")
                and any(k.arg == "cmap" and isinstance(k.value, ast.Constant) and k.value.value == "gray" for k in n.keywords))
    kw = {k.arg: k.value for k in gray.keywords}
    vmin, vmax = _num(kw["vmin"]), _num(kw["vmax"])
    set_bad = next((ast.literal_eval(k.value) for n in ast.walk(pm) if isinstance(n, ast.Call) and ast.unparse(n.func).endswith("set_bad")
                    for k in n.keywords if k.arg == "color"), None)
    # `_rowcol_to_coord`: `np.array([point[1], point[0]])`, `self.unit_length * (point + 0.5)`
    arr = next(n for n in ast.walk(r2c) if isinstance(n, ast.Call) and ast.unparse(n.func) == "np.array")
    order = [ast.literal_eval(e.slice) for e in arr.args[0].elts]
    ret = next(n for n in ast.walk(r2c) if isinstance(n, ast.Return))
    offs = next(_num(n) for n in ast.walk(ret) if isinstance(n, ast.Constant) and isinstance(n.value, float))
    # DEFAULT_FORMATS: quiver_kwargs of "true" / "predicted"
    fmts = next(n.value for n in tree.body if isinstance(n, ast.AnnAssign) and getattr(n.target, "id", "") == "DEFAULT_FORMATS")
    quiv = {}
    for k, v in zip(fmts.keys, fmts.values):
        q = next(kk.value for kk in v.keywords if kk.arg == "quiver_kwargs")
        quiv[ast.literal_eval(k)] = not (isinstance(q, ast.Constant) and q.value is None)
    b = lambda x: "true" if x else "false"
    s = lambda x: '"' + x.replace("\\", "\\\\").replace('"', '\\"') + '"'
    L = ["namespace MZ.Gen.Plot\n",
         f"/-- default `unit_length` of `MazePlot.__init__` -/\ndef defaultUnitLength : Nat := {ul}\n",
         f"/-- default `connection_val_scale` of `_lattice_maze_to_img` as (numerator, denominator) -/\ndef connectionValScale : Int × Nat := {_rat(scale)}\n",
         f"/-- `node_bdry_hack` without / with node values -/\ndef hackNoValues : Nat := {hack_none}\ndef hackValues : Nat := {hack_vals}\n",
         f"/-- is `connection_list_processed` the `np.logical_not` of the connection list, without / with node values -/\ndef invertNoValues : Bool := {b(inv_none)}\ndef invertValues : Bool := {b(inv_vals)}\n",
         f"/-- source text of `connection_values` without / with node values -/\ndef connValuesNoValues : String := {s(conn_none)}\ndef connValuesValues : String := {s(conn_vals)}\n",
         f"/-- the background image is `-np.ones(…)` -/\ndef backgroundMinusOnes : Bool := {b(bg_minus_ones)}\n",
         f"/-- `imshow(img, cmap=\"gray\", vmin, vmax)` of the plot without node values, as (numerator, denominator) -/\ndef grayVmin : Int × Nat := {_rat(vmin)}\ndef grayVmax : Int × Nat := {_rat(vmax)}\n",
         f"/-- colour given to `cmap.set_bad` (NaN pixels) when node values are plotted -/\ndef setBadColor : Option String := {'none' if set_bad is None else 'some ' + s(set_bad)}\n",
         f"/-- `_rowcol_to_coord`: index order of `np.array([point[..], point[..]])` and the added offset as (numerator, denominator) -/\ndef coordIndexOrder : List Nat := {order}\ndef coordOffset : Int × Nat := {_rat(offs)}\n",
         f"/-- `DEFAULT_FORMATS[..].quiver_kwargs is not None` -/\ndef trueUsesQuiver : Bool := {b(quiv['true'])}\ndef predictedUsesQuiver : Bool := {b(quiv['predicted'])}\n",
         "end MZ.Gen.Plot\n"]
    return [("PlotConstants.lean", "\n".join(L))]
