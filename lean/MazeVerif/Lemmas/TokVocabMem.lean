import MazeVerif.Lemmas.TokPrompt
import MazeVerif.Model.TokVocab
/-! Vocabulary membership: every structured token within the size guards renders to a string of the generated vocabulary,
    and every token of the emitted sequence is within the guards when the maze's coordinates are. -/
namespace MZ.Tok
open MZ.Gen

theorem mem_vocab_of_block {s : String} (k : Nat) (l : List String) (hk : tokVocabBlocks[k]? = some l) (hs : s ∈ l) : s ∈ vocab := by
  unfold vocab
  exact List.mem_flatten.2 ⟨l, List.mem_of_getElem? hk, hs⟩

/-- size guards under which a token has a vocabulary entry -/
def TokOK : Tok → Prop
  | .num n => cttLo ≤ n ∧ n < cttHi
  | .ut i j => i < utSize ∧ j < utSize
  | .dist d => distLo ≤ d ∧ d < distHi
  | _ => True

theorem str_mem_vocab (t : Tok) (h : TokOK t) : t.str ∈ vocab := by
  cases t with
  | num n =>
    simp only [TokOK, cttLo, cttHi] at h
    refine mem_vocab_of_block 2 _ (by rfl) ?_
    exact List.mem_map.2 ⟨n, by simp [List.mem_range']; omega, rfl⟩
  | ut i j =>
    simp only [TokOK, utSize] at h
    refine mem_vocab_of_block 6 _ (by rfl) ?_
    simp only [List.mem_flatMap, List.mem_map, List.mem_range]
    exact ⟨i, h.1, j, h.2, rfl⟩
  | dist d =>
    simp only [TokOK, distLo, distHi] at h
    refine mem_vocab_of_block 1 _ (by rfl) ?_
    exact List.mem_map.2 ⟨d, by simp [List.mem_range']; omega, rfl⟩
  | card d => cases d <;> exact mem_vocab_of_block 0 _ (by rfl) (by simp [Tok.str, Dir.str, tokNorth, tokSouth, tokEast, tokWest])
  | rel r =>
    cases r <;> exact mem_vocab_of_block 0 _ (by rfl) (by simp [Tok.str, Rel.str, tokForward, tokBackward, tokLeft, tokRight, tokStay])
  | wall => exact mem_vocab_of_block 4 _ (by rfl) (by simp [Tok.str, tokWall])
  | pathPre => exact mem_vocab_of_block 4 _ (by rfl) (by simp [Tok.str, tokPathPre])
  | lp => exact mem_vocab_of_block 0 _ (by rfl) (by simp [Tok.str, tokCoordPre])
  | comma => exact mem_vocab_of_block 0 _ (by rfl) (by simp [Tok.str, tokCoordIntra])
  | rp => exact mem_vocab_of_block 0 _ (by rfl) (by simp [Tok.str, tokCoordPost])
  | conn => exact mem_vocab_of_block 0 _ (by rfl) (by simp [Tok.str, tokConnector])
  | endl => exact mem_vocab_of_block 0 _ (by rfl) (by simp [Tok.str, tokEndline])
  | pathIntra => exact mem_vocab_of_block 0 _ (by rfl) (by simp [Tok.str, tokPathIntra])
  | pathPost => exact mem_vocab_of_block 0 _ (by rfl) (by simp [Tok.str, tokPathPost])
  | targetPost => exact mem_vocab_of_block 0 _ (by rfl) (by simp [Tok.str, tokTargetPost])
  | adjStart => exact mem_vocab_of_block 0 _ (by rfl) (by simp [Tok.str, tokAdjStart])
  | adjEnd => exact mem_vocab_of_block 0 _ (by rfl) (by simp [Tok.str, tokAdjEnd])
  | originStart => exact mem_vocab_of_block 0 _ (by rfl) (by simp [Tok.str, tokOriginStart])
  | originEnd => exact mem_vocab_of_block 0 _ (by rfl) (by simp [Tok.str, tokOriginEnd])
  | targetStart => exact mem_vocab_of_block 0 _ (by rfl) (by simp [Tok.str, tokTargetStart])
  | targetEnd => exact mem_vocab_of_block 0 _ (by rfl) (by simp [Tok.str, tokTargetEnd])
  | pathStart => exact mem_vocab_of_block 0 _ (by rfl) (by simp [Tok.str, tokPathStart])
  | pathEnd => exact mem_vocab_of_block 0 _ (by rfl) (by simp [Tok.str, tokPathEnd])

/-- every token of the list is within the guards -/
def AllOK (l : List Tok) : Prop := ∀ t ∈ l, TokOK t

theorem AllOK.append {a b : List Tok} (ha : AllOK a) (hb : AllOK b) : AllOK (a ++ b) := by
  intro t ht; rcases List.mem_append.1 ht with h | h
  · exact ha t h
  · exact hb t h
theorem AllOK.nil : AllOK [] := by intro t ht; cases ht
theorem AllOK.cons {t : Tok} {l : List Tok} (ht : TokOK t) (hl : AllOK l) : AllOK (t :: l) := by
  intro x hx; rcases List.mem_cons.1 hx with rfl | h
  · exact ht
  · exact hl x h
theorem allOK_opt (b : Bool) (t : Tok) (h : TokOK t) : AllOK (opt b t) := by
  cases b
  · exact AllOK.nil
  · exact AllOK.cons h AllOK.nil

/-- coordinate guard of a coordinate tokenizer: UT has tokens for `utSize`² cells, CTT for components below `cttHi` -/
def CoordOK (ct : CoordTok) (c : C) : Prop :=
  match ct with
  | .ut => c.1 < utSize ∧ c.2 < utSize
  | .ctt _ _ _ => (cttLo ≤ c.1 ∧ c.1 < cttHi) ∧ (cttLo ≤ c.2 ∧ c.2 < cttHi)

theorem allOK_coordToks {ct : CoordTok} {c : C} (h : CoordOK ct c) : AllOK (coordToks ct c) := by
  cases ct with
  | ut => exact AllOK.cons h AllOK.nil
  | ctt pre intra post =>
    exact (allOK_opt pre .lp trivial).append (AllOK.cons h.1 ((allOK_opt intra .comma trivial).append
      (AllOK.cons h.2 (allOK_opt post .rp trivial))))

theorem allOK_edgeToks {cfg : AdjCfg} {ct : CoordTok} {m : Maze} {e : OE} {toks : List Tok}
    (h : edgeToks cfg ct m e = some toks) (h1 : CoordOK ct e.1) (h2 : CoordOK ct e.2) : AllOK toks := by
  unfold edgeToks at h
  cases htr : trailToks cfg ct e with
  | none => simp [htr] at h
  | some tr =>
    simp only [htr, Option.some.injEq] at h
    subst h
    have hld := allOK_coordToks h1
    have hcn : AllOK [connTok (isConn m e)] := by
      cases isConn m e <;> exact AllOK.cons trivial AllOK.nil
    have htrd : AllOK tr := by
      unfold trailToks at htr
      by_cases hc : cfg.cardinal = true
      · simp only [hc, if_true, Option.map_eq_some_iff] at htr
        obtain ⟨d, _, rfl⟩ := htr
        exact AllOK.cons trivial AllOK.nil
      · simp only [hc, Bool.false_eq_true, if_false, Option.some.injEq] at htr
        subst htr; exact allOK_coordToks h2
    have hpost := allOK_opt cfg.post .endl trivial
    cases cfg.ordinal
    · exact ((hcn.append hld).append htrd).append hpost
    · exact ((hld.append hcn).append htrd).append hpost
    · exact ((hld.append htrd).append hcn).append hpost

theorem allOK_adjToks {cfg : AdjCfg} {ct : CoordTok} {m : Maze} :
    ∀ {order : List OE} {toks : List Tok}, adjToks cfg ct m order = some toks →
      (∀ e ∈ order, CoordOK ct e.1 ∧ CoordOK ct e.2) → AllOK toks
  | [], toks, h, _ => by simp [adjToks] at h; subst h; exact AllOK.nil
  | e :: es, toks, h, hc => by
    obtain ⟨t, r, h1, h2, rfl⟩ := adjToks_cons h
    exact (allOK_edgeToks h1 (hc e (by simp)).1 (hc e (by simp)).2).append
      (allOK_adjToks h2 (fun x hx => hc x (by simp [hx])))

/-- guard on a step value -/
def ValOK (ct : CoordTok) : StepVal → Prop
  | .coord c => CoordOK ct c
  | .dist k => distLo ≤ k ∧ k < distHi
  | _ => True

theorem allOK_valToks {ct : CoordTok} {v : StepVal} (h : ValOK ct v) : AllOK (valToks ct v) := by
  cases v with
  | coord c => exact allOK_coordToks h
  | card d => exact AllOK.cons trivial AllOK.nil
  | rel r => exact AllOK.cons trivial AllOK.nil
  | dist k => exact AllOK.cons h AllOK.nil

theorem allOK_bodyToks (ct : CoordTok) (intra : Bool) : ∀ vs : List StepVal, (∀ v ∈ vs, ValOK ct v) → AllOK (bodyToks ct intra vs)
  | [], _ => AllOK.nil
  | v :: vs, h => ((allOK_valToks (h v (by simp))).append (allOK_opt intra .pathIntra trivial)).append
      (allOK_bodyToks ct intra vs (fun x hx => h x (by simp [hx])))

theorem allOK_stepToksOf (pc : PathCfg) (ct : CoordTok) (vs : List StepVal) (h : ∀ v ∈ vs, ValOK ct v) :
    AllOK (stepToksOf pc ct vs) :=
  ((allOK_opt pc.pre .pathPre trivial).append (allOK_bodyToks ct pc.intra vs h)).append (allOK_opt pc.post .pathPost trivial)

theorem allOK_flatten_steps (pc : PathCfg) (ct : CoordTok) :
    ∀ steps : List (List StepVal), (∀ vs ∈ steps, ∀ v ∈ vs, ValOK ct v) → AllOK ((steps.map (stepToksOf pc ct)).flatten)
  | [], _ => AllOK.nil
  | vs :: r, h => by
    simp only [List.map_cons, List.flatten_cons]
    exact (allOK_stepToksOf pc ct vs (h vs (by simp))).append (allOK_flatten_steps pc ct r (fun x hx => h x (by simp [hx])))

theorem stepVal_ok {ct : CoordTok} {sol : List C} {i j : Nat} {s : StepTk} {v : StepVal} (hsol : ∀ c ∈ sol, CoordOK ct c)
    (h : stepVal sol i j s = some v) : ValOK ct v := by
  cases s <;> simp only [stepVal] at h
  · simp only [Option.map_eq_some_iff] at h; obtain ⟨c, hc, rfl⟩ := h
    exact hsol c (List.mem_of_getElem? hc)
  · split at h
    · simp only [Option.map_eq_some_iff] at h; obtain ⟨c, _, rfl⟩ := h; trivial
    · cases h
  · split at h
    · split at h
      · simp only [Option.map_eq_some_iff] at h; obtain ⟨c, _, rfl⟩ := h; trivial
      · split at h
        · simp only [Option.map_eq_some_iff] at h; obtain ⟨c, _, rfl⟩ := h; trivial
        · cases h
    · cases h
  · split at h
    · next hg => cases h; exact hg
    · cases h

theorem stepVals_ok {ct : CoordTok} {sol : List C} {i j : Nat} (hsol : ∀ c ∈ sol, CoordOK ct c) :
    ∀ {ss : List StepTk} {vs : List StepVal}, stepVals sol i j ss = some vs → ∀ v ∈ vs, ValOK ct v
  | [], vs, h => by simp [stepVals] at h; subst h; intro v hv; cases hv
  | s :: ss, vs, h => by
    simp only [stepVals] at h
    cases h1 : stepVal sol i j s with
    | none => simp [h1] at h
    | some v =>
      cases h2 : stepVals sol i j ss with
      | none => simp [h1, h2] at h
      | some r =>
        simp [h1, h2] at h; subst h
        intro x hx
        rcases List.mem_cons.1 hx with rfl | hm
        · exact stepVal_ok hsol h1
        · exact stepVals_ok hsol h2 x hm

theorem allSteps_ok {ct : CoordTok} {pc : PathCfg} {sol : List C} (hsol : ∀ c ∈ sol, CoordOK ct c) :
    ∀ {prs : List (Nat × Nat)} {ss : List (List StepVal)}, allSteps pc sol prs = some ss → ∀ vs ∈ ss, ∀ v ∈ vs, ValOK ct v
  | [], ss, h => by simp [allSteps] at h; subst h; intro vs hvs; cases hvs
  | ij :: rest, ss, h => by
    simp only [allSteps] at h
    cases h1 : stepVals sol ij.1 ij.2 pc.steps with
    | none => simp [h1] at h
    | some v =>
      cases h2 : allSteps pc sol rest with
      | none => simp [h1, h2] at h
      | some r =>
        simp [h1, h2] at h; subst h
        intro vs hvs
        rcases List.mem_cons.1 hvs with rfl | hm
        · exact stepVals_ok hsol h1
        · exact allSteps_ok hsol h2 vs hm

theorem allOK_pathToks {pc : PathCfg} {ct : CoordTok} {m : Maze} {sol : List C} {path : List Tok}
    (hsol : ∀ c ∈ sol, CoordOK ct c) (h : pathToks pc ct m sol = some path) : AllOK path := by
  unfold pathToks at h
  simp only [Option.map_eq_some_iff] at h
  obtain ⟨p, hp, rfl⟩ := h
  unfold pathInfo at hp
  have key : ∀ (l : Option C) (ss : List (List StepVal)), (∀ c, l = some c → c ∈ sol) →
      allSteps pc sol (idxPairs (stepIdxs pc.forks m sol)) = some ss → AllOK (pathInfoToks pc ct ⟨l, ss⟩) := by
    intro l ss hl hss
    refine AllOK.append ?_ (allOK_flatten_steps pc ct ss (allSteps_ok hsol hss))
    cases l with
    | none => exact AllOK.nil
    | some c =>
      exact ((allOK_opt pc.pre .pathPre trivial).append (allOK_coordToks (hsol c (hl c rfl)))).append
        (allOK_opt pc.intra .pathIntra trivial)
  by_cases hc : StepTk.coord ∈ pc.steps
  · simp only [hc, if_true] at hp
    cases h0 : sol[0]? with
    | none => simp [h0] at hp
    | some c =>
      cases h2 : allSteps pc sol (idxPairs (stepIdxs pc.forks m sol)) with
      | none => simp [h0, h2] at hp
      | some ss =>
        simp [h0, h2] at hp; subst hp
        exact key (some c) ss (fun c' hc' => by cases hc'; exact List.mem_of_getElem? h0) h2
  · simp only [hc, if_false] at hp
    cases h2 : allSteps pc sol (idxPairs (stepIdxs pc.forks m sol)) with
    | none => simp [h2] at hp
    | some ss =>
      simp [h2] at hp; subst hp
      exact key none ss (fun c' hc' => by cases hc') h2

theorem allOK_targetToks {p : Prompt} {ct : CoordTok} {e : C} (h : CoordOK ct e) : AllOK (targetToks p ct e) := by
  cases p with
  | aotp post => exact (allOK_coordToks h).append (allOK_opt post .targetPost trivial)
  | aop => exact AllOK.nil

/-- all coordinates a maze contributes besides its edges are within the coordinate tokenizer's range -/
def MazeIn.CoordsOK (ct : CoordTok) : MazeIn → Prop
  | .plain _ => True
  | .targeted _ s e => CoordOK ct s ∧ CoordOK ct e
  | .solved _ s e sol => CoordOK ct s ∧ CoordOK ct e ∧ ∀ c ∈ sol, CoordOK ct c

end MZ.Tok
