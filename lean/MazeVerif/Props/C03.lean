import MazeVerif.Lemmas.Dataset
import MazeVerif.Props.C12
import MazeVerif.Props.C02
/-! # C03 — every item of a generated dataset is a correctly solved maze

Model: `Model/Dataset.lean`. The per-item theorem holds for every well-formed maze whose metadata component is sound
(supplied for the generators by C12), every endpoint choice the code can make, every legal A* pick sequence and every
fuel — hence for whatever draw stream a serial run or a worker process happens to use. The generator instantiations
(`C03_*_component_ok`) hold for EVERY `start_coord` a config's `maze_ctor_kwargs` may carry: one outside the grid makes
the generator raise ValueError at generation time (`C01_start_rejected`; no dataset is produced), any other start is in
the grid (`C01_start_in_grid_of_success`). -/
namespace MZ
open MZ.AStar

/-- what C12 guarantees about the cells `get_connected_component()` returns -/
def ComponentOK (rows cols : Nat) (E : List Edge) (comp : List Cell) : Prop :=
  (∀ c ∈ comp, inGrid rows cols c) ∧ ∀ u ∈ comp, ∀ v ∈ comp, Reach E u v

/-- the endpoint options are honoured by `(s, e)` -/
def EndpointsHonoured (rows cols : Nat) (E : List Edge) (comp : List Cell) (o : EndpointOpts) (s e : Cell) : Prop :=
  s ∈ comp ∧ e ∈ comp ∧
  (∀ l, o.allowedStart = some l → s ∈ l) ∧ (∀ l, o.allowedEnd = some l → e ∈ l) ∧
  (o.deadendStart = true → (coordNeighbors rows cols E s).length = 1) ∧
  (o.deadendEnd = true → (coordNeighbors rows cols E e).length = 1) ∧
  (o.notEqual = true → e ≠ s) ∧
  (o.isDefault = true → s ≠ e)

/-- a correctly solved item: the property's per-maze clause -/
def ItemOK (rows cols : Nat) (E : List Edge) (s e : Cell) (sol : List Cell) : Prop :=
  sol ≠ [] ∧ solvedStart sol = some s ∧ solvedEnd sol = some e ∧ (∀ c ∈ sol, inGrid rows cols c) ∧
  IsWalkList (Adj E) sol ∧ sol.Nodup ∧ ∀ m, Walk (Adj E) s e m → sol.length - 1 ≤ m

private theorem mem_allowedSet {rows cols E comp allowed deadend c}
    (h : c ∈ allowedSet rows cols E comp allowed deadend) :
    c ∈ comp ∧ (∀ l, allowed = some l → c ∈ l) ∧ (deadend = true → (coordNeighbors rows cols E c).length = 1) := by
  unfold allowedSet at h
  cases allowed with
  | none =>
    cases deadend with
    | false => simp at h; exact ⟨h, by simp, by simp⟩
    | true => simp [isDeadend] at h; exact ⟨h.1, by simp, fun _ => h.2⟩
  | some l =>
    cases deadend with
    | false => simp at h; exact ⟨h.1, by intro l' hl; simp at hl; subst hl; exact h.2, by simp⟩
    | true =>
      simp [isDeadend] at h
      exact ⟨h.1, by intro l' hl; simp at hl; subst hl; exact h.2.2, fun _ => h.2.1⟩

theorem C03_endpoints_honoured {rows cols E comp o s e} (h : endpointsOK rows cols E comp o s e = true) :
    EndpointsHonoured rows cols E comp o s e := by
  unfold endpointsOK at h
  cases hd : o.isDefault with
  | true =>
    rw [hd] at h
    simp only [if_true, Bool.and_eq_true, List.contains_iff_mem, bne_iff_ne, ne_eq] at h
    obtain ⟨⟨h1, h2⟩, h3⟩ := h
    have hdef := hd
    simp only [EndpointOpts.isDefault, Bool.and_eq_true, Option.isNone_iff_eq_none, Bool.not_eq_eq_eq_not,
      Bool.not_true] at hdef
    obtain ⟨⟨⟨ha, hb⟩, hc⟩, hdd⟩ := hdef
    exact ⟨h1, h2, by simp [ha], by simp [hb], by simp [hc], by simp [hdd], fun _ h' => h3 h'.symm, fun _ => h3⟩
  | false =>
    rw [hd] at h
    simp only [Bool.false_eq_true, if_false, Bool.and_eq_true, List.contains_iff_mem, Bool.or_eq_true,
      Bool.not_eq_eq_eq_not, Bool.not_true, bne_iff_ne, ne_eq] at h
    obtain ⟨⟨h1, h2⟩, h3⟩ := h
    obtain ⟨s1, s2, s3⟩ := mem_allowedSet h1
    obtain ⟨e1, e2, e3⟩ := mem_allowedSet h2
    refine ⟨s1, e1, s2, e2, s3, e3, ?_, by simp [hd]⟩
    intro hne
    rcases h3 with h3 | h3
    · rw [hne] at h3; simp at h3
    · exact h3

/-- C12 is consumed here: endpoints the code can draw are always mutually reachable, so the solver's error branch
    is unreachable for generated mazes -/
theorem C03_reachable {rows cols E comp o s e picks fuel} (hwf : WF rows cols E) (hcomp : ComponentOK rows cols E comp) :
    solveItem rows cols E comp o s e picks fuel ≠ .error .noPath := by
  unfold solveItem
  split
  · next hok =>
    have hh := C03_endpoints_honoured hok
    have hr := hcomp.2 s hh.1 e hh.2.1
    have := C02_connected_not_error (picks := picks) (fuel := fuel) hwf hr
    split <;> simp_all
  · simp

/-- the per-item theorem -/
theorem C03_item {rows cols E comp o s e picks fuel sol} (hwf : WF rows cols E) (hcomp : ComponentOK rows cols E comp)
    (h : solveItem rows cols E comp o s e picks fuel = .ok sol) :
    ItemOK rows cols E s e sol ∧ EndpointsHonoured rows cols E comp o s e := by
  unfold solveItem at h
  split at h
  · next hok =>
    have hh := C03_endpoints_honoured hok
    split at h
    · next p hp =>
      simp only [Except.ok.injEq] at h; subst h
      obtain ⟨h1, h2, h3⟩ := C02_sound hwf hp
      obtain ⟨h4, h5⟩ := C02_optimal hwf hp
      refine ⟨⟨isWalkList_ne_nil h3, h1, h2, ?_, h3, ?_, h5⟩, hh⟩
      · by_cases hl : 2 ≤ p.length
        · exact isWalkList_inGrid hwf h3 hl
        · intro c hc
          cases p with
          | nil => simp at hc
          | cons x t =>
            cases t with
            | nil =>
              simp at h1 hc; subst h1; subst hc; exact hcomp.1 _ hh.1
            | cons y t' => simp at hl
      · exact nodup_of_shortest h3 h1 h2 (by simpa [steps] using h5)
    · simp at h
    · simp at h
  · simp at h

/-- count and order: `generate` returns exactly `n_mazes` items, the i-th being the i-th helper call's result -/
theorem C03_count {α} (n : Nat) (item : Nat → α) :
    (generateDataset n item).length = n ∧ ∀ i (h : i < (generateDataset n item).length), (generateDataset n item)[i] = item i := by
  simp [generateDataset]

/-- instantiation for gen_dfs / gen_prim (every argument combination): the component read off the metadata is sound -/
theorem C03_dfs_component_ok {rows cols : Nat} (hr : 0 < rows) (hc : 0 < cols) {a given draws fuel o}
    (h : genDfsTop rows cols a given draws fuel = some o) :
    WF rows cols o.edges ∧ ComponentOK rows cols o.edges (metaComponent rows cols o.fullyConnected o.visited) := by
  refine ⟨(C01_dfs_wf hr hc h).1, ?_, C12_endpoints_reachable hr hc h⟩
  intro c hcm
  unfold metaComponent at hcm
  split at hcm
  · exact mem_cells.mp hcm
  · exact (C12_dfs_tree_on_visited hr hc h).2.2.2.2.2.1 c hcm

/-- instantiation for gen_wilson: flagged fully connected, component = all cells -/
theorem C03_wilson_component_ok {rows cols : Nat} (hr : 0 < rows) (hc : 0 < cols) {draws fuel s}
    (h : genWilsonTop rows cols draws fuel = some s) :
    WF rows cols s.E ∧ ComponentOK rows cols s.E (metaComponent rows cols true []) := by
  have hsp := C01_wilson_spanning hr hc h
  refine ⟨hsp.1, fun c hcm => mem_cells.mp (by simpa [metaComponent] using hcm), ?_⟩
  intro u hu v hv
  simp only [metaComponent, if_true] at hu hv
  exact hsp.2.2.2.1 u v (mem_cells.mp hu) (mem_cells.mp hv)

private theorem startCoord_grid {rows cols : Nat} (hr : 0 < rows) (hc : 0 < cols) {given draws c rest}
    (h : startCoord rows cols given draws = some (c, rest)) : inGrid rows cols c :=
  startCoord_in_grid' hr hc h

/-- instantiation for gen_percolation (no flag: the component is the recorded visited set) -/
theorem C03_percolation_component_ok {rows cols : Nat} (hr : 0 < rows) (hc : 0 < cols) {p given draws rands fuel o}
    (h : genPercolationTop rows cols p given draws rands fuel = some o) :
    WF rows cols o.edges ∧ ComponentOK rows cols o.edges (metaComponent rows cols false o.visited) := by
  have hwf := (C01_percolation_wf h).1
  have hvis := C12_percolation_visited_exact h
  have hstart : inGrid rows cols o.start := by
    unfold genPercolationTop at h
    split at h
    · simp at h
    · next start d1 hst =>
      split at h
      · simp at h
      · split at h
        · simp at h
        · simp only [Option.some.injEq] at h; subst h; exact startCoord_grid hr hc hst
  exact ⟨hwf, by simpa [metaComponent, ComponentOK] using C12_component_of_start_ok hwf hstart hvis⟩

/-- instantiation for gen_dfs_percolation: dfs flag (sound by `C12_dfsperc_flag_sound`) or the recomputed visited set -/
theorem C03_dfsperc_component_ok {rows cols : Nat} (hr : 0 < rows) (hc : 0 < cols) {p a given draws rands fuel o}
    (h : genDfsPercolationTop rows cols p a given draws rands fuel = some o) :
    WF rows cols o.edges ∧ ComponentOK rows cols o.edges (metaComponent rows cols o.fullyConnected o.visited) := by
  have hwf := (C01_dfsperc_wf hr hc h).1
  refine ⟨hwf, ?_⟩
  cases hfl : o.fullyConnected with
  | true =>
    have hall := C12_dfsperc_flag_sound hr hc h hfl
    refine ⟨fun c hcm => mem_cells.mp (by simpa [metaComponent] using hcm), ?_⟩
    intro u hu v hv
    simp only [metaComponent, if_true] at hu hv
    exact hall u v (mem_cells.mp hu) (mem_cells.mp hv)
  | false =>
    have hvis := C12_dfsperc_visited_exact hr hc h
    have hstart : inGrid rows cols o.start := by
      unfold genDfsPercolationTop at h
      split at h
      · simp at h
      · next start d1 hst =>
        split at h
        · simp at h
        · split at h
          · simp at h
          · simp only at h
            split at h
            · simp at h
            · simp only [Option.some.injEq] at h; subst h; exact startCoord_grid hr hc hst
    simpa [metaComponent, ComponentOK] using C12_component_of_start_ok hwf hstart hvis

/-- a config whose `maze_ctor_kwargs` carries a `start_coord` outside the grid produces NO item: every generator that
    takes a start coordinate is in its error branch (the ValueError of `_random_start_coord`) for every draw stream —
    restated from `C01_start_rejected`; it is the only case the `…_component_ok` theorems above do not speak about -/
theorem C03_rejected_start_no_item {rows cols : Nat} {given : Option Cell} (hrej : StartRejected rows cols given) :
    (∀ a draws fuel, genDfsTop rows cols a given draws fuel = none ∧ genPrimTop rows cols a given draws fuel = none) ∧
    (∀ p draws rands fuel, genPercolationTop rows cols p given draws rands fuel = none) ∧
    (∀ p a draws rands fuel, genDfsPercolationTop rows cols p a given draws rands fuel = none) :=
  ⟨fun a draws fuel => ⟨(C01_start_rejected hrej).2.1 a draws fuel, (C01_start_rejected hrej).2.2.1 a draws fuel⟩,
   (C01_start_rejected hrej).2.2.2.1, (C01_start_rejected hrej).2.2.2.2⟩

/-- full per-item statement for the dfs family, end to end -/
theorem C03_dfs_item {rows cols : Nat} (hr : 0 < rows) (hc : 0 < cols) {a given draws fuel o opts s e picks fuel' sol}
    (h : genDfsTop rows cols a given draws fuel = some o)
    (hs : solveItem rows cols o.edges (metaComponent rows cols o.fullyConnected o.visited) opts s e picks fuel' = .ok sol) :
    ItemOK rows cols o.edges s e sol ∧
    EndpointsHonoured rows cols o.edges (metaComponent rows cols o.fullyConnected o.visited) opts s e :=
  C03_item (C03_dfs_component_ok hr hc h).1 (C03_dfs_component_ok hr hc h).2 hs

theorem C03_wilson_item {rows cols : Nat} (hr : 0 < rows) (hc : 0 < cols) {draws fuel w opts s e picks fuel' sol}
    (h : genWilsonTop rows cols draws fuel = some w)
    (hs : solveItem rows cols w.E (metaComponent rows cols true []) opts s e picks fuel' = .ok sol) :
    ItemOK rows cols w.E s e sol ∧ EndpointsHonoured rows cols w.E (metaComponent rows cols true []) opts s e :=
  C03_item (C03_wilson_component_ok hr hc h).1 (C03_wilson_component_ok hr hc h).2 hs

/-! ## non-vacuity -/
example : (solveItem 2 2 [(0,0,0),(1,0,0),(0,0,1)] (cells 2 2) {} (1,0) (1,1) [(1,0),(0,0),(0,1),(1,1)] 9).toOption
    = some [(1,0),(0,0),(0,1),(1,1)] := by decide
example : endpointsOK 2 2 [(0,0,0),(1,0,0),(0,0,1)] (cells 2 2) { deadendStart := true, notEqual := true } (1,0) (1,1) = true := by decide
-- a config with a fixed in-grid `start_coord`: the generator returns and the component is read off its metadata;
-- with a start outside the grid there is nothing to solve
example : (genDfsTop 2 2 (defaultArgs 2 2 false) (some (1, 1)) (List.replicate 16 0) 8).map
    (fun o => (metaComponent 2 2 o.fullyConnected o.visited).length) = some 4 := by decide
example : StartRejected 2 2 (some (2, 0)) ∧ genDfsTop 2 2 (defaultArgs 2 2 false) (some (2, 0)) (List.replicate 16 0) 8 = none := by decide

end MZ
