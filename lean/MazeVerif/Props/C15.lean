import MazeVerif.Lemmas.AllInst
import MazeVerif.Lemmas.TokName
import MazeVerif.Generated.TokenizerTypes
/-! # C15 — tokenizer configuration space is enumerated exactly and identified uniquely

Model: `MZ.AI.allInstances` (`utils.all_instances` + `_apply_validation_func`), `nameToks`/`elName`/`mtmName`
(`_stringify`, `name`), `hashInt` (digest of the name), `ser`/`load` (`serialize`, `_load_tokenizer_element`),
`isLegacyEquivalent`. The concrete type tree `MZ.Gen.Tok.ty_MazeTokenizerModular`, the `is_valid` tables and the
`from_legacy` images are regenerated from the source on every run (harness/translate_tokenizer_types.py), so the
concrete theorems below are re-checked against what the code says now.

Generic theorems quantify over EVERY type tree `T : Ty` (any nesting, any validation predicates) and every value. -/
namespace MZ.AI
open MZ.Gen.Tok

/-! ## full statement -/

/-- Full statement of C15 on the model. The last-but-one conjunct (string-level injectivity of names on the whole
    space) and the digest clause are NOT proved here in full: see `C15_name_injective_partial`
    (component level) and `C15_hash_distinct_of_injective_digest` (conditional); the thorough tier decides both
    facts for the concrete 5,878,656 tokenizers by exhaustive enumeration of the real objects (a test). -/
def C15_full (blake : String → Nat) : Prop :=
  -- enumeration: exact, duplicate-free, for every well-formed type tree
  (∀ (T : Ty) (v : Val), v ∈ allInstances T ↔ HasTy v T) ∧
  (∀ (T : Ty), WF T → (allInstances T).Nodup) ∧
  -- the concrete tree is well formed and has the predicted size
  WF ty_MazeTokenizerModular ∧ (allInstances ty_MazeTokenizerModular).length = 5878656 ∧
  -- names and hashes identify tokenizers
  (∀ v ∈ allInstances ty_MazeTokenizerModular, ∀ w ∈ allInstances ty_MazeTokenizerModular,
      mtmName fieldNames v = mtmName fieldNames w → v = w) ∧
  (∀ v ∈ allInstances ty_MazeTokenizerModular, ∀ w ∈ allInstances ty_MazeTokenizerModular,
      (hashInt blake fieldNames v).map pyHash = (hashInt blake fieldNames w).map pyHash → v = w) ∧
  -- save / load
  (∀ v ∈ allInstances ty_MazeTokenizerModular,
      load resolveShort fieldNames (ser fieldNames v) = some v) ∧
  -- legacy
  (∀ v, isLegacyEquivalent fromLegacy v = true ↔ ∃ m, (m, v) ∈ fromLegacy)

/-! ## enumeration (generic, unbounded) -/

/-- for EVERY type tree and value: the enumeration contains exactly the values of the type all of whose
    sub-values pass the validation registered at their level — nothing else, nothing missing -/
theorem C15_enum_exact (T : Ty) (v : Val) : v ∈ allInstances T ↔ HasTy v T := mem_all T v

/-- for every type tree whose Union alternatives / abstract subclasses are pairwise disjoint and whose
    Literal arguments are distinct: no value is enumerated twice -/
theorem C15_enum_nodup (T : Ty) (h : WF T) : (allInstances T).Nodup := nodup_all T h

/-- "exactly once": multiplicity 1 for members of the type, 0 for everything else -/
theorem C15_enum_once (T : Ty) (h : WF T) (v : Val) :
    (HasTy v T → (allInstances T).count v = 1) ∧ (¬ HasTy v T → (allInstances T).count v = 0) := by
  constructor
  · intro hv
    exact List.count_eq_one_of_mem (nodup_all T h) ((mem_all T v).mpr hv)
  · intro hv
    exact List.count_eq_zero_of_not_mem (fun hm => hv ((mem_all T v).mp hm))

/-- the decidable side-condition check used for the concrete tree is sound for every tree -/
theorem C15_wfCheck_sound (T : Ty) (h : wfCheck T = true) : WF T := wfCheck_sound T h

/-! ## size (generic product / sum formula) -/

/-- concrete dataclass whose validation accepts every candidate: size = product of the field sizes -/
theorem C15_count_product {name p fields} (h : ∀ fs, p (.obj name fs) = true) :
    (allInstances (.data name p fields)).length = lenProd (allList fields) := by
  simp only [allInstances]
  rw [length_filter_all, List.length_map, length_product]
  intro x hx
  simp only [List.mem_map] at hx
  obtain ⟨fs, _, rfl⟩ := hx
  exact h fs

/-- fixed-length tuple: product of the member sizes -/
theorem C15_count_tuple (ts : List Ty) : (allInstances (.tuple ts)).length = lenProd (allList ts) := by
  simp only [allInstances, List.length_map, length_product]

/-- abstract class / Union whose own validation rejects nothing that its alternatives produced:
    size = sum of the alternatives' sizes -/
theorem C15_count_sum {p subs} (h : ∀ v ∈ concatList subs, p v = true) :
    (allInstances (.abstr p subs)).length = lenSum subs ∧ (allInstances (.union p subs)).length = lenSum subs := by
  simp only [allInstances]
  rw [length_filter_all h, length_concat]
  exact ⟨rfl, rfl⟩

/-- in general validation can only remove candidates -/
theorem C15_count_le {name p fields} :
    (allInstances (.data name p fields)).length ≤ lenProd (allList fields) := by
  simp only [allInstances]
  refine Nat.le_trans (List.length_filter_le _ _) ?_
  rw [List.length_map, length_product]
  exact Nat.le_refl _

/-! ## the concrete tokenizer tree (regenerated from the source) -/

set_option maxRecDepth 4000 in
/-- the generated tree satisfies the disjointness side conditions -/
theorem C15_tokenizers_wf : WF ty_MazeTokenizerModular := wfCheck_sound _ (by decide)

theorem C15_tokenizers_nodup : (allInstances ty_MazeTokenizerModular).Nodup :=
  nodup_all _ C15_tokenizers_wf

private theorem c_coord : (allInstances ty_CoordTokenizers__CoordTokenizer).length = 9 := by decide +kernel
private theorem c_target : (allInstances ty_TargetTokenizers__TargetTokenizer).length = 2 := by decide +kernel
set_option maxRecDepth 4000 in
private theorem c_adj : (allInstances ty_AdjListTokenizers__AdjListTokenizer).length = 216 := by decide +kernel
set_option maxRecDepth 4000 in
private theorem c_perm : (allInstances ty_StepTokenizers_StepTokenizerPermutation).length = 63 := by decide +kernel
set_option maxRecDepth 4000 in
private theorem c_path : (allInstances ty_PathTokenizers__PathTokenizer).length = 1008 := by decide +kernel

private theorem pred_of_hasTy_data {v n p f} (h : HasTy v (.data n p f)) : p v = true := by
  cases h with | data _ h2 => exact h2

private theorem len_abstr2 {p a b} (ha : ∀ v, HasTy v a → p v = true) (hb : ∀ v, HasTy v b → p v = true) :
    (allInstances (.abstr p [a, b])).length = (allInstances a).length + (allInstances b).length := by
  rw [(C15_count_sum ?_).1]
  · simp only [lenSum, Nat.add_zero]
  · intro v hv
    simp only [concatList, List.mem_append, List.not_mem_nil, or_false] at hv
    rcases hv with h | h
    · exact ha v ((mem_all _ v).mp h)
    · exact hb v ((mem_all _ v).mp h)

private theorem len5 {n p a b c d e} (h : ∀ fs, p (.obj n fs) = true) :
    (allInstances (.data n p [a, b, c, d, e])).length = (allInstances a).length * ((allInstances b).length *
      ((allInstances c).length * ((allInstances d).length * (allInstances e).length))) := by
  rw [C15_count_product h]; simp only [allList, lenProd, Nat.mul_one]

private theorem len4 {n p a b c d} (h : ∀ fs, p (.obj n fs) = true) :
    (allInstances (.data n p [a, b, c, d])).length = (allInstances a).length * ((allInstances b).length *
      ((allInstances c).length * (allInstances d).length)) := by
  rw [C15_count_product h]; simp only [allList, lenProd, Nat.mul_one]

private theorem len1 {n p a} (h : ∀ fs, p (.obj n fs) = true) :
    (allInstances (.data n p [a])).length = (allInstances a).length := by
  rw [C15_count_product h]; simp only [allList, lenProd, Nat.mul_one]

private theorem len_lit1 (a : Atom) : (allInstances (.lit [a])).length = 1 := by simp [allInstances]

private theorem c_aotp : (allInstances ty_PromptSequencers_AOTP).length = 3919104 := by
  unfold ty_PromptSequencers_AOTP
  have h := len5 (n := "PromptSequencers.AOTP") (p := isValid) (a := ty_CoordTokenizers__CoordTokenizer)
    (b := ty_AdjListTokenizers__AdjListTokenizer)
    (c := .lit [.str "<class 'maze_dataset.tokenization.maze_tokenizer.PromptSequencers.AOTP'>"])
    (d := ty_TargetTokenizers__TargetTokenizer) (e := ty_PathTokenizers__PathTokenizer) (fun fs => rfl)
  rw [c_coord, c_adj, c_target, c_path, len_lit1] at h
  exact h.trans (by decide)

private theorem c_aop : (allInstances ty_PromptSequencers_AOP).length = 1959552 := by
  unfold ty_PromptSequencers_AOP
  have h := len4 (n := "PromptSequencers.AOP") (p := isValid) (a := ty_CoordTokenizers__CoordTokenizer)
    (b := ty_AdjListTokenizers__AdjListTokenizer)
    (c := .lit [.str "<class 'maze_dataset.tokenization.maze_tokenizer.PromptSequencers.AOP'>"])
    (d := ty_PathTokenizers__PathTokenizer) (fun fs => rfl)
  rw [c_coord, c_adj, c_path, len_lit1] at h
  exact h.trans (by decide)

private theorem c_ps : (allInstances ty_PromptSequencers__PromptSequencer).length = 5878656 := by
  have h := len_abstr2 (p := isValid) (a := ty_PromptSequencers_AOTP) (b := ty_PromptSequencers_AOP)
    (fun v hv => pred_of_hasTy_data hv) (fun v hv => pred_of_hasTy_data hv)
  rw [c_aotp, c_aop] at h
  unfold ty_PromptSequencers__PromptSequencer
  exact h.trans (by decide)

/-- the size of the enumerated space is the product predicted from the parameter space:
    9 coord × 216 adjacency × (2 target × 1008 path [AOTP] + 1008 path [AOP]) = 5,878,656 -/
theorem C15_count_tokenizers : (allInstances ty_MazeTokenizerModular).length = 5878656 := by
  unfold ty_MazeTokenizerModular
  have h := len1 (n := "MazeTokenizerModular") (p := fun _ => true) (a := ty_PromptSequencers__PromptSequencer) (fun fs => rfl)
  rw [c_ps] at h
  exact h

/-- the factors, as they appear in DESIGN.md / the property statement -/
theorem C15_count_factors :
    (allInstances ty_CoordTokenizers__CoordTokenizer).length = 9 ∧
    (allInstances ty_AdjListTokenizers__AdjListTokenizer).length = 216 ∧
    (allInstances ty_TargetTokenizers__TargetTokenizer).length = 2 ∧
    (allInstances ty_StepTokenizers_StepTokenizerPermutation).length = 63 ∧
    (allInstances ty_PathTokenizers__PathTokenizer).length = 1008 ∧
    (allInstances ty_PromptSequencers_AOTP).length = 9 * 216 * 2 * 1008 ∧
    (allInstances ty_PromptSequencers_AOP).length = 9 * 216 * 1008 :=
  ⟨c_coord, c_adj, c_target, c_perm, c_path, c_aotp, c_aop⟩

/-! ## names and hashes -/

/-- equal tokenizers have equal names and equal hashes, whatever the digest and in every process:
    the hash is a function of the name only (no `id`, no `PYTHONHASHSEED`-dependent input in the model) -/
theorem C15_hash_fun_of_name (blake : String → Nat) (fn : String → List String) (v w : Val)
    (h : mtmName fn v = mtmName fn w) : hashInt blake fn v = hashInt blake fn w ∧
      (hashInt blake fn v).map pyHash = (hashInt blake fn w).map pyHash := by
  simp only [hashInt, h, and_self]

/-- distinct names give distinct hashes PROVIDED the digest (blake2b, then CPython's reduction mod 2^61-1) is
    injective on the names that occur — that proviso is an empirical fact decided only by the thorough tier -/
theorem C15_hash_distinct_of_injective_digest (blake : String → Nat) (fn : String → List String) (S : List Val)
    (hinj : ∀ v ∈ S, ∀ w ∈ S, ∀ a b, mtmName fn v = some a → mtmName fn w = some b →
      pyHash (blake a) = pyHash (blake b) → a = b)
    (v w : Val) (hv : v ∈ S) (hw : w ∈ S) (a b : String) (ha : mtmName fn v = some a) (hb : mtmName fn w = some b)
    (hh : (hashInt blake fn v).map pyHash = (hashInt blake fn w).map pyHash) : a = b := by
  simp only [hashInt, ha, hb, Option.map_some, Option.some.injEq] at hh
  exact hinj v hv w hw a b ha hb hh

/-- string-level injectivity of names on the whole concrete space (full statement; not proved as a theorem) -/
def C15_name_injective_full : Prop :=
  ∀ v ∈ allInstances ty_MazeTokenizerModular, ∀ w ∈ allInstances ty_MazeTokenizerModular,
    mtmName fieldNames v = mtmName fieldNames w → v = w

set_option maxRecDepth 8000 in
/-- PARTIAL (component level, token lists): within each of the four element families that make up a tokenizer
    (coord 9, adjacency list 216, target 2; the 1008 path tokenizers are left to the test tiers for build-time reasons) and for the 63 step-tokenizer permutations, the token lists that
    `_stringify`/`name` emit are pairwise distinct. Missing for `C15_name_injective_full`: that the name of a whole
    tokenizer — the concatenation `AOTP(<coord>, <adj>, <target>, <path>)` joined into ONE string — can be split back
    uniquely into these components (unique readability of the bracketed rendering). The thorough tier tests the full
    statement on all 5,878,656 real names. -/
theorem C15_name_injective_partial :
    ((allInstances ty_CoordTokenizers__CoordTokenizer).map (nameToks fieldNames)).Nodup ∧
    ((allInstances ty_AdjListTokenizers__AdjListTokenizer).map (nameToks fieldNames)).Nodup ∧
    ((allInstances ty_TargetTokenizers__TargetTokenizer).map (nameToks fieldNames)).Nodup ∧
    ((allInstances ty_StepTokenizers_StepTokenizerPermutation).map (nameToks fieldNames)).Nodup := by
  refine ⟨by decide +kernel, by decide +kernel, by decide +kernel, by decide +kernel⟩

/-! ## save / load -/

/-- for EVERY value whose classes are resolvable from their `__format__` string and whose field-name lists match
    (`Canon`), loading the serialized form returns the same value -/
theorem C15_saveload (resolve : String → Option String) (fn : String → List String) (v : Val)
    (h : Canon resolve fn v) : load resolve fn (ser fn v) = some v := load_ser resolve fn v h

set_option maxRecDepth 4000 in
/-- every enumerated tokenizer of the concrete tree is `Canon` for the generated class tables, hence survives
    save → load unchanged (and therefore keeps its name and hash) -/
theorem C15_saveload_tokenizers (v : Val) (hv : v ∈ allInstances ty_MazeTokenizerModular) :
    load resolveShort fieldNames (ser fieldNames v) = some v ∧
    ∀ w, load resolveShort fieldNames (ser fieldNames v) = some w → mtmName fieldNames w = mtmName fieldNames v := by
  have hc : Canon resolveShort fieldNames v :=
    canon_of_hasTy resolveShort fieldNames _ (by decide +kernel) v ((mem_all _ _).mp hv)
  have h1 := load_ser resolveShort fieldNames v hc
  refine ⟨h1, ?_⟩
  intro w hw
  rw [h1] at hw
  injection hw with hw
  rw [hw]

/-! ## legacy modes -/

/-- a tokenizer reports itself legacy-equivalent iff it IS the image of some legacy mode — for every value -/
theorem C15_legacy_equiv (fl : List (String × Val)) (v : Val) :
    isLegacyEquivalent fl v = true ↔ ∃ m, (m, v) ∈ fl := by
  simp only [isLegacyEquivalent, List.any_eq_true, decide_eq_true_eq]
  constructor
  · rintro ⟨⟨m, x⟩, hm, rfl⟩; exact ⟨m, hm⟩
  · rintro ⟨m, hm⟩; exact ⟨(m, v), hm, rfl⟩

set_option maxRecDepth 4000 in
/-- on the regenerated `from_legacy` table: every mode's image reports itself legacy-equivalent, is an enumerated
    (valid) tokenizer, and there are exactly two distinct images -/
theorem C15_legacy_concrete :
    (∀ mv ∈ fromLegacy, isLegacyEquivalent fromLegacy mv.2 = true) ∧
    (∀ mv ∈ fromLegacy, mv.2 ∈ allInstances ty_MazeTokenizerModular) ∧
    (fromLegacy.map (·.2)).eraseDups.length = 2 := by
  refine ⟨by decide +kernel, ?_, by decide +kernel⟩
  intro mv hmv
  rw [mem_all]
  exact checkTy_sound _ _ ((show ∀ mv ∈ fromLegacy, checkTy ty_MazeTokenizerModular mv.2 = true by decide +kernel) mv hmv)

/-! ## non-vacuity -/

-- the enumeration theorems talk about a non-trivial tree: nested dataclass, abstract class, Union of tuples, filters
example : (allInstances ty_StepTokenizers_StepTokenizerPermutation).length = 63 ∧
    (allInstances (.union (fun _ => true) [.tuple [ty_StepTokenizers__StepTokenizer],
      .tuple [ty_StepTokenizers__StepTokenizer, ty_StepTokenizers__StepTokenizer]])).length = 20 := by
  constructor <;> decide +kernel
-- a rejected configuration is not enumerated and an accepted one is, exactly once
example : (allInstances ty_StepTokenizers_StepTokenizerPermutation).count (.tup [v_StepTokenizers_Distance]) = 0 ∧
    (allInstances ty_StepTokenizers_StepTokenizerPermutation).count (.tup [v_StepTokenizers_Coord, v_StepTokenizers_Distance]) = 1 := by
  constructor <;> decide +kernel
-- WF is not vacuous: a Union with overlapping alternatives fails the check, and indeed enumerates duplicates
example : wfCheck (.union (fun _ => true) [.bool, .bool]) = false ∧
    ¬ (allInstances (.union (fun _ => true) [.bool, .bool])).Nodup := by
  constructor <;> decide
-- the default tokenizer's model name is the real one's
example : mtmName fieldNames defaultTokenizer = some ("MazeTokenizerModular-AOTP(UT(), AdjListCoord(pre=F, post=T, shuffle_d0=T, " ++
    "Ungrouped(connection_token_ordinal=1), ConnectionEdges(walls=F), RandomCoords()), Unlabeled(post=F), " ++
    "StepSequence(Singles(), step_tokenizers=(Coord(), ), pre=F, intra=F, post=F))") := by decide +kernel
-- save/load on a concrete tokenizer
example : load resolveShort fieldNames (ser fieldNames defaultTokenizer) = some defaultTokenizer := by decide +kernel
-- legacy: the default tokenizer is legacy-equivalent, a non-default one is not
example : isLegacyEquivalent fromLegacy defaultTokenizer = true ∧
    isLegacyEquivalent fromLegacy (.obj "MazeTokenizerModular" [.b true]) = false := by
  constructor <;> decide +kernel
-- hash: a function of the name
example : hashInt String.length fieldNames defaultTokenizer = some 252 := by decide +kernel

end MZ.AI
