import MazeVerif.Model.Tok
/-! Adjacency-list region of `MazeTokenizerModular`
    (maze_tokenizer.py:793-1275: `EdgeGroupings.Ungrouped`, `EdgePermuters`, `EdgeSubsets`, `_AdjListTokenizer`;
     token_utils.py:385-451 `connection_list_to_adj_list`, `is_connection`, `get_cardinal_direction`;
     utils.py:124-167 `lattice_connection_array`).  Core Lean only.

    Valid space (216): `AdjListCoord | AdjListCardinal` × `post` × `shuffle_d0` × `Ungrouped(connection_token_ordinal ∈ {0,1,2})`
    × `AllLatticeEdges | ConnectionEdges(walls)` × `SortedCoords | RandomCoords | BothCoords`; `pre` is always `False`
    (`mark_as_unsupported`), `ByLeadingCoord` is unsupported.

    All shuffles (`numpy_rng.permuted`, `numpy_rng.shuffle`) are abstracted by the sequence `order` of oriented edges
    actually emitted, constrained by `ValidOrder`. -/
namespace MZ.Tok

/-- a maze as the tokenizer sees it: grid shape and the `True` entries `(dim,row,col)` of `connection_list` -/
structure Maze where
  rows : Nat
  cols : Nat
  edges : List Edge

/-- `connection_list[d, x, y]` -/
def Maze.conn (m : Maze) (d x y : Nat) : Bool := m.edges.contains (d, (x : Int), (y : Int))

/-- oriented edge `(leading coord, trailing coord)` = one row `edges[i]` of a `ConnectionArray` -/
abbrev OE := C × C

def flipE (e : OE) : OE := (e.2, e.1)

/-- `lattice_connection_array(n)`: horizontal edges row-major, then vertical edges row-major, smaller coord first -/
def latticeEdges (n : Nat) : List OE :=
  ((List.range n).flatMap fun i => (List.range (n - 1)).map fun j => ((i, j), (i, j + 1))) ++
  ((List.range (n - 1)).flatMap fun i => (List.range n).map fun j => ((i, j), (i + 1, j)))

/-- `np.ndindex((2, rows, cols))` -/
def ndindex3 (rows cols : Nat) : List (Nat × Nat × Nat) :=
  (List.range 2).flatMap fun d => (List.range rows).flatMap fun x => (List.range cols).map fun y => (d, x, y)

/-- the array handed to `connection_list_to_adj_list` by `ConnectionEdges._get_edges`:
    `connection_list`, or for `walls=True` its negation with the last row of dim 0 and last column of dim 1 cleared -/
def connArr (m : Maze) (walls : Bool) (d x y : Nat) : Bool :=
  if walls then (!m.conn d x y) && !(d == 0 && x + 1 == m.rows) && !(d == 1 && y + 1 == m.cols)
  else m.conn d x y

/-- `c_start, c_end` of `connection_list_to_adj_list` -/
def endsOf (dxy : Nat × Nat × Nat) : OE :=
  ((dxy.2.1, dxy.2.2), (dxy.2.1 + (if dxy.1 = 0 then 1 else 0), dxy.2.2 + (if dxy.1 = 1 then 1 else 0)))

/-- `connection_list_to_adj_list(conn_list, shuffle_d0=False, shuffle_d1=False)` -/
def connEdges (m : Maze) (walls : Bool) : List OE :=
  ((ndindex3 m.rows m.cols).filter fun dxy => connArr m walls dxy.1 dxy.2.1 dxy.2.2).map endsOf

inductive Subset
  | all                    -- EdgeSubsets.AllLatticeEdges
  | conn (walls : Bool)    -- EdgeSubsets.ConnectionEdges(walls)
deriving DecidableEq, Repr

/-- `edge_subset._get_edges(maze)`; `AllLatticeEdges` reads `maze.grid_n`, which asserts a square grid -/
def selEdges : Subset → Maze → Option (List OE)
  | .all, m => if m.rows = m.cols then some (latticeEdges m.rows) else none
  | .conn w, m => some (connEdges m w)

inductive Permuter | sorted | random | both
deriving DecidableEq, Repr

/-- key order of `np.lexsort((e[1,1], e[1,0], e[0,1], e[0,0]))`: primary key `e[0,0]` -/
def lexLe (a b : OE) : Bool :=
  a.1.1 < b.1.1 || (a.1.1 == b.1.1 && (a.1.2 < b.1.2 || (a.1.2 == b.1.2 &&
    (a.2.1 < b.2.1 || (a.2.1 == b.2.1 && a.2.2 ≤ b.2.2)))))

/-- `lattice_edges[np.lexsort(…)]` (stable; `List.mergeSort` is stable) -/
def lexsort (l : List OE) : List OE := l.mergeSort lexLe

/-- `numpy_rng.permuted(lattice_edges, axis=1)` on one edge: the two row components and the two column components are
    shuffled independently (`sr`, `sc` = whether the respective pair was swapped) -/
def permutedAxis1 (e : OE) (sr sc : Bool) : OE :=
  ((if sr then e.2.1 else e.1.1, if sc then e.2.2 else e.1.2), (if sr then e.1.1 else e.2.1, if sc then e.1.2 else e.2.2))

/-- the orientation of an oriented edge that has its lexicographically smaller coord first -/
def normE (e : OE) : OE := if e.1.1 < e.2.1 || (e.1.1 == e.2.1 && e.1.2 ≤ e.2.2) then e else flipE e

/-- the edge array after `_permute`, before the group shuffle, for `SortedCoords` and `BothCoords` -/
def permuteDet : Permuter → List OE → List OE
  | .sorted, es => lexsort es
  | .both, es => es ++ es.map flipE      -- np.append(edges, np.flip(edges, axis=1), axis=0)
  | .random, es => es

/-- legality of the observed emission order `order` for canonical edge list `es`:
    * `SortedCoords`: the lexsorted list, arbitrarily permuted iff `shuffle_d0`;
    * `BothCoords`: `es ++ flipped es`, arbitrarily permuted iff `shuffle_d0`;
    * `RandomCoords`: every edge of `es` exactly once in either orientation, in canonical order unless `shuffle_d0`. -/
def ValidOrder (p : Permuter) (shuffle : Bool) (es order : List OE) : Prop :=
  match p with
  | .random => if shuffle then (order.map normE).Perm es else order.map normE = es
  | p => if shuffle then order.Perm (permuteDet p es) else order = permuteDet p es

def validOrderB (p : Permuter) (shuffle : Bool) (es order : List OE) : Bool :=
  match p with
  | .random => if shuffle then (order.map normE).isPerm es else order.map normE == es
  | p => if shuffle then order.isPerm (permuteDet p es) else order == permuteDet p es

/-- `is_connection(edges, connection_list)` on one edge: `np.sort(edges, axis=1)` sorts the row components and the column
    components independently; `edge_direction = (sorted[1]-sorted[0])[0] == 0`; lookup at the component-wise minimum -/
def isConn (m : Maze) (e : OE) : Bool :=
  let lo : C := (min e.1.1 e.2.1, min e.1.2 e.2.2)
  let hi : C := (max e.1.1 e.2.1, max e.1.2 e.2.2)
  let d : Nat := if hi.1 - lo.1 = 0 then 1 else 0
  m.conn d lo.1 lo.2

/-- `CARDINAL_MAP[tuple(b - a)]` (KeyError = `none`) -/
def dirOf (a b : C) : Option Dir :=
  if b.1 + 1 = a.1 ∧ b.2 = a.2 then some .north
  else if b.1 = a.1 + 1 ∧ b.2 = a.2 then some .south
  else if b.1 = a.1 ∧ b.2 = a.2 + 1 then some .east
  else if b.1 = a.1 ∧ b.2 + 1 = a.2 then some .west
  else none

/-- `Ungrouped.connection_token_ordinal` -/
inductive Ordinal | o0 | o1 | o2
deriving DecidableEq, Repr

structure AdjCfg where
  cardinal : Bool          -- AdjListCardinal vs AdjListCoord
  post : Bool
  shuffle : Bool           -- shuffle_d0
  ordinal : Ordinal
  subset : Subset
  permuter : Permuter
deriving DecidableEq, Repr

def connTok (b : Bool) : Tok := if b then .conn else .wall

/-- third callable of `_tokenization_callables` -/
def trailToks (cfg : AdjCfg) (ct : CoordTok) (e : OE) : Option (List Tok) :=
  if cfg.cardinal then (dirOf e.1 e.2).map fun d => [.card d]
  else some (coordToks ct e.2)

/-- one group (= one edge, `Ungrouped`) with its optional `;` (`_tokenize_edge_grouping` ungrouped branch + `to_tokens`) -/
def edgeToks (cfg : AdjCfg) (ct : CoordTok) (m : Maze) (e : OE) : Option (List Tok) :=
  match trailToks cfg ct e with
  | none => none
  | some tr =>
    let ld := coordToks ct e.1
    let cn := [connTok (isConn m e)]
    let body := match cfg.ordinal with
      | .o0 => cn ++ ld ++ tr
      | .o1 => ld ++ cn ++ tr
      | .o2 => ld ++ tr ++ cn
    some (body ++ opt cfg.post .endl)

/-- `_AdjListTokenizer.to_tokens` given the emission order -/
def adjToks (cfg : AdjCfg) (ct : CoordTok) (m : Maze) : List OE → Option (List Tok)
  | [] => some []
  | e :: es =>
    match edgeToks cfg ct m e, adjToks cfg ct m es with
    | some t, some r => some (t ++ r)
    | _, _ => none

/-! ## decoder -/

/-- one decoded edge: leading coord, trailing coord, connection (`true`) or wall -/
structure EdgeInfo where
  lead : C
  trail : C
  isConn : Bool
deriving DecidableEq, Repr

def move (a : C) : Dir → Option C
  | .north => if a.1 ≥ 1 then some (a.1 - 1, a.2) else none
  | .south => some (a.1 + 1, a.2)
  | .east => some (a.1, a.2 + 1)
  | .west => if a.2 ≥ 1 then some (a.1, a.2 - 1) else none

def parseConn : List Tok → Option (Bool × List Tok)
  | .conn :: r => some (true, r)
  | .wall :: r => some (false, r)
  | _ => none

def parseTrail (cfg : AdjCfg) (ct : CoordTok) (lead : C) (ts : List Tok) : Option (C × List Tok) :=
  if cfg.cardinal then
    match ts with
    | .card d :: r => (move lead d).map fun t => (t, r)
    | _ => none
  else parseCoord ct ts

def parseEdgeBody (cfg : AdjCfg) (ct : CoordTok) (ts : List Tok) : Option (EdgeInfo × List Tok) :=
  match cfg.ordinal with
  | .o0 =>
    match parseConn ts with
    | none => none
    | some (b, ts) =>
      match parseCoord ct ts with
      | none => none
      | some (l, ts) =>
        match parseTrail cfg ct l ts with
        | none => none
        | some (t, ts) => some (⟨l, t, b⟩, ts)
  | .o1 =>
    match parseCoord ct ts with
    | none => none
    | some (l, ts) =>
      match parseConn ts with
      | none => none
      | some (b, ts) =>
        match parseTrail cfg ct l ts with
        | none => none
        | some (t, ts) => some (⟨l, t, b⟩, ts)
  | .o2 =>
    match parseCoord ct ts with
    | none => none
    | some (l, ts) =>
      match parseTrail cfg ct l ts with
      | none => none
      | some (t, ts) =>
        match parseConn ts with
        | none => none
        | some (b, ts) => some (⟨l, t, b⟩, ts)

def parseEdge (cfg : AdjCfg) (ct : CoordTok) (ts : List Tok) : Option (EdgeInfo × List Tok) :=
  match parseEdgeBody cfg ct ts with
  | none => none
  | some (e, ts) =>
    match eat cfg.post .endl ts with
    | none => none
    | some ts => some (e, ts)

end MZ.Tok
