import MazeVerif.Generated.Constants
/-! Model of `MazeDatasetConfig` serialization, loading, hashing and file naming (C18):
    `MazeDatasetConfig` field (de)serialization functions (maze_dataset.py:51-133), `_load_applied_filters`
    (dataset.py:44-60), `GPTDatasetConfig.__post_init__` (dataset.py:83-94), `stable_hash_cfg` / `to_fname`
    (maze_dataset.py:147-153), the collection's `to_fname` (collected_dataset.py:61-68), and muutils'
    generated `serialize` / `load` (one entry per dataclass field, in declaration order, raw values unless the
    field has a serialization function; `load` applies `deserialize_fn(value)` / `loading_fn(data)` per field
    present, then the constructor with its defaults). Core Lean only.
    External functions are parameters: `json.dumps`, sha256 (`stable_hash`), `shorten_numerical_to_str`,
    `str.isalnum`, the generator's `__module__`/`__doc__`/source text. -/
namespace MZ.Cfg

inductive Err | ValueError | AssertionError | KeyError | TypeError | Nondet
  deriving DecidableEq, Repr

/-- Python values occurring in configuration fields and in serialized configurations.
    A float is identified by its `repr` (what `json.dumps` writes). A `dict` keeps insertion order. -/
inductive Py
  | none
  | bool (b : Bool)
  | int (n : Int)
  | float (repr : String)
  | str (s : String)
  | list (l : List Py)
  | tuple (l : List Py)
  | dict (kv : List (String × Py))
  deriving Repr

mutual
/-- the value `json.loads(json.dumps(x))`: tuples come back as lists, everything else unchanged -/
def toJson : Py → Py
  | .tuple l => .list (toJsonL l)
  | .list l => .list (toJsonL l)
  | .dict kv => .dict (toJsonKV kv)
  | x => x
def toJsonL : List Py → List Py
  | [] => []
  | x :: xs => toJson x :: toJsonL xs
def toJsonKV : List (String × Py) → List (String × Py)
  | [] => []
  | (k, v) :: r => (k, toJson v) :: toJsonKV r
end

mutual
/-- JSON-native: contains no tuple -/
def tupleFree : Py → Bool
  | .tuple _ => false
  | .list l => tupleFreeL l
  | .dict kv => tupleFreeKV kv
  | _ => true
def tupleFreeL : List Py → Bool
  | [] => true
  | x :: xs => tupleFree x && tupleFreeL xs
def tupleFreeKV : List (String × Py) → Bool
  | [] => true
  | (_, v) :: r => tupleFree v && tupleFreeKV r
end

/-- `d[k]` / `k in d` on an insertion-ordered dict -/
def lookup (k : String) : List (String × Py) → Option Py
  | [] => none
  | (k', v) :: r => if k' = k then some v else lookup k r

/-- value of one `endpoint_kwargs` entry as typed by `EndpointKwargsType`: `bool | None | list[tuple[...]]` -/
inductive EpVal
  | bool (b : Bool)
  | none
  | coords (l : List (List Py))
  deriving Repr

/-- one `applied_filters` entry: `dict(name=…, args=<tuple>, kwargs=<dict>)` -/
structure Filter where
  name : Py
  args : List Py
  kwargs : List (String × Py)
  deriving Repr

structure Cfg where
  name : String
  seqLenMin : Int
  seqLenMax : Int
  seed : Int
  appliedFilters : List Filter
  gridN : Int
  nMazes : Int
  /-- the generator function, identified by the method name `LatticeMazeGenerators.<name>` -/
  mazeCtor : String
  mazeCtorKwargs : List (String × Py)
  endpointKwargs : List (String × EpVal)
  deriving Repr

/-! ### serialize -/

def epToPy : EpVal → Py
  | .bool b => .bool b
  | .none => .none
  | .coords l => .list (l.map Py.tuple)

def epKVToPy : List (String × EpVal) → List (String × Py)
  | [] => []
  | (k, v) :: r => (k, epToPy v) :: epKVToPy r

def filterToPy (f : Filter) : Py := .dict [("name", f.name), ("args", .tuple f.args), ("kwargs", .dict f.kwargs)]

/-- `cfg.serialize()`. `info name` = the entries `__module__`, `__doc__`, `source_code` written after `__name__`
    by the `maze_ctor` serialization function (maze_dataset.py:84-89). -/
def serializeCfg (info : String → List (String × Py)) (c : Cfg) : Py :=
  .dict [("__format__", .str "MazeDatasetConfig(SerializableDataclass)"),
         ("name", .str c.name),
         ("seq_len_min", .int c.seqLenMin),
         ("seq_len_max", .int c.seqLenMax),
         ("seed", .int c.seed),
         ("applied_filters", .list (c.appliedFilters.map filterToPy)),
         ("grid_n", .int c.gridN),
         ("n_mazes", .int c.nMazes),
         ("maze_ctor", .dict (("__name__", .str c.mazeCtor) :: info c.mazeCtor)),
         ("maze_ctor_kwargs", .dict c.mazeCtorKwargs),
         ("endpoint_kwargs", .dict (epKVToPy c.endpointKwargs)),
         ("grid_shape", .tuple [.int c.gridN, .int c.gridN])]

/-! ### load -/

/-- `GENERATORS_MAP[key]` → the method it maps to -/
def lookupGen (gens : List (String × String)) (k : String) : Option String :=
  match gens with
  | [] => none
  | (k', v) :: r => if k' = k then some v else lookupGen r k

/-- `_load_maze_ctor` (maze_dataset.py:51-66) -/
def loadMazeCtor (gens : List (String × String)) : Py → Except Err String
  | .dict d => match lookup "__name__" d with
    | some (.str n) => match lookupGen gens n with
      | some f => .ok f
      | none => .error .KeyError
    | _ => .error .KeyError
  | .str s => match lookupGen gens s with     -- legacy format (with a warning)
    | some f => .ok f
    | none => .error .KeyError
  | _ => .error .ValueError

/-- `dict() if data.get(k, None) is None else data[k]` -/
def loadKwargs : Option Py → Except Err (List (String × Py))
  | none => .ok []
  | some .none => .ok []
  | some (.dict d) => .ok d
  | some _ => .error .TypeError

/-- `[tuple(x) for x in v]` -/
def coordsOf : List Py → Except Err (List (List Py))
  | [] => .ok []
  | .list t :: xs => match coordsOf xs with
    | .ok r => .ok (t :: r)
    | .error e => .error e
  | .tuple t :: xs => match coordsOf xs with
    | .ok r => .ok (t :: r)
    | .error e => .error e
  | _ :: _ => .error .TypeError

/-- `v if (isinstance(v, bool) or v is None) else [tuple(x) for x in v]` -/
def loadEpVal : Py → Except Err EpVal
  | .bool b => .ok (.bool b)
  | .none => .ok .none
  | .list l => match coordsOf l with
    | .ok r => .ok (.coords r)
    | .error e => .error e
  | .tuple l => match coordsOf l with
    | .ok r => .ok (.coords r)
    | .error e => .error e
  | _ => .error .TypeError

def loadEpKV : List (String × Py) → Except Err (List (String × EpVal))
  | [] => .ok []
  | (k, v) :: r => match loadEpVal v with
    | .error e => .error e
    | .ok v' => match loadEpKV r with
      | .error e => .error e
      | .ok r' => .ok ((k, v') :: r')

def loadEndpointKwargs : Option Py → Except Err (List (String × EpVal))
  | none => .ok []
  | some .none => .ok []
  | some (.dict d) => loadEpKV d
  | some _ => .error .TypeError

/-- one entry of `_load_applied_filters`: `dict(name=fi["name"], args=tuple(fi["args"]), kwargs=dict(fi["kwargs"]))`;
    any exception is re-raised as ValueError -/
def loadFilter : Py → Except Err Filter
  | .dict d => match lookup "name" d, lookup "args" d, lookup "kwargs" d with
    | some n, some (.list a), some (.dict kw) => .ok ⟨n, a, kw⟩
    | some n, some (.tuple a), some (.dict kw) => .ok ⟨n, a, kw⟩
    | _, _, _ => .error .ValueError
  | _ => .error .ValueError

def loadFilterList : List Py → Except Err (List Filter)
  | [] => .ok []
  | x :: xs => match loadFilter x with
    | .error e => .error e
    | .ok f => match loadFilterList xs with
      | .error e => .error e
      | .ok r => .ok (f :: r)

def loadFilters : Py → Except Err (List Filter)
  | .list l => loadFilterList l
  | .tuple l => loadFilterList l
  | _ => .error .ValueError

def optInt (d : List (String × Py)) (k : String) (dflt : Int) : Except Err Int :=
  match lookup k d with
  | none => .ok dflt
  | some (.int n) => .ok n
  | some _ => .error .TypeError

def reqInt (d : List (String × Py)) (k : String) : Except Err Int :=
  match lookup k d with
  | some (.int n) => .ok n
  | _ => .error .TypeError      -- missing keyword argument / wrong type

/-- `DEFAULT_SEED` of muutils.mlutils -/
def defaultSeed : Int := 42

/-- `seed` field: default, or the given int; `None` makes `__post_init__` draw a fresh random seed -/
def loadSeed (d : List (String × Py)) : Except Err Int :=
  match lookup "seed" d with
  | none => .ok defaultSeed
  | some (.int n) => .ok n
  | some .none => .error .Nondet     -- `torch.random.seed() % 2**31`
  | some _ => .error .TypeError

def loadFiltersOpt (d : List (String × Py)) : Except Err (List Filter) :=
  match lookup "applied_filters" d with
  | none => .ok []
  | some v => loadFilters v

def loadCtorOpt (gens : List (String × String)) (d : List (String × Py)) : Except Err String :=
  match lookup "maze_ctor" d with
  | none => (match lookupGen gens "gen_dfs" with     -- field default `GENERATORS_MAP["gen_dfs"]`
             | some f => .ok f
             | none => .error .KeyError)
  | some v => loadMazeCtor gens v

def reqStr (d : List (String × Py)) (k : String) : Except Err String :=
  match lookup k d with
  | some (.str s) => .ok s
  | _ => .error .TypeError

/-- `MazeDatasetConfig.load(data)`: per-field loading, constructor defaults, `__post_init__` -/
def loadCfg (gens : List (String × String)) : Py → Except Err Cfg
  | .dict d =>
    match reqStr d "name", optInt d "seq_len_min" 1, optInt d "seq_len_max" 512, loadSeed d, loadFiltersOpt d,
          reqInt d "grid_n", reqInt d "n_mazes", loadCtorOpt gens d, loadKwargs (lookup "maze_ctor_kwargs" d),
          loadEndpointKwargs (lookup "endpoint_kwargs" d) with
    | .ok name, .ok lo, .ok hi, .ok seed, .ok filters, .ok g, .ok n, .ok ctor, .ok kw, .ok ep =>
      if lo ≤ hi then .ok ⟨name, lo, hi, seed, filters, g, n, ctor, kw, ep⟩ else .error .AssertionError
    | .error e, _, _, _, _, _, _, _, _, _ => .error e
    | _, .error e, _, _, _, _, _, _, _, _ => .error e
    | _, _, .error e, _, _, _, _, _, _, _ => .error e
    | _, _, _, .error e, _, _, _, _, _, _ => .error e
    | _, _, _, _, .error e, _, _, _, _, _ => .error e
    | _, _, _, _, _, .error e, _, _, _, _ => .error e
    | _, _, _, _, _, _, .error e, _, _, _ => .error e
    | _, _, _, _, _, _, _, .error e, _, _ => .error e
    | _, _, _, _, _, _, _, _, .error e, _ => .error e
    | _, _, _, _, _, _, _, _, _, .error e => .error e
  | _ => .error .AssertionError

/-! ### JSON-native configurations -/

def filterNative (f : Filter) : Bool := tupleFree f.name && tupleFreeL f.args && tupleFreeKV f.kwargs

def filtersNative : List Filter → Bool
  | [] => true
  | f :: r => filterNative f && filtersNative r

def coordsNative : List (List Py) → Bool
  | [] => true
  | t :: r => tupleFreeL t && coordsNative r

def epNative : EpVal → Bool
  | .coords l => coordsNative l
  | _ => true

def epKVNative : List (String × EpVal) → Bool
  | [] => true
  | (_, v) :: r => epNative v && epKVNative r

/-- every value stored in the configuration survives `json` as it is (no tuple below the places where the
    loading functions restore tuples) -/
def jsonNative (c : Cfg) : Bool :=
  filtersNative c.appliedFilters && tupleFreeKV c.mazeCtorKwargs && epKVNative c.endpointKwargs

/-- well-formed: passes `__post_init__`, and the generator is registered under its own method name -/
def wf (gens : List (String × String)) (c : Cfg) : Prop :=
  c.seqLenMin ≤ c.seqLenMax ∧ lookupGen gens c.mazeCtor = some c.mazeCtor

/-! ### hash and file name -/

/-- `stable_hash_cfg`: `stable_hash(json.dumps(self.serialize()))`, sha256 and `json.dumps` as parameters -/
def stableHashCfg {τ} (dumps : Py → τ) (sha : τ → Nat) (info : String → List (String × Py)) (c : Cfg) : Nat :=
  sha (dumps (serializeCfg info c))

def digitChar (d : Nat) : Char := Char.ofNat (48 + d)

/-- decimal digits with fuel (`fuel = n` always suffices) -/
def natDigitsAux : Nat → Nat → List Char
  | 0, n => [digitChar (n % 10)]
  | f + 1, n => if n < 10 then [digitChar n] else natDigitsAux f (n / 10) ++ [digitChar (n % 10)]

/-- decimal digits of a natural number (`str(n)`) -/
def natDigits (n : Nat) : List Char := natDigitsAux n n

/-- `str(i)` for an int -/
def intStr (i : Int) : List Char :=
  if i < 0 then '-' :: natDigits i.natAbs else natDigits i.natAbs

/-- `sanitize_fname`: keep alphanumerics and `. _ -`, drop everything else -/
def sanitize (isAlnum : Char → Bool) (s : List Char) : List Char :=
  s.filter fun ch => isAlnum ch || ch == '.' || ch == '_' || ch == '-'

/-- `str.removeprefix` -/
def removePrefix (p s : List Char) : List Char :=
  if p.isPrefixOf s then s.drop p.length else s

/-- `MazeDatasetConfig.to_fname` with `hash = stable_hash_cfg()` -/
def toFname (isAlnum : Char → Bool) (shorten : Int → List Char) (hash : Nat) (c : Cfg) : List Char :=
  sanitize isAlnum (c.name.toList ++ ['-', 'g'] ++ intStr c.gridN ++ ['-', 'n'] ++ shorten c.nMazes ++ ['-', 'a', '_']
    ++ removePrefix ['g', 'e', 'n', '_'] c.mazeCtor.toList ++ ['-', 'h'] ++ natDigits (hash % 10 ^ 5))

/-- `MazeDatasetCollectionConfig.to_fname` (`n` = sum of the member `n_mazes`) -/
def toFnameCollection (isAlnum : Char → Bool) (shorten : Int → List Char) (hash : Nat) (name : String) (n : Int) : List Char :=
  sanitize isAlnum ("collected-".toList ++ name.toList ++ ['-', 'n'] ++ shorten n ++ ['-', 'h'] ++ natDigits (hash % 10 ^ 5))

end MZ.Cfg
