import MazeVerif.DriverOps.Util
namespace MZ.Drv.C08
open Lean MZ.Drv

/-- driver ops of property C08 (`"op": "C08.<name>"`) -/
def handle (op : String) (_j : Json) : R Json := do
  match op with
  | _ => throw s!"unknown op {op}"

end MZ.Drv.C08
