import MazeVerif.Generated.Filters
import MazeVerif.Model.Grid
/-! Model of the dataset filters of maze-dataset (property C08), core Lean only.

Python mirrored (line numbers of /repo at the time of writing):
* `maze_dataset/dataset/maze_dataset.py`
  - 539-541 `update_self_config`, 543-564 `custom_maze_filter` (repaired: deep copy of the whole result),
  - 580-606 `register_maze_filter` wrapper, 609-824 `MazeDatasetFilters.*`,
  - 248-258 `MazeDataset.__init__` (`list(mazes)` – always a fresh list), 263-264 `__deepcopy__ = load(_serialize_full())`.
* `maze_dataset/dataset/dataset.py`
  - 44-61 `_load_applied_filters` (every record needs `args` and `kwargs`), 375-412 `_apply_filters_from_config`,
  - 415-459 `_check_filter_equality`, 484-504 `register_dataset_filter` wrapper.
* `maze_dataset/maze/lattice_maze.py` 164-175 `__hash__` / `__eq__` (all compared fields; `generation_meta` is `compare=False`).

Objects live in a small heap (`Heap`): config cells, maze objects and dataset objects are addressed by index,
`copy.deepcopy` allocates.  So "the filter appended its record to the *input's* config" or "the result shares its
config with the input" are expressible (and are what the correspondence compares with `id()`s of the real objects).
`np.percentile` is a parameter `np`.  Exceptions are values (`Err`). -/
namespace MZ.Filt
open MZ.Gen (PyLit filterTable)

inductive Err | ValueError | AssertionError | IndexError | TypeError | KeyError | other
  deriving DecidableEq, Repr

/-! ## maze values -/

/-- a key of a collected counter: a basic value (`bool|int|float|str`, carried as Python's `str(value)`) or a coordinate tuple -/
inductive Val | atom (s : String) | tup (c : List Int)
  deriving DecidableEq, Repr

/-- one value of a maze's `generation_meta` dict, classified as `collect_generation_meta` classifies it (764-805) -/
inductive MetaVal
  | scalar (s : String)            -- isinstance(value, (bool, int, float, str))
  | set (cs : List (List Int))     -- isinstance(value, set): elements in iteration order
  | arr1 (c : List Int)            -- list / ndarray with len(shape) == 1
  | arr2 (rows : List (List Int))  -- list / ndarray with len(shape) == 2 (rows all of one length)
  | other                          -- anything else -> ValueError
  deriving DecidableEq, Repr

abbrev Meta := List (String × MetaVal)

/-- a `SolvedMaze` value: `connection_list` (shape + flat bits), `start_pos`, `end_pos`, `solution`, `generation_meta` -/
structure Maze where
  shape : List Nat
  conn : List Bool
  startPos : Cell
  endPos : Cell
  sol : List Cell
  gmeta : Option Meta
  deriving DecidableEq, Repr

/-- the fields `__eq__` compares (`fld.compare`): everything but `generation_meta` -/
def Maze.key (m : Maze) : List Nat × List Bool × Cell × Cell × List Cell :=
  (m.shape, m.conn, m.startPos, m.endPos, m.sol)

/-- `maze_a == maze_b` (lattice_maze.py:167-175) -/
def Maze.pyEq (a b : Maze) : Bool := decide (a.key = b.key)

/-- `maze.lattice_dim` = `connection_list.shape[0]` -/
def Maze.latticeDim (m : Maze) : Nat := m.shape.headD 0

/-! ## numeric arguments -/

/-- an `int`/`float`/`bool` argument as an exact fraction `num/den` (floats are dyadic) -/
def asNum : PyLit → Option (Int × Nat)
  | .int i => some (i, 1)
  | .float n d => some (n, d)
  | .bool b => some (if b then 1 else 0, 1)
  | _ => none

/-- `n >= q` for a natural `n` and a fraction `q = num/den` -/
def geNum (n : Nat) (q : Int × Nat) : Bool := decide (q.1 ≤ (n : Int) * (q.2 : Int))
/-- `n <= q` -/
def leNum (n : Nat) (q : Int × Nat) : Bool := decide ((n : Int) * (q.2 : Int) ≤ q.1)

/-- Python truthiness of an argument (`if inplace:`) -/
def truthy : PyLit → Bool
  | .none => false
  | .bool b => b
  | .int i => i != 0
  | .float n _ => n != 0
  | .str s => s != ""

/-! ## the per-maze predicates and list functions (maze_dataset.py:613-730) -/

/-- `len(maze.solution) >= min_length` (615-617) -/
def pathLengthOK (q : Int × Nat) (m : Maze) : Bool := geNum m.sol.length q

/-- `np.linalg.norm(maze.start_pos - maze.end_pos, 1)` -/
def l1 (m : Maze) : Nat := (m.startPos.1 - m.endPos.1).natAbs + (m.startPos.2 - m.endPos.2).natAbs

/-- `np.linalg.norm(start - end, 1) >= min_distance` (621-623) -/
def startEndOK (q : Int × Nat) (m : Maze) : Bool := geNum (l1 m) q

/-- `int(np.percentile(lengths, percentile))`: truncation toward zero of the value numpy returned -/
def cutoffOf (p : Int × Nat) : Int := Int.tdiv p.1 (p.2 : Int)

/-- `len(m.solution) > cutoff` (636-638) -/
def longerThan (cutoff : Int) (m : Maze) : Bool := decide (cutoff < (m.sol.length : Int))

/-- `dataset.mazes[:max_count]` for an `int` (or `None`) `max_count`, Python slice semantics (648-650) -/
def pySliceTo {α} (l : List α) : Option Int → List α
  | none => l
  | some k => if 0 ≤ k then l.take k.toNat else l.take (l.length - k.natAbs)

/-- `np.sum(a != b)` for two flat arrays of one shape -/
def diffCount {α} [DecidableEq α] : List α → List α → Nat
  | a :: as, b :: bs => (if a = b then 0 else 1) + diffCount as bs
  | _, _ => 0

/-- `np.sum(maze_a.solution != maze_b.solution)`: differing *coordinate entries* (two per step) -/
def solDiff : List Cell → List Cell → Nat
  | a :: as, b :: bs => (if a.1 = b.1 then 0 else 1) + (if a.2 = b.2 then 0 else 1) + solDiff as bs
  | _, _ => 0

/-- the body of the inner loop of `remove_duplicates` (683-703): `maze_b` makes `maze_a` non-unique -/
def close (mdcl mds : Option (Int × Nat)) (a b : Maze) : Bool :=
  (match mdcl with
   | some t => decide (a.shape = b.shape) && leNum (diffCount a.conn b.conn) t
   | none => false) ||
  (match mds with
   | some t => decide (a.sol.length = b.sol.length) && leNum (solDiff a.sol b.sol) t
   | none => false)

/-- the double loop of `remove_duplicates` (680-706): `maze_a` is kept iff no LATER maze is close to it -/
def rdLoop (cl : Maze → Maze → Bool) : List Maze → List Maze
  | [] => []
  | a :: rest => if rest.any (cl a) then rdLoop cl rest else a :: rdLoop cl rest

/-- `list(dict.fromkeys(mazes))` (719): first occurrences under `==`; `seen` = keys already in the dict -/
def dedupGo (seen : List (List Nat × List Bool × Cell × Cell × List Cell)) : List Maze → List Maze
  | [] => []
  | m :: ms => if seen.contains m.key then dedupGo seen ms else m :: dedupGo (seen ++ [m.key]) ms

def dedup (l : List Maze) : List Maze := dedupGo [] l

/-! ## generation-metadata counters (maze_dataset.py:752-812) -/

/-- a `Counter` as an association list in first-insertion order -/
abbrev Counter := List (Val × Nat)

/-- `counter[v] += 1` -/
def Counter.bump : Counter → Val → Counter
  | [], v => [(v, 1)]
  | (w, n) :: rest, v => if w = v then (w, n + 1) :: rest else (w, n) :: Counter.bump rest v

/-- `counter.update(iterable)` -/
def Counter.bumpAll (c : Counter) (vs : List Val) : Counter := vs.foldl Counter.bump c

/-- `counter[v]` (0 when absent) -/
def Counter.get : Counter → Val → Nat
  | [], _ => 0
  | (w, n) :: rest, v => if w = v then n else Counter.get rest v

/-- `defaultdict(Counter)` as an association list -/
abbrev Collected := List (String × Counter)

/-- `gen_meta_lists[k]` is created on first access, then updated -/
def Collected.upd : Collected → String → (Counter → Counter) → Collected
  | [], k, f => [(k, f [])]
  | (k', c) :: rest, k, f => if k' = k then (k', f c) :: rest else (k', c) :: Collected.upd rest k f

def Collected.get : Collected → String → Counter
  | [], _ => []
  | (k', c) :: rest, k => if k' = k then c else Collected.get rest k

/-- the keys one metadata value contributes (764-805); `dim` = `maze.lattice_dim` -/
def metaVals (dim : Nat) : MetaVal → Except Err (List Val)
  | .scalar s => .ok [.atom s]
  | .set cs => .ok (cs.map .tup)
  | .arr1 c => if c.length = dim then .ok [.tup c] else .error .ValueError
  | .arr2 rows =>
    match rows with
    | [] => .error .ValueError            -- `np.array([])` has shape (0,)
    | r :: _ => if r.length = dim then .ok (rows.map .tup) else .error .ValueError
  | .other => .error .ValueError

/-- `for key, value in maze.generation_meta.items(): …` for one maze -/
def addMeta (dim : Nat) (g : Collected) : Meta → Except Err Collected
  | [] => .ok g
  | (k, mv) :: rest =>
    match metaVals dim mv with
    | .error e => .error e
    | .ok vs => addMeta dim (g.upd k (fun c => c.bumpAll vs)) rest

/-! ## the heap -/

/-- one entry of `cfg.applied_filters`; `args = none` ⇔ the dict has no `"args"` key (cannot be produced by the
    filters themselves any more — `custom_maze_filter` records `"args": ()` since commit 260593d — but a hand-written
    config may still lack it, and `_load_applied_filters` then fails) -/
structure FilterRec where
  name : String
  args : Option (List PyLit)
  kwargs : List (String × PyLit)
  deriving DecidableEq, Repr

/-- a `MazeDatasetConfig` object: `base` stands for all immutable fields (name, grid_n, seed, ctor, …) -/
structure Cfg where
  base : Nat
  nMazes : Nat
  applied : List FilterRec
  deriving DecidableEq, Repr

/-- a `MazeDataset` object: reference to its config, references to its maze objects, collected metadata -/
structure DS where
  cfg : Nat
  mazes : List Nat
  gmc : Option Collected
  deriving DecidableEq, Repr

structure Heap where
  cfgs : List Cfg
  mazes : List Maze
  dsets : List DS
  deriving DecidableEq, Repr

/-- dereference a list of addresses (none if one dangles) -/
def getAll {α} (l : List α) : List Nat → Option (List α)
  | [] => some []
  | a :: as =>
    match l[a]?, getAll l as with
    | some x, some xs => some (x :: xs)
    | _, _ => none

/-- the dataset object at `d`, its config cell and the values of its mazes -/
def Heap.view (h : Heap) (d : Nat) : Option (DS × Cfg × List Maze) :=
  match h.dsets[d]? with
  | none => none
  | some ds =>
    match h.cfgs[ds.cfg]?, getAll h.mazes ds.mazes with
    | some c, some vs => some (ds, c, vs)
    | _, _ => none

/-- `new_dataset.cfg.applied_filters.append(dict(name=…, args=…, kwargs=…))` — mutates whatever cell `d` references -/
def appendFilter (h : Heap) (d : Nat) (r : FilterRec) : Option Heap :=
  match h.dsets[d]? with
  | none => none
  | some ds =>
    match h.cfgs[ds.cfg]? with
    | none => none
    | some c => some { h with cfgs := h.cfgs.set ds.cfg { c with applied := c.applied ++ [r] } }

/-- `update_self_config`: `self.cfg.n_mazes = len(self.mazes)` (539-541) -/
def updateSelfConfig (h : Heap) (d : Nat) : Option Heap :=
  match h.dsets[d]? with
  | none => none
  | some ds =>
    match h.cfgs[ds.cfg]? with
    | none => none
    | some c => some { h with cfgs := h.cfgs.set ds.cfg { c with nMazes := ds.mazes.length } }

/-- the tail of both registering wrappers (maze_dataset.py:599-603, dataset.py:497-502) -/
def finish (h : Heap) (d : Nat) (r : FilterRec) : Except Err (Heap × Nat) :=
  match appendFilter h d r with
  | none => .error .other
  | some h1 =>
    match updateSelfConfig h1 d with
    | none => .error .other
    | some h2 => .ok (h2, d)

/-- `_load_applied_filters` succeeds iff every record has `args` (and `kwargs`, which every record here has) -/
def allArgs (fs : List FilterRec) : Bool := fs.all (fun r => r.args.isSome)

/-- `copy.deepcopy(MazeDataset(cfg=c, mazes=ms, generation_metadata_collected=g))`
    = `MazeDataset.load(_serialize_full())`: a fresh config cell (ValueError "failed to load applied filters" when a
    record lacks `args`), fresh maze objects, a fresh dataset object.  The temporary `MazeDataset(cfg=dataset.cfg, …)`
    that aliases the input's config is garbage afterwards and is not allocated. -/
def copyNew (h : Heap) (c : Cfg) (ms : List Maze) (g : Option Collected) : Except Err (Heap × Nat) :=
  if allArgs c.applied then
    .ok ({ cfgs := h.cfgs ++ [c], mazes := h.mazes ++ ms,
           dsets := h.dsets ++ [{ cfg := h.cfgs.length, mazes := List.range' h.mazes.length ms.length, gmc := g }] },
         h.dsets.length)
  else .error .ValueError

/-! ## `collect_generation_meta` (732-812) -/

/-- the loop `for maze in new_dataset:` over maze *objects* (addresses), clearing in place when asked -/
def collectLoop (clear allowFail : Bool) : List Maze → Collected → List Nat → Except Err (List Maze × Collected)
  | mz, g, [] => .ok (mz, g)
  | mz, g, a :: as =>
    match mz[a]? with
    | none => .error .other
    | some m =>
      match m.gmeta with
      | none => if allowFail then .ok (mz, g) else .error .ValueError
      | some kv =>
        match addMeta m.latticeDim g kv with
        | .error e => .error e
        | .ok g' => collectLoop clear allowFail (if clear then mz.set a { m with gmeta := none } else mz) g' as

def collectMethod (h : Heap) (d : Nat) (clear inplace allowFail : Bool) : Except Err (Heap × Nat) :=
  match h.view d with
  | none => .error .other
  | some (ds, c, vals) =>
    if ds.gmc.isSome then
      -- already collected: `return dataset if inplace else copy.deepcopy(dataset)` (commit 9817574)
      if inplace then .ok (h, d) else copyNew h c vals ds.gmc
    else
      match vals with
      | [] => .error .IndexError                             -- `dataset[0]` on an empty dataset
      | m0 :: _ =>
        if m0.gmeta.isNone then .error .AssertionError
        else
          match (if inplace then (.ok (h, d) : Except Err (Heap × Nat)) else copyNew h c vals none) with
          | .error e => .error e
          | .ok (h1, nd) =>
            match h1.dsets[nd]? with
            | none => .error .other
            | some nds =>
              match collectLoop clear allowFail h1.mazes [] nds.mazes with
              | .error e => .error e
              | .ok (mz, g) =>
                .ok ({ h1 with mazes := mz, dsets := h1.dsets.set nd { nds with gmc := some g } }, nd)

/-! ## the registered filters -/

inductive FName
  | pathLength | startEndDistance | cutPercentile | truncateCount
  | removeDuplicates | removeDuplicatesFast | stripMeta | collectMeta
  deriving DecidableEq, Repr

def FName.str : FName → String
  | .pathLength => "path_length" | .startEndDistance => "start_end_distance"
  | .cutPercentile => "cut_percentile_shortest" | .truncateCount => "truncate_count"
  | .removeDuplicates => "remove_duplicates" | .removeDuplicatesFast => "remove_duplicates_fast"
  | .stripMeta => "strip_generation_meta" | .collectMeta => "collect_generation_meta"

def FName.all : List FName :=
  [.pathLength, .startEndDistance, .cutPercentile, .truncateCount, .removeDuplicates, .removeDuplicatesFast, .stripMeta, .collectMeta]

def FName.ofString (s : String) : Option FName := FName.all.find? (fun f => f.str == s)

/-- which wrapper registers the filter in the source (`register_maze_filter` / `register_dataset_filter`) -/
def FName.kind : FName → String
  | .pathLength | .startEndDistance => "maze"
  | _ => "dataset"

/-- `np.percentile(lengths, q)` as a parameter: the value (exact dyadic) or the exception numpy raises -/
abbrev Percentile := List Nat → PyLit → Except Err (Int × Nat)

/-- optional numeric threshold (`None` disables the test) -/
def asOptNum : PyLit → Option (Option (Int × Nat))
  | .none => some none
  | a => (asNum a).map some

/-- the undecorated filter applied to dataset `d` with bound parameter values `vals`; for the two maze filters this
    includes the list comprehension and `copy.deepcopy` of the `register_maze_filter` wrapper -/
def method (np : Percentile) (h : Heap) (d : Nat) (f : FName) (vals : List PyLit) : Except Err (Heap × Nat) :=
  match h.view d with
  | none => .error .other
  | some (ds, c, ms) =>
    match f, vals with
    | .pathLength, [a] =>
      match asNum a with
      | none => .error .TypeError
      | some q => copyNew h c (ms.filter (pathLengthOK q)) none
    | .startEndDistance, [a] =>
      match asNum a with
      | none => .error .TypeError
      | some q => copyNew h c (ms.filter (startEndOK q)) none
    | .cutPercentile, [p] =>
      match np (ms.map (fun m => m.sol.length)) p with
      | .error e => .error e
      | .ok v => copyNew h c (ms.filter (longerThan (cutoffOf v))) none
    | .truncateCount, [k] =>
      match k with
      | .int i => copyNew h c (pySliceTo ms (some i)) none
      | .bool b => copyNew h c (pySliceTo ms (some (if b then 1 else 0))) none
      | .none => copyNew h c (pySliceTo ms none) none
      | _ => .error .TypeError
    | .removeDuplicates, [a, b, t] =>
      match asOptNum a, asOptNum b, asNum t with
      | some mdcl, some mds, some thr =>
        if !(leNum ms.length thr) then .error .ValueError        -- `len(dataset) > _max_dataset_len_threshold`
        else copyNew h c (rdLoop (close mdcl mds) ms) ds.gmc
      | _, _, _ => .error .TypeError
    | .removeDuplicatesFast, [] => copyNew h c (dedup ms) ds.gmc
    | .stripMeta, [] =>
      -- `copy.deepcopy(dataset)` then `maze.__dict__["generation_meta"] = None` on the (fresh) copies
      copyNew h c (ms.map (fun m => { m with gmeta := none })) ds.gmc
    | .collectMeta, [cl, ip, af] => collectMethod h d (truthy cl) (truthy ip) (truthy af)
    | _, _ => .error .other

/-! ## Python call binding (positional, keyword, defaults) -/

def bindGo : List (String × Option PyLit) → List PyLit → List (String × PyLit) → Except Err (List PyLit)
  | [], [], _ => .ok []
  | [], _ :: _, _ => .error .TypeError                         -- too many positional arguments
  | (p, _) :: ps, a :: as, kw =>
    if (kw.lookup p).isSome then .error .TypeError              -- multiple values for argument
    else match bindGo ps as kw with
      | .error e => .error e
      | .ok vs => .ok (a :: vs)
  | (p, dflt) :: ps, [], kw =>
    match kw.lookup p, dflt with
    | some v, _ | none, some v =>
      match bindGo ps [] kw with
      | .error e => .error e
      | .ok vs => .ok (v :: vs)
    | none, none => .error .TypeError                           -- missing required argument

def bindParams (params : List (String × Option PyLit)) (args : List PyLit) (kwargs : List (String × PyLit)) :
    Except Err (List PyLit) :=
  if kwargs.all (fun kv => params.any (fun p => p.1 == kv.1)) then bindGo params args kwargs
  else .error .TypeError                                         -- unexpected keyword argument

/-- a call `dataset.filter_by.<name>(*args, **kwargs)` -/
structure Call where
  name : String
  args : List PyLit
  kwargs : List (String × PyLit)
  deriving DecidableEq, Repr

def Call.record (c : Call) : FilterRec := { name := c.name, args := some c.args, kwargs := c.kwargs }

/-- `getattr(dataset.filter_by, name)(*args, **kwargs)`: look the name up in the (generated) namespace table, bind the
    arguments, run the filter, then the wrapper tail (append the record, update the count) -/
def applyReg (np : Percentile) (h : Heap) (d : Nat) (c : Call) : Except Err (Heap × Nat) :=
  match filterTable.find? (fun e => e.1 == c.name), FName.ofString c.name with
  | some (_, kind, params), some f =>
    if kind != f.kind then .error .other
    else
      match bindParams params c.args c.kwargs with
      | .error e => .error e
      | .ok vals =>
        match method np h d f vals with
        | .error e => .error e
        | .ok (h1, nd) => finish h1 nd c.record
  | _, _ => .error .other                                        -- AttributeError on the namespace

/-- `custom_maze_filter(method, **kwargs)` (543-564, after the repair "custom_maze_filter shared maze objects with its
    input"): `copy.deepcopy(MazeDataset(cfg=self.cfg, mazes=[m for m in self.mazes if method(m, **kwargs)]))`, exactly as the
    `register_maze_filter` wrapper does — a fresh config cell (`_load_applied_filters` runs, so a record without `args`
    gives ValueError), FRESH maze objects holding copies of the kept mazes, a fresh dataset object without collected
    metadata — then a record with `"args": ()` (commit 260593d) and the keyword arguments, and `update_self_config`.
    (Before the repair only the config was deep-copied and the result referenced the input's maze objects.) -/
def customFilter (h : Heap) (d : Nat) (fname : String) (p : Maze → Bool) (kwargs : List (String × PyLit)) :
    Except Err (Heap × Nat) :=
  match h.view d with
  | none => .error .other
  | some (_, c, ms) =>
    match copyNew h c (ms.filter p) none with
    | .error e => .error e
    | .ok (h1, nd) => finish h1 nd { name := "__custom__:" ++ fname, args := some [], kwargs := kwargs }

inductive Op
  | reg (c : Call)
  | custom (fname : String) (p : Maze → Bool) (kwargs : List (String × PyLit))

def Op.record : Op → FilterRec
  | .reg c => c.record
  | .custom fname _ kw => { name := "__custom__:" ++ fname, args := some [], kwargs := kw }

def applyOp (np : Percentile) (h : Heap) (d : Nat) : Op → Except Err (Heap × Nat)
  | .reg c => applyReg np h d c
  | .custom fname p kw => customFilter h d fname p kw

/-- a finite sequence of filter applications, each on the result of the previous one -/
def runSeq (np : Percentile) : Heap → Nat → List Op → Except Err (Heap × Nat)
  | h, d, [] => .ok (h, d)
  | h, d, op :: ops =>
    match applyOp np h d op with
    | .error e => .error e
    | .ok (h1, d1) => runSeq np h1 d1 ops

/-! ## `_apply_filters_from_config` / `_check_filter_equality` (dataset.py:375-459) -/

/-- one pair of `_check_filter_equality` (the loop variables are swapped in the source: `zip(old, new)` is bound to
    `(filterinfo_new, filterinfo_old)`; mirrored) -/
def checkPair (fnew fold : FilterRec) : Bool :=
  match fnew.args, fold.args with
  | some an, some ao =>
    fnew.name == fold.name &&
    an.length == ao.length && (an.zip ao).all (fun p => p.1 == p.2) &&
    fnew.kwargs.length == fold.kwargs.length &&
    fold.kwargs.all (fun kv => match fnew.kwargs.lookup kv.1 with
                               | some v => v == kv.2
                               | none => false)
  | _, _ => false                                                -- "missing keys"

def checkFilterEquality (old new : List FilterRec) : Bool :=
  old.length == new.length && (old.zip new).all (fun p => checkPair p.1 p.2)

/-- the call `_apply_filters_from_config` makes for one stored record (393-400) -/
def callOfRec (r : FilterRec) : Call := { name := r.name, args := r.args.getD [], kwargs := r.kwargs }

/-- the `for filter_info in applied_filters_old` loop (383-400) -/
def cfgLoop (np : Percentile) : Heap → Nat → List FilterRec → Except Err (Heap × Nat)
  | h, d, [] => .ok (h, d)
  | h, d, r :: rs =>
    if !(filterTable.any (fun e => e.1 == r.name)) then .error .ValueError   -- unknown / custom filter
    else
      match applyReg np h d (callOfRec r) with
      | .error e => .error e
      | .ok (h1, d1) => cfgLoop np h1 d1 rs

/-- `output.cfg.applied_filters = list()` on the dataset's own config cell (382) -/
def clearApplied (h : Heap) (d : Nat) : Option (Heap × List FilterRec) :=
  match h.dsets[d]? with
  | none => none
  | some ds =>
    match h.cfgs[ds.cfg]? with
    | none => none
    | some c => some ({ h with cfgs := h.cfgs.set ds.cfg { c with applied := [] } }, c.applied)

/-- the config cell a dataset object references -/
def cfgOf (h : Heap) (d : Nat) : Option Cfg :=
  match h.dsets[d]? with
  | none => none
  | some ds => h.cfgs[ds.cfg]?

/-- `output.cfg.applied_filters` -/
def appliedOf (h : Heap) (d : Nat) : Option (List FilterRec) :=
  match cfgOf h d with
  | none => none
  | some c => some c.applied

def applyFromConfig (np : Percentile) (h : Heap) (d : Nat) : Except Err (Heap × Nat) :=
  match clearApplied h d with
  | none => .error .other
  | some (h0, old) =>
    match cfgLoop np h0 d old with
    | .error e => .error e
    | .ok (h1, d1) =>
      match updateSelfConfig h1 d1 with
      | none => .error .other
      | some h2 =>
        match appliedOf h2 d1 with
        | none => .error .other
        | some new => if checkFilterEquality old new then .ok (h2, d1) else .error .ValueError   -- FilterInfoMismatchError

end MZ.Filt
