import MazeVerif.Model.Wilson
import MazeVerif.Lemmas.TreeOn
namespace MZ
open List

/-- invariant of the inner walk -/
structure WI (rows cols : Nat) (vis : List Cell) (path : List Cell) : Prop where
  ne : path ≠ []
  chain : Chain path
  nodup : path.Nodup
  grid : ∀ c ∈ path, inGrid rows cols c
  fresh : ∀ c ∈ path.dropLast, c ∉ vis

theorem Chain.take : ∀ {l : List Cell} (n : Nat), Chain l → Chain (l.take n)
  | [], _, _ => by simp [Chain]
  | [a], n, _ => by cases n <;> simp [Chain]
  | a :: b :: rest, 0, _ => by simp [Chain]
  | a :: b :: rest, 1, _ => by simp [Chain]
  | a :: b :: rest, n + 2, h => by
    have := Chain.take (n + 1) h.2
    simp only [List.take_succ_cons] at this ⊢
    exact ⟨h.1, this⟩

theorem Chain.snoc : ∀ {l : List Cell} {x : Cell}, l ≠ [] → Chain l → x ∈ nbrs l.getLast! → Chain (l ++ [x])
  | [], _, h, _, _ => absurd rfl h
  | [a], x, _, _, hx => by simpa [Chain, List.getLast!] using hx
  | a :: b :: rest, x, _, h, hx => by
    have : Chain ((b :: rest) ++ [x]) := Chain.snoc (by simp) h.2 (by simpa [List.getLast!] using hx)
    exact ⟨h.1, this⟩

theorem getLast!_mem {l : List Cell} (h : l ≠ []) : l.getLast! ∈ l := by
  cases l with
  | nil => exact absurd rfl h
  | cons a as => simp [List.getLast!]

theorem walk_inv {rows cols vis} : ∀ (fuel : Nat) (path : List Cell) (rng : List Nat) (path' : List Cell) (rng' : List Nat),
    WI rows cols vis path → walk rows cols vis fuel path rng = some (path', rng') →
    WI rows cols vis path' ∧ path'.getLast! ∈ vis := by
  intro fuel
  induction fuel with
  | zero => intro path rng path' rng' _ h; simp [walk] at h
  | succ fuel ih =>
    intro path rng path' rng' inv h
    unfold walk at h
    split at h
    · next hv => simp only [Option.some.injEq, Prod.mk.injEq] at h; obtain ⟨rfl, rfl⟩ := h; exact ⟨inv, hv⟩
    · next hv =>
      split at h
      · simp at h
      · split at h
        · simp at h
        · next nx hnx =>
          have hnxm : nx ∈ gridNbrs rows cols path.getLast! := List.mem_of_getElem? hnx
          simp only [gridNbrs, List.mem_filter, decide_eq_true_eq] at hnxm
          split at h
          · next hin =>
            -- loop erasure
            refine ih _ _ _ _ ?_ h
            have hlt : path.idxOf nx < path.length := List.idxOf_lt_length_iff.mpr hin
            refine ⟨?_, inv.chain.take _, inv.nodup.sublist (List.take_sublist _ _), fun c hc => inv.grid c (List.mem_of_mem_take hc), ?_⟩
            · intro h0
              rw [List.take_eq_nil_iff] at h0
              rcases h0 with h0 | h0
              · omega
              · exact inv.ne h0
            · intro c hc
              apply inv.fresh
              rw [List.dropLast_eq_take] at hc ⊢
              rw [List.take_take] at hc
              have hlen : (path.take (path.idxOf nx + 1)).length = path.idxOf nx + 1 := by
                rw [List.length_take]; omega
              rw [hlen] at hc
              exact List.take_subset_take_left path (by omega) hc
          · next hnin =>
            refine ih _ _ _ _ ?_ h
            refine ⟨by simp, Chain.snoc inv.ne inv.chain hnxm.1, ?_, ?_, ?_⟩
            · rw [List.nodup_append]; refine ⟨inv.nodup, by simp, ?_⟩
              intro a ha b hb; simp at hb; subst hb; intro hab; subst hab; exact hnin ha
            · intro c hc; simp only [List.mem_append, List.mem_cons, List.not_mem_nil, or_false] at hc
              rcases hc with hc | rfl
              · exact inv.grid c hc
              · exact hnxm.2
            · intro c hc
              rw [List.dropLast_concat] at hc
              by_cases hcl : c = path.getLast!
              · rw [hcl]; exact hv
              · apply inv.fresh
                rw [List.dropLast_eq_take]
                obtain ⟨i, hi, rfl⟩ := List.getElem_of_mem hc
                rw [List.mem_take_iff_getElem]
                refine ⟨i, ?_, rfl⟩
                have : i ≠ path.length - 1 := by
                  intro hi'; apply hcl; subst hi'
                  rw [List.getLast!_eq_getLast?_getD, List.getLast?_eq_getElem?]
                  simp [hi]
                omega

theorem outer_inv {rows cols start} : ∀ (fuel : Nat) (s s' : WSt),
    TreeOn rows cols start s.vis s.E → outer rows cols fuel s = some s' →
    TreeOn rows cols start s'.vis s'.E ∧ (cells rows cols).filter (fun c => c ∉ s'.vis) = [] := by
  intro fuel
  induction fuel with
  | zero => intro s s' _ h; simp [outer] at h
  | succ fuel ih =>
    intro s s' hT h
    unfold outer at h
    simp only at h
    split at h
    · next hdone => simp only [Option.some.injEq] at h; subst h; exact ⟨hT, hdone⟩
    · split at h
      · simp at h
      · split at h
        · simp at h
        · next u hu =>
          split at h
          · simp at h
          · next path rng2 hw =>
            have hum := List.mem_of_getElem? hu
            simp only [List.mem_filter, decide_eq_true_eq] at hum
            have hwi : WI rows cols s.vis [u] :=
              ⟨by simp, by simp [Chain], by simp, by intro c hc; simp at hc; subst hc; exact mem_cells.mp hum.1, by simp⟩
            obtain ⟨hwi', hlast⟩ := walk_inv fuel _ _ _ _ hwi hw
            exact ih _ _ (hT.attach path hwi'.ne hwi'.chain hwi'.nodup hwi'.grid hwi'.fresh hlast) h

/-- C01 (Wilson half) in prototype form: any in-grid start, any recorded draws, any fuel: if the run completes the result
    is a spanning tree of the whole grid -/
theorem genWilson_spanning {rows cols : Nat} {start : Cell} {rng : List Nat} {fuel : Nat} {s : WSt}
    (hs : inGrid rows cols start) (h : genWilson rows cols start rng fuel = some s) :
    (∀ t, inGrid rows cols t → t ∈ s.vis ∧ Reach s.E start t) ∧
    s.E.Nodup ∧ s.E.length + 1 = rows * cols ∧
    (∀ e ∈ s.E, (e.1 = 0 ∨ e.1 = 1) ∧ inGrid rows cols (ends e).1 ∧ inGrid rows cols (ends e).2) := by
  have h0 : TreeOn rows cols start [start] [] :=
    ⟨by simp, by intro c hc; simp at hc; subst hc; exact hs, by simp, by simp, by simp, by simp,
     by intro c hc; simp at hc; subst hc; exact .refl _, by simp⟩
  obtain ⟨hT, hdone⟩ := outer_inv fuel _ _ h0 h
  have hall : ∀ t, inGrid rows cols t → t ∈ s.vis := by
    intro t ht
    by_cases hm : t ∈ s.vis
    · exact hm
    · have : t ∈ (cells rows cols).filter (fun c => c ∉ s.vis) := by
        simp only [List.mem_filter, decide_eq_true_eq]; exact ⟨mem_cells.mpr ht, hm⟩
      rw [hdone] at this; simp at this
  have hlen := all_of_length hT.nodup hT.grid
  refine ⟨fun t ht => ⟨hall t ht, hT.reach t (hall t ht)⟩, hT.enodup, ?_, ?_⟩
  · have h2 : rows * cols ≤ s.vis.length := by
      have hc := List.subperm_of_subset (l₁ := cells rows cols) (l₂ := s.vis) (cells_nodup rows cols)
        (fun c hc => hall c (mem_cells.mp hc))
      simpa [length_cells] using hc.length_le
    have := hT.len; have := hlen.1; omega
  · intro e he
    exact ⟨hT.edim e he, hT.grid _ (hT.eends e he).1, hT.grid _ (hT.eends e he).2⟩

end MZ
