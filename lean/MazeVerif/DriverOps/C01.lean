import MazeVerif.DriverOps.Util
import MazeVerif.Model.Gen
namespace MZ.Drv.C01
open Lean MZ.Drv MZ

/-- a Python number argument: `null` | `{"int": n}` | `{"ratio": [num, den], "neg": bool}` (an exact double) -/
inductive PyNum where
  | none | int (n : Int) | flt (neg : Bool) (num den : Nat)

def asPyNum (j : Option Json) : R PyNum := do
  match j with
  | none => pure .none
  | some v =>
    match optFld v "int" with
    | some n => pure (.int (← n.getInt?))
    | none =>
      let r ← getNatList v "ratio"
      let neg ← getBool v "neg"
      match r with
      | [a, b] => pure (.flt neg a b)
      | _ => throw "ratio: expected [num, den]"

/-- `int(x * k)` for the double `x = ±num/den` and the integer `k`, in IEEE double arithmetic like CPython -/
def floatTimesTrunc (neg : Bool) (num den : Nat) (k : Nat) : Int :=
  -- |x * k| is the same double for both signs; `int()` truncates toward zero
  let t : Nat := (Float.ofNat num / Float.ofNat den * Float.ofNat k).floor.toUInt64.toNat
  if neg then -((t : Nat) : Int) else ((t : Nat) : Int)

/-- argument handling of `gen_dfs` (generators.py:88-118): returns `(n_accessible_cells, max_tree_depth)` as the code
    stores them in `generation_meta` -/
def dfsArgs (rows cols : Nat) (acc depth : PyNum) : Int × Int :=
  let nTotal := rows * cols
  let nAcc : Int := match acc with
    | .none => nTotal
    | .int n => n
    | .flt neg a b => floatTimesTrunc neg a b nTotal
  let md : Int := match depth with
    | .none => 2 * nTotal
    | .int n => n
    | .flt neg a b => floatTimesTrunc neg a b (rows + cols)
  (nAcc, md)

def getRands (j : Json) : R (List (Nat × Nat)) := do
  match optFld j "rands" with
  | none => pure []
  | some v =>
    (← v.getArr?).toList.mapM fun x => do
      match ← asNatList x with
      | [a, b] => pure (a, b)
      | _ => throw "rand: expected [num, den]"

def jDfsOut (o : DfsOut) (nAcc md : Int) : Json :=
  obj [("ok", true), ("edges", jEdges o.edges), ("start", jCell o.start), ("visited", jCells o.visited),
       ("fully_connected", o.fullyConnected), ("n_accessible_cells", jInt nAcc), ("max_tree_depth", jInt md),
       ("leftover", jNat o.leftover.length)]

def handle (op : String) (j : Json) : R Json := do
  match op with
  | "C01.gen" =>
    let gen ← getStr j "gen"
    let rows ← getNat j "rows"; let cols ← getNat j "cols"
    let draws ← getNatList j "draws"
    let given : Option Cell ← match optFld j "start" with
      | none => pure none
      | some v => pure (some (← asCell v))
    let fuel := 8 * rows * cols + 16
    match gen with
    | "dfs" | "prim" | "dfs_percolation" =>
      let acc ← asPyNum (optFld j "accessible_cells")
      let depth ← asPyNum (optFld j "max_tree_depth")
      let (nAcc, md) := dfsArgs rows cols acc depth
      let doForks := (optFld j "do_forks").map (fun v => v.getBool?.toOption.getD true) |>.getD true
      let rs := (optFld j "randomized_stack").map (fun v => v.getBool?.toOption.getD false) |>.getD false
      let a : Args := { nAcc := nAcc.toNat, maxDepth := md, doForks := doForks, randStack := rs }
      if gen == "dfs" then
        match genDfsTop rows cols a given draws fuel with
        | some o => pure (jDfsOut o nAcc md)
        | none => pure (obj [("ok", false)])
      else if gen == "prim" then
        match genPrimTop rows cols a given draws fuel with
        | some o => pure (jDfsOut o nAcc md)
        | none => pure (obj [("ok", false)])
      else
        let p ← getNatList j "p"
        let rands ← getRands j
        match p with
        | [pn, pd] =>
          match genDfsPercolationTop rows cols (pn, pd) a given draws rands fuel with
          | some o => pure (obj [("ok", true), ("edges", jEdges o.edges), ("start", jCell o.start),
              ("visited", jCells o.visited), ("fully_connected", o.fullyConnected),
              ("n_accessible_cells", jInt nAcc), ("max_tree_depth", jInt md), ("dfs_edges", jEdges o.dfsEdges)])
          | none => pure (obj [("ok", false)])
        | _ => throw "p: expected [num, den]"
    | "wilson" =>
      match genWilsonTop rows cols draws (64 * (draws.length + rows * cols) + 64) with
      | some s => pure (obj [("ok", true), ("edges", jEdges s.E), ("leftover", jNat s.rng.length), ("fully_connected", true)])
      | none => pure (obj [("ok", false)])
    | "percolation" =>
      let p ← getNatList j "p"
      let rands ← getRands j
      match p with
      | [pn, pd] =>
        match genPercolationTop rows cols (pn, pd) given draws rands fuel with
        | some o => pure (obj [("ok", true), ("edges", jEdges o.edges), ("start", jCell o.start), ("visited", jCells o.visited)])
        | none => pure (obj [("ok", false)])
      | _ => throw "p: expected [num, den]"
    | g => throw s!"unknown generator {g}"
  | _ => throw s!"unknown op {op}"

end MZ.Drv.C01
