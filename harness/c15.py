"""C15 — tokenizer configuration space is enumerated exactly and identified uniquely.

Correspondence: real `utils.all_instances(cls, MAZE_TOKENIZER_MODULAR_DEFAULT_VALIDATION_FUNCS)` vs. the Lean model
`MZ.AI.allInstances` on the type tree regenerated from the source (ordered, structural comparison, per class);
real `name` / `serialize` / `load` / `is_legacy_equivalent` / `is_valid` vs. `mtmName` / `ser` / `load` /
`isLegacyEquivalent` / `checkTy` on sampled tokenizers. Oracles (plain Python, written from the property statement,
independent of the model and of `all_instances`): own recursive enumerator of the raw parameter space + "every
contained element says is_valid()", structural duplicate detection, the pinned size 5,878,656, name/hash
distinctness, cross-process hash stability, save→load equality (dict and real ZANJ files), legacy mapping."""
from __future__ import annotations
import dataclasses, hashlib, inspect, itertools, json, os, subprocess, sys, tempfile, types, typing, warnings
from pathlib import Path

RULE = ("quick: every modelled class/alias of the _TokenizerElement tree (35 types) — the full real all_instances list against the model "
        "(ordered, structural) for the 31 types with <= 1100 instances, a 3000-prefix plus 300 random indices for AOTP and AOP, 300 random model "
        "indices for MazeTokenizerModular (thorough: prefix also for it and _PromptSequencer); raw parameter space enumerated independently for every type with "
        "<= 25000 raw configurations; 400 random RAW tokenizers (fields drawn independently from the raw space, ~98% invalid) + 300 random valid ones for "
        "name/serialize/load/legacy/validity; 8 real ZANJ files; 4 processes with different PYTHONHASHSEED. thorough: additionally the "
        "whole get_all_tokenizers() list (count, names, hash() values, order fingerprint vs. model, 20000 random indices structurally, "
        "legacy count), 4000+3000 sampled tokenizers, 60 ZANJ files. non-trivial = a type with >= 2 instances or a tokenizer "
        "differing from the default; distinct = distinct type / distinct structural value; later additions: identity before/after use, load twice, the sampler called between two enumerations, a class-hierarchy history in a fresh interpreter (enumerate, define an element class, enumerate, mark it unsupported, enumerate) against an oracle that walks __subclasses__() itself, tokenizers assembled from an element copied or loaded on its own (name and hashes must tell what == tells)")
ASSUMPTIONS = ["each is_valid reads at most one field of self (checked by the translator on the source text, else the translator fails)",
               "blake2b / CPython's int hash reduction are external: hash distinctness over the 5,878,656 names is decided only by the "
               "thorough tier's exhaustive test, not by a theorem",
               "muutils serialize/load_item_recursive and ZANJ are external (exercised through the real calls on samples)",
               "string-level injectivity of names on the whole space is a theorem about the MODEL's renderer (C15_name_injective, "
               "structural prefix-code proof); the thorough tier additionally checks all 5,878,656 real names for distinctness"]
TRUSTED = ["harness/translate_tokenizer_types.py (ast + import readings must agree; is_valid tables by calling the real methods)",
           "the plain-Python oracles in harness/c15.py"]

EXPECTED_TOTAL = 5878656          # the size stated in the property
FULL_LIMIT = 1100                 # classes up to this size are compared completely in the quick tier
RAW_LIMIT = 25000
P61 = (1 << 61) - 1
_S = {}


def _mods():
    if not _S:
        warnings.filterwarnings("ignore")
        from maze_dataset.tokenization import maze_tokenizer as mt
        from maze_dataset.tokenization import all_tokenizers as at
        from maze_dataset import utils
        _S.update(mt=mt, at=at, utils=utils)
    return _S["mt"], _S["at"], _S["utils"]


# ------------------------------------------------------------------------------------------ value conversion
def to_val(x):
    """structural canonical form of a real object (never uses ==, hash or name)"""
    if isinstance(x, bool): return x
    if isinstance(x, int): return {"i": x}
    if isinstance(x, str): return {"s": x}
    if isinstance(x, (tuple, list)): return {"t": [to_val(y) for y in x]}
    if dataclasses.is_dataclass(x):
        return {"c": type(x).__qualname__, "f": [to_val(getattr(x, k)) for k in type(x).__dataclass_fields__]}
    raise TypeError(f"not a tokenizer value: {x!r}")


def _cls(q):
    mt, _, _ = _mods()
    o = mt
    for part in q.split("."): o = getattr(o, part)
    return o


def from_val(j):
    if isinstance(j, bool): return j
    if "i" in j: return j["i"]
    if "s" in j: return j["s"]
    if "t" in j: return tuple(from_val(y) for y in j["t"])
    c = _cls(j["c"])
    return c(**{k: from_val(v) for k, v in zip(c.__dataclass_fields__, j["f"])})


def key(x) -> str:
    return json.dumps(to_val(x), sort_keys=True, separators=(",", ":"))


def the_name(x) -> str:
    if isinstance(x, tuple):   # how `_stringify` renders tuple members; only used for the Union alias lists
        return "(" + "".join(str(e) + ", " for e in x) + ")"
    return x.name


# ------------------------------------------------------------------------------------------------- oracles
def oracle_raw(t):
    """every configuration the type hints allow — written from the statement, does not call all_instances"""
    if t is bool: return [True, False]
    o = typing.get_origin(t)
    if o is typing.Literal: return list(typing.get_args(t))
    if o is tuple:
        return [tuple(c) for c in itertools.product(*[oracle_raw(a) for a in typing.get_args(t)])]
    if o in (types.UnionType, typing.Union):
        return [x for a in typing.get_args(t) for x in oracle_raw(a)]
    if dataclasses.is_dataclass(t):
        if inspect.isabstract(t):
            return [x for s in t.__subclasses__() for x in oracle_raw(s)]
        names = list(t.__dataclass_fields__)
        return [t(**dict(zip(names, c))) for c in itertools.product(*[oracle_raw(t.__dataclass_fields__[n].type) for n in names])]
    raise TypeError(t)


def oracle_raw_count(t) -> int:
    if t is bool: return 2
    o = typing.get_origin(t)
    if o is typing.Literal: return len(typing.get_args(t))
    if o is tuple:
        n = 1
        for a in typing.get_args(t): n *= oracle_raw_count(a)
        return n
    if o in (types.UnionType, typing.Union): return sum(oracle_raw_count(a) for a in typing.get_args(t))
    if inspect.isabstract(t): return sum(oracle_raw_count(s) for s in t.__subclasses__())
    n = 1
    for f in t.__dataclass_fields__.values(): n *= oracle_raw_count(f.type)
    return n


def elements_of(x):
    """every _TokenizerElement contained in x (own walker over dataclass fields and tuples)"""
    mt, _, _ = _mods()
    out = []
    def rec(y):
        if isinstance(y, tuple):
            for e in y: rec(e)
        elif dataclasses.is_dataclass(y):
            if isinstance(y, mt._TokenizerElement): out.append(y)
            for k in type(y).__dataclass_fields__: rec(getattr(y, k))
    rec(x)
    return out


def oracle_valid(x, alias_rule=None) -> bool:
    """the validity rules: every contained tokenizer element answers is_valid() with True
    (for a bare member of the Union alias: the function registered for that alias)"""
    if isinstance(x, tuple):
        return all(e.is_valid() for e in elements_of(x)) and (alias_rule(x) if alias_rule else True)
    return all(bool(e.is_valid()) for e in elements_of(x))


def py_type(q):
    mt, at, _ = _mods()
    return _cls(q)


# -------------------------------------------------------------------------------------- per-class comparison
def _check_class(ctx, q, model, real_list, complete: bool, raw=None, alias_rule=None):
    """`model` = driver reply with vals/names (prefix or full); `real_list` = real instances (same prefix or full)"""
    case = dict(cls=q, n_real=len(real_list), complete=complete)
    ctx.case(case, nontrivial=len(real_list) >= 2)
    ctx.count(f"class:{'full' if complete else 'prefix'}")
    rvals = [to_val(x) for x in real_list]
    rnames = [the_name(x) for x in real_list]
    # ---- oracle on the real list
    keys = [json.dumps(v, sort_keys=True) for v in rvals]
    seen = {}
    for i, k in enumerate(keys):
        if k in seen:
            ctx.violate(f"all_instances({q}) yields the same configuration twice (positions {seen[k]} and {i}): {rnames[i]}",
                        dict(cls=q, kind="duplicate", i=seen[k], j=i, val=rvals[i])); break
        seen[k] = i
    for i, x in enumerate(real_list):
        if not oracle_valid(x, alias_rule):
            ctx.violate(f"all_instances({q}) yields a configuration that breaks the validity rules: {rnames[i]}",
                        dict(cls=q, kind="invalid-enumerated", i=i, val=rvals[i])); break
    byname = {}
    for i, n in enumerate(rnames):
        if n in byname and keys[byname[n]] != keys[i]:
            ctx.violate(f"two distinct configurations of {q} share the name {n!r}",
                        dict(cls=q, kind="name-collision", a=rvals[byname[n]], b=rvals[i])); break
        byname.setdefault(n, i)
    if not isinstance(real_list[0] if real_list else None, tuple):
        byhash = {}
        for i, x in enumerate(real_list):
            h = hash(x)
            if h in byhash and keys[byhash[h]] != keys[i]:
                ctx.violate(f"two distinct configurations of {q} share hash {h}: {rnames[byhash[h]]} / {rnames[i]}",
                            dict(cls=q, kind="hash-collision", a=rvals[byhash[h]], b=rvals[i])); break
            byhash.setdefault(h, i)
    if complete and raw is not None:
        expected = {key(x): x for x in raw if oracle_valid(x, alias_rule)}
        got = set(json.dumps(v, sort_keys=True, separators=(",", ":")) for v in rvals)
        missing = [k for k in expected if k not in got]
        extra = [k for k in got if k not in expected]
        if missing:
            x = expected[missing[0]]
            ctx.violate(f"all_instances({q}) misses {len(missing)} valid configuration(s), e.g. {the_name(x)}",
                        dict(cls=q, kind="missing", val=to_val(x), n_missing=len(missing)))
        if extra:
            ctx.violate(f"all_instances({q}) yields {len(extra)} configuration(s) outside the valid parameter space, e.g. {extra[0][:300]}",
                        dict(cls=q, kind="extra", val=json.loads(extra[0]), n_extra=len(extra)))
        ctx.count("class:raw-space-enumerated")
    # ---- correspondence with the model
    if "error" in model:
        ctx.disagree(f"driver error for {q}: {model['error']}", case); return
    ctx.traces_validated += 1
    mvals, mnames = model.get("vals", []), model.get("names", [])
    if complete and model["count"] != len(real_list):
        ctx.disagree(f"{q}: model enumerates {model['count']} instances, all_instances {len(real_list)}", case)
    n = min(len(mvals), len(rvals))
    if (not complete) and n < min(len(real_list), model["count"]):
        ctx.disagree(f"{q}: prefix lengths differ (model {len(mvals)}, real {len(rvals)})", case)
    for i in range(n):
        if mvals[i] != rvals[i]:
            ctx.disagree(f"{q}: instance #{i} differs: model {mnames[i]!r} vs all_instances {rnames[i]!r}", dict(case, i=i, model=mvals[i], real=rvals[i])); break
        if mnames[i] != rnames[i]:
            ctx.disagree(f"{q}: name of instance #{i} differs: model {mnames[i]!r} vs real {rnames[i]!r}", dict(case, i=i, val=rvals[i])); break
    if complete and len(real_list) >= 2:
        ctx.sample(dict(cls=q, count=len(real_list), first=rnames[0], last=rnames[-1]), limit=4)


def _classes(ctx):
    mt, at, utils = _mods()
    tables = ctx.driver.run([dict(op="C15.tables")])[0]
    return tables


def _alias_rule(q):
    mt, at, _ = _mods()
    t = py_type(q)
    return at.MAZE_TOKENIZER_MODULAR_DEFAULT_VALIDATION_FUNCS.get(t)


def _enumeration(ctx, tables):
    mt, at, utils = _mods()
    V = at.MAZE_TOKENIZER_MODULAR_DEFAULT_VALIDATION_FUNCS
    qs = tables["classes"]
    # model sizes first (cheap), then decide full / prefix
    sizes = ctx.driver.run([dict(op="C15.enum", cls=q, prefix=0) for q in qs if q != "MazeTokenizerModular"
                            and not q.startswith("PromptSequencers")])
    size = {}
    for q, r in zip([q for q in qs if q != "MazeTokenizerModular" and not q.startswith("PromptSequencers")], sizes):
        size[q] = r.get("count", -1)
    big = [q for q in qs if q not in size]
    # itertools.product materialises its inputs, so even a PREFIX of all_instances(MazeTokenizerModular) or of
    # all_instances(_PromptSequencer) costs the whole 5.9M enumeration (~35 s): in the quick tier the real prefix is taken
    # from AOTP and AOP (whose factors are small); MazeTokenizerModular is covered by model-side random indices there.
    lazy_ok = ("PromptSequencers.AOTP", "PromptSequencers.AOP")
    if ctx.quick:
        big = [q for q in big if q in lazy_ok or q == "MazeTokenizerModular"]
    small = [q for q in qs if q in size]
    reqs = [dict(op="C15.enum", cls=q, names=True, vals=True) for q in small]
    nidx = 300 if ctx.quick else 3000
    big_idx = {}
    for q in big:
        reqs.append(dict(op="C15.enum", cls=q, names=True, vals=True, prefix=(3000 if (q in lazy_ok or not ctx.quick) else 0),
                         idx=sorted(ctx.rng.randrange(0, 1959552 if q.endswith("AOP") else 3919104) for _ in range(nidx))))
    outs = ctx.driver.run(reqs, timeout=3600)
    real_sizes = {}
    for q, m in zip(small + big, outs):
        t = py_type(q)
        is_alias = not isinstance(t, type)
        rule = _alias_rule(q) if is_alias else None
        if q in size:
            real = list(utils.all_instances(t, V))
            real_sizes[q] = len(real)
            rawn = oracle_raw_count(t)
            raw = oracle_raw(t) if rawn <= RAW_LIMIT else None
            ctx.count(f"raw-space<={RAW_LIMIT}" if raw is not None else "raw-space-too-large")
            _check_class(ctx, q, m, real, True, raw, rule)
        else:
            real = list(itertools.islice(utils.all_instances(t, V), 3000)) if (q in lazy_ok or not ctx.quick) else []
            _check_class(ctx, q, m, real, False)
            # random indices of the model's enumeration must be genuine valid tokenizers with the same name
            for a in m.get("at", []):
                try:
                    x = from_val(a["val"])
                except Exception as e:
                    ctx.disagree(f"{q}: model instance #{a['i']} cannot be constructed as a real object: {e!r}", dict(cls=q, i=a["i"])); break
                ctx.case(dict(cls=q, at=a["i"])); ctx.traces_validated += 1
                if to_val(x) != a["val"] or the_name(x) != a["name"]:
                    ctx.disagree(f"{q}: model instance #{a['i']} {a['name']!r} is rendered {the_name(x)!r} by the real class", dict(cls=q, i=a["i"])); break
                if not oracle_valid(x):
                    ctx.disagree(f"{q}: model enumerates {a['name']} which the real is_valid rejects", dict(cls=q, i=a["i"], val=a["val"])); break
            real_sizes[q] = None
        size[q] = m.get("count", -1)
    # ---- the size of the space: product predicted from the parameter space (from the REAL per-class lists)
    f = real_sizes
    try:
        coord, adj, target, path = (f["CoordTokenizers._CoordTokenizer"], f["AdjListTokenizers._AdjListTokenizer"],
                                    f["TargetTokenizers._TargetTokenizer"], f["PathTokenizers._PathTokenizer"])
        predicted = coord * adj * target * path + coord * adj * path
        factors = dict(coord=coord, adj_list=adj, target=target, path=path,
                       step_permutations=f.get("StepTokenizers.StepTokenizerPermutation"))
    except KeyError as e:
        predicted, factors = None, dict(missing=str(e))
    ctx.extra["size_factors_real"] = factors
    ctx.extra["size_model"] = size.get("MazeTokenizerModular")
    ctx.case(dict(size=predicted))
    if predicted != EXPECTED_TOTAL:
        ctx.violate(f"the tokenizer space has {predicted} configurations by the product of the real per-element enumerations "
                    f"{factors}, not the {EXPECTED_TOTAL} the property states (9 x 216 x (2+1) x 1008)",
                    dict(kind="size", predicted=predicted, factors=factors))
    if size.get("MazeTokenizerModular") != EXPECTED_TOTAL:
        ctx.disagree(f"model size {size.get('MazeTokenizerModular')} != {EXPECTED_TOTAL}", dict(kind="size"))
    return real_sizes


# --------------------------------------------------------------------------------------- sampled tokenizers
def _random_raw(ctx, raws):
    """a random member of the RAW space of MazeTokenizerModular (fields drawn independently from the oracle's raw lists)"""
    mt, _, _ = _mods()
    def pick(t):
        if dataclasses.is_dataclass(t) and not inspect.isabstract(t) and oracle_raw_count(t) > RAW_LIMIT:
            names = list(t.__dataclass_fields__)
            return t(**{n: pick(t.__dataclass_fields__[n].type) for n in names})
        if dataclasses.is_dataclass(t) and inspect.isabstract(t) and oracle_raw_count(t) > RAW_LIMIT:
            return pick(ctx.rng.choice(t.__subclasses__()))
        k = repr(t)
        if k not in raws: raws[k] = oracle_raw(t)
        return ctx.rng.choice(raws[k])
    return pick(mt.MazeTokenizerModular)


def _random_valid(ctx, valids):
    mt, at, utils = _mods()
    V = at.MAZE_TOKENIZER_MODULAR_DEFAULT_VALIDATION_FUNCS
    def pick(t):
        if dataclasses.is_dataclass(t) and t.__qualname__ in ("MazeTokenizerModular", "PromptSequencers.AOTP", "PromptSequencers.AOP"):
            return t(**{n: pick(f.type) for n, f in t.__dataclass_fields__.items()})
        if dataclasses.is_dataclass(t) and t.__qualname__ == "PromptSequencers._PromptSequencer":
            return pick(ctx.rng.choice(t.__subclasses__()))
        k = repr(t)
        if k not in valids: valids[k] = list(utils.all_instances(t, V))
        return ctx.rng.choice(valids[k])
    return pick(mt.MazeTokenizerModular)


def _strip_props(d):
    """real serialize() adds the two `properties_to_serialize` entries at top level; the field part is what is modelled"""
    return {k: v for k, v in d.items() if k not in ("tokenizer_element_tree_concrete", "name")}


_DEMO = []
def _demo_maze():
    if not _DEMO:
        import numpy as np
        from maze_dataset import SolvedMaze
        cl = np.zeros((2, 3, 3), dtype=bool); cl[1, 0, 0] = cl[1, 0, 1] = cl[0, 0, 2] = cl[0, 1, 2] = cl[1, 2, 1] = cl[0, 1, 1] = True
        _DEMO.append(SolvedMaze(connection_list=cl, solution=np.array([[0, 0], [0, 1], [0, 2], [1, 2], [2, 2], [2, 1]])))
    return _DEMO[0]


def _check_tokenizer(ctx, tok, m, legacy_keys, origin):
    mt, _, _ = _mods()
    val = to_val(tok)
    case = dict(val=val, origin=origin)
    ctx.case(val, nontrivial=True)
    ctx.count(f"tokenizer:{origin}")
    # ---- oracles on the real object
    valid = oracle_valid(tok)
    ctx.count(f"valid={valid}")
    if bool(tok.is_valid()) != valid:
        ctx.violate(f"MazeTokenizerModular.is_valid() = {tok.is_valid()} but its elements say {valid}: {tok.name}", dict(case, kind="is_valid"))
    try:
        ser = tok.serialize()
        saved = json.dumps(ser, sort_keys=True, default=str)
        back = mt.MazeTokenizerModular.load(ser)
        if to_val(back) != val or back.name != tok.name or not (back == tok) or hash(back) != hash(tok):
            ctx.violate(f"save->load changes the tokenizer {tok.name} into {back.name}", dict(case, kind="saveload", got=to_val(back)))
        # the saved representation belongs to the caller: loading must not consume it, and loading it again gives the same tokenizer
        if json.dumps(ser, sort_keys=True, default=str) != saved:
            ctx.violate(f"MazeTokenizerModular.load modified the saved representation it was given ({tok.name})", dict(case, kind="load-mutates-saved"))
        else:
            back2 = mt.MazeTokenizerModular.load(ser)
            if to_val(back2) != val or back2.name != tok.name:
                ctx.violate(f"loading the same saved tokenizer a second time gives {back2.name} instead of {tok.name}", dict(case, kind="saveload-twice"))
    except Exception as e:
        ser = None
        ctx.violate(f"save->load raises {type(e).__name__}: {e} for {tok.name}", dict(case, kind="saveload-raises"))
    twin = from_val(val)
    if not (twin == tok) or twin.name != tok.name or hash(twin) != hash(tok):
        ctx.violate(f"an equal tokenizer built separately differs in ==/name/hash: {tok.name}", dict(case, kind="equal-twin"))
    # identity must not change by USING the tokenizer: tokenize a solved maze, then name / hash / == against the unused twin again
    if valid:
        before = (tok.name, hash(tok))
        try:
            tok.to_tokens(_demo_maze())
        except Exception:
            pass   # tokenization itself is C06's business
        if (tok.name, hash(tok)) != before or not (twin == tok) or twin.name != tok.name or hash(twin) != hash(tok):
            ctx.violate(f"after tokenizing a maze the tokenizer's identity changed: name {before[0]!r} -> {tok.name!r}, hash {before[1]} -> {hash(tok)}; "
                        f"an equal unused tokenizer has name {twin.name!r}", dict(case, kind="identity-changes-with-use"))
    leg = bool(tok.is_legacy_equivalent())
    if leg != (json.dumps(val, sort_keys=True) in legacy_keys):
        ctx.violate(f"is_legacy_equivalent() = {leg} for {tok.name}, but it {'is not' if leg else 'is'} the image of a legacy mode",
                    dict(case, kind="legacy"))
    # ---- correspondence
    if "error" in m:
        ctx.disagree(f"driver error: {m['error']}", case); return
    ctx.traces_validated += 1
    if m["name"] != tok.name:
        ctx.disagree(f"name: model {m['name']!r} vs real {tok.name!r}", case)
    if m["member"] != valid:
        ctx.disagree(f"validity: model membership {m['member']} vs real elements' is_valid {valid} for {tok.name}", case)
    if ser is not None and m["ser"] != json.loads(json.dumps(_strip_props(ser))):
        ctx.disagree(f"serialize: model and real differ for {tok.name}", dict(case, model=m["ser"], real=_strip_props(ser)))
    if not m["load_ok"]:
        ctx.disagree(f"model load(ser v) != v for {tok.name}", case)
    if m["legacy"] != leg:
        ctx.disagree(f"legacy: model {m['legacy']} vs real {leg} for {tok.name}", case)


def _legacy_neighbourhood(ctx, legacy_real, legacy_keys):
    """every tokenizer that differs from a legacy image in exactly ONE element (coord / adjacency / target incl. none / path tokenizer):
    none of them may report itself legacy-equivalent (unless it is another legacy image)"""
    mt, at, utils = _mods()
    V = at.MAZE_TOKENIZER_MODULAR_DEFAULT_VALIDATION_FUNCS
    PS = mt.PromptSequencers
    fams = dict(coord_tokenizer=list(utils.all_instances(mt.CoordTokenizers._CoordTokenizer, V)),
                adj_list_tokenizer=list(utils.all_instances(mt.AdjListTokenizers._AdjListTokenizer, V)),
                target_tokenizer=list(utils.all_instances(mt.TargetTokenizers._TargetTokenizer, V)),
                path_tokenizer=list(utils.all_instances(mt.PathTokenizers._PathTokenizer, V)))
    seen = set()
    for mode, tok in legacy_real.items():
        ps = tok.prompt_sequencer
        base = {k: getattr(ps, k) for k in fams if hasattr(ps, k)}
        variants = []
        for fld, insts in fams.items():
            if fld not in base: continue
            for x in insts:
                variants.append(type(ps)(**dict(base, **{fld: x})))
        aop = {k: v for k, v in base.items() if k != "target_tokenizer"}
        variants.append(PS.AOP(**aop)); variants.append(PS.AOTP(**dict(aop, target_tokenizer=fams["target_tokenizer"][0])))
        for v in variants:
            t = mt.MazeTokenizerModular(prompt_sequencer=v)
            k = t.name
            if k in seen: continue
            seen.add(k)
            ctx.case(["legacy-neighbour", k], nontrivial=True); ctx.count("legacy_neighbourhood")
            want = json.dumps(to_val(t), sort_keys=True) in legacy_keys
            got = bool(t.is_legacy_equivalent())
            if got != want:
                ctx.violate(f"is_legacy_equivalent() = {got} for {t.name}, which differs from from_legacy({mode}) in one element and "
                            f"{'is' if want else 'is not'} the image of a legacy mode", dict(kind="legacy", val=to_val(t), origin="legacy-neighbourhood"))
                return


def _sampled(ctx, tables):
    mt, at, utils = _mods()
    # legacy table: model (regenerated) vs real, and the oracle's own reading
    legacy_real = {m.name: mt.MazeTokenizerModular.from_legacy(m) for m in mt.TokenizationMode}
    legacy_keys = {json.dumps(to_val(v), sort_keys=True) for v in legacy_real.values()}
    for mode, name in tables["legacy"]:
        ctx.case(dict(legacy=mode)); ctx.traces_validated += 1
        if legacy_real.get(mode) is None or legacy_real[mode].name != name:
            ctx.disagree(f"from_legacy({mode}): model {name!r} vs real {getattr(legacy_real.get(mode), 'name', None)!r}", dict(mode=mode))
    for mode, tok in legacy_real.items():
        if not tok.is_legacy_equivalent():
            ctx.violate(f"from_legacy({mode}) = {tok.name} does not report itself legacy-equivalent", dict(kind="legacy-image", mode=mode, val=to_val(tok)))
        if not oracle_valid(tok):
            ctx.violate(f"from_legacy({mode}) = {tok.name} is not a valid tokenizer", dict(kind="legacy-invalid", mode=mode, val=to_val(tok)))
        if mt.MazeTokenizerModular.from_legacy(mt.MazeTokenizer(tokenization_mode=getattr(mt.TokenizationMode, mode), max_grid_size=None)).name != tok.name:
            ctx.violate(f"from_legacy(MazeTokenizer({mode})) differs from from_legacy({mode})", dict(kind="legacy-object", mode=mode))
    _legacy_neighbourhood(ctx, legacy_real, legacy_keys)
    if to_val(mt.MazeTokenizerModular()) != tables["default"]:
        ctx.disagree("default tokenizer differs between model table and MazeTokenizerModular()", dict(kind="default"))
    n_raw, n_valid = (400, 300) if ctx.quick else (4000, 3000)
    raws, valids = {}, {}
    toks = [(t, "legacy") for t in legacy_real.values()]
    toks += [(_random_raw(ctx, raws), "raw") for _ in range(n_raw)]
    toks += [(_random_valid(ctx, valids), "valid") for _ in range(n_valid)]
    outs = ctx.driver.run([dict(op="C15.value", cls="MazeTokenizerModular", val=to_val(t)) for t, _ in toks])
    for (t, origin), m in zip(toks, outs):
        _check_tokenizer(ctx, t, m, legacy_keys, origin)
    # names / hashes pairwise on the whole sample (structurally distinct <=> distinct name <=> distinct hash)
    byname, byhash = {}, {}
    for t, _ in toks:
        k = key(t)
        for table, v, what in ((byname, t.name, "name"), (byhash, hash(t), "hash")):
            if v in table and table[v] != k:
                ctx.violate(f"two distinct tokenizers share the {what} {v!r}", dict(kind=f"{what}-collision", a=json.loads(table[v]), b=json.loads(k)))
            table.setdefault(v, k)
    ctx.sample(dict(tokenizer=toks[5][0].name, valid=oracle_valid(toks[5][0]), hash=hash(toks[5][0])), limit=6)
    return [t for t, o in toks if o != "raw"] + [t for t, o in toks if o == "raw"][:50]


# ------------------------------------------------------------------------------------- processes and files
_WORKER = r"""
import sys, json, warnings
warnings.filterwarnings("ignore")
sys.path.insert(0, sys.argv[1]); sys.path.insert(0, sys.argv[2])
import c15
vals = json.load(open(sys.argv[3]))
out = []
for v in vals:
    t = c15.from_val(v)
    out.append([t.name, hash(t), t.hash_int(), t.hash_b64(), hash(t.prompt_sequencer)])
print(json.dumps(out))
"""


def _processes(ctx, toks):
    import common as C
    toks = toks[:60] if ctx.quick else toks[:400]
    vals = [to_val(t) for t in toks]
    p = ctx.workdir / "hash_vals.json"
    p.write_text(json.dumps(vals))
    here = [[t.name, hash(t), t.hash_int(), t.hash_b64(), hash(t.prompt_sequencer)] for t in toks]
    elem_unstable = 0
    seeds = ["1", "2", "12345", "random"]
    procs = []
    for s in seeds:
        env = dict(os.environ, PYTHONHASHSEED=s)
        procs.append(subprocess.Popen([sys.executable, "-c", _WORKER, str(Path(__file__).resolve().parent), str(C.REPO), str(p)],
                                      stdout=subprocess.PIPE, stderr=subprocess.PIPE, text=True, env=env))
    for s, pr in zip(seeds, procs):
        out, err = pr.communicate(timeout=600)
        if pr.returncode != 0:
            raise RuntimeError(f"hash worker failed: {err[-1500:]}")
        there = json.loads(out.strip().split("\n")[-1])
        ctx.count("process:PYTHONHASHSEED=" + s)
        for v, a, b in zip(vals, here, there):
            ctx.case(dict(proc=s, val=v)); ctx.traces_validated += 1
            # the property speaks about tokenizers (MazeTokenizerModular): name, hash(), hash_int(), hash_b64().
            # hash() of a bare _TokenizerElement (5th entry) is only OBSERVED: on the unchanged tree it is the
            # dataclass-generated field hash (frozen=True, eq=True re-generates __hash__ in every subclass and shadows
            # _TokenizerElement.__hash__), hence PYTHONHASHSEED-dependent.
            if a[4] != b[4]: elem_unstable += 1
            if a[:4] != b[:4]:
                ctx.violate(f"name/hash of the same tokenizer differ between processes (PYTHONHASHSEED={os.environ.get('PYTHONHASHSEED')} vs {s}): "
                            f"{a[:4]} vs {b[:4]}", dict(kind="hash-unstable", val=v, here=a, there=b, seed=s))
                return
    ctx.extra["observed_element_hash_differs_between_processes"] = elem_unstable


def _zanj(ctx, toks):
    from zanj import ZANJ
    n = 8 if ctx.quick else 60
    picks = toks[:3] + [toks[ctx.rng.randrange(len(toks))] for _ in range(n - 3)]
    d = ctx.workdir / "zanj"
    d.mkdir(exist_ok=True)
    z = ZANJ()
    for i, t in enumerate(picks):
        path = str(d / f"mmt.{i}.zanj")
        ctx.case(dict(zanj=to_val(t))); ctx.count("zanj-file")
        try:
            z.save(t, path)
            back = z.read(path)
        except Exception as e:
            ctx.violate(f"ZANJ save/read raises {type(e).__name__}: {e} for {t.name}", dict(kind="zanj-raises", val=to_val(t))); return
        if to_val(back) != to_val(t) or back.name != t.name or not (back == t) or hash(back) != hash(t):
            ctx.violate(f"ZANJ save/read changes {t.name} into {getattr(back, 'name', back)}", dict(kind="zanj", val=to_val(t))); return


# ------------------------------------------------------------------------------------------- thorough tier
def _full(ctx):
    """the whole get_all_tokenizers() list: a test over all 5,878,656 configurations (not a theorem)"""
    mt, at, utils = _mods()
    toks = at.get_all_tokenizers()
    n0 = len(toks)
    # the library's own consumers of the enumeration (the test sampler) run in between: the enumeration must still be the same afterwards
    try:
        at.sample_tokenizers_for_test(3); at.sample_tokenizers_for_test(None) if False else None
    except Exception as e:
        ctx.notes.append(f"sample_tokenizers_for_test raised {type(e).__name__}")
    toks = at.get_all_tokenizers()
    n = len(toks)
    if n != n0:
        ctx.violate(f"get_all_tokenizers() returned {n0} tokenizers, and {n} after sample_tokenizers_for_test(3) had been called in between", dict(kind="size-full", n=n, before=n0)); return
    ctx.case(dict(full=n)); ctx.count("full-enumeration")
    ctx.extra["full_enumeration_count"] = n
    if n != EXPECTED_TOTAL:
        ctx.violate(f"get_all_tokenizers() returns {n} tokenizers, the property states {EXPECTED_TOTAL}", dict(kind="size-full", n=n)); return
    names = [t.name for t in toks]
    if len(set(names)) != n:
        seen = {}
        for i, nm in enumerate(names):
            if nm in seen:
                same = to_val(toks[i]) == to_val(toks[seen[nm]])
                ctx.violate(("the same configuration is enumerated twice: " if same else "two distinct tokenizers share the name ") + nm,
                            dict(kind="duplicate-full" if same else "name-collision-full", i=seen[nm], j=i, a=to_val(toks[seen[nm]]), b=to_val(toks[i]))); return
            seen[nm] = i
    hs = {}
    for i, t in enumerate(toks):
        h = hash(t)
        if h in hs:
            ctx.violate(f"two distinct tokenizers share hash() {h}: {names[hs[h]]} / {names[i]}",
                        dict(kind="hash-collision-full", a=to_val(toks[hs[h]]), b=to_val(toks[i]))); return
        hs[h] = i
    ctx.extra["full_distinct_names"] = n; ctx.extra["full_distinct_hashes"] = len(hs)
    del hs
    acc = 0
    for nm in names:
        b = nm.encode()
        acc = (acc * 1000003 + len(b) * 1048576 + sum(b)) % P61
    idx = sorted(ctx.rng.randrange(n) for _ in range(20000))
    m = ctx.driver.run([dict(op="C15.enum", cls="MazeTokenizerModular", prefix=0, fp=True, idx=idx)], timeout=3600)[0]
    ctx.traces_validated += 1
    if m.get("fp") != acc or m.get("count") != n:
        ctx.disagree(f"full enumeration: order fingerprint / count differ (model {m.get('fp')}/{m.get('count')}, real {acc}/{n})", dict(kind="fp"))
    for a in m.get("at", []):
        ctx.case(dict(full_at=a["i"])); ctx.traces_validated += 1
        if to_val(toks[a["i"]]) != a["val"] or names[a["i"]] != a["name"]:
            ctx.disagree(f"full enumeration: #{a['i']} is {names[a['i']]!r}, model says {a['name']!r}", dict(kind="full-at", i=a["i"])); break
    legacy_names = {mt.MazeTokenizerModular.from_legacy(md).name for md in mt.TokenizationMode}
    leg = [t for t, nm in zip(toks, names) if nm in legacy_names]
    others = [toks[ctx.rng.randrange(n)] for _ in range(20000)]
    n_leg = sum(1 for t in leg if t.is_legacy_equivalent())
    bad = [t for t in others if t.is_legacy_equivalent() and t.name not in legacy_names]
    ctx.extra["full_legacy_equivalent"] = n_leg
    if n_leg != 2 or len(leg) != 2 or bad:
        ctx.violate(f"{n_leg} enumerated tokenizers (of {len(leg)} images) report legacy equivalence, expected exactly 2; stray: {[t.name for t in bad[:2]]}",
                    dict(kind="legacy-count", n=n_leg))
    for t in others[:3000]:
        if not t.is_valid():
            ctx.violate(f"enumerated tokenizer is invalid: {t.name}", dict(kind="invalid-enumerated-full", val=to_val(t))); break
    ctx.exhaustive = True


# ------------------------------------------------------------------------------------------------ entry points
_HIER_CHILD = r"""
import sys, json, warnings, dataclasses
warnings.filterwarnings("ignore")
sys.path.insert(0, sys.argv[1])
from muutils.json_serialize import serializable_dataclass, serializable_field
from maze_dataset.tokenization import maze_tokenizer as mt
from maze_dataset.tokenization.all_tokenizers import MAZE_TOKENIZER_MODULAR_DEFAULT_VALIDATION_FUNCS as V
from maze_dataset.utils import all_instances
from maze_dataset.tokenization.maze_tokenizer import mark_as_unsupported
import itertools
Base = mt.CoordTokenizers._CoordTokenizer
def oracle():
    # independent of all_instances: concrete subclasses as they are NOW, every combination of their boolean fields, kept when valid
    out, todo = 0, list(Base.__subclasses__())
    while todo:
        c = todo.pop(); todo += c.__subclasses__()
        if getattr(c, "__abstractmethods__", None): continue
        fs = [f for f in dataclasses.fields(c) if f.init and f.name != "_type_"]      # `_type_` is the class tag every element carries
        if any(f.type not in (bool, "bool") for f in fs): return None
        for vals in itertools.product([True, False], repeat=len(fs)):
            try:
                if c(**{f.name: v for f, v in zip(fs, vals)}).is_valid(): out += 1
            except Exception: pass
    return out
def enum(): return len(list(all_instances(Base, V)))
res = dict(steps=[])
res["steps"].append(["shipped hierarchy", enum(), oracle()])
@serializable_dataclass(frozen=True, kw_only=True)
class VerifProbeCoord(Base):
    post: bool = serializable_field(default=False)
    def to_tokens(self, coord): return [str(coord[0]), str(coord[1]), *((")",) if self.post else ())]
res["steps"].append(["after a new coordinate-tokenizer class with one boolean field was defined", enum(), oracle()])
mark_as_unsupported(lambda self_: False)(VerifProbeCoord)
res["steps"].append(["after that class was marked unsupported", enum(), oracle()])
print(json.dumps(res))
"""


def _hierarchy_history(ctx):
    """`all_instances(cls, validation_funcs)` enumerates the element hierarchy AS IT IS: in a fresh interpreter, enumerate the coordinate
    tokenizers, define one more element class, enumerate again, mark it unsupported, enumerate again — each time against an oracle that
    walks `__subclasses__()` itself. (Own process: the probe class must not leak into the rest of the check.)"""
    import subprocess, common as C
    try:
        p = subprocess.run([sys.executable, "-c", _HIER_CHILD, str(C.REPO)], capture_output=True, text=True, timeout=600)
        res = json.loads(p.stdout.strip().split("\n")[-1])
    except Exception as e:
        ctx.notes.append(f"hierarchy-history probe did not run: {type(e).__name__}: {str(e)[:100]}"); return
    for label, got, want in res["steps"]:
        ctx.case(["hierarchy-history", label]); ctx.count("hierarchy_history_steps")
        if want is not None and got != want:
            ctx.violate(f"all_instances(CoordTokenizers._CoordTokenizer, default validation) yields {got} configurations {label}; "
                        f"walking the class hierarchy as it is now gives {want} valid ones (history: {[s[0] for s in res['steps']]})",
                        dict(kind="hierarchy_history", steps=res["steps"])); return


def _element_copies(ctx):
    """tokenizers assembled from an element that came back from an ELEMENT-level copy / load (copy.deepcopy(tok.prompt_sequencer),
    type(ps).load(ps.serialize())): whatever such an object is, name and hashes must tell exactly what == tells — two objects that are
    not equal must not share a name or a stable hash, two that are equal must share them."""
    import copy
    mt, at, utils = _mods()
    toks = [mt.MazeTokenizerModular()] + [mt.MazeTokenizerModular.from_legacy(m) for m in mt.TokenizationMode]
    for tok in toks:
        ps = tok.prompt_sequencer
        variants = [("tokenizer built directly", tok)]
        for label, mk in (("prompt sequencer deep-copied on its own", lambda: copy.deepcopy(ps)), ("prompt sequencer loaded on its own", lambda: type(ps).load(ps.serialize()))):
            try: variants.append((label, mt.MazeTokenizerModular(prompt_sequencer=mk())))
            except Exception: pass
        try: variants.append(("tokenizer loaded", mt.MazeTokenizerModular.load(tok.serialize())))
        except Exception: pass
        for (la, a), (lb, b) in itertools.combinations(variants, 2):
            ctx.case(["element-copies", tok.name[:40], la, lb]); ctx.count("element_copy_pairs")
            try:
                eq = bool(a == b); same = (a.name == b.name, a.hash_int() == b.hash_int(), hash(a) == hash(b))
            except Exception as e:
                continue
            if eq and not all(same) or (not eq and (same[0] or same[1])):
                ctx.violate(f"{la} and {lb} of {tok.name[:80]}: == says {eq}, but equal name / equal hash_int / equal hash() = {same}",
                            dict(kind="element_copies", tokenizer=tok.name, a=la, b=lb, eq=eq, same=list(same))); return


def run(ctx):
    warnings.filterwarnings("ignore")
    tables = _classes(ctx)
    _enumeration(ctx, tables)
    toks = _sampled(ctx, tables)
    _processes(ctx, toks)
    _zanj(ctx, toks)
    _hierarchy_history(ctx)
    _element_copies(ctx)
    if not ctx.quick:
        _full(ctx)
    ctx.notes.append("hash distinctness over the whole space is a TEST (thorough tier, exhaustive over the real objects), not a theorem; "
                     "name injectivity is proved at token level only")


def search(ctx):
    """oracle-only exploration of the real code (no driver): every small class completely against the independent raw
    enumeration, then sampled tokenizers; stops at the first violation"""
    warnings.filterwarnings("ignore")
    mt, at, utils = _mods()
    V = at.MAZE_TOKENIZER_MODULAR_DEFAULT_VALIDATION_FUNCS
    types_ = []
    def walk(c):
        types_.append(c)
        for s in c.__subclasses__(): walk(s)
    for s in mt._TokenizerElement.__subclasses__(): walk(s)
    types_.append(mt.StepTokenizers.StepTokenizerPermutation)
    sizes = {}
    for t in types_:
        q = getattr(t, "__qualname__", "StepTokenizers.StepTokenizerPermutation")
        if oracle_raw_count(t) > RAW_LIMIT: continue
        real = list(utils.all_instances(t, V))
        sizes[q] = len(real)
        _check_class(ctx, q, dict(count=len(real)), real, True, oracle_raw(t), V.get(t) if not isinstance(t, type) else None)
        ctx.disagreements.clear()
        if ctx.violations: return
    try:
        c, a, tg, p = (sizes["CoordTokenizers._CoordTokenizer"], sizes["AdjListTokenizers._AdjListTokenizer"],
                       sizes["TargetTokenizers._TargetTokenizer"], sizes["PathTokenizers._PathTokenizer"])
        if c * a * tg * p + c * a * p != EXPECTED_TOTAL:
            ctx.violate(f"the tokenizer space has {c*a*tg*p + c*a*p} configurations (coord {c} x adj {a} x (target {tg} + 1) x path {p}), "
                        f"not {EXPECTED_TOTAL}", dict(kind="size", factors=sizes)); return
    except KeyError:
        pass
    legacy_keys = {json.dumps(to_val(mt.MazeTokenizerModular.from_legacy(m)), sort_keys=True) for m in mt.TokenizationMode}
    raws, valids = {}, {}
    for i in range(3000 if ctx.quick else 30000):
        t = _random_raw(ctx, raws) if i % 2 else _random_valid(ctx, valids)
        _check_tokenizer(ctx, t, dict(error="search"), legacy_keys, "search")
        ctx.disagreements.clear()
        if ctx.violations: return
    # nothing found on samples: the whole enumeration (all 5,878,656 real objects: count, names, hashes, legacy images) — minutes, several GB
    try:
        _full(ctx)
    except MemoryError:
        ctx.notes.append("full enumeration skipped: not enough memory")
    ctx.disagreements.clear()


def replay(ctx, rp):
    """re-run one recorded case against the real code"""
    warnings.filterwarnings("ignore")
    mt, at, utils = _mods()
    V = at.MAZE_TOKENIZER_MODULAR_DEFAULT_VALIDATION_FUNCS
    case = rp.get("case", rp)
    kind = case.get("kind", "")
    if "cls" in case:
        q = case["cls"]
        t = py_type(q)
        real = list(utils.all_instances(t, V)) if oracle_raw_count(t) <= 10 ** 6 else list(itertools.islice(utils.all_instances(t, V), 3000))
        raw = oracle_raw(t) if oracle_raw_count(t) <= RAW_LIMIT else None
        _check_class(ctx, q, dict(count=len(real)), real, raw is not None, raw, V.get(t) if not isinstance(t, type) else None)
        ctx.disagreements.clear()
    elif kind.startswith("size") or kind in ("legacy-image", "legacy-invalid", "legacy-object", "legacy-count", "default"):
        tables = _classes(ctx)
        _enumeration(ctx, tables)
        _sampled(ctx, tables)
    elif kind.startswith("hash-unstable"):
        _processes(ctx, [from_val(case["val"])])
    elif kind.startswith("zanj"):
        _zanj(ctx, [from_val(case["val"])] * 3)
    elif "val" in case:
        legacy_keys = {json.dumps(to_val(mt.MazeTokenizerModular.from_legacy(m)), sort_keys=True) for m in mt.TokenizationMode}
        tok = from_val(case["val"])
        m = ctx.driver.run([dict(op="C15.value", cls="MazeTokenizerModular", val=case["val"])])[0]
        _check_tokenizer(ctx, tok, m, legacy_keys, "replay")
    elif "a" in case and "b" in case:
        a, b = from_val(case["a"]), from_val(case["b"])
        if to_val(a) != to_val(b) and (the_name(a) == the_name(b)):
            ctx.violate(f"two distinct configurations share the name {the_name(a)!r}", case)
        if to_val(a) != to_val(b) and not isinstance(a, tuple) and hash(a) == hash(b):
            ctx.violate(f"two distinct configurations share hash {hash(a)}", case)
    else:
        run(ctx)
