"""C19 — Wilson's generator samples spanning trees uniformly.

Theorems (Props/C19.lean) are about the step machine `MZ.WStep` with every draw uniform on its range. This harness ties
that machine to the real `gen_wilson`:
  1. trace replay: real runs under an RNG tap; the machine must consume exactly the recorded draws, each draw's RANGE
     must equal the machine's `arity` of the state (that is the "uniform on its range" hypothesis of the theorems: the
     code calls np.random.choice(k) / np.random.randint with exactly the model's k, no weights), and the returned
     connection bits must match bit for bit; the nested-loop model of C01 must agree with the step machine too;
  2. exact law of the IMPLEMENTATION on tiny grids: the real function is executed on every scripted draw sequence in
     order of decreasing probability (best first); completed runs give exact lower bounds lo[T] on the probability of
     each output, the unexplored mass U an exact upper bound lo[T]+U. Uniformity requires lo[T] <= 1/N <= lo[T]+U.
     Sound (no statistics): an alarm here is an exact refutation under "draws uniform and independent";
  3. exact law of the MODEL from the compiled driver (same executable definitions the tables in C19Tables.lean evaluate;
     for 2x5/5x2 the key-once iteration `lawK` that C19Table25.lean evaluates);
  4. frequencies of the real generator under the real numpy RNG (many seeds, 16 processes) against the proven uniform
     law by a chi-square test with rejection threshold p < 1e-9 — a failing-input SEARCH (replay = seeds + histogram),
     never the proof; plus: every sampled maze is a spanning tree and every spanning tree of the small grid appears."""
from __future__ import annotations
import heapq, itertools, math, os, warnings
from fractions import Fraction
import numpy as np
import gens

RULE = ("(1) real gen_wilson runs on shapes 1x1..7x7 (oblong, 1xk) under the tap, non-trivial = at least one walk with a loop erasure "
        "or >= 4 draws; distinct = distinct draw sequence; (2) best-first enumeration of scripted draw sequences of the real "
        "function on 2x2, 2x3, 3x2 (and 1x3, 3x1, 2x1): distinct = distinct script; (4) seeds derived from VERIF_SEED; later additions: scripted walks of 70*(rows*cols)^2 steps, caller-edited get_neighbors_in_bounds results, one shape array changed in place over a sweep of tabled grids (a sweep that does not return within 200000 random draws is a failing input), 2x5 / 5x2 in the thorough tier")
ASSUMPTIONS = ["numpy's global RNG delivers independent draws, uniform on the requested range (the RNG's own law is assumed; the check "
               "verifies that the code requests exactly the ranges the model's `arity` says, with no weights)",
               "uniformity is proved for the 2x2, 2x3, 3x2, 3x3, 2x4, 4x2, 2x5, 5x2 grids (up to 1e-9, for every number of draws from n0 on); larger grids are "
               "Wilson's theorem, not mechanised (C19_full stays unproved; C19_full_partial / C19_full_partial8 is the claim)"]
TRUSTED = ["Lean.ofReduceBool / Lean.trustCompiler (native_decide) for the eight probability tables in Props/C19Tables.lean, Props/C19Table33.lean, "
           "Props/C19Table24.lean and Props/C19Table25.lean, and only there", "the scripted/recording shims on numpy.random.choice / numpy.random.randint"]
SMALL = {(2, 2): 4, (2, 3): 15, (3, 2): 15, (3, 3): 192, (2, 4): 56, (4, 2): 56, (2, 5): 209, (5, 2): 209}


class NeedDraw(Exception):
    def __init__(self, arity): self.arity = arity


class TooManyDraws(Exception):
    pass


DRAW_CAP = 200_000   # a real gen_wilson run on the grids used here needs a few hundred draws


class WTap:
    """records (and optionally scripts) every numpy-global draw gen_wilson makes: value, range, weights, call kind"""
    def __init__(self, script=None, then_random=None):
        self.script = list(script) if script is not None else None
        self.then_random = then_random        # a random.Random: once the script is used up, continue with its draws
        self.draws, self.ranges, self.notes = [], [], []

    def _scripted(self, n):
        if not self.script:
            if self.then_random is not None: return self.then_random.randrange(n)
            raise NeedDraw(n)
        k = self.script.pop(0)
        if k >= n: raise NeedDraw(-1)
        return k

    def __enter__(self):
        import maze_dataset.generation.generators as G
        self.G = G
        self.orig = dict(randint=np.random.randint, choice=np.random.choice, rand=np.random.rand, pr=G.random, nrng=G.numpy_rng)
        tap = self

        def randint(low, high=None, size=None, **kw):
            lo = np.broadcast_to(np.asarray(low), np.shape(np.empty(size if size is not None else ())))
            hi = np.broadcast_to(np.asarray(high if high is not None else low), lo.shape)
            if high is None: lo = np.zeros_like(hi)
            if tap.script is not None:
                vals = [int(l) + tap._scripted(int(h) - int(l)) for l, h in zip(lo.ravel(), hi.ravel())]
                v = np.array(vals).reshape(lo.shape) if size is not None else vals[0]
            else:
                v = tap.orig["randint"](low, high, size=size, **kw)
                vals = [int(x) for x in np.asarray(v).ravel()]
            for x, l, h in zip(vals, lo.ravel(), hi.ravel()):
                tap.draws.append(int(x) - int(l)); tap.ranges.append(int(h) - int(l))
            if kw: tap.notes.append(f"randint kwargs {sorted(kw)}")
            return v

        def choice(a, size=None, replace=True, p=None):
            n = int(a) if np.isscalar(a) or np.ndim(a) == 0 else len(a)
            if p is not None: tap.notes.append(f"np.random.choice called with weights p={np.asarray(p).tolist()}")
            if size is not None: tap.notes.append(f"np.random.choice called with size={size}")
            if tap.script is not None:
                k = tap._scripted(n)
                v = k if (np.isscalar(a) or np.ndim(a) == 0) else a[k]
            else:
                v = tap.orig["choice"](a, size=size, replace=replace, p=p)
                k = int(v) if (np.isscalar(a) or np.ndim(a) == 0) else None
            tap.draws.append(k if k is not None else -1); tap.ranges.append(n)
            if len(tap.draws) > DRAW_CAP: raise TooManyDraws(f"more than {DRAW_CAP} draws")
            return v

        class Foreign:
            """any other RNG the generator might reach for: recorded as a note, delegated"""
            def __init__(s, name, target): s._n, s._t = name, target
            def __getattr__(s, attr):
                tap.notes.append(f"draw from a generator the model does not know: {s._n}.{attr}")
                return getattr(s._t, attr)
        np.random.randint, np.random.choice = randint, choice
        # any other draw from numpy's global generator is a draw the model does not know
        self.other = {}
        for name in ("rand", "randn", "random", "random_sample", "uniform", "shuffle", "permutation", "random_integers", "normal", "bytes"):
            if hasattr(np.random, name):
                f0 = getattr(np.random, name); self.other[name] = f0
                def mk(name, f0):
                    def g(*a, **k):
                        tap.notes.append(f"draw from numpy's global generator through np.random.{name}, which the model does not know")
                        return f0(*a, **k)
                    return g
                setattr(np.random, name, mk(name, f0))
        G.random = Foreign("random", self.orig["pr"]); G.numpy_rng = Foreign("numpy_rng", self.orig["nrng"])
        return self

    def __exit__(self, *a):
        np.random.randint, np.random.choice = self.orig["randint"], self.orig["choice"]
        for name, f0 in getattr(self, "other", {}).items(): setattr(np.random, name, f0)
        self.G.random, self.G.numpy_rng = self.orig["pr"], self.orig["nrng"]


def run_wilson(rows, cols, script=None, want_state=False):
    from maze_dataset.generation.generators import LatticeMazeGenerators as LG
    warnings.filterwarnings("ignore")
    with WTap(script) as t:
        try:
            m = LG.gen_wilson(np.array([rows, cols]))
        except NeedDraw as e:
            if want_state:
                t.state = impl_state(e.__traceback__, rows, cols)
            return None, t, e.arity
    return m, t, None


def long_walk_script(rows, cols, bounces):
    """draws that make the FIRST walk of gen_wilson bounce `bounces` times between two adjacent unvisited cells before anything
    else happens (a legal, if unlucky, execution: every draw is within its range). Start cell (0,0); needs >= 3 cells in a line."""
    from maze_dataset.generation.generators import get_neighbors_in_bounds
    shape = np.array([rows, cols])
    cells = [(i, j) for i in range(rows) for j in range(cols) if (i, j) != (0, 0)]     # np.where(~visited) order, start (0,0) visited
    # two adjacent unvisited cells, neither adjacent to ... (any pair works: the walk only ends on a visited cell)
    a = (rows - 1, cols - 1); b = (rows - 1, cols - 2) if cols >= 2 and (rows - 1, cols - 2) != (0, 0) else (rows - 2, cols - 1)
    if b == (0, 0) or min(b) < 0: return None
    def idx(frm, to):
        nb = [tuple(int(x) for x in r) for r in get_neighbors_in_bounds(np.array(frm), shape)]
        return nb.index(to)
    script = [0, 0, cells.index(a)]
    cur = a
    for _ in range(bounces):
        nxt = b if cur == a else a
        script.append(idx(cur, nxt)); cur = nxt
    return script


def impl_state(tb, rows, cols):
    """the live state of the REAL gen_wilson at the moment it asks for its next draw, read from its frame:
    (visited mask, connection mask, current walk as cell indices - empty between walks)"""
    fr = None
    while tb is not None:
        if tb.tb_frame.f_code.co_name == "gen_wilson": fr = tb.tb_frame
        tb = tb.tb_next
    if fr is None: return None
    L = fr.f_locals
    try:
        visited, cl, path = L["visited"], L["connection_list"], L.get("path")
        vis = sum(1 << (int(i) * cols + int(j)) for i, j in zip(*np.nonzero(visited)))
        edges = mask_of(rows, cols, gens.edges_of(cl))
        p = [int(x[0]) * cols + int(x[1]) for x in path] if path is not None else []
        if p and visited[int(path[-1][0]), int(path[-1][1])]: p = []   # stale walk of the previous round
        return [vis, edges, p]
    except Exception:
        return None


def mask_of(rows, cols, edges):
    return sum(1 << (d * rows * cols + i * cols + j) for d, i, j in edges)


# ------------------------------------------------------------------------------------------------------ statistics ----

def chi2_sf(x, k):
    """upper tail of the chi-square distribution with k degrees of freedom (regularised incomplete gamma Q(k/2, x/2))"""
    a, x = k / 2.0, x / 2.0
    if x <= 0: return 1.0
    if x < a + 1:   # series for P
        ap, s, d = a, 1.0 / a, 1.0 / a
        for _ in range(100000):
            ap += 1; d *= x / ap; s += d
            if abs(d) < abs(s) * 1e-16: break
        return max(0.0, 1.0 - s * math.exp(-x + a * math.log(x) - math.lgamma(a)))
    b, c, d = x + 1 - a, 1e300, 1.0 / (x + 1 - a)   # continued fraction for Q
    h = d
    for i in range(1, 100000):
        an = -i * (i - a); b += 2
        d = an * d + b; d = 1e-300 if abs(d) < 1e-300 else d
        c = b + an / c; c = 1e-300 if abs(c) < 1e-300 else c
        d = 1.0 / d; dl = d * c; h *= dl
        if abs(dl - 1) < 1e-16: break
    return math.exp(-x + a * math.log(x) - math.lgamma(a)) * h


def _sample_worker(args):
    rows, cols, seed, n = args
    import sys
    from maze_dataset.generation.generators import LatticeMazeGenerators as LG
    warnings.filterwarnings("ignore")
    np.random.seed(seed)
    hist = {}
    for _ in range(n):
        m = LG.gen_wilson(np.array([rows, cols]))
        k = mask_of(rows, cols, gens.edges_of(m.connection_list))
        hist[k] = hist.get(k, 0) + 1
    return hist


def sample_hist(ctx, rows, cols, total, jobs=16):
    from concurrent.futures import ProcessPoolExecutor
    seeds = [ctx.rng.randrange(2**32) for _ in range(jobs)]
    per = (total + jobs - 1) // jobs
    hist = {}
    with ProcessPoolExecutor(jobs) as ex:
        for h in ex.map(_sample_worker, [(rows, cols, s, per) for s in seeds]):
            for k, v in h.items(): hist[k] = hist.get(k, 0) + v
    return hist, seeds, per * jobs


def judge_hist(ctx, rows, cols, hist, seeds, total, spanning_masks, where):
    """chi-square against the proven uniform law; returns True if a violation was recorded"""
    N = len(spanning_masks)
    case = dict(rows=rows, cols=cols, seeds=seeds, samples=total, histogram={str(k): v for k, v in sorted(hist.items())})
    alien = [k for k in hist if k not in spanning_masks]
    if alien:
        ctx.violate(f"{where}: gen_wilson {rows}x{cols} returned a maze that is not a spanning tree (mask {alien[0]})", case); return True
    missing = [k for k in spanning_masks if k not in hist]
    # P(miss a given tree) = (1-1/N)^total; alarm only if that is below 1e-12 for the union
    if missing and N * (1 - 1 / N) ** total < 1e-12:
        ctx.violate(f"{where}: {len(missing)} of the {N} spanning trees of the {rows}x{cols} grid never appeared in {total} draws (e.g. mask {missing[0]})", case); return True
    exp = total / N
    x2 = sum((hist.get(k, 0) - exp) ** 2 / exp for k in spanning_masks)
    p = chi2_sf(x2, N - 1)
    ctx.extra.setdefault("chi_square", []).append(dict(grid=f"{rows}x{cols}", samples=total, trees=N, chi2=round(x2, 3), p=p, where=where))
    if p < 1e-9:
        ctx.violate(f"{where}: frequencies of gen_wilson on {rows}x{cols} over {total} draws reject the uniform law: chi2={x2:.1f} on {N-1} dof, p={p:.3g} "
                    f"(min/max count {min(hist.get(k,0) for k in spanning_masks)}/{max(hist.values())}, expected {exp:.1f})", case); return True
    return False


# ---------------------------------------------------------------------------------- exact law of the implementation ----

def exact_impl_law(ctx, rows, cols, budget):
    """best-first exploration of scripted draw sequences of the REAL gen_wilson: exact lo[T], unexplored mass U"""
    lo, finished_scripts = {}, []
    heap = [(-Fraction(1), 0, [])]
    tick, runs, U, weights_ok = 0, 0, Fraction(0), True
    while heap:
        if runs >= budget: break
        negw, _, script = heapq.heappop(heap)
        w = -negw
        m, t, need = run_wilson(rows, cols, script)
        runs += 1
        if t.notes: weights_ok = False
        if m is None:
            if need <= 0:
                continue
            for k in range(need):
                tick += 1
                heapq.heappush(heap, (-(w / need), tick, script + [k]))
        else:
            e = gens.edges_of(m.connection_list)
            T = mask_of(rows, cols, e)
            lo[T] = lo.get(T, Fraction(0)) + w
            finished_scripts.append((script, e, list(t.ranges)))
    U = sum((-x[0] for x in heap), Fraction(0))
    return lo, U, finished_scripts, runs, weights_ok


def spanning_masks_py(rows, cols):
    slots = [(0, i, j) for i in range(rows - 1) for j in range(cols)] + [(1, i, j) for i in range(rows) for j in range(cols - 1)]
    out = []
    for comb in itertools.combinations(slots, rows * cols - 1):
        if gens.spanning_tree(rows, cols, list(comb)) is None:
            out.append(mask_of(rows, cols, comb))
    return sorted(out)


# ------------------------------------------------------------------------- exhaustive state-space correspondence ----

def _bisim_worker(args):
    rows, cols, script = args
    m, t, need = run_wilson(rows, cols, script, want_state=True)
    if m is None:
        return dict(fin=False, state=getattr(t, "state", None), need=need, ranges=t.ranges, notes=t.notes)
    e = gens.edges_of(m.connection_list)
    return dict(fin=True, state=[(1 << (rows * cols)) - 1, mask_of(rows, cols, e), []], need=0, ranges=t.ranges, notes=t.notes,
                tree=gens.spanning_tree(rows, cols, e))


def bisim(ctx, rows, cols, pool, limit=10**9):
    """Every reachable state of the chain on this grid: the REAL function is brought into the state by a scripted draw
    prefix, every possible next draw is applied, and range + successor state are compared with the model's arity/next."""
    st = ctx.driver.run([dict(op="C19.starts", rows=rows, cols=cols)])[0]
    frontier, seen, n_trans, bad = {}, set(), 0, []
    scripts0 = [[a, b] for a in range(st["ranges"][0]) for b in range(st["ranges"][1])]
    res0 = list(pool.map(_bisim_worker, [(rows, cols, sc) for sc in scripts0]))
    if rows * cols > 1 and any((not r["fin"]) and r["state"] is None for r in res0):
        # the live state is read from gen_wilson's frame (locals visited / connection_list / path); if a rewrite renamed them the
        # state is not observable: that is not evidence of anything, the tapped-run replay remains the tie
        return dict(grid=f"{rows}x{cols}", states=0, transitions=0, complete=False, unavailable=True), []
    for sc, ms, r in zip(scripts0, st["starts"], res0):
        want = [ms["vis"], ms["edges"], ms["path"]]
        if r["notes"]: bad.append("; ".join(r["notes"][:2]))
        if r["ranges"][:2] != st["ranges"]: bad.append(f"start draw ranges {r['ranges'][:2]} != model {st['ranges']}")
        if r["fin"]:
            if rows * cols != 1: bad.append(f"start {sc}: implementation finished at once")
            continue
        if r["state"] != want: bad.append(f"start {sc}: implementation state {r['state']} != model start state {want}")
        key = (want[0], want[1], tuple(want[2]))
        if key not in seen: seen.add(key); frontier[key] = (sc, r["need"])
    while frontier and not bad and len(seen) < limit:
        jobs = [(key, sc + [k], k) for key, (sc, ar) in frontier.items() for k in range(ar)]
        res = list(pool.map(_bisim_worker, [(rows, cols, sc) for _, sc, _ in jobs], chunksize=64))
        rep = ctx.driver.run_parallel([dict(op="C19.next", rows=rows, cols=cols, vis=key[0], edges=key[1], path=list(key[2]), k=k) for key, _, k in jobs])
        newf = {}
        arity_of = {key: ar for key, (sc, ar) in frontier.items()}
        for (key, sc, k), r, o in zip(jobs, res, rep):
            n_trans += 1
            ctx.case([rows, cols, "state", key[0], key[1], list(key[2]), k], nontrivial=True)
            if "error" in o: bad.append(f"driver error {o['error']}"); break
            if r["notes"]: bad.append("; ".join(r["notes"][:2])); break
            if o["arity"] != arity_of[key]:
                bad.append(f"state vis={key[0]:b} edges={key[1]:b} path={list(key[2])}: the implementation draws from a range of {arity_of[key]}, the model's arity is {o['arity']}"); break
            mstate = [o["vis"], o["edges"], o["path"]]
            if r["fin"] != o["finished"] or r["state"] is None or (r["state"] != mstate if not r["fin"] else r["state"][1] != o["edges"]):
                bad.append(f"state vis={key[0]:b} edges={key[1]:b} path={list(key[2])} draw {k}: implementation goes to {r['state']} (finished={r['fin']}), model to {mstate} (finished={o['finished']}); script {sc}"); break
            if r["fin"]:
                if r.get("tree"): ctx.violate(f"gen_wilson {rows}x{cols} on draws {sc} did not return a spanning tree: {r['tree']}", dict(rows=rows, cols=cols, draws=sc))
                continue
            if r["need"] != o["next_arity"]:
                bad.append(f"after script {sc}: next draw range {r['need']} != model arity {o['next_arity']}"); break
            nk = (mstate[0], mstate[1], tuple(mstate[2]))
            if nk not in seen: seen.add(nk); newf[nk] = (sc, r["need"])
        frontier = newf
    return dict(grid=f"{rows}x{cols}", states=len(seen), transitions=n_trans, complete=(not frontier and not bad)), bad


# --------------------------------------------------------------------------------------------------------------- run ----

def check_trace(ctx, rows, cols, e, t, o, what):
    bad = []
    if "error" in o: return [f"driver error {o['error']}"]
    if t.notes: bad.append("; ".join(sorted(set(t.notes))[:3]))
    if not o.get("ok"): bad.append(f"step machine did not accept the recorded draws {t.draws[:40]} (ranges it expects: {o.get('arities', [])[:40]})")
    else:
        if sorted(o["edges"]) != e: bad.append(f"connection bits differ: machine {sorted(o['edges'])} impl {e}")
        if o["leftover"] != 0: bad.append(f"machine left {o['leftover']} recorded draws unused")
        if o["start_ranges"] + o["arities"] != t.ranges:
            bad.append(f"draw ranges differ: machine {o['start_ranges'] + o['arities']} impl {t.ranges} (a draw is not uniform on the range the model assumes)")
        if not o.get("nested_ok") or sorted(o["nested_edges"]) != e: bad.append("the nested-loop model of C01 and the step machine disagree on this run")
    return [f"{what} {rows}x{cols} draws={t.draws[:40]}: {b}" for b in bad]


def run(ctx):
    # ---- 1. trace replay ---------------------------------------------------------------------------------------
    pending = []
    n = 500 if ctx.quick else 20000
    maxn = 7 if ctx.quick else 12
    for i in range(n):
        if i % 5 == 0: r, c = ctx.rng.choice([(1, 1), (1, 2), (2, 1), (1, 5), (4, 1), (2, 2), (2, 3), (3, 2), (3, 3)])
        else: r, c = ctx.rng.randint(2, maxn), ctx.rng.randint(2, maxn)
        np.random.seed(ctx.rng.randrange(2**32))
        try:
            m, t, _ = run_wilson(r, c)
        except TooManyDraws as ex:
            ctx.disagree(f"real gen_wilson on {r}x{c} did not finish within {DRAW_CAP} draws (the machine finishes such grids within a few hundred)", dict(rows=r, cols=c))
            if len(ctx.disagreements) > 3: break
            continue
        e = gens.edges_of(m.connection_list)
        erasures = sum(1 for _ in range(0))  # (erasures are visible to the machine only; counted from its reply below)
        ctx.case([r, c, t.draws], nontrivial=len(t.draws) >= 4)
        ctx.count(f"cells={min(r*c, 64)//8*8}+"); ctx.count(f"draws={min(len(t.draws), 400)//50*50}+")
        bad = gens.spanning_tree(r, c, e)
        if bad: ctx.violate(f"gen_wilson {r}x{c} did not return a spanning tree: {bad}", dict(rows=r, cols=c, draws=t.draws, edges=e))
        pending.append((r, c, e, t, dict(op="C19.run", rows=r, cols=c, draws=t.draws)))
    # the caller's objects: (a) arrays handed out by the public helper get_neighbors_in_bounds are the caller's to edit; (b) ONE shape array
    # object re-used and changed in place between calls (a size sweep). Neither may influence later runs.
    try:
        from maze_dataset.generation.generators import get_neighbors_in_bounds, LatticeMazeGenerators as LG2
        for cell, shp in (((0, 1), (2, 3)), ((1, 1), (3, 3)), ((0, 0), (2, 2)), ((1, 0), (3, 2))):
            nb = get_neighbors_in_bounds(np.array(cell), np.array(shp))
            if len(nb): nb[:] = nb[0]
        shape = np.array([2, 2]); sweep = []
        SWEEP = [(2, 2), (3, 2), (3, 3), (2, 3), (2, 4), (4, 2), (2, 2)]      # every grid of the sweep has an exact table (C19_uniform_RxC)
        for step in range(len(SWEEP)):
            shape[0], shape[1] = SWEEP[step]              # the caller changes its ONE array in place
            sd = ctx.rng.randrange(2**32); np.random.seed(sd); sweep.append([int(shape[0]), int(shape[1]), sd])
            with WTap() as t:
                m = LG2.gen_wilson(shape)
            r, c = int(shape[0]), int(shape[1])
            e = gens.edges_of(m.connection_list)
            ctx.case([r, c, "reused-shape-array", t.draws], nontrivial=True); ctx.count("reused_shape_array_runs")
            bad = gens.spanning_tree(r, c, e)
            if bad or list(m.connection_list.shape) != [2, r, c]:
                ctx.violate(f"gen_wilson called with a shape array that had been changed in place to {r}x{c} (same array object as the previous call) did not return a spanning tree "
                            f"of that grid: {bad or 'wrong array shape ' + str(m.connection_list.shape)}", dict(rows=r, cols=c, draws=t.draws, edges=e))
            pending.append((r, c, e, t, dict(op="C19.run", rows=r, cols=c, draws=t.draws)))
    except TooManyDraws:
        # draws here are genuinely random (numpy seeded, nothing scripted) and every grid of the sweep has an exact table: by C19_uniform_RxC
        # the unfinished mass R n is <= 1e-9 for every n >= n0 (n0 <= 500) and by C19_unfinished_anti it does not grow, so 200000 draws
        # without returning has probability at most 1e-9 under the proven law (the general bound C19_geometric_decay is far too weak to
        # say that). The history is therefore reported as a failing input: the call does not return a sample at all
        ctx.violate(f"gen_wilson did not return within 200000 random draws on a {sweep[-1][0]}x{sweep[-1][1]} grid when called with ONE shape array object that "
                    f"the caller changes in place between calls (a size sweep); calls so far (rows, cols, numpy seed): {sweep}",
                    dict(rows=sweep[-1][0], cols=sweep[-1][1], sweep=sweep, reused_shape_array=True))
    # very long walks (a legal execution however unlikely): any step budget / cap / restart logic shows here
    for (r, c) in [(2, 2), (2, 3), (3, 3), (4, 4), (3, 6)] + ([] if ctx.quick else [(5, 5), (6, 6), (8, 8)]):
        sc = long_walk_script(r, c, 40 * r * c + 7)
        if sc is None: continue
        from maze_dataset.generation.generators import LatticeMazeGenerators as LG
        with WTap(sc, then_random=ctx.rng) as t:
            try:
                m = LG.gen_wilson(np.array([r, c]))
            except TooManyDraws:
                ctx.disagree(f"real gen_wilson on {r}x{c} did not finish after a long scripted walk", dict(rows=r, cols=c)); continue
        e = gens.edges_of(m.connection_list)
        ctx.case([r, c, "long-walk", len(t.draws)], nontrivial=True); ctx.count("long_walk_runs")
        bad = gens.spanning_tree(r, c, e)
        if bad: ctx.violate(f"gen_wilson {r}x{c} after a walk of {len(sc)-3} steps that bounces between two unvisited cells (a legal execution) did not return a spanning tree: {bad}",
                            dict(rows=r, cols=c, draws=t.draws, edges=e))
        pending.append((r, c, e, t, dict(op="C19.run", rows=r, cols=c, draws=t.draws)))
    outs = ctx.driver.run_parallel([p[4] for p in pending])
    for (r, c, e, t, _), o in zip(pending, outs):
        ctx.traces_validated += 1
        for b in check_trace(ctx, r, c, e, t, o, "tapped run"):
            ctx.disagree(b, dict(rows=r, cols=c, draws=t.draws))
        if len(t.draws) > 8: ctx.sample(dict(rows=r, cols=c, draws=t.draws[:30], ranges=t.ranges[:30], edges=e[:10]), limit=3)

    # ---- 2. exact law of the implementation on tiny grids -------------------------------------------------------
    grids = [((2, 2), 3000), ((1, 3), 50), ((2, 1), 20)] if ctx.quick else \
            [((2, 2), 60000), ((2, 3), 150000), ((3, 2), 150000), ((1, 3), 50), ((3, 1), 50), ((2, 1), 20), ((1, 4), 100)]
    exact_rows = []
    pend2 = []
    for (r, c), budget in grids:
        lo, U, fin, runs, weights_ok = exact_impl_law(ctx, r, c, budget)
        span = spanning_masks_py(r, c)
        N = len(span)
        ctx.count(f"scripted_runs_{r}x{c}", runs)
        for script, e, ranges in fin:
            ctx.case([r, c, "script", script], nontrivial=len(script) >= 3)
            tt = WTap(); tt.draws, tt.ranges = list(script), ranges
            pend2.append((r, c, e, tt, dict(op="C19.run", rows=r, cols=c, draws=script)))
        case = dict(rows=r, cols=c, explored_runs=runs, unexplored_mass=str(U), lower_bounds={str(k): str(v) for k, v in sorted(lo.items())})
        exact_rows.append(dict(grid=f"{r}x{c}", trees=N, runs=runs, unexplored=float(U), min_lo=float(min([lo.get(T, 0) for T in span])), max_lo=float(max(lo.values()))))
        for T, v in lo.items():
            if T not in span:
                ctx.violate(f"exact enumeration: gen_wilson {r}x{c} returns mask {T}, not a spanning tree, with probability >= {v}", case); break
        else:
            for T in span:
                l = lo.get(T, Fraction(0))
                if l > Fraction(1, N) or l + U < Fraction(1, N):
                    ctx.violate(f"exact enumeration of the real gen_wilson on {r}x{c} (draws uniform, independent): spanning tree mask {T} has probability in "
                                f"[{float(l):.6f}, {float(l+U):.6f}], which excludes 1/{N} = {1/N:.6f}", dict(case, tree=T)); break
    ctx.extra["exact_implementation_law"] = exact_rows
    outs2 = ctx.driver.run_parallel([p[4] for p in pend2])
    for (r, c, e, t, _), o in zip(pend2, outs2):
        ctx.traces_validated += 1
        for b in check_trace(ctx, r, c, e, t, o, "scripted run"):
            ctx.disagree(b, dict(rows=r, cols=c, draws=t.draws))

    # ---- 2b. exhaustive state-space correspondence: impl transition function = model `next` on every reachable state --
    from concurrent.futures import ProcessPoolExecutor
    bis = []
    with ProcessPoolExecutor(16) as pool:
        for (r, c) in [(1, 1), (1, 2), (2, 1), (1, 3), (3, 1), (2, 2), (2, 3), (3, 2), (1, 5), (3, 3), (2, 4), (4, 2)] + ([] if ctx.quick else [(2, 5), (5, 2)]):
            row, bad = bisim(ctx, r, c, pool)
            bis.append(row); ctx.traces_validated += row["transitions"]
            for b in bad[:3]:
                ctx.disagree(f"state-space correspondence {r}x{c}: {b}", dict(rows=r, cols=c))
    ctx.extra["state_space_correspondence"] = bis
    ctx.exhaustive = all(b["complete"] for b in bis)
    if any(b.get("unavailable") for b in bis):
        ctx.notes.append("state-space correspondence unavailable: gen_wilson's frame no longer exposes visited/connection_list/path; "
                         "falling back to best-first enumeration of scripted runs")
        for (r, c), budget in [((2, 3), 6000), ((3, 2), 6000)]:
            lo, U, fin, runs, _ = exact_impl_law(ctx, r, c, budget)
            span = spanning_masks_py(r, c); N = len(span)
            for T in sorted(set(span) | set(lo)):
                l = lo.get(T, Fraction(0))
                if T not in span or l > Fraction(1, N) or l + U < Fraction(1, N):
                    ctx.violate(f"exact enumeration of the real gen_wilson on {r}x{c}: mask {T} has probability in [{float(l):.6f}, {float(l+U):.6f}]",
                                dict(rows=r, cols=c, tree=T, explored_runs=runs, unexplored_mass=str(U))); break

    # ---- 3. exact law of the model (driver) ---------------------------------------------------------------------
    laws = [(2, 2, 80), (2, 3, 200), (3, 2, 200)] + ([] if ctx.quick else [(3, 3, 300), (2, 4, 500), (4, 2, 500), (2, 5, 500), (5, 2, 500)])
    # 10-cell grids: the key-once iteration (`lawK`), which is what their table theorems evaluate; one driver process per law
    from concurrent.futures import ThreadPoolExecutor
    from common import Driver
    law_drivers = [Driver(ctx.driver.workdir) for _ in laws]
    for k, d in enumerate(law_drivers): d.n = 7000 + 10 * k
    with ThreadPoolExecutor(len(laws)) as ex:
        rep = [o[0] for o in ex.map(lambda a: a[0].run([a[1]]), zip(law_drivers, [dict(op="C19.law", rows=r, cols=c, n=n, fast=(r * c >= 10)) for r, c, n in laws]))]
    model_rows = []
    for (r, c, n0), o in zip(laws, rep):
        if "error" in o:
            ctx.disagree(f"driver could not evaluate the law of {r}x{c}: {o['error']}", dict(rows=r, cols=c)); continue
        N = SMALL[(r, c)]
        ps = {T: Fraction(a, b) for T, (a, b) in o["trees"]}
        U = Fraction(*o["unfinished"])
        eps = Fraction(1, 10**9)
        model_rows.append(dict(grid=f"{r}x{c}", n=n0, trees=len(ps), states=o["states"], unfinished=float(U), min_p=float(min(ps.values())), max_p=float(max(ps.values()))))
        if sorted(ps) != spanning_masks_py(r, c):
            ctx.disagree(f"the model's spanning-tree list of {r}x{c} differs from the independent Python enumeration", dict(rows=r, cols=c))
        if len(ps) != N or U > eps or any(not (Fraction(1, N) - eps <= p <= Fraction(1, N)) for p in ps.values()) or Fraction(*o["other"]) != 0:
            ctx.disagree(f"driver evaluation of the {r}x{c} law at n={n0} contradicts the table theorem", dict(rows=r, cols=c, n=n0))
    ctx.extra["model_law"] = model_rows

    # ---- 4. frequencies of the real generator (search only) -----------------------------------------------------
    total = 24000 if ctx.quick else 2000000
    for (r, c), N in SMALL.items():
        if ctx.quick and r * c >= 10: continue        # the 10-cell grids (209 trees, 0.8 ms per maze) are sampled in the thorough tier only,
        n_samp = total // 4 if r * c >= 10 else total   # 500k draws each (about 2400 per tree)
        hist, seeds, tot = sample_hist(ctx, r, c, n_samp if (r, c) != (3, 3) or not ctx.quick else 48000)
        ctx.count(f"sampled_{r}x{c}", tot)
        judge_hist(ctx, r, c, hist, seeds, tot, spanning_masks_py(r, c), "frequency test")


def impl_chain(rows, cols, pool, max_states=20000):
    """The Markov chain the REAL gen_wilson performs on this grid, explored through its own observed states (frame
    locals at each draw request), without reference to the model: state -> list of successors (one per draw value)."""
    ranges0 = None
    r = _bisim_worker((rows, cols, []))
    # the two start draws: ranges observed by feeding scripts of growing length
    a_rng = r["need"]
    starts, trans, rep_script, fin_mask = [], {}, {}, {}
    if r["fin"]: return None
    firsts = list(pool.map(_bisim_worker, [(rows, cols, [a]) for a in range(a_rng)]))
    scripts = [[a, b] for a, fr in enumerate(firsts) for b in range(fr["need"])]
    res = list(pool.map(_bisim_worker, [(rows, cols, sc) for sc in scripts]))
    frontier = {}
    for sc, x in zip(scripts, res):
        if x["fin"] or x["state"] is None: return None
        k = (x["state"][0], x["state"][1], tuple(x["state"][2]))
        starts.append(k)
        if k not in rep_script: rep_script[k] = sc; frontier[k] = (sc, x["need"])
    while frontier and len(rep_script) < max_states:
        jobs = [(key, sc + [k]) for key, (sc, ar) in frontier.items() for k in range(ar)]
        res = list(pool.map(_bisim_worker, [(rows, cols, sc) for _, sc in jobs], chunksize=64))
        newf = {}
        for (key, sc), x in zip(jobs, res):
            if x["state"] is None: return None
            if x["fin"]:
                trans.setdefault(key, []).append(("fin", x["state"][1])); fin_mask[x["state"][1]] = sc; continue
            nk = (x["state"][0], x["state"][1], tuple(x["state"][2]))
            trans.setdefault(key, []).append(nk)
            if nk not in rep_script: rep_script[nk] = sc; newf[nk] = (sc, x["need"])
        frontier = newf
    if frontier: return None
    return dict(starts=starts, trans=trans, scripts=fin_mask)


def chain_law(chain, steps):
    """absorption probabilities of the chain after `steps` draws (every draw uniform on its range): {mask: p}, unfinished"""
    dist = {}
    for s in chain["starts"]: dist[s] = dist.get(s, 0.0) + 1.0 / len(chain["starts"])
    done = {}
    for _ in range(steps):
        nd = {}
        for s, w in dist.items():
            succ = chain["trans"][s]
            for t in succ:
                if t[0] == "fin": done[t[1]] = done.get(t[1], 0.0) + w / len(succ)
                else: nd[t] = nd.get(t, 0.0) + w / len(succ)
        dist = nd
        if sum(dist.values()) < 1e-12: break
    return done, sum(dist.values())


def search(ctx):
    """(a) the exact law of the implementation's own chain on the small grids; (b) 10x the samples"""
    from concurrent.futures import ProcessPoolExecutor
    with ProcessPoolExecutor(16) as pool:
        for (r, c) in [(2, 2), (2, 3), (3, 2), (3, 3)]:
            span = spanning_masks_py(r, c); N = len(span)
            ch = impl_chain(r, c, pool)
            if ch is None:
                ctx.notes.append(f"search: the implementation's chain on {r}x{c} could not be explored through its frame state"); continue
            law, U = chain_law(ch, 2000)
            ctx.case([r, c, "impl_chain", len(ch["trans"])])
            tol = 1e-7
            for T in sorted(set(span) | set(law)):
                p = law.get(T, 0.0)
                if T not in span and p > tol:
                    ctx.violate(f"exact law of the real gen_wilson on {r}x{c} (its own state chain, {len(ch['trans'])} states, each draw uniform on the range the code requests): "
                                f"it returns mask {T}, which is not a spanning tree, with probability {p:.6f} (draws {ch['scripts'].get(T)})",
                                dict(rows=r, cols=c, tree=T, draws=ch["scripts"].get(T), probability=p)); return
                if T in span and (p > 1 / N + tol or p + U < 1 / N - tol):
                    ctx.violate(f"exact law of the real gen_wilson on {r}x{c} (its own state chain, {len(ch['trans'])} states, each draw uniform on the range the code requests): "
                                f"spanning tree mask {T} is returned with probability in [{p:.7f}, {p+U:.7f}], not 1/{N} = {1/N:.7f}; "
                                f"min/max over all trees {min(law.get(x, 0.0) for x in span):.7f}/{max(law.get(x, 0.0) for x in span):.7f}",
                                dict(rows=r, cols=c, tree=T, chain_states=len(ch["trans"]), probability=p, unfinished=U, example_draws=ch["scripts"].get(T))); return
    for (r, c), N in SMALL.items():
        hist, seeds, tot = sample_hist(ctx, r, c, 200000 if ctx.quick else 4000000)
        if judge_hist(ctx, r, c, hist, seeds, tot, spanning_masks_py(r, c), "search"): return


def replay(ctx, rp):
    c = rp["case"]
    r, cc = c["rows"], c["cols"]
    span = spanning_masks_py(r, cc)
    if c.get("reused_shape_array"):
        from maze_dataset.generation.generators import LatticeMazeGenerators as LG2
        shape = np.array(c["sweep"][0][:2])
        try:
            for (rr, c2, sd) in c["sweep"]:
                shape[0], shape[1] = rr, c2; np.random.seed(sd)
                with WTap() as t:
                    LG2.gen_wilson(shape)
        except TooManyDraws:
            ctx.violate(f"replay: gen_wilson did not return within 200000 random draws on the size sweep {c['sweep']} (one shape array object)", c)
        return
    if "seeds" in c:
        from concurrent.futures import ProcessPoolExecutor
        per = c["samples"] // len(c["seeds"])
        hist = {}
        with ProcessPoolExecutor(16) as ex:
            for h in ex.map(_sample_worker, [(r, cc, s, per) for s in c["seeds"]]):
                for k, v in h.items(): hist[k] = hist.get(k, 0) + v
        judge_hist(ctx, r, cc, hist, c["seeds"], per * len(c["seeds"]), span, "replay")
    elif "chain_states" in c or "probability" in c:
        from concurrent.futures import ProcessPoolExecutor
        with ProcessPoolExecutor(16) as pool:
            ch = impl_chain(r, cc, pool)
        law, U = chain_law(ch, 2000)
        N = len(span); p = law.get(c["tree"], 0.0)
        if (c["tree"] not in span and p > 1e-7) or (c["tree"] in span and (p > 1 / N + 1e-7 or p + U < 1 / N - 1e-7)):
            ctx.violate(f"replay: mask {c['tree']} has probability in [{p:.7f}, {p+U:.7f}] (1/N = {1/N:.7f})", c)
    elif "explored_runs" in c:
        lo, U, fin, runs, _ = exact_impl_law(ctx, r, cc, c["explored_runs"])
        N = len(span)
        for T in set(span) | set(lo):
            l = lo.get(T, Fraction(0))
            if T not in span or l > Fraction(1, N) or l + U < Fraction(1, N):
                ctx.violate(f"replay: mask {T} has probability in [{float(l):.6f}, {float(l+U):.6f}]", c); return
    elif "draws" in c:
        m, t, _ = run_wilson(r, cc, c["draws"])
        if m is not None:
            bad = gens.spanning_tree(r, cc, gens.edges_of(m.connection_list))
            if bad: ctx.violate(f"replay: {bad}", c)
