import MazeVerif.Model.AllInst
import Mathlib.Data.List.Nodup
/-! Lemmas about the `all_instances` model: exact membership (`mem_all`), duplicate-freeness under pairwise-disjoint
alternatives (`nodup_all`), a decidable sufficient check for that side condition (`wfCheck_sound`), and the
product / sum count lemmas. -/
namespace MZ.AI

inductive All2 {α β} (R : α → β → Prop) : List α → List β → Prop
  | nil : All2 R [] []
  | cons {a b as bs} : R a b → All2 R as bs → All2 R (a :: as) (b :: bs)

mutual
/-- `HasTy v T`: `v` is a value of the finite-valued type `T` ALL of whose sub-values pass the validation function
    registered for their node (the semantic specification of `all_instances`). -/
inductive HasTy : Val → Ty → Prop
  | bool (x) : HasTy (.b x) .bool
  | lit {a vals} : a ∈ vals → HasTy (.lit a) (.lit vals)
  | tuple {vs ts} : HasTys vs ts → HasTy (.tup vs) (.tuple ts)
  | union {v p ts} : HasSome v ts → p v = true → HasTy v (.union p ts)
  | data {name p fs fields} : HasTys fs fields → p (.obj name fs) = true → HasTy (.obj name fs) (.data name p fields)
  | abstr {v p subs} : HasSome v subs → p v = true → HasTy v (.abstr p subs)
inductive HasTys : List Val → List Ty → Prop
  | nil : HasTys [] []
  | cons {v vs t ts} : HasTy v t → HasTys vs ts → HasTys (v :: vs) (t :: ts)
inductive HasSome : Val → List Ty → Prop
  | head {v t ts} : HasTy v t → HasSome v (t :: ts)
  | tail {v t ts} : HasSome v ts → HasSome v (t :: ts)
end

theorem mem_product : ∀ {ls : List (List Val)} {xs : List Val},
    xs ∈ product ls ↔ All2 (fun x l => x ∈ l) xs ls
  | [], xs => by
    simp only [product, List.mem_singleton]
    constructor
    · rintro rfl; exact .nil
    · intro h; cases h; rfl
  | l :: ls, xs => by
    simp only [product, List.mem_flatMap, List.mem_map]
    constructor
    · rintro ⟨x, hx, tl, htl, rfl⟩
      exact .cons hx (mem_product.mp htl)
    · intro h
      cases h with
      | cons hx htl => exact ⟨_, hx, _, mem_product.mpr htl, rfl⟩

mutual
theorem mem_all : ∀ (t : Ty) (v : Val), v ∈ allInstances t ↔ HasTy v t
  | .bool, v => by
    simp only [allInstances, List.mem_cons, List.not_mem_nil, or_false]
    constructor
    · rintro (rfl | rfl) <;> exact .bool _
    · intro h; cases h with | bool x => cases x <;> simp
  | .lit vals, v => by
    simp only [allInstances, List.mem_map]
    constructor
    · rintro ⟨s, hs, rfl⟩; exact .lit hs
    · intro h; cases h with | lit hs => exact ⟨_, hs, rfl⟩
  | .tuple ts, v => by
    simp only [allInstances, List.mem_map, mem_product]
    constructor
    · rintro ⟨vs, hvs, rfl⟩; exact .tuple ((mem_allList ts vs).mp hvs)
    · intro h; cases h with | tuple hvs => exact ⟨_, (mem_allList ts _).mpr hvs, rfl⟩
  | .union p ts, v => by
    simp only [allInstances, List.mem_filter]
    constructor
    · rintro ⟨h1, h2⟩; exact .union ((mem_concat ts v).mp h1) h2
    · intro h; cases h with | union h1 h2 => exact ⟨(mem_concat ts v).mpr h1, h2⟩
  | .data name p fields, v => by
    simp only [allInstances, List.mem_filter, List.mem_map, mem_product]
    constructor
    · rintro ⟨⟨fs, hfs, rfl⟩, h2⟩; exact .data ((mem_allList fields fs).mp hfs) h2
    · intro h; cases h with | data h1 h2 => exact ⟨⟨_, (mem_allList fields _).mpr h1, rfl⟩, h2⟩
  | .abstr p subs, v => by
    simp only [allInstances, List.mem_filter]
    constructor
    · rintro ⟨h1, h2⟩; exact .abstr ((mem_concat subs v).mp h1) h2
    · intro h; cases h with | abstr h1 h2 => exact ⟨(mem_concat subs v).mpr h1, h2⟩
theorem mem_allList : ∀ (ts : List Ty) (vs : List Val),
    All2 (fun x l => x ∈ l) vs (allList ts) ↔ HasTys vs ts
  | [], vs => by
    simp only [allList]
    constructor
    · intro h; cases h; exact .nil
    · intro h; cases h; exact .nil
  | t :: ts, vs => by
    simp only [allList]
    constructor
    · intro h; cases h with | cons h1 h2 => exact .cons ((mem_all t _).mp h1) ((mem_allList ts _).mp h2)
    · intro h; cases h with | cons h1 h2 => exact .cons ((mem_all t _).mpr h1) ((mem_allList ts _).mpr h2)
theorem mem_concat : ∀ (ts : List Ty) (v : Val), v ∈ concatList ts ↔ HasSome v ts
  | [], v => by
    simp only [concatList, List.not_mem_nil, false_iff]
    intro h; cases h
  | t :: ts, v => by
    simp only [concatList, List.mem_append]
    constructor
    · rintro (h | h)
      · exact .head ((mem_all t v).mp h)
      · exact .tail ((mem_concat ts v).mp h)
    · intro h; cases h with
      | head h1 => exact Or.inl ((mem_all t v).mpr h1)
      | tail h1 => exact Or.inr ((mem_concat ts v).mpr h1)
end

theorem hasSome_iff {v : Val} : ∀ {ts : List Ty}, HasSome v ts ↔ ∃ t ∈ ts, HasTy v t
  | [] => by
    constructor
    · intro h; cases h
    · rintro ⟨t, ht, _⟩; cases ht
  | t :: ts => by
    constructor
    · intro h
      cases h with
      | head h1 => exact ⟨t, List.mem_cons_self, h1⟩
      | tail h1 =>
        obtain ⟨t', ht', h2⟩ := hasSome_iff.mp h1
        exact ⟨t', List.mem_cons_of_mem _ ht', h2⟩
    · rintro ⟨t', ht', h2⟩
      rcases List.mem_cons.mp ht' with rfl | h3
      · exact .head h2
      · exact .tail (hasSome_iff.mpr ⟨t', h3, h2⟩)

/-! ## duplicate-freeness -/

theorem nodup_product : ∀ {ls : List (List Val)}, (∀ l ∈ ls, l.Nodup) → (product ls).Nodup
  | [], _ => by simp [product]
  | xs :: rest, h => by
    have hx : xs.Nodup := h xs List.mem_cons_self
    have hr : (product rest).Nodup := nodup_product fun l hl => h l (List.mem_cons_of_mem _ hl)
    simp only [product]
    rw [List.nodup_flatMap]
    refine ⟨fun x _ => hr.map (fun a b hab => by injection hab), ?_⟩
    refine hx.imp ?_
    intro a b hab
    simp only [Function.onFun]
    intro l h1 h2
    simp only [List.mem_map] at h1 h2
    obtain ⟨t1, _, e1⟩ := h1
    obtain ⟨t2, _, e2⟩ := h2
    rw [← e2] at e1
    injection e1 with e3 _
    exact absurd e3 hab

/-- alternatives of a Union / subclasses of an abstract class never share a value -/
def Disj (ts : List Ty) : Prop := ts.Pairwise fun a b => ∀ v, HasTy v a → ¬ HasTy v b

mutual
/-- well-formed type tree: `Literal` arguments distinct; alternatives pairwise disjoint; recursively -/
inductive WF : Ty → Prop
  | bool : WF .bool
  | lit {vals} : vals.Nodup → WF (.lit vals)
  | tuple {ts} : WFs ts → WF (.tuple ts)
  | union {p ts} : WFs ts → Disj ts → WF (.union p ts)
  | data {name p fields} : WFs fields → WF (.data name p fields)
  | abstr {p subs} : WFs subs → Disj subs → WF (.abstr p subs)
inductive WFs : List Ty → Prop
  | nil : WFs []
  | cons {t ts} : WF t → WFs ts → WFs (t :: ts)
end

mutual
theorem nodup_all : ∀ (t : Ty), WF t → (allInstances t).Nodup
  | .bool, _ => by simp [allInstances]
  | .lit vals, h => by
    cases h with
    | lit hn =>
      simp only [allInstances]
      exact hn.map (fun a b hab => by injection hab)
  | .tuple ts, h => by
    cases h with
    | tuple hs =>
      simp only [allInstances]
      exact (nodup_product (nodup_allList ts hs)).map (fun a b hab => by injection hab)
  | .union p ts, h => by
    cases h with
    | union hs hd =>
      simp only [allInstances]
      exact (nodup_concat ts hs hd).filter _
  | .data name p fields, h => by
    cases h with
    | data hs =>
      simp only [allInstances]
      exact ((nodup_product (nodup_allList fields hs)).map (fun a b hab => by injection hab)).filter _
  | .abstr p subs, h => by
    cases h with
    | abstr hs hd =>
      simp only [allInstances]
      exact (nodup_concat subs hs hd).filter _
theorem nodup_allList : ∀ (ts : List Ty), WFs ts → ∀ l ∈ allList ts, l.Nodup
  | [], _ => by simp [allList]
  | t :: ts, h => by
    cases h with
    | cons h1 h2 =>
      simp only [allList, List.mem_cons]
      rintro l (rfl | hl)
      · exact nodup_all t h1
      · exact nodup_allList ts h2 l hl
theorem nodup_concat : ∀ (ts : List Ty), WFs ts → Disj ts → (concatList ts).Nodup
  | [], _, _ => by simp [concatList]
  | t :: ts, h, hd => by
    cases h with
    | cons h1 h2 =>
      have hd' := List.pairwise_cons.mp hd
      simp only [concatList]
      rw [List.nodup_append]
      refine ⟨nodup_all t h1, nodup_concat ts h2 hd'.2, ?_⟩
      intro a ha b hb hab
      subst hab
      obtain ⟨t', ht', h3⟩ := hasSome_iff.mp ((mem_concat ts a).mp hb)
      exact hd'.1 t' ht' a ((mem_all t a).mp ha) h3
end

/-! ## a decidable sufficient check for `WF` (used on the generated tokenizer tree) -/

/-- outermost shape of a value -/
inductive Head where
  | b
  | lit (a : Atom)
  | tup (n : Nat)
  | obj (name : String)
deriving DecidableEq

def Val.head : Val → Head
  | .b _ => .b
  | .lit a => .lit a
  | .tup vs => .tup vs.length
  | .obj n _ => .obj n

mutual
/-- the possible outermost shapes of the values of a type -/
def heads : Ty → List Head
  | .bool => [.b]
  | .lit vals => vals.map .lit
  | .tuple ts => [.tup (lenTys ts)]
  | .union _ ts => headsL ts
  | .data name _ _ => [.obj name]
  | .abstr _ subs => headsL subs
def headsL : List Ty → List Head
  | [] => []
  | t :: ts => heads t ++ headsL ts
def lenTys : List Ty → Nat
  | [] => 0
  | _ :: ts => lenTys ts + 1
end

theorem lenTys_eq : ∀ {vs ts}, HasTys vs ts → vs.length = lenTys ts
  | _, _, .nil => rfl
  | _, _, .cons _ h => by simp [lenTys, lenTys_eq h]

mutual
theorem head_mem : ∀ (t : Ty) (v : Val), HasTy v t → v.head ∈ heads t
  | .bool, _, h => by cases h; simp [heads, Val.head]
  | .lit vals, _, h => by
    cases h with | lit hm => simp only [heads, Val.head, List.mem_map]; exact ⟨_, hm, rfl⟩
  | .tuple ts, _, h => by
    cases h with | tuple hs => simp [heads, Val.head, lenTys_eq hs]
  | .union _ ts, v, h => by
    cases h with | union h1 _ => simp only [heads]; exact headL_mem ts v h1
  | .data name _ _, _, h => by cases h; simp [heads, Val.head]
  | .abstr _ subs, v, h => by
    cases h with | abstr h1 _ => simp only [heads]; exact headL_mem subs v h1
theorem headL_mem : ∀ (ts : List Ty) (v : Val), HasSome v ts → v.head ∈ headsL ts
  | [], _, h => by cases h
  | t :: ts, v, h => by
    simp only [headsL, List.mem_append]
    cases h with
    | head h1 => exact Or.inl (head_mem t v h1)
    | tail h1 => exact Or.inr (headL_mem ts v h1)
end

/-- no shape of `a` is a shape of `b` -/
def headsDisjoint (a b : Ty) : Bool := (heads a).all fun h => !(heads b).contains h

def pairwiseB {α} (r : α → α → Bool) : List α → Bool
  | [] => true
  | x :: xs => xs.all (r x) && pairwiseB r xs

theorem pairwiseB_sound {α} {r : α → α → Bool} {R : α → α → Prop} (hr : ∀ a b, r a b = true → R a b) :
    ∀ {l : List α}, pairwiseB r l = true → l.Pairwise R
  | [], _ => List.Pairwise.nil
  | x :: xs, h => by
    simp only [pairwiseB, Bool.and_eq_true, List.all_eq_true] at h
    exact List.Pairwise.cons (fun y hy => hr _ _ (h.1 y hy)) (pairwiseB_sound hr h.2)

theorem disj_of_heads {ts : List Ty} (h : pairwiseB headsDisjoint ts = true) : Disj ts := by
  refine pairwiseB_sound ?_ h
  intro a b hab v h1 h2
  simp only [headsDisjoint, List.all_eq_true, Bool.not_eq_true', List.contains_eq_mem, decide_eq_false_iff_not] at hab
  exact hab _ (head_mem a v h1) (head_mem b v h2)

mutual
def wfCheck : Ty → Bool
  | .bool => true
  | .lit vals => decide vals.Nodup
  | .tuple ts => wfCheckL ts
  | .union _ ts => wfCheckL ts && pairwiseB headsDisjoint ts
  | .data _ _ fields => wfCheckL fields
  | .abstr _ subs => wfCheckL subs && pairwiseB headsDisjoint subs
def wfCheckL : List Ty → Bool
  | [] => true
  | t :: ts => wfCheck t && wfCheckL ts
end

mutual
theorem wfCheck_sound : ∀ (t : Ty), wfCheck t = true → WF t
  | .bool, _ => .bool
  | .lit vals, h => by simp only [wfCheck, decide_eq_true_eq] at h; exact .lit h
  | .tuple ts, h => by simp only [wfCheck] at h; exact .tuple (wfCheckL_sound ts h)
  | .union _ ts, h => by
    simp only [wfCheck, Bool.and_eq_true] at h
    exact .union (wfCheckL_sound ts h.1) (disj_of_heads h.2)
  | .data _ _ fields, h => by simp only [wfCheck] at h; exact .data (wfCheckL_sound fields h)
  | .abstr _ subs, h => by
    simp only [wfCheck, Bool.and_eq_true] at h
    exact .abstr (wfCheckL_sound subs h.1) (disj_of_heads h.2)
theorem wfCheckL_sound : ∀ (ts : List Ty), wfCheckL ts = true → WFs ts
  | [], _ => .nil
  | t :: ts, h => by
    simp only [wfCheckL, Bool.and_eq_true] at h
    exact .cons (wfCheck_sound t h.1) (wfCheckL_sound ts h.2)
end

/-! ## counting -/

/-- product of the lengths -/
def lenProd : List (List Val) → Nat
  | [] => 1
  | l :: ls => l.length * lenProd ls

theorem length_product : ∀ (ls : List (List Val)), (product ls).length = lenProd ls
  | [] => rfl
  | xs :: rest => by
    simp only [product, lenProd, List.length_flatMap, List.length_map, length_product rest]
    induction xs with
    | nil => simp
    | cons x xs ih => simp only [List.map_cons, List.sum_cons, List.length_cons, ih]; rw [Nat.add_mul, Nat.one_mul, Nat.add_comm]

/-- sum of the lengths -/
def lenSum : List Ty → Nat
  | [] => 0
  | t :: ts => (allInstances t).length + lenSum ts

theorem length_concat : ∀ (ts : List Ty), (concatList ts).length = lenSum ts
  | [] => rfl
  | t :: ts => by simp [concatList, lenSum, length_concat ts]

theorem length_filter_all {α} {p : α → Bool} {l : List α} (h : ∀ x ∈ l, p x = true) : (l.filter p).length = l.length := by
  rw [List.filter_eq_self.mpr h]

end MZ.AI
