"""Translator part for C08: re-emits `Generated/Filters.lean` from what `maze_dataset/dataset/maze_dataset.py` SAYS
(parsed with `ast`, never imported): the members of `class MazeDatasetFilters` in source order with their registering
decorator (`register_maze_filter` / `register_dataset_filter`), parameter names (without the leading maze/dataset
parameter) and literal defaults.  The Lean model takes the registered names (namespace test of
`_apply_filters_from_config`), the decorator kind and every default value from this table, so a changed default, a
renamed/removed filter or a swapped decorator changes the model (and re-checks the theorems) on the next run."""
from __future__ import annotations
import ast
from fractions import Fraction
from pathlib import Path


def _lstr(s: str) -> str:
    return '"' + s.replace("\\", "\\\\").replace('"', '\\"') + '"'


def _lit(node) -> str:
    if node is None:
        return "none"
    v = ast.literal_eval(node)
    if v is None:
        return "(some .none)"
    if isinstance(v, bool):
        return f"(some (.bool {'true' if v else 'false'}))"
    if isinstance(v, int):
        return f"(some (.int ({v})))"
    if isinstance(v, float):
        fr = Fraction(v)
        return f"(some (.float ({fr.numerator}) {fr.denominator}))"
    if isinstance(v, str):
        return f"(some (.str {_lstr(v)}))"
    raise ValueError(f"unsupported default literal {v!r}")


def filters_table(repo: Path):
    src = (repo / "maze_dataset" / "dataset" / "maze_dataset.py").read_text()
    tree = ast.parse(src)
    rows = []
    for node in tree.body:
        if isinstance(node, ast.ClassDef) and node.name == "MazeDatasetFilters":
            for st in node.body:
                if not isinstance(st, ast.FunctionDef):
                    continue
                decos = [d.id if isinstance(d, ast.Name) else getattr(d, "attr", "?") for d in st.decorator_list]
                kind = "maze" if "register_maze_filter" in decos else ("dataset" if "register_dataset_filter" in decos else "unregistered")
                a = st.args
                names = [x.arg for x in a.posonlyargs + a.args]
                defaults = [None] * (len(names) - len(a.defaults)) + list(a.defaults)
                params = list(zip(names, defaults))[1:]  # drop `maze` / `dataset`
                rows.append((st.name, kind, params))
    if not rows:
        raise RuntimeError("class MazeDatasetFilters not found")
    return rows


def emitters(repo):
    rows = filters_table(Path(repo))
    L = ["namespace MZ.Gen\n",
         "/-- a Python literal as it appears as a filter argument or default (floats as exact dyadic `num/den`) -/",
         "inductive PyLit where\n  | none\n  | bool (b : Bool)\n  | int (i : Int)\n  | float (num : Int) (den : Nat)\n  | str (s : String)\n  deriving DecidableEq, Repr, Inhabited\n",
         "/-- members of `class MazeDatasetFilters` in source order: (name, registering decorator, [(parameter, default?)]) -/",
         "def filterTable : List (String × String × List (String × Option PyLit)) := ["]
    ent = []
    for name, kind, params in rows:
        ps = ", ".join(f"({_lstr(p)}, {_lit(d)})" for p, d in params)
        ent.append(f"  ({_lstr(name)}, {_lstr(kind)}, [{ps}])")
    L.append(",\n".join(ent) + "]\n")
    L.append("end MZ.Gen\n")
    return [("Filters.lean", "\n".join(L))]


if __name__ == "__main__":
    import sys
    for n, b in emitters(sys.argv[1] if len(sys.argv) > 1 else "/repo"):
        print(b)
