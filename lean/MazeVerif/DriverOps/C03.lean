import MazeVerif.DriverOps.C01
import MazeVerif.DriverOps.C02
import MazeVerif.Model.Dataset
namespace MZ.Drv.C03
open Lean MZ.Drv MZ MZ.AStar

def getOpts (j : Json) : R EndpointOpts := do
  let cellsOpt (k : String) : R (Option (List Cell)) := match optFld j k with
    | none => pure none
    | some v => do pure (some (← (← v.getArr?).toList.mapM asCell))
  let b (k : String) : Bool := (optFld j k).map (fun v => v.getBool?.toOption.getD false) |>.getD false
  pure { allowedStart := ← cellsOpt "allowed_start", allowedEnd := ← cellsOpt "allowed_end",
         deadendStart := b "deadend_start", deadendEnd := b "deadend_end", notEqual := b "endpoints_not_equal" }

def jItem (r : Except ItemErr (List Cell)) : List (String × Json) :=
  match r with
  | .ok p => [("solve", "ok"), ("solution", jCells p)]
  | .error .illegalEndpoints => [("solve", "illegalEndpoints")]
  | .error .noPath => [("solve", "noPath")]
  | .error (.solver r) => [("solve", "solver"), ("detail", C02.jResult r)]

/-- `C03.item`: a `C01.gen` request (generator + tapped draws) plus `opts`, the observed `s`, `e` and A* `picks`:
    the model regenerates the maze, reads the component off the metadata, checks the endpoint choice is one the code can
    make and replays the solver.
    `C03.solve`: the same on a maze given explicitly (`edges`, `component`) — used for items that come out of worker
    processes, where no tap is possible. -/
def handle (op : String) (j : Json) : R Json := do
  match op with
  | "C03.item" =>
    let rows ← getNat j "rows"; let cols ← getNat j "cols"
    match ← C01.runGen j with
    | .error reason => pure (obj [("ok", false), ("reason", Json.str reason)])
    | .ok g =>
      let opts ← getOpts (← fld j "opts")
      match g.component rows cols with
      | none => pure (obj ([("ok", Json.bool true), ("component", Json.null)] ++ [("gen", g.toJson)]))
      | some comp =>
        let s ← getCell j "s"; let e ← getCell j "e"
        let picks ← getCells j "picks"
        let r := solveItem rows cols g.edges comp opts s e picks (rows * cols + 1)
        pure (obj ([("ok", Json.bool true), ("gen", g.toJson), ("component_size", jNat comp.length),
                    ("wf", Json.bool (decide (WF rows cols g.edges)))] ++ jItem r))
  | "C03.solve" =>
    let rows ← getNat j "rows"; let cols ← getNat j "cols"
    let E ← getEdges j "edges"
    let comp ← getCells j "component"
    let opts ← getOpts (← fld j "opts")
    let s ← getCell j "s"; let e ← getCell j "e"
    let picks ← getCells j "picks"
    pure (obj ([("ok", Json.bool true), ("wf", Json.bool (decide (WF rows cols E)))]
      ++ jItem (solveItem rows cols E comp opts s e picks (rows * cols + 1))))
  | _ => throw s!"unknown op {op}"

end MZ.Drv.C03
