"""Emitter for Generated/TokVocab.lean (property C06): the `MazeTokenizerModular` vocabulary as *blocks*, re-read from
what constants.py SAYS (ast, no import).  Explicit `(name, str, field(default=tok))` entries become literal string lists;
comprehension blocks `*[(f"I_{i:03}", str, field(default=f"+{i}")) for i in range(256)]` become `(range).map fmt` so that
membership facts are provable structurally (no 4096-entry `decide`).  Also emits the tokens of the VOCAB fields that
maze_tokenizer.py / token_utils.py reference by name, CARDINAL_MAP resolved to tokens, and the bounds of the `I_` block
used by `StepTokenizers.Distance` (`getattr(VOCAB, f"I_{d:03}")`).
The harness compares the expanded Lean vocabulary with the real `VOCAB_LIST` (as a multiset) on every run."""
from __future__ import annotations
import ast
from pathlib import Path


def lstr(s: str) -> str:
    return '"' + s.replace("\\", "\\\\").replace('"', '\\"') + '"'


def _class_fields(tree, cls):
    for node in ast.walk(tree):
        if isinstance(node, ast.ClassDef) and node.name == cls:
            return [(st.target.id, ast.literal_eval(st.value)) for st in node.body
                    if isinstance(st, ast.AnnAssign) and isinstance(st.target, ast.Name) and st.value is not None]
    raise KeyError(cls)


def _assign(tree, name):
    for node in tree.body:
        if isinstance(node, ast.Assign) and len(node.targets) == 1 and getattr(node.targets[0], "id", None) == name:
            return node.value
        if isinstance(node, ast.AnnAssign) and getattr(node.target, "id", None) == name and node.value is not None:
            return node.value
    raise KeyError(name)


def _default_of(call: ast.expr) -> ast.expr:
    assert isinstance(call, ast.Call) and getattr(call.func, "id", "") == "field", ast.dump(call)
    for kw in call.keywords:
        if kw.arg == "default":
            return kw.value
    raise ValueError("field() without default")


def _fmt_parts(node: ast.expr):
    """f-string / constant -> list of ('s', text) | ('v', varname, neg, spec)"""
    if isinstance(node, ast.Constant) and isinstance(node.value, str):
        return [("s", node.value)]
    assert isinstance(node, ast.JoinedStr), ast.dump(node)
    out = []
    for v in node.values:
        if isinstance(v, ast.Constant):
            out.append(("s", v.value))
        else:
            assert isinstance(v, ast.FormattedValue)
            spec = "" if v.format_spec is None else "".join(x.value for x in v.format_spec.values)
            e, neg = v.value, False
            if isinstance(e, ast.UnaryOp) and isinstance(e.op, ast.USub):
                e, neg = e.operand, True
            assert isinstance(e, ast.Name), ast.dump(v)
            out.append(("v", e.id, neg, spec))
    return out


def _lean_fmt(parts, intvars: set[str]) -> str:
    """Lean string expression for a token format (format specs are only allowed in *names*, never in tokens)"""
    xs = []
    for p in parts:
        if p[0] == "s":
            if p[1] != "":
                xs.append(lstr(p[1]))
        else:
            _, var, neg, spec = p
            assert spec == "" and not neg, f"token format with spec/negation not supported: {p}"
            xs.append(f"toString {var}")
    return " ++ ".join(xs) if xs else '""'


def emitters(repo: Path):
    cpath = Path(repo) / "maze_dataset" / "constants.py"
    tree = ast.parse(cpath.read_text())
    special = _class_fields(tree, "_SPECIAL_TOKENS_BASE")
    vf = _assign(tree, "_VOCAB_FIELDS")
    assert isinstance(vf, ast.List)
    fields: dict[str, str] = dict(special)          # explicit field name -> token
    blocks: list[str] = []                           # Lean expressions of type List String
    defs: list[str] = []
    cur: list[str] = [v for _, v in special]
    info = {}

    def flush():
        nonlocal cur
        if cur:
            blocks.append("[" + ", ".join(lstr(s) for s in cur) + "]")
            cur = []
    k = 0
    for el in vf.elts:
        if isinstance(el, ast.Tuple):
            name = ast.literal_eval(el.elts[0]); tok = ast.literal_eval(_default_of(el.elts[2]))
            fields[name] = tok; cur.append(tok); continue
        assert isinstance(el, ast.Starred) and isinstance(el.value, ast.ListComp), ast.dump(el)[:200]
        lc = el.value
        assert len(lc.generators) == 1 and not lc.generators[0].ifs
        gen = lc.generators[0]
        nameparts = _fmt_parts(lc.elt.elts[0]); tokparts = _fmt_parts(_default_of(lc.elt.elts[2]))
        it = gen.iter
        if isinstance(it, ast.Constant) and isinstance(it.value, str):      # for a in "ABC…": expand
            var = gen.target.id
            for ch in it.value:
                sub = lambda parts: "".join(p[1] if p[0] == "s" else ch for p in parts)
                fields[sub(nameparts)] = sub(tokparts); cur.append(sub(tokparts))
            continue
        flush()
        if isinstance(it, ast.Call) and getattr(it.func, "id", "") == "range":
            args = [ast.literal_eval(a) for a in it.args]
            lo, hi = (0, args[0]) if len(args) == 1 else (args[0], args[1])
            var = gen.target.id
            fn = f"blockFmt{k}"; k += 1
            namefmt = "".join(p[1] if p[0] == "s" else "{" + ("-" if p[2] else "") + p[1] + (":" + p[3] if p[3] else "") + "}" for p in nameparts)
            if lo >= 0:
                defs.append(f"/-- token of field `{namefmt}` for `{var} in range({lo}, {hi})` -/\ndef {fn} ({var} : Nat) : String := {_lean_fmt(tokparts, {var})}\n")
                blocks.append(f"(List.range' {lo} {hi - lo}).map {fn}")
            else:
                assert hi <= 0
                # negative range: i = -(hi' - t) ; enumerate t = 0 .. hi-lo-1 with i = lo + t  (Int)
                defs.append(f"/-- token of field `{namefmt}` for `{var} in range({lo}, {hi})` -/\ndef {fn} ({var} : Int) : String := {_lean_fmt(tokparts, {var})}\n")
                blocks.append(f"(List.range {hi - lo}).map fun (t : Nat) => {fn} (({lo} : Int) + (t : Int))")
            info[namefmt] = (fn, lo, hi)
        elif isinstance(it, ast.Call) and getattr(it.func, "id", "") == "corner_first_ndindex":
            n = ast.literal_eval(it.args[0])
            x, y = (e.id for e in gen.target.elts)
            defs.append(f"/-- token of a `UT_xx_yy` field -/\ndef utFmt ({x} {y} : Nat) : String := {_lean_fmt(tokparts, {x, y})}\n")
            defs.append(f"def utSize : Nat := {n}\n")
            # as a *set* (C06 needs membership only; the corner-first order is C14's business)
            blocks.append(f"(List.range {n}).flatMap fun {x} => (List.range {n}).map fun {y} => utFmt {x} {y}")
        else:
            raise AssertionError("unsupported vocabulary block: " + ast.dump(it)[:200])
    flush()
    assert "I_{i:03}" in info, "the I_ block used by StepTokenizers.Distance was not found"
    dfn, dlo, dhi = info["I_{i:03}"]
    assert "CTT_{i}" in info
    cfn, clo, chi = info["CTT_{i}"]

    # CARDINAL_MAP: delta -> VOCAB.<FIELD>
    class VOC:
        def __getattr__(self, k): return ("VOCAB", k)
    cm = eval(compile(ast.Expression(_assign(tree, "CARDINAL_MAP")), "<c>", "eval"), {"__builtins__": {}}, {"VOCAB": VOC()})
    card = {d: fields[v[1]] for d, v in cm.items()}
    need = dict(
        tokCoordPre="COORD_PRE", tokCoordIntra="COORD_INTRA", tokCoordPost="COORD_POST", tokConnector="CONNECTOR",
        tokWall="ADJLIST_WALL", tokEndline="ADJACENCY_ENDLINE", tokTargetPost="TARGET_POST", tokPathPre="PATH_PRE",
        tokPathIntra="PATH_INTRA", tokPathPost="PATH_POST", tokForward="PATH_FORWARD", tokBackward="PATH_BACKWARD",
        tokLeft="PATH_LEFT", tokRight="PATH_RIGHT", tokStay="PATH_STAY", tokAdjStart="ADJLIST_START", tokAdjEnd="ADJLIST_END",
        tokOriginStart="ORIGIN_START", tokOriginEnd="ORIGIN_END", tokTargetStart="TARGET_START", tokTargetEnd="TARGET_END",
        tokPathStart="PATH_START", tokPathEnd="PATH_END")
    L = ["namespace MZ.Gen\n"]
    L += defs
    L.append("/-- tokens of the VOCAB fields referenced by name in maze_tokenizer.py / token_utils.py -/")
    for lean, fld in need.items():
        L.append(f"def {lean} : String := {lstr(fields[fld])}   -- VOCAB.{fld}")
    L.append("\n/-- CARDINAL_MAP resolved to tokens: NORTH = delta (-1,0), SOUTH = (1,0), WEST = (0,-1), EAST = (0,1) -/")
    for lean, d in (("tokNorth", (-1, 0)), ("tokSouth", (1, 0)), ("tokWest", (0, -1)), ("tokEast", (0, 1))):
        L.append(f"def {lean} : String := {lstr(card[d])}   -- CARDINAL_MAP[{d}]")
    L.append(f"\n/-- `getattr(VOCAB, f\"I_{{d:03}}\")` exists exactly for `distLo ≤ d < distHi`; its token is `distFmt d` -/")
    L.append(f"def distLo : Nat := {dlo}\ndef distHi : Nat := {dhi}\ndef distFmt (d : Nat) : String := {dfn} d")
    L.append(f"/-- the `CTT_i` block: `cttLo ≤ i < cttHi`, token `cttFmt i` -/")
    L.append(f"def cttLo : Nat := {clo}\ndef cttHi : Nat := {chi}\ndef cttFmt (i : Nat) : String := {cfn} i\n")
    L.append("/-- the vocabulary as blocks, in `_VOCAB_BASE` field order except inside the UT block (plain ndindex order) -/")
    L.append("def tokVocabBlocks : List (List String) := [\n  " + ",\n  ".join(blocks) + "]\n")
    L.append("def vocab : List String := tokVocabBlocks.flatten\n")
    L.append("end MZ.Gen\n")
    return [("TokVocab.lean", "\n".join(L))]
