"""Emitter for property C14: re-emits the *block structure* of `constants._VOCAB_FIELDS` (token values only) as
`Generated/VocabBlocks.lean`, parsed with `ast` from what the source file says (never imported).

Every element of the `_VOCAB_FIELDS` list literal is either a 3-tuple `(name, str, field(default=<token>))` (one literal
token) or a starred list comprehension. A comprehension over `range(a, b)` whose token is an f-string with the loop
variable substituted exactly once and without a format spec becomes `VBlk.intRange pre a (b-a) post`
(tokens `pre ++ repr i ++ post`); a comprehension over a string literal is expanded to literals; the comprehension over
`corner_first_ndindex(n)` with target `(x, y)` becomes `VBlk.cornerFirst n pre mid post` (tokens `pre x mid y post`, in
that order of the two coordinates — a swapped order is emitted as `VBlk.other`). Maximal runs of literal tokens are merged
into one `VBlk.lits`. Anything else is emitted as `VBlk.other "<source text>"`, which no structural proof accepts."""
from __future__ import annotations
import ast
from pathlib import Path


def lstr(s: str) -> str:
    out = []
    for ch in s:
        if ch == "\\": out.append("\\\\")
        elif ch == '"': out.append('\\"')
        elif ch == "\n": out.append("\\n")
        elif ch == "\t": out.append("\\t")
        elif ord(ch) < 32 or ord(ch) > 126: out.append("\\u{%x}" % ord(ch))
        else: out.append(ch)
    return '"' + "".join(out) + '"'


def _default_of(t: ast.expr):
    """the `default=` expression of `(name, str, field(default=...))`, or None"""
    if isinstance(t, ast.Tuple) and len(t.elts) == 3 and isinstance(t.elts[2], ast.Call):
        c = t.elts[2]
        if getattr(c.func, "id", None) == "field" and not c.args and len(c.keywords) == 1 and c.keywords[0].arg == "default":
            return c.keywords[0].value
    return None


def _fstring_parts(node: ast.expr, vars_: list[str]):
    """f-string -> list of ('s', text) | ('v', varname); None when not of the simple form"""
    if isinstance(node, ast.Constant) and isinstance(node.value, str):
        return [("s", node.value)]
    if not isinstance(node, ast.JoinedStr):
        return None
    parts = []
    for v in node.values:
        if isinstance(v, ast.Constant) and isinstance(v.value, str):
            parts.append(("s", v.value))
        elif (isinstance(v, ast.FormattedValue) and v.conversion == -1 and v.format_spec is None
              and isinstance(v.value, ast.Name) and v.value.id in vars_):
            parts.append(("v", v.value.id))
        else:
            return None
    # merge adjacent strings
    out = []
    for k, x in parts:
        if k == "s" and out and out[-1][0] == "s":
            out[-1] = ("s", out[-1][1] + x)
        else:
            out.append((k, x))
    return out


def _int_const(n: ast.expr):
    try:
        v = ast.literal_eval(n)
        return v if isinstance(v, int) and not isinstance(v, bool) else None
    except Exception:
        return None


def blocks(repo: Path):
    src = (repo / "maze_dataset" / "constants.py").read_text()
    tree = ast.parse(src)
    node = None
    for st in tree.body:
        if isinstance(st, ast.AnnAssign) and getattr(st.target, "id", None) == "_VOCAB_FIELDS":
            node = st.value
        elif isinstance(st, ast.Assign) and len(st.targets) == 1 and getattr(st.targets[0], "id", None) == "_VOCAB_FIELDS":
            node = st.value
    if not isinstance(node, ast.List):
        return [("other", "_VOCAB_FIELDS is not a list literal")]
    out = []

    def lit(tok):
        if out and out[-1][0] == "lits":
            out[-1][1].append(tok)
        else:
            out.append(("lits", [tok]))

    for el in node.elts:
        text = ast.get_source_segment(src, el) or "?"
        d = _default_of(el)
        if d is not None and isinstance(d, ast.Constant) and isinstance(d.value, str):
            lit(d.value); continue
        comp = el.value if isinstance(el, ast.Starred) else None
        if isinstance(comp, ast.ListComp) and len(comp.generators) == 1 and not comp.generators[0].ifs and not comp.generators[0].is_async:
            g = comp.generators[0]
            d = _default_of(comp.elt)
            if d is not None:
                # (a) range(...)
                if (isinstance(g.iter, ast.Call) and getattr(g.iter.func, "id", None) == "range" and not g.iter.keywords
                        and isinstance(g.target, ast.Name) and len(g.iter.args) in (1, 2)):
                    args = [_int_const(a) for a in g.iter.args]
                    parts = _fstring_parts(d, [g.target.id])
                    if None not in args and parts is not None and [k for k, _ in parts].count("v") == 1:
                        lo, hi = (0, args[0]) if len(args) == 1 else args
                        iv = [k for k, _ in parts].index("v")
                        pre = "".join(x for k, x in parts[:iv]); post = "".join(x for k, x in parts[iv + 1:])
                        out.append(("intRange", pre, lo, max(0, hi - lo), post)); continue
                # (b) a string literal: expand
                if isinstance(g.iter, ast.Constant) and isinstance(g.iter.value, str) and isinstance(g.target, ast.Name):
                    parts = _fstring_parts(d, [g.target.id])
                    if parts is not None:
                        for ch in g.iter.value:
                            lit("".join(x if k == "s" else ch for k, x in parts))
                        continue
                # (c) corner_first_ndindex(n) with target (x, y)
                if (isinstance(g.iter, ast.Call) and getattr(g.iter.func, "id", None) == "corner_first_ndindex" and not g.iter.keywords
                        and len(g.iter.args) == 1 and _int_const(g.iter.args[0]) is not None
                        and isinstance(g.target, ast.Tuple) and len(g.target.elts) == 2 and all(isinstance(e, ast.Name) for e in g.target.elts)):
                    x, y = (e.id for e in g.target.elts)
                    parts = _fstring_parts(d, [x, y])
                    if parts is not None and x != y:
                        ks = [(k, v) for k, v in parts if k == "v"]
                        if ks == [("v", x), ("v", y)]:
                            ix = parts.index(("v", x)); iy = parts.index(("v", y))
                            pre = "".join(v for k, v in parts[:ix]); mid = "".join(v for k, v in parts[ix + 1:iy]); post = "".join(v for k, v in parts[iy + 1:])
                            out.append(("cornerFirst", _int_const(g.iter.args[0]), pre, mid, post)); continue
        out.append(("other", " ".join(text.split())[:200]))
    return out


def lean_text(repo: Path) -> str:
    bl = blocks(repo)
    L = ["namespace MZ.Gen\n",
         "/-- one block of `_VOCAB_FIELDS` (token values): explicit tokens, `pre ++ repr i ++ post` for `i` in `range(lo, lo+n)`,\n"
         "    `pre ++ repr x ++ mid ++ repr y ++ post` for `(x, y)` in `corner_first_ndindex(n)`, or something the emitter does not understand -/",
         "inductive VBlk where\n  | lits (ts : List String)\n  | intRange (pre : String) (lo : Int) (n : Nat) (post : String)\n"
         "  | cornerFirst (n : Nat) (pre mid post : String)\n  | other (src : String)\n  deriving Repr, DecidableEq\n",
         "/-- `_VOCAB_FIELDS` block by block, in source order -/\ndef vocabBlocks : List VBlk := ["]
    items = []
    for b in bl:
        if b[0] == "lits":
            items.append("  .lits [" + ", ".join(lstr(t) for t in b[1]) + "]")
        elif b[0] == "intRange":
            lo = f"({b[2]})" if b[2] < 0 else str(b[2])
            items.append(f"  .intRange {lstr(b[1])} {lo} {b[3]} {lstr(b[4])}")
        elif b[0] == "cornerFirst":
            items.append(f"  .cornerFirst {b[1]} {lstr(b[2])} {lstr(b[3])} {lstr(b[4])}")
        else:
            items.append(f"  .other {lstr(b[1])}")
    L.append(",\n".join(items) + "]\n")
    L.append("end MZ.Gen\n")
    return "\n".join(L)


def emitters(repo):
    return [("VocabBlocks.lean", lean_text(Path(repo)))]


if __name__ == "__main__":
    import sys
    print(lean_text(Path(sys.argv[1] if len(sys.argv) > 1 else "/repo")))
