import MazeVerif.Model.Coll
/-! State-machine model of a `MazeDatasetCollection` whose member datasets are edited over time
    (collected_dataset.py:71-196, maze_dataset.py `__len__` / `update_self_config`). Core Lean only.

    What is state in the real objects, and how it is modelled:

    * `coll.maze_datasets[j].mazes` — a caller may assign a new list (or mutate the list in place; the
      collection's cached list is a fresh `list(chain(...))`, so both look the same from the collection).
      `members : List (List α)`.
    * `coll.maze_datasets[j].cfg.n_mazes` — a plain dataclass field of the member's config.
      `memberCfgN : List Nat`. Since repair e720cc2 the constructor replaces
      `cfg.maze_dataset_configs[:len(maze_datasets)]` by the members' OWN config objects
      (collected_dataset.py:89-91), so the member's field is what the collection config sees.
    * surplus entries `cfg.maze_dataset_configs[len(maze_datasets):]` are kept by the constructor (the `zip` in
      the assertion loop truncates, nothing rejects a config list longer than the dataset list); nobody updates
      them. `extraCfgN` = the sum of their `n_mazes` (0 for `generate` / `load` / `download`-built collections).
    * `coll.cfg.n_mazes` is a PROPERTY (collected_dataset.py:45-47): `sum(c.n_mazes for c in maze_dataset_configs)`.
      It is not stored: `collCfgN` is a function of the state.
    * `update_self_config` writes `self.cfg.__dict__["n_mazes"] = len(self)` (collected_dataset.py:194). A property is a
      data descriptor, so attribute lookup never reads that dict entry: `dictN` records it, nothing reads it.
    * `coll.mazes` is a `cached_property` (collected_dataset.py:103-109): computed on first read, then frozen. `cache`.
    * `__len__`, `__getitem__`, `dataset_lengths` are recomputed from the members on every call (lines 95-125).

    Assumed (not modelled): the member dataset objects and their config objects are pairwise distinct Python objects
    (one object in two slots would make `setMember j` change two members at once). -/
namespace MZ.Coll

structure CState (α : Type) where
  /-- `[ds.mazes for ds in coll.maze_datasets]` as they are now -/
  members : List (List α)
  /-- `[ds.cfg.n_mazes for ds in coll.maze_datasets]` as stored -/
  memberCfgN : List Nat
  /-- `sum(c.n_mazes for c in coll.cfg.maze_dataset_configs[len(coll.maze_datasets):])` -/
  extraCfgN : Nat
  /-- `coll.cfg.__dict__.get("n_mazes")` — written by `update_self_config`, shadowed by the property -/
  dictN : Option Nat
  /-- the `cached_property` slot of `coll.mazes` -/
  cache : Option (List α)
deriving Repr, DecidableEq

/-- `coll.cfg.n_mazes`: the property summing `n_mazes` over `cfg.maze_dataset_configs`
    (= the members' own configs followed by the surplus entries) -/
def CState.collCfgN {α} (s : CState α) : Nat := cfgNMazes s.memberCfgN + s.extraCfgN

inductive Op (α : Type) where
  /-- `coll.maze_datasets[j].mazes = new` -/
  | setMember (j : Nat) (new : List α)
  /-- `coll.maze_datasets[j].update_self_config()` -/
  | memberUpdateCfg (j : Nat)
  /-- `coll.update_self_config()` -/
  | collUpdateCfg
  /-- `coll.mazes` -/
  | readMazes
  /-- `coll[i]` (`i ≥ 0`) -/
  | getitem (i : Nat)
  /-- `len(coll)` -/
  | len
  /-- `coll.dataset_lengths` -/
  | lengths
  /-- `coll.cfg.n_mazes` -/
  | cfgCount
deriving Repr, DecidableEq

inductive Out (α : Type) where
  /-- a statement without a value (assignment, `update_self_config`) -/
  | unit
  | item (a : α)
  | list (l : List α)
  | nat (n : Nat)
  | nats (l : List Nat)
  /-- `IndexError` (member index or item index out of range) -/
  | error
deriving Repr, DecidableEq

def Op.isSet {α} : Op α → Bool
  | .setMember _ _ => true
  | _ => false

def Op.isRead {α} : Op α → Bool
  | .readMazes => true
  | _ => false

/-- one statement executed on the collection -/
def step {α} (s : CState α) : Op α → CState α × Out α
  | .setMember j new =>
    if j < s.members.length then ({ s with members := s.members.set j new }, .unit)
    else (s, .error)                         -- `coll.maze_datasets[j]` raises
  | .memberUpdateCfg j =>
    match s.members[j]? with
    | some d => ({ s with memberCfgN := s.memberCfgN.set j d.length }, .unit)   -- maze_dataset.py:545
    | none => (s, .error)
  | .collUpdateCfg =>                        -- collected_dataset.py:192-196
    ({ s with dictN := some (len s.members), memberCfgN := s.members.map List.length }, .unit)
  | .readMazes =>
    match s.cache with
    | some l => (s, .list l)
    | none => ({ s with cache := some (mazes s.members) }, .list (mazes s.members))
  | .getitem i =>
    match getItem s.members i with
    | some x => (s, .item x)
    | none => (s, .error)
  | .len => (s, .nat (len s.members))
  | .lengths => (s, .nats (s.members.map List.length))
  | .cfgCount => (s, .nat s.collCfgN)

/-- a collection just built by `MazeDatasetCollection.generate` (or from freshly generated members with their
    own configs): every member's `cfg.n_mazes` is its length, no surplus configs, nothing cached -/
def init {α} (ms : List (List α)) : CState α :=
  { members := ms, memberCfgN := ms.map List.length, extraCfgN := 0, dictN := none, cache := none }

/-- state after a statement list -/
def runState {α} (s : CState α) : List (Op α) → CState α
  | [] => s
  | o :: os => runState (step s o).1 os

/-- final state and the outputs of a statement list, in order -/
def run {α} (s : CState α) : List (Op α) → CState α × List (Out α)
  | [] => (s, [])
  | o :: os =>
    let r := step s o
    let rest := run r.1 os
    (rest.1, r.2 :: rest.2)

/-- the answer the collection gives to `o` after the statements `pre` -/
def obs {α} (s : CState α) (pre : List (Op α)) (o : Op α) : Out α := (step (runState s pre) o).2

/-! ### history-level (specification) functions: defined on the statement list alone, not on the machine -/

/-- the members' maze lists after the `setMember` statements of `ops` (every other statement ignored) -/
def curMembers {α} (ms : List (List α)) : List (Op α) → List (List α)
  | [] => ms
  | .setMember j new :: os => curMembers (if j < ms.length then ms.set j new else ms) os
  | _ :: os => curMembers ms os

/-- member slots whose list was assigned and whose config was not refreshed since
    (`memberUpdateCfg j` clears slot `j`, `collUpdateCfg` clears all) -/
def dirty {α} (d : List Nat) : List (Op α) → List Nat
  | [] => d
  | .setMember j _ :: os => dirty (j :: d) os
  | .memberUpdateCfg j :: os => dirty (d.filter (· != j)) os
  | .collUpdateCfg :: os => dirty [] os
  | _ :: os => dirty d os

/-- statements that report a count: `len(coll)`, `coll.dataset_lengths`, `coll.cfg.n_mazes` -/
def Op.isCountObs {α} : Op α → Bool
  | .len | .lengths | .cfgCount => true
  | _ => false

/-- the caller's discipline: every count is read at a moment when no member slot is dirty, i.e. every
    `setMember j` was followed by `memberUpdateCfg j` or `collUpdateCfg` before the next count is read -/
def disciplined {α} (d : List Nat) : List (Op α) → Bool
  | [] => true
  | o :: os => (!o.isCountObs || d.isEmpty) && disciplined (dirty d [o]) os

end MZ.Coll
