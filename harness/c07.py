"""C07 — legacy tokenization round-trips and agrees with its modular equivalent.

Correspondence: the real `as_tokens` / `from_tokens` / `token_utils` functions vs. the Lean model `MZ.LT` (driver ops `C07.*`).
The shuffles of the adjacency list are handled relationally: the order/orientation actually emitted is read back from the
tokens, the driver checks that it is a legal listing of the maze's connections (`adjOK`) and the model must then reproduce
the token list exactly. Oracle (independent of the model, written from the property statement): array equality after the
round trip, equality of legacy and modular tokens up to order/orientation of adjacency entries, dataset-level rules."""
from __future__ import annotations
import random as _pyrandom, re, warnings
import numpy as np

RULE = ("mazes: real gen_dfs / gen_wilson (spanning trees) and gen_dfs_percolation (p in .1-.7) on square grids 2..20 "
        "(quick: 40 per tokenizer flavour and kind, sizes biased to 2..8 with 10..20 present), kinds LatticeMaze / TargetedLatticeMaze "
        "(random in-grid endpoints incl. equal ones) / SolvedMaze (random shortest path, plus planted 1-cell and 2-cell paths); "
        "tokenizers: the 3 TokenizationMode enums, legacy MazeTokenizer with max_grid_size None and 20, MazeTokenizerModular.from_legacy "
        "of each; tokens passed back as list and as one space-joined string. Malformed streams: random strings over "
        "'( ) , digits space tab newline < > - ; a' (rarely \\r \\v \\f \\x1c-\\x1f) and near-miss coordinate strings for the scanner functions; random token lists for "
        "tokens_between/list_split; single-token mutations of valid token lists for from_tokens. non-trivial = a maze with at least one "
        "connection (all are) / a string containing a parenthesis or comma; distinct = distinct (flavour, mode, kind, size, edges, "
        "endpoints, path, list-or-string) resp. distinct string; later additions: every maze parsed through all three classes, shared-lattice groups and mode reassignment on a live tokenizer, the size-limited legacy tokenizer and MazeDatasetCollection (members incl. empty ones) at dataset level, token lists emptied by the caller between calls")
ASSUMPTIONS = [
    "ASCII input: Python's isdigit/isspace/\\S are Unicode-aware, the model's are their ASCII restrictions",
    "grid side <= 127 (connection_list_to_adj_list stores coordinates as int8); property scope is 2..20",
    "source mazes are square with a well-formed connection_list, endpoints inside the grid, SolvedMaze start/end = first/last path cell "
    "(what the constructors enforce)",
    "the adjacency order/orientation emitted by the shuffles is an arbitrary legal listing (checked per case by the driver's adjOK)",
]
TRUSTED = [
    "numpy idioms modelled: np.array(coordinates) shape test, adj_list.max(), argmax of !=, np.ndindex order (validated per case)",
    "hand-written scanner `MZ.LT.scan` stands for re.findall(r'\\([^)]*\\)|\\S+') — validated against Python `re` on random strings every run; "
    "the regex literal itself is re-emitted from the source into Generated/LegacyTok.lean and pinned by a Lean `example`",
    "is_connection / ConnectionEdges._get_edges of the modular tokenizer (all listed edges are connections) — validated per case",
]

SPECIALS = ["<ADJLIST_START>", "<ADJLIST_END>", "<ORIGIN_START>", "<ORIGIN_END>", "<TARGET_START>", "<TARGET_END>", "<PATH_START>",
            "<PATH_END>", "<-->", ";"]
MODES = ["AOTP_UT_rasterized", "AOTP_UT_uniform", "AOTP_CTT_indexed"]
FLAVOURS = ["enum", "legacy", "legacy20", "modular"]
ERRMAP = {"indexError": {"IndexError"}, "valueError": {"ValueError"}, "assertionError": {"AssertionError"},
          "arrayShape": {"ValueError", "AssertionError"}, "notImplemented": {"NotImplementedError"}}


# ---------------------------------------------------------------------------------------------------------------------
def _imports():
    import maze_dataset.tokenization.maze_tokenizer as mt
    from maze_dataset import LatticeMaze, TargetedLatticeMaze, SolvedMaze, LatticeMazeGenerators
    from maze_dataset.tokenization import MazeTokenizer, TokenizationMode, MazeTokenizerModular
    return mt, LatticeMaze, TargetedLatticeMaze, SolvedMaze, LatticeMazeGenerators, MazeTokenizer, TokenizationMode, MazeTokenizerModular


def _seed(ctx, salt=0):
    mt = _imports()[0]
    s = (ctx.seed * 1000003 + salt) % (2 ** 31)
    np.random.seed(s); _pyrandom.seed(s)
    mt.numpy_rng = np.random.default_rng(s)


def _tokenizer(flavour, mode):
    mt, LM, TLM, SM, G, MazeTokenizer, TokenizationMode, MTM = _imports()
    m = TokenizationMode[mode]
    if flavour == "enum": return m
    if flavour == "legacy": return MazeTokenizer(tokenization_mode=m, max_grid_size=None)
    if flavour == "legacy20": return MazeTokenizer(tokenization_mode=m, max_grid_size=20)
    if flavour == "modular": return MTM.from_legacy(m)
    raise KeyError(flavour)


def _exc_name(e):
    for k in ("NotImplementedError", "IndexError", "AssertionError", "KeyError", "TypeError"):
        if type(e).__name__ == k: return k
    if isinstance(e, ValueError): return "ValueError"
    if isinstance(e, AssertionError): return "AssertionError"
    if isinstance(e, IndexError): return "IndexError"
    return "other:" + type(e).__name__


# ----- mazes ---------------------------------------------------------------------------------------------------------
def _edges(conn):
    return [[int(d), int(r), int(c)] for d, r, c in np.argwhere(conn)]


def maze_json(mz):
    _, LM, TLM, SM, *_ = _imports()
    kind = "solved" if isinstance(mz, SM) else "targeted" if isinstance(mz, TLM) else "lattice"
    o = dict(kind=kind, rows=int(mz.connection_list.shape[1]), cols=int(mz.connection_list.shape[2]), edges=_edges(mz.connection_list))
    if kind != "lattice":
        o["start"] = [int(x) for x in mz.start_pos]; o["end"] = [int(x) for x in mz.end_pos]
    if kind == "solved":
        o["solution"] = [[int(a), int(b)] for a, b in mz.solution]
    return o


def maze_from_json(o):
    _, LM, TLM, SM, *_ = _imports()
    conn = np.zeros((2, o["rows"], o["cols"]), dtype=np.bool_)
    for d, r, c in o["edges"]:
        conn[d, r, c] = True
    if o["kind"] == "lattice": return LM(connection_list=conn)
    if o["kind"] == "targeted": return TLM(connection_list=conn, start_pos=np.array(o["start"]), end_pos=np.array(o["end"]))
    return SM(connection_list=conn, solution=np.array(o["solution"]))


def _gen_base(ctx, n):
    G = _imports()[4]
    r = ctx.rng.random()
    shape = np.array([n, n])
    if r < 0.45:
        ctx.count("gen=dfs"); return G.gen_dfs(shape)
    if r < 0.6:
        ctx.count("gen=wilson"); return G.gen_wilson(shape)
    ctx.count("gen=dfs_percolation")
    return G.gen_dfs_percolation(shape, p=ctx.rng.choice([0.1, 0.3, 0.5, 0.7]))


def _size(ctx):
    r = ctx.rng.random()
    if r < 0.55: return ctx.rng.randint(2, 8)
    if r < 0.85: return ctx.rng.randint(9, 13)
    return ctx.rng.randint(14, 20)


def _make(ctx, kind, n):
    _, LM, TLM, SM, *_ = _imports()
    base = _gen_base(ctx, n)
    if kind == "lattice":
        return base
    if kind == "targeted":
        s = (ctx.rng.randrange(n), ctx.rng.randrange(n))
        e = s if ctx.rng.random() < 0.1 else (ctx.rng.randrange(n), ctx.rng.randrange(n))
        return TLM(connection_list=base.connection_list, start_pos=np.array(s), end_pos=np.array(e))
    r = ctx.rng.random()
    if r < 0.1:      # one-cell path
        c = (ctx.rng.randrange(n), ctx.rng.randrange(n)); ctx.count("path=1cell")
        return SM(connection_list=base.connection_list, solution=np.array([c]))
    if r < 0.25:     # two-cell path along a real connection
        d, x, y = _edges(base.connection_list)[ctx.rng.randrange(int(base.connection_list.sum()))]
        a, b = (x, y), (x + (d == 0), y + (d == 1)); ctx.count("path=2cell")
        if ctx.rng.random() < 0.5: a, b = b, a
        return SM(connection_list=base.connection_list, solution=np.array([a, b]))
    ctx.count("path=shortest")
    return SM.from_lattice_maze(base, base.generate_random_path())


# ----- observing the emitted adjacency order ---------------------------------------------------------------------------
_UT = re.compile(r"\((\d+),(\d+)\)\Z")


def parse_adj(toks, ctt):
    """[(a,b),...] in emitted order, or None when the adjacency region is not of the documented AOTP shape"""
    try:
        a = toks.index("<ADJLIST_START>") + 1; b = toks.index("<ADJLIST_END>")
    except ValueError:
        return None
    body, out, cur = toks[a:b], [], []
    for t in body:
        if t == ";":
            out.append(cur); cur = []
        else:
            cur.append(t)
    if cur: return None
    adj = []
    for g in out:
        if ctt:
            if len(g) != 11 or g[0] != "(" or g[2] != "," or g[4] != ")" or g[5] != "<-->" or g[6] != "(" or g[8] != "," or g[10] != ")":
                return None
            if not all(x.isdigit() and x.isascii() for x in (g[1], g[3], g[7], g[9])): return None
            adj.append([[int(g[1]), int(g[3])], [int(g[7]), int(g[9])]])
        else:
            if len(g) != 3 or g[1] != "<-->": return None
            m1, m2 = _UT.match(g[0]), _UT.match(g[2])
            if not m1 or not m2: return None
            adj.append([[int(m1.group(1)), int(m1.group(2))], [int(m2.group(1)), int(m2.group(2))]])
    return adj


def canon_tokens(toks, ctt):
    """tokens with the adjacency entries as a sorted list of unordered pairs (order and orientation forgotten)"""
    adj = parse_adj(toks, ctt)
    if adj is None: return ("unparsable", tuple(toks))
    a = toks.index("<ADJLIST_START>"); b = toks.index("<ADJLIST_END>")
    return (tuple(toks[:a + 1]), tuple(sorted(tuple(sorted((tuple(p[0]), tuple(p[1])))) for p in adj)), tuple(toks[b:]))


# ----- oracle: the property statement on the real code ---------------------------------------------------------------------
def same_maze(orig, back):
    """None if `back` is a maze of the same kind with identical connection structure, start, end, solution; else a description"""
    if type(orig) is not type(back):
        return f"kind differs: {type(orig).__name__} -> {type(back).__name__}"
    if orig.connection_list.shape != back.connection_list.shape:
        return f"connection_list shape {orig.connection_list.shape} -> {back.connection_list.shape}"
    if not np.array_equal(orig.connection_list, back.connection_list):
        diff = np.argwhere(orig.connection_list != back.connection_list)[:4].tolist()
        return f"connection_list differs at (dim,row,col) {diff}"
    for f in ("start_pos", "end_pos", "solution"):
        if hasattr(orig, f):
            if not hasattr(back, f) or not np.array_equal(np.array(getattr(orig, f)), np.array(getattr(back, f))):
                return f"{f} differs: {np.array(getattr(orig, f)).tolist()} -> {np.array(getattr(back, f, None)).tolist() if hasattr(back, f) else None}"
    return None


def result_json(call):
    try:
        return dict(ok=maze_json(call()))
    except Exception as e:   # noqa: BLE001 — error class is the observation
        return dict(exc=_exc_name(e), msg=str(e)[:120])


def _cmp_model_result(model, impl):
    """model reply {ok|err} vs impl observation {ok|exc}: None if consistent / 'skip' if outside the model / else text"""
    if "err" in model:
        if model["err"] == "unsupported": return "skip"
        if "exc" in impl and impl["exc"] in ERRMAP[model["err"]]: return None
        return f"model error {model['err']} vs impl {impl.get('exc', 'ok')}"
    if "exc" in impl:
        return f"model ok vs impl {impl['exc']}: {impl.get('msg')}"
    return None if model["ok"] == impl["ok"] else f"model maze {model['ok']} vs impl maze {impl['ok']}"


def check_maze(ctx, mz, flavour, mode, reqs=None, pend=None, stored_tokens=None):
    """oracle checks on one (maze, tokenizer); queues the model requests. Returns nothing; records violations on ctx."""
    mt, LM, TLM, SM, G, MazeTokenizer, TokenizationMode, MTM = _imports()
    tok = _tokenizer(flavour, mode)
    ctt = mode == "AOTP_CTT_indexed"
    mj = maze_json(mz)
    case = dict(maze=mj, flavour=flavour, mode=mode)
    try:
        toks = list(stored_tokens) if stored_tokens is not None else list(mz.as_tokens(tok))
    except Exception as e:  # noqa: BLE001
        ctx.violate(f"as_tokens raised {type(e).__name__}: {e} for a {mj['kind']} {mj['rows']}x{mj['cols']} maze, tokenizer {flavour}/{mode}", case)
        return
    case["tokens"] = toks
    # (a) round trip, list and string
    for as_str in (False, True):
        inp = " ".join(toks) if as_str else toks
        ctx.case(dict(f=flavour, m=mode, k=mj["kind"], n=mj["rows"], e=mj["edges"], s=mj.get("start"), t=mj.get("end"), p=mj.get("solution"), str=as_str),
                 nontrivial=len(mj["edges"]) > 0)
        ctx.count(f"kind={mj['kind']}"); ctx.count(f"flavour={flavour}"); ctx.count(f"mode={mode}"); ctx.count(f"n={mj['rows']}")
        for cls in ((LM, TLM, SM) if ctx.rng.random() < 0.5 else (type(mz),)):   # the kind comes from the tokens, whichever class parses them
            try:
                back = cls.from_tokens(inp, tok)
                why = same_maze(mz, back)
            except Exception as e:  # noqa: BLE001
                why = f"from_tokens raised {type(e).__name__}: {str(e)[:200]}"
            if why:
                ctx.violate(f"round trip {'string' if as_str else 'list'} {flavour}/{mode} {cls.__name__}.from_tokens on a {mj['kind']} "
                            f"{mj['rows']}x{mj['cols']} maze: {why}", dict(case, as_str=as_str))
                return
    # (b) legacy vs its modular equivalent: same tokens up to order/orientation of adjacency entries
    other = _tokenizer("modular" if flavour != "modular" else "legacy", mode)
    try:
        toks2 = list(mz.as_tokens(other))
        if canon_tokens(toks, ctt) != canon_tokens(toks2, ctt):
            ctx.violate(f"legacy and modular tokens differ beyond adjacency order for {mode} on a {mj['kind']} {mj['rows']}x{mj['cols']} maze: "
                        f"{flavour}={toks[-12:]} other={toks2[-12:]}", dict(case, other_tokens=toks2))
            return
    except Exception as e:  # noqa: BLE001
        ctx.violate(f"as_tokens of the equivalent tokenizer raised {type(e).__name__}: {e}", case)
        return
    # adjacency entries = the maze's connections (each exactly once)
    adj = parse_adj(toks, ctt)
    true_edges = sorted(tuple(sorted(((r, c), (r + (d == 0), c + (d == 1))))) for d, r, c in mj["edges"])
    if adj is None or sorted(tuple(sorted((tuple(p[0]), tuple(p[1])))) for p in adj) != true_edges:
        ctx.violate(f"emitted adjacency list is not the maze's connection set ({flavour}/{mode}, {mj['rows']}x{mj['cols']})", case)
        return
    # (c) model requests
    if reqs is not None:
        reqs.append(dict(op="C07.as_tokens", mode=mode, adj=adj, **mj)); pend.append(("as_tokens", case, flavour, toks))
        tkspec = dict(tokenizer="modular", legacy_equivalent=bool(tok.is_legacy_equivalent())) if flavour == "modular" else dict(tokenizer="legacy", legacy_equivalent=True)
        reqs.append(dict(op="C07.from_tokens", tokens=toks, **tkspec)); pend.append(("from_tokens", case, dict(ok=mj), "list"))
        reqs.append(dict(op="C07.from_tokens", text=" ".join(toks), **tkspec)); pend.append(("from_tokens", case, dict(ok=mj), "string"))
        if len(ctx.samples) < 3 and mj["rows"] <= 3:
            ctx.sample(dict(kind=mj["kind"], n=mj["rows"], tokenizer=f"{flavour}/{mode}", tokens=" ".join(toks)))


def _resolve(ctx, reqs, pend):
    outs = ctx.driver.run_parallel(reqs)
    for (what, case, a, b), o in zip(pend, outs):
        if "error" in o:
            ctx.disagree(f"driver error on {what}: {o['error']}", case); continue
        ctx.traces_validated += 1
        if what == "as_tokens":
            flavour, toks = a, b
            if not o["adj_ok"]:
                ctx.disagree(f"observed adjacency order is not a legal listing of the maze's connections ({case['flavour']}/{case['mode']})", case)
            model = o["modular"].get("ok") if flavour == "modular" else o["legacy"]
            if model != toks:
                k = next((i for i, (x, y) in enumerate(zip(model or [], toks)) if x != y), min(len(model or []), len(toks)))
                ctx.disagree(f"model tokens != {flavour}/{case['mode']} as_tokens at position {k}: model={(model or o['modular'])[k:k+6] if model else o['modular']} impl={toks[k:k+6]}", case)
            if "ok" in o["modular"] and o["modular"]["ok"] != o["legacy"]:
                ctx.disagree("model: modular tokens differ from legacy tokens on the same adjacency order (theorem C07_legacy_eq_modular contradicted?)", case)
        elif what == "from_tokens":
            why = _cmp_model_result(o, a)
            if why == "skip": ctx.count("model=unsupported"); continue
            if why:
                ctx.disagree(f"from_tokens ({b}) {why}", case)
        elif what == "scan":
            if o != a:
                bad = [k for k in a if o.get(k) != a[k]]
                ctx.disagree(f"scanner functions differ on {case['s']!r}: " + "; ".join(f"{k}: model={o.get(k)!r} impl={a[k]!r}" for k in bad), case)
        elif what == "between":
            if o != a:
                ctx.disagree(f"tokens_between/list_split differ on {case}: model={o} impl={a}", case)
        elif what == "s2c":
            why = None
            if "err" in o:
                why = None if a.get("exc") in ERRMAP.get(o["err"], ()) else f"model {o} impl {a}"
            elif o != a:
                why = f"model {o} impl {a}"
            if why: ctx.disagree(f"strings_to_coords differ on {case}: {why}", case)
        elif what == "slice":
            if o["picked"] != a:
                ctx.disagree(f"mazes[:limit] model {o['picked']} vs python {a} for {case}", case)


# ----- malformed streams ---------------------------------------------------------------------------------------------------
ALPHA = "(),0123456789  \t\n<>-;a" * 3 + "\r\x0b\x0c\x1c\x1d\x1e\x1f"


def _rand_string(rng):
    r = rng.random()
    if r < 0.5:
        return "".join(rng.choice(ALPHA) for _ in range(rng.randint(0, 14)))
    if r < 0.8:   # near-miss coordinate strings
        parts = [rng.choice(["(", "((", "", " (", "( "]), rng.choice(["1", "12", " 3", "4 ", "", "007", "-1", "a"]),
                 rng.choice([",", " , ", ",,", "", ", "]), rng.choice(["2", "10", " 5 ", "", "3,4", "3 , 4"]), rng.choice([")", "))", "", " )", ") "])]
        return "".join(parts)
    pieces = ["(1,2)", "( 1 , 2 )", "<-->", ";", "<PATH_START>", "(", ")", ",", "3", "(10,11)", " ", "  ", "\t", "(3", "4)"]
    return "".join(rng.choice(pieces) + rng.choice(["", " ", " "]) for _ in range(rng.randint(1, 6)))


def _scan_impl(s):
    from maze_dataset.token_utils import coords_string_split_UT, str_is_coord, coord_str_to_tuple_noneable
    t = coord_str_to_tuple_noneable(s)
    return dict(split=coords_string_split_UT(s), pysplit=s.split(), is_coord=bool(str_is_coord(s)), tuple=None if t is None else [int(x) for x in t],
                strip=s.strip())


def malformed(ctx, reqs, pend, n_strings, n_lists, n_mut):
    from maze_dataset.token_utils import tokens_between, strings_to_coords
    from muutils.misc import list_split
    rng = ctx.rng
    for _ in range(n_strings):
        s = _rand_string(rng)
        ctx.case(dict(scan=s), nontrivial=any(ch in s for ch in "(),")); ctx.count("stream=scan")
        reqs.append(dict(op="C07.scan", s=s)); pend.append(("scan", dict(s=s), _scan_impl(s), None))
    vocab = SPECIALS + ["(1,2)", "(0,0)", "x"]
    for _ in range(n_lists):
        toks = [rng.choice(vocab) for _ in range(rng.randint(0, 9))]
        a, b = rng.choice(SPECIALS[:8]), rng.choice(SPECIALS[:8])
        i_s, i_e = rng.random() < 0.5, rng.random() < 0.5
        try:
            bt = dict(ok=tokens_between(toks, a, b, include_start=i_s, include_end=i_e))
        except ValueError:
            bt = dict(err="valueError")
        except AssertionError:
            bt = dict(err="assertionError")
        case = dict(tokens=toks, start=a, end=b, incl_start=i_s, incl_end=i_e, sep=";")
        ctx.case(dict(between=case)); ctx.count("stream=between")
        reqs.append(dict(op="C07.between", **case)); pend.append(("between", case, dict(between=bt, list_split=list_split(toks, ";")), None))
        w = rng.choice(["skip", "error", "include"])
        toks2 = [rng.choice(vocab + ["( 1 , 2 )", "(", ")", ",", "7", "(3,4,5)"]) for _ in range(rng.randint(0, 7))]
        try:
            r = strings_to_coords(toks2, when_noncoord=w)
            impl = dict(ok=[[int(x) for x in it] if isinstance(it, tuple) else it for it in r])
        except Exception as e:  # noqa: BLE001
            impl = dict(exc=_exc_name(e))
        ctx.case(dict(s2c=toks2, w=w)); ctx.count("stream=strings_to_coords")
        reqs.append(dict(op="C07.strings_to_coords", tokens=toks2, when=w)); pend.append(("s2c", dict(tokens=toks2, when=w), impl, None))
    # single-token mutations of valid token lists
    mt, LM, TLM, SM, G, MazeTokenizer, TokenizationMode, MTM = _imports()
    for _ in range(n_mut):
        n = rng.randint(2, 4)
        kind = rng.choice(["lattice", "targeted", "solved"])
        mode = rng.choice(MODES)
        mz = _make(ctx, kind, n)
        tok = _tokenizer("legacy", mode)
        toks = list(mz.as_tokens(tok))
        k = rng.randrange(len(toks))
        r = rng.random()
        if r < 0.3: mut = toks[:k] + toks[k + 1:]; how = "delete"
        elif r < 0.5: mut = toks[:k] + [toks[k]] + toks[k:]; how = "duplicate"
        elif r < 0.7:
            j = rng.randrange(len(toks)); mut = list(toks); mut[k], mut[j] = mut[j], mut[k]; how = "swap"
        elif r < 0.9: mut = toks[:k] + [rng.choice(SPECIALS + ["(0,0)", "(9,9)", "(1,2,3)", "x", "(", ")", "5"])] + toks[k + 1:]; how = "replace"
        else: mut = toks[:k]; how = "truncate"
        as_str = rng.random() < 0.3
        inp = " ".join(mut) if as_str else mut
        if as_str and not mut: inp = ""
        impl = result_json(lambda: LM.from_tokens(inp, tok))
        case = dict(mutation=how, at=k, tokens=mut, as_str=as_str, mode=mode)
        ctx.case(dict(mut=mut, s=as_str)); ctx.count(f"stream=mutation/{how}"); ctx.count("mutation->" + ("ok" if "ok" in impl else impl["exc"]))
        req = dict(op="C07.from_tokens", tokenizer="legacy", legacy_equivalent=True)
        req.update(dict(text=inp) if as_str else dict(tokens=mut))
        reqs.append(req); pend.append(("from_tokens", case, impl, "mutated"))


# ----- necessity witness, non-equivalent tokenizers, dataset level -------------------------------------------------------------
def witness_and_misc(ctx, reqs, pend):
    mt, LM, TLM, SM, G, MazeTokenizer, TokenizationMode, MTM = _imports()
    # C07_counter: 3x3 maze whose last row and column are isolated does not round-trip (grid size inferred as 2)
    conn = np.zeros((2, 3, 3), dtype=np.bool_); conn[0, 0, 0] = True; conn[1, 0, 0] = True; conn[1, 1, 0] = True
    w = LM(connection_list=conn)
    for mode in MODES:
        tok = _tokenizer("legacy", mode)
        toks = list(w.as_tokens(tok))
        impl = result_json(lambda: LM.from_tokens(toks, tok))
        ctx.case(dict(witness=mode)); ctx.count("stream=necessity-witness")
        if "ok" in impl and impl["ok"]["rows"] == 3:
            ctx.notes.append("necessity witness now round-trips: from_adj_list no longer infers the grid size from the largest index")
        reqs.append(dict(op="C07.from_tokens", tokenizer="legacy", legacy_equivalent=True, tokens=toks))
        pend.append(("from_tokens", dict(witness=True, mode=mode, tokens=toks), impl, "witness"))
    # tokenizers that are not legacy equivalent are refused
    from maze_dataset.tokenization import PromptSequencers, CoordTokenizers, PathTokenizers, StepTokenizers
    mz = _make(ctx, "solved", 3)
    for t in (MTM(prompt_sequencer=PromptSequencers.AOP()), MTM(prompt_sequencer=PromptSequencers.AOTP(coord_tokenizer=CoordTokenizers.CTT(pre=False)))):
        toks = list(mz.as_tokens(_tokenizer("legacy", "AOTP_UT_uniform")))
        impl = result_json(lambda: LM.from_tokens(toks, t))
        ctx.case(dict(noneq=t.name)); ctx.count("stream=non-equivalent-tokenizer")
        reqs.append(dict(op="C07.from_tokens", tokenizer="modular", legacy_equivalent=bool(t.is_legacy_equivalent()), tokens=toks))
        pend.append(("from_tokens", dict(tokenizer=t.name), impl, "non-equivalent"))
    for mode in MODES:
        if not MTM.from_legacy(TokenizationMode[mode]).is_legacy_equivalent():
            ctx.violate(f"MazeTokenizerModular.from_legacy({mode}) is not is_legacy_equivalent()", dict(mode=mode))


def dataset_level(ctx, reqs, pend, n_sets):
    from maze_dataset import MazeDataset, MazeDatasetConfig
    for _ in range(n_sets):
        k = ctx.rng.randint(0, 5)
        mazes = [_make(ctx, "solved", ctx.rng.randint(2, 5)) for _ in range(k)]
        ds = MazeDataset(MazeDatasetConfig(name="c07", grid_n=5, n_mazes=k), mazes)
        members = None
        if k >= 2 and ctx.rng.random() < 0.5:
            # the other dataset-level container: a collection whose members hold the same mazes in the same order (possibly an empty member)
            from maze_dataset.dataset.collected_dataset import MazeDatasetCollection, MazeDatasetCollectionConfig
            cuts = sorted(ctx.rng.randint(0, k) for _ in range(ctx.rng.randint(1, 2)))
            parts = [mazes[a:b] for a, b in zip([0] + cuts, cuts + [k])]
            mds = [MazeDataset(MazeDatasetConfig(name=f"c07m{j}", grid_n=5, n_mazes=len(pt)), list(pt)) for j, pt in enumerate(parts)]
            ds = MazeDatasetCollection(MazeDatasetCollectionConfig(name="c07c", maze_dataset_configs=[d.cfg for d in mds]), mds)
            members = [len(pt) for pt in parts]; ctx.count("stream=collection")
        flavour, mode = ctx.rng.choice(["legacy", "legacy20", "modular", "enum"]), ctx.rng.choice(MODES)
        tok = _tokenizer(flavour, mode); ctt = mode == "AOTP_CTT_indexed"
        for limit in [None, 0, 1, k, k + 3, -1, ctx.rng.randint(0, k + 1)]:
            for join in (False, True):
                case = dict(n_mazes=k, limit=limit, join=join, flavour=flavour, mode=mode, mazes=[maze_json(m) for m in mazes], collection_members=members)
                ctx.case(dict(ds=[maze_json(m) for m in mazes], l=limit, j=join, f=flavour, m=mode), nontrivial=k > 0); ctx.count("stream=dataset")
                try:
                    out = ds.as_tokens(tok, limit=limit, join_tokens_individual_maze=join)
                except Exception as e:  # noqa: BLE001
                    ctx.violate(f"MazeDataset.as_tokens(limit={limit}, join={join}) raised {type(e).__name__}: {e}", case); return
                want = mazes[:limit]
                ok = isinstance(out, list) and len(out) == len(want)
                why = None if ok else f"{len(out) if isinstance(out, list) else type(out)} entries, expected {len(want)}"
                if ok:
                    for i, (o, m) in enumerate(zip(out, want)):
                        if join and (not isinstance(o, str) or " ".join(o.split(" ")) != o):
                            why = f"entry {i} is not one space-joined string"; break
                        if not join and not (isinstance(o, list) and all(isinstance(t, str) for t in o)):
                            why = f"entry {i} is not a list of tokens"; break
                        toks = o.split(" ") if join else o
                        if canon_tokens(list(toks), ctt) != canon_tokens(list(m.as_tokens(tok)), ctt):
                            why = f"entry {i} is not the tokenization of maze {i}"; break
                if why:
                    ctx.violate(f"{'MazeDataset' if members is None else 'MazeDatasetCollection (members of ' + str(members) + ' mazes)'}.as_tokens(limit={limit}, join={join}) on {k} mazes ({flavour}/{mode}): {why}", case); return
                reqs.append(dict(op="C07.slice", n=k, limit=limit)); pend.append(("slice", dict(n=k, limit=limit), list(range(k))[:limit], None))
                try:      # the result belongs to the caller: it is emptied in place before the next call on the same dataset and tokenizer
                    for o in out:
                        if isinstance(o, list): o.clear()
                    out.clear()
                except Exception: pass


# ----- entry points -----------------------------------------------------------------------------------------------------------
def shared_lattice_and_reuse(ctx, n_lattices):
    """(1) several targeted / solved mazes on ONE lattice with different endpoints, tokenized one after the other by the same and by
    fresh tokenizers (anything memoised per lattice value would hand the second maze the first one's endpoints);
    (2) a long-lived legacy tokenizer whose mode is reassigned (no clear_cache) must tokenize like a fresh tokenizer of the new mode."""
    mt, LM, TLM, SM, G, MazeTokenizer, TokenizationMode, MTM = _imports()
    for _ in range(n_lattices):
        n = ctx.rng.randint(2, 5)
        base = _gen_base(ctx, n)
        cells = [(i, j) for i in range(n) for j in range(n)]
        group = []
        for _k in range(3):
            s, e = ctx.rng.choice(cells), ctx.rng.choice(cells)
            group.append(TLM(connection_list=base.connection_list, start_pos=np.array(s), end_pos=np.array(e)))
            try:
                group.append(SM.from_lattice_maze(base, base.find_shortest_path(s, e)))
            except ValueError:
                pass
        for fl in ("legacy", "enum", "modular"):
            mode = ctx.rng.choice(MODES)
            for mz in group:
                check_maze(ctx, mz, fl, mode)
                ctx.count("stream=shared-lattice")
                if ctx.violations: return
    # (2)
    for _ in range(max(2, n_lattices // 3)):
        a, b = ctx.rng.sample(MODES, 2)
        tok = MazeTokenizer(tokenization_mode=TokenizationMode[a], max_grid_size=None)
        mz = _make(ctx, ctx.rng.choice(["targeted", "solved"]), ctx.rng.randint(2, 5))
        try:
            mz.as_tokens(tok)
            tok.tokenization_mode = TokenizationMode[b]
            got = list(mz.as_tokens(tok))
            want = list(mz.as_tokens(MazeTokenizer(tokenization_mode=TokenizationMode[b], max_grid_size=None)))
            mod = list(mz.as_tokens(MTM.from_legacy(tok)))
        except Exception as e:  # noqa: BLE001
            ctx.notes.append(f"mode reassignment probe not applicable: {type(e).__name__}"); break
        ctt = b == "AOTP_CTT_indexed"
        ctx.case(dict(reassign=[a, b], maze=maze_json(mz)), nontrivial=True); ctx.count("stream=mode-reassigned")
        if canon_tokens(got, ctt) != canon_tokens(want, ctt) or canon_tokens(got, ctt) != canon_tokens(mod, ctt):
            ctx.violate(f"a legacy tokenizer used in mode {a} and then switched to {b} emits tokens that differ (beyond adjacency order) from a fresh {b} tokenizer / "
                        f"from its declared modular equivalent: {got[-10:]} vs {want[-10:]}", dict(maze=maze_json(mz), flavour="legacy", mode=b, reassigned_from=a, tokens=got))
            return


def run(ctx):
    warnings.filterwarnings("ignore")
    _seed(ctx)
    shared_lattice_and_reuse(ctx, 10 if ctx.quick else 150)
    if ctx.violations: return
    per = 40 if ctx.quick else 800
    reqs, pend = [], []
    plan = [(fl, mode, kind) for fl in FLAVOURS for mode in MODES for kind in ("lattice", "targeted", "solved")]
    # `per` mazes per (mode-with/without max_grid_size | modular) x kind: enum+legacy share the "without" budget
    share = {"enum": per // 4, "legacy": per - per // 4, "legacy20": per, "modular": per}
    for fl, mode, kind in plan:
        for _ in range(share[fl]):
            check_maze(ctx, _make(ctx, kind, _size(ctx)), fl, mode, reqs, pend)
            if ctx.violations:
                _shrink(ctx, kind, fl, mode); return
        if len(reqs) > 6000:
            _resolve(ctx, reqs, pend); reqs, pend = [], []
    malformed(ctx, reqs, pend, n_strings=2000 if ctx.quick else 40000, n_lists=300 if ctx.quick else 6000, n_mut=250 if ctx.quick else 5000)
    witness_and_misc(ctx, reqs, pend)
    dataset_level(ctx, reqs, pend, n_sets=6 if ctx.quick else 120)
    _resolve(ctx, reqs, pend)


def _shrink(ctx, kind, flavour, mode):
    """a violation was found: look for a smaller failing input of the same (kind, tokenizer) and report that one first"""
    found = list(ctx.violations)
    for n in range(2, 7):
        for _ in range(6):
            ctx.violations = []
            check_maze(ctx, _make(ctx, kind, n), flavour, mode)
            if ctx.violations:
                if ctx.violations[0]["case"]["maze"]["rows"] < found[0]["case"].get("maze", {}).get("rows", 99):
                    ctx.notes.append(f"shrunk the failing input from grid {found[0]['case'].get('maze', {}).get('rows')} to {n}")
                    ctx.violations = ctx.violations + found
                else:
                    ctx.violations = found
                return
    ctx.violations = found


def search(ctx):
    """oracle-only exploration of the real code (no driver): stops at the first violation"""
    warnings.filterwarnings("ignore")
    _seed(ctx, salt=7)
    shared_lattice_and_reuse(ctx, 60)
    if ctx.violations: return
    budget = 400 if ctx.quick else 8000
    # smallest first: all flavours/modes/kinds on sizes 2,3,4, then random sizes
    for n in (2, 3, 4):
        for fl in FLAVOURS:
            for mode in MODES:
                for kind in ("lattice", "targeted", "solved"):
                    check_maze(ctx, _make(ctx, kind, n), fl, mode)
                    if ctx.violations: return
    for _ in range(budget):
        check_maze(ctx, _make(ctx, ctx.rng.choice(["lattice", "targeted", "solved"]), _size(ctx)), ctx.rng.choice(FLAVOURS), ctx.rng.choice(MODES))
        if ctx.violations: return
    dataset_level(ctx, [], [], n_sets=10)


def replay(ctx, rp):
    warnings.filterwarnings("ignore")
    _seed(ctx)
    case = rp.get("case", rp)
    if "maze" in case:
        mz = maze_from_json(case["maze"])
        reqs, pend = [], []
        # first the recorded tokens (the exact failing input: adjacency order/orientation matter) — but only when the current code
        # still regards them as a tokenization of this maze (same tokens up to adjacency order); then a fresh tokenization
        stored = case.get("tokens")
        if stored:
            ctt = case["mode"] == "AOTP_CTT_indexed"
            try:
                fresh = list(mz.as_tokens(_tokenizer(case["flavour"], case["mode"])))
                usable = canon_tokens(list(stored), ctt) == canon_tokens(fresh, ctt)
            except Exception:  # noqa: BLE001
                usable = False
            if usable:
                check_maze(ctx, mz, case["flavour"], case["mode"], reqs, pend, stored_tokens=stored)
            else:
                ctx.notes.append("replay: recorded tokens are not what the current as_tokens emits for this maze; re-tokenizing only")
        if not ctx.violations:
            check_maze(ctx, mz, case["flavour"], case["mode"], reqs, pend)
        if reqs: _resolve(ctx, reqs, pend)
    elif "mazes" in case:
        from maze_dataset import MazeDataset, MazeDatasetConfig
        mazes = [maze_from_json(m) for m in case["mazes"]]
        tok = _tokenizer(case["flavour"], case["mode"])
        out = MazeDataset(MazeDatasetConfig(name="c07", grid_n=5, n_mazes=len(mazes)), mazes).as_tokens(tok, limit=case["limit"], join_tokens_individual_maze=case["join"])
        if len(out) != len(mazes[:case["limit"]]):
            ctx.violate(f"MazeDataset.as_tokens(limit={case['limit']}) returned {len(out)} entries for {len(mazes)} mazes", case)
    else:
        ctx.notes.append("replay: nothing to re-run for this case")
