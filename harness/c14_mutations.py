"""Mutation self-test of ./check C14 (CONVENTIONS step 8): applies realistic breaking edits to a scratch git worktree of /repo
(/tmp/wt_C14, create with `git -C /repo worktree add /tmp/wt_C14 HEAD`, remove afterwards) and runs `VERIF_REPO=/tmp/wt_C14 ./check C14`
for each; prints the VIOLATION line, the replay excerpt and the result of replaying it. Usage: /venv/bin/python harness/c14_mutations.py [M1 M4 …]
Run a clean `./check C14` afterwards so that lean/MazeVerif/Generated/* is re-emitted from /repo."""
import subprocess, sys, json, re, time
WT="/tmp/wt_C14"; VERIF=str(__import__("pathlib").Path(__file__).resolve().parent.parent)
C=WT+"/maze_dataset/constants.py"; U=WT+"/maze_dataset/utils.py"; T=WT+"/maze_dataset/tokenization/maze_tokenizer.py"
KEY='key=lambda x: (max(x), x if x[0] % 2 == 0 else x[::-1])'
MUTS = {
 "M1 swap PATH_NORTH/PATH_SOUTH entries of _VOCAB_FIELDS": [(C, '    ("PATH_NORTH", str, field(default="NORTH")),\n    ("PATH_SOUTH", str, field(default="SOUTH")),\n', '    ("PATH_SOUTH", str, field(default="SOUTH")),\n    ("PATH_NORTH", str, field(default="NORTH")),\n')],
 "M2 corner_first key without the parity flip": [(U, KEY, 'key=lambda x: (max(x), x)')],
 "M3 corner_first uses L1 distance for n > 6 (prefix breaks at n=7)": [(U, KEY, 'key=lambda x: (max(x) if n <= 6 else sum(x), x if x[0] % 2 == 0 else x[::-1])')],
 "M4 modular decode: negative-id guard removed (revert of the fix)": [(T, '            if any(token_id < 0 for token_id in token_ids):\n                raise IndexError(f"negative token id in {token_ids}")\n', '')],
 "M5 modular encode maps unknown tokens to <UNK> instead of raising": [(T, 'return [VOCAB_TOKEN_TO_INDEX[token] for token in text]', 'return [VOCAB_TOKEN_TO_INDEX.get(token, VOCAB_TOKEN_TO_INDEX["<UNK>"]) for token in text]')],
 "M6 legacy rasterized mode column-major": [(T, 'TokenizationMode.AOTP_UT_rasterized: lambda n: list(np.ndindex(n, n)),', 'TokenizationMode.AOTP_UT_rasterized: lambda n: [x[::-1] for x in np.ndindex(n, n)],')],
 "M7 CTT block range(128) -> range(129)": [(C, 'for i in range(128)', 'for i in range(129)')],
 "M8 duplicate token: PATH_POST 'THEN' -> 'STEP'": [(C, '("PATH_POST", str, field(default="THEN"))', '("PATH_POST", str, field(default="STEP"))')],
 "M11 corner_first uses L1 distance only for n == 7": [(U, KEY, 'key=lambda x: (max(x) if n != 7 else sum(x), x if x[0] % 2 == 0 else x[::-1])')],
 "M12 UT token renders (y,x)": [(C, 'field(default=f"({x},{y})")', 'field(default=f"({y},{x})")')],
 "M9 legacy decode: negative-id guard removed": [(T, '            if any(token < 0 for token in tokens):\n                raise IndexError(f"negative token id in {tokens}")\n', '')],
 "M10 legacy tokenizer_map built from reversed enumeration (off by one)": [(T, 'return {token: i for i, token in enumerate(self._token_arr)}', 'return {token: i + (i > 11) for i, token in enumerate(self._token_arr)}')],
}
sel = sys.argv[1:] 
for name, edits in MUTS.items():
    if sel and name.split()[0] not in sel: continue
    subprocess.run(["git","-C",WT,"checkout","-q","."],check=True)
    for f, a, b in edits:
        s=open(f).read()
        assert s.count(a)==1, (name, f, s.count(a))
        open(f,"w").write(s.replace(a,b))
    t=time.time()
    p=subprocess.run(["./check","C14"],cwd=VERIF,env={**__import__("os").environ,"VERIF_REPO":WT},capture_output=True,text=True)
    out=(p.stdout+p.stderr).strip().split("\n")
    print("=== "+name+f"  (exit {p.returncode}, {time.time()-t:.0f}s)")
    for l in out[-3:]: print("   ", l[:400])
    m=re.search(r"replay=(\S+)", p.stdout)
    if m:
        r=json.load(open(m.group(1)))
        print("    kind:", r.get("kind")); print("    what:", str(r.get("what", r.get("broken")))[:500]); print("    case:", str(r.get("case"))[:300])
        print("    broken_obligations:", [b[:160] for b in r.get("broken_obligations", r.get("broken", []))][:4])
        if r.get("kind")=="concrete-failing-input":
            q=subprocess.run(["./check","C14","--replay",m.group(1)],cwd=VERIF,env={**__import__("os").environ,"VERIF_REPO":WT},capture_output=True,text=True)
            print("    replay on mutated tree ->", q.stdout.strip().split("\n")[0][:200])
subprocess.run(["git","-C",WT,"checkout","-q","."],check=True)
