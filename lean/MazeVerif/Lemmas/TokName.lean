import MazeVerif.Lemmas.AllInst
/-! Lemmas for the identification part of C15: soundness of the membership decision `checkTy`, and
`load ∘ ser = id` for the serialization scheme. -/
namespace MZ.AI

/-! ## `checkTy` decides `HasTy` (soundness direction, used to place concrete values in the enumeration) -/

mutual
theorem checkTy_sound : ∀ (t : Ty) (v : Val), checkTy t v = true → HasTy v t
  | .bool, v, h => by
    cases v <;> simp [checkTy] at h
    exact .bool _
  | .lit vals, v, h => by
    cases v <;> simp [checkTy] at h
    exact .lit h
  | .tuple ts, v, h => by
    cases v <;> simp [checkTy] at h
    exact .tuple (checkTys_sound ts _ h)
  | .union p ts, v, h => by
    simp only [checkTy, Bool.and_eq_true] at h
    exact .union (checkSome_sound ts v h.1) h.2
  | .data name p fields, v, h => by
    cases v <;> simp [checkTy] at h
    obtain ⟨⟨h1, h2⟩, h3⟩ := h
    subst h1
    exact .data (checkTys_sound fields _ h2) h3
  | .abstr p subs, v, h => by
    simp only [checkTy, Bool.and_eq_true] at h
    exact .abstr (checkSome_sound subs v h.1) h.2
theorem checkTys_sound : ∀ (ts : List Ty) (vs : List Val), checkTys ts vs = true → HasTys vs ts
  | [], [], _ => .nil
  | [], _ :: _, h => by simp [checkTys] at h
  | _ :: _, [], h => by simp [checkTys] at h
  | t :: ts, v :: vs, h => by
    simp only [checkTys, Bool.and_eq_true] at h
    exact .cons (checkTy_sound t v h.1) (checkTys_sound ts vs h.2)
theorem checkSome_sound : ∀ (ts : List Ty) (v : Val), checkSome ts v = true → HasSome v ts
  | [], _, h => by simp [checkSome] at h
  | t :: ts, v, h => by
    simp only [checkSome, Bool.or_eq_true] at h
    rcases h with h | h
    · exact .head (checkTy_sound t v h)
    · exact .tail (checkSome_sound ts v h)
end

/-! ## save / load -/

mutual
/-- values whose classes can be found again from their `__format__` string and whose declared field names are
    distinct and as many as the stored fields -/
inductive Canon (resolve : String → Option String) (fn : String → List String) : Val → Prop
  | b (x) : Canon resolve fn (.b x)
  | lit (a) : Canon resolve fn (.lit a)
  | tup {vs} : CanonL resolve fn vs → Canon resolve fn (.tup vs)
  | obj {cls fs} : resolve (fmtHead (fmtOf cls)) = some cls → (fn cls).length = fs.length → (fn cls).Nodup →
      CanonL resolve fn fs → Canon resolve fn (.obj cls fs)
inductive CanonL (resolve : String → Option String) (fn : String → List String) : List Val → Prop
  | nil : CanonL resolve fn []
  | cons {v vs} : Canon resolve fn v → CanonL resolve fn vs → CanonL resolve fn (v :: vs)
end

theorem pick_cons_of_not_mem {k : String} {v : Val} : ∀ {ks : List String} {kvs : List (String × Val)},
    k ∉ ks → pick ks ((k, v) :: kvs) = pick ks kvs
  | [], _, _ => by simp [pick]
  | k' :: ks, kvs, h => by
    have h1 : k' ≠ k := fun e => h (by simp [e])
    have h2 : k ∉ ks := fun e => h (List.mem_cons_of_mem _ e)
    have hb : (k' == k) = false := by simpa using h1
    simp only [pick, List.lookup_cons, hb, pick_cons_of_not_mem h2]

theorem pick_zip : ∀ (ks : List String) (vs : List Val), ks.length = vs.length → ks.Nodup → pick ks (ks.zip vs) = some vs
  | [], [], _, _ => by simp [pick]
  | [], _ :: _, h, _ => by simp at h
  | _ :: _, [], h, _ => by simp at h
  | k :: ks, v :: vs, h, hn => by
    have hn' := List.nodup_cons.mp hn
    simp only [List.length_cons, Nat.add_right_cancel_iff] at h
    simp only [List.zip_cons_cons, pick, List.lookup_cons, beq_self_eq_true, pick_cons_of_not_mem hn'.1,
      pick_zip ks vs h hn'.2]

mutual
theorem load_ser (resolve : String → Option String) (fn : String → List String) :
    ∀ (v : Val), Canon resolve fn v → load resolve fn (ser fn v) = some v
  | .b x, _ => by simp [ser, load]
  | .lit (.str s), _ => by simp [ser, load]
  | .lit (.int i), _ => by simp [ser, load]
  | .tup vs, h => by
    cases h with
    | tup hl => simp [ser, load, loadL_serL resolve fn vs hl]
  | .obj cls fs, h => by
    cases h with
    | obj h1 h2 h3 h4 =>
      simp only [ser, load, h1, loadF_serF resolve fn fs h4 (fn cls), pick_zip (fn cls) fs h2 h3, Option.map_some]
theorem loadL_serL (resolve : String → Option String) (fn : String → List String) :
    ∀ (vs : List Val), CanonL resolve fn vs → loadL resolve fn (serL fn vs) = some vs
  | [], _ => by simp [serL, loadL]
  | v :: vs, h => by
    cases h with
    | cons h1 h2 => simp [serL, loadL, load_ser resolve fn v h1, loadL_serL resolve fn vs h2]
theorem loadF_serF (resolve : String → Option String) (fn : String → List String) :
    ∀ (vs : List Val), CanonL resolve fn vs → ∀ (ks : List String),
      loadF resolve fn (serF fn ks vs) = some (ks.zip vs)
  | [], _, ks => by cases ks <;> simp [serF, loadF]
  | v :: vs, h, ks => by
    cases h with
    | cons h1 h2 =>
      cases ks with
      | nil => simp [serF, loadF]
      | cons k ks => simp [serF, loadF, load_ser resolve fn v h1, loadF_serF resolve fn vs h2 ks]
end

mutual
/-- decidable sufficient condition on a type tree for all its values to be `Canon` -/
def canonCheck (resolve : String → Option String) (fn : String → List String) : Ty → Bool
  | .bool => true
  | .lit _ => true
  | .tuple ts => canonCheckL resolve fn ts
  | .union _ ts => canonCheckL resolve fn ts
  | .data name _ fields => decide (resolve (fmtHead (fmtOf name)) = some name) && decide ((fn name).length = lenTys fields) &&
      decide (fn name).Nodup && canonCheckL resolve fn fields
  | .abstr _ subs => canonCheckL resolve fn subs
def canonCheckL (resolve : String → Option String) (fn : String → List String) : List Ty → Bool
  | [] => true
  | t :: ts => canonCheck resolve fn t && canonCheckL resolve fn ts
end

mutual
theorem canon_of_hasTy (resolve : String → Option String) (fn : String → List String) :
    ∀ (t : Ty), canonCheck resolve fn t = true → ∀ v, HasTy v t → Canon resolve fn v
  | .bool, _, _, h => by cases h; exact .b _
  | .lit _, _, _, h => by cases h; exact .lit _
  | .tuple ts, hc, _, h => by
    cases h with
    | tuple hs => simp only [canonCheck] at hc; exact .tup (canonL_of_hasTys resolve fn ts hc _ hs)
  | .union _ ts, hc, v, h => by
    cases h with
    | union h1 _ => simp only [canonCheck] at hc; exact canon_of_hasSome resolve fn ts hc v h1
  | .data name _ fields, hc, _, h => by
    cases h with
    | data hs _ =>
      simp only [canonCheck, Bool.and_eq_true, decide_eq_true_eq] at hc
      obtain ⟨⟨⟨h1, h2⟩, h3⟩, h4⟩ := hc
      exact .obj h1 (by rw [h2, lenTys_eq hs]) h3 (canonL_of_hasTys resolve fn fields h4 _ hs)
  | .abstr _ subs, hc, v, h => by
    cases h with
    | abstr h1 _ => simp only [canonCheck] at hc; exact canon_of_hasSome resolve fn subs hc v h1
theorem canonL_of_hasTys (resolve : String → Option String) (fn : String → List String) :
    ∀ (ts : List Ty), canonCheckL resolve fn ts = true → ∀ vs, HasTys vs ts → CanonL resolve fn vs
  | [], _, _, h => by cases h; exact .nil
  | t :: ts, hc, _, h => by
    simp only [canonCheckL, Bool.and_eq_true] at hc
    cases h with
    | cons h1 h2 => exact .cons (canon_of_hasTy resolve fn t hc.1 _ h1) (canonL_of_hasTys resolve fn ts hc.2 _ h2)
theorem canon_of_hasSome (resolve : String → Option String) (fn : String → List String) :
    ∀ (ts : List Ty), canonCheckL resolve fn ts = true → ∀ v, HasSome v ts → Canon resolve fn v
  | [], _, _, h => by cases h
  | t :: ts, hc, v, h => by
    simp only [canonCheckL, Bool.and_eq_true] at hc
    cases h with
    | head h1 => exact canon_of_hasTy resolve fn t hc.1 v h1
    | tail h1 => exact canon_of_hasSome resolve fn ts hc.2 v h1
end

end MZ.AI
