"""Emitter for C11/C04: re-emits, from what the source SAYS (ast, never imported),
  * the dataclass fields of `MazeDatasetConfig` (inherited `GPTDatasetConfig` fields first) with their `compare` flag,
  * the default values of the boolean parameters of `GPTDataset.from_config`,
  * the two literals of the "generation-metadata filter" allowance inside `from_config` (diff key set, trailing record)
into lean/MazeVerif/Generated/CacheCfg.lean.  Theorems of Props/C11.lean mention these constants, so a changed
`compare=` flag, default or allowance literal breaks a proof obligation directly."""
from __future__ import annotations
import ast
from pathlib import Path


def _lstr(s: str) -> str:
    return '"' + s.replace("\\", "\\\\").replace('"', '\\"') + '"'


def _class(tree: ast.Module, name: str) -> ast.ClassDef:
    for node in ast.walk(tree):
        if isinstance(node, ast.ClassDef) and node.name == name:
            return node
    raise KeyError(name)


def _fields(cls: ast.ClassDef) -> list[tuple[str, bool]]:
    out = []
    for st in cls.body:
        if isinstance(st, ast.AnnAssign) and isinstance(st.target, ast.Name):
            compare = True
            v = st.value
            if isinstance(v, ast.Call) and getattr(v.func, "id", getattr(v.func, "attr", "")) in ("serializable_field", "field"):
                for kw in v.keywords:
                    if kw.arg == "compare":
                        compare = bool(ast.literal_eval(kw.value))
            out.append((st.target.id, compare))
    return out


def _from_config(tree: ast.Module) -> ast.FunctionDef:
    cls = _class(tree, "GPTDataset")
    for st in cls.body:
        if isinstance(st, ast.FunctionDef) and st.name == "from_config":
            return st
    raise KeyError("from_config")


def _filters_lean(lst) -> str:
    items = []
    for f in lst:
        args = "[" + ", ".join(_lstr(repr(a)) for a in f.get("args", ())) + "]"
        kw = "[" + ", ".join(f"({_lstr(str(k))}, {_lstr(repr(v))})" for k, v in sorted(f.get("kwargs", {}).items())) + "]"
        items.append(f"({_lstr(f['name'])}, {args}, {kw})")
    return "[" + ", ".join(items) + "]"


def emitters(repo: Path):
    dpath = repo / "maze_dataset" / "dataset" / "dataset.py"
    mpath = repo / "maze_dataset" / "dataset" / "maze_dataset.py"
    dtree, mtree = ast.parse(dpath.read_text()), ast.parse(mpath.read_text())
    base = _fields(_class(dtree, "GPTDatasetConfig"))
    sub = _fields(_class(mtree, "MazeDatasetConfig"))
    names = [n for n, _ in base]
    fields = base + [(n, c) for n, c in sub if n not in names]
    fc = _from_config(dtree)
    # defaults of the boolean keyword parameters (positional-or-keyword args with defaults)
    args = fc.args.args
    defaults = fc.args.defaults
    dmap = {}
    for a, d in zip(args[len(args) - len(defaults):], defaults):
        try:
            v = ast.literal_eval(d)
        except Exception:
            continue
        if isinstance(v, bool):
            dmap[a.arg] = v
    # the allowance (dataset.py:283-305): `set(cfg_diff.keys()) == {<keys>}` and
    # `other == self + [<record literal>]`; both literals are read off the source
    keys, rec = [], None
    for node in ast.walk(fc):
        if isinstance(node, ast.Compare) and len(node.comparators) == 1 and isinstance(node.comparators[0], ast.Set) \
                and "cfg_diff" in ast.dump(node.left):
            keys = [ast.literal_eval(e) for e in node.comparators[0].elts]
        if isinstance(node, ast.Compare) and "cfg_diff" in ast.dump(node.left) and len(node.comparators) == 1 \
                and isinstance(node.comparators[0], ast.BinOp) and isinstance(node.comparators[0].op, ast.Add) \
                and isinstance(node.comparators[0].right, ast.List) and len(node.comparators[0].right.elts) == 1 \
                and "'self'" in ast.dump(node.comparators[0].left) and "'other'" in ast.dump(node.left):
            rec = ast.literal_eval(node.comparators[0].right.elts[0])
    L = ["namespace MZ.Gen\n"]
    L.append("/-- dataclass fields of `MazeDatasetConfig` (base-class fields first) with their `compare` flag -/\n"
             "def cfgFields : List (String × Bool) := [" + ", ".join(f"({_lstr(n)}, {'true' if c else 'false'})" for n, c in fields) + "]\n")
    L.append("/-- defaults of the boolean parameters of `GPTDataset.from_config` -/\n"
             "def fromConfigDefaults : List (String × Bool) := [" + ", ".join(f"({_lstr(k)}, {'true' if v else 'false'})" for k, v in dmap.items()) + "]\n")
    L.append("/-- keys the config diff must consist of for the generation-metadata allowance (`set(cfg_diff.keys()) == {…}`);\n"
             "    empty if the source no longer has that test -/\n"
             "def metaAllowanceKeys : List String := [" + ", ".join(_lstr(k) for k in keys) + "]\n")
    L.append("/-- the filter record `r` of the allowance `other == self + [r]` as (name, args, kwargs); `none` if the source\n"
             "    no longer has that test -/\n"
             "def metaAllowanceRecord : Option (String × List String × List (String × String)) := "
             + ("none" if rec is None else "some " + _filters_lean([rec])[1:-1]) + "\n")
    L.append("end MZ.Gen\n")
    return [("CacheCfg.lean", "\n".join(L))]
