import MazeVerif.Lemmas.Coll
/-! # C16 — a dataset collection is exactly the concatenation of its member datasets

Model: `MZ.Coll.locate` (collected_dataset.py:108-119). A member dataset is a list of mazes of an
arbitrary type `α` (the theorems are parametric in `α`, so "the very maze" is position-identity: the
correspondence harness checks Python `is`). Only property theorems and their non-vacuity examples live here. -/
namespace MZ.Coll

/-- Full statement of C16 (kept visible; proved below as `C16_full_holds`). -/
def C16_full : Prop :=
  ∀ (α : Type) (members : List (List α)),
    len members = (mazes members).length ∧
    (∀ i (h : i < (mazes members).length), getItem members i = some ((mazes members)[i])) ∧
    (∀ i, (mazes members).length ≤ i → getItem members i = none) ∧
    (∀ cnts : List Nat, cnts = members.map List.length → cfgNMazes cnts = len members)

theorem C16_len {α} (members : List (List α)) : len members = (mazes members).length := by
  simp [len, mazes, List.length_flatten]

/-- every valid index: the located member exists, the local index is in range, and the item is the
    i-th maze of the concatenation — zeros (empty members) anywhere. -/
theorem C16_getitem {α} (members : List (List α)) (i : Nat) (h : i < (mazes members).length) :
    getItem members i = some ((mazes members)[i]) := by
  obtain ⟨hk, hj, heq⟩ := locateFrom_spec members 0 i h
  unfold getItem locate
  simp only [List.getElem?_eq_getElem hk, List.getElem?_eq_getElem hj, heq, mazes]
  rfl

theorem C16_getitem_located {α} (members : List (List α)) (i : Nat) (h : i < (mazes members).length) :
    ∃ (hk : (locate (members.map List.length) i).1 < members.length)
      (hj : (locate (members.map List.length) i).2 < members[(locate (members.map List.length) i).1].length),
      members[(locate (members.map List.length) i).1][(locate (members.map List.length) i).2] = (mazes members)[i] :=
  locateFrom_spec members 0 i h

theorem C16_mazes {α} (members : List (List α)) :
    mazes members = members.flatten ∧ (mazes members).length = (members.map List.length).sum := by
  simp [mazes, List.length_flatten]

/-- reported count, `len`, per-member lengths and the flattened list agree whenever every member config's
    `n_mazes` equals its dataset's length (the invariant `generate`, the filter wrappers and
    `update_self_config` maintain; the constructor asserts `c == ds.cfg`, but `n_mazes` is `compare=False`). -/
theorem C16_counts_agree {α} (members : List (List α)) (cnts : List Nat)
    (h : cnts = members.map List.length) :
    cfgNMazes cnts = len members ∧ len members = (mazes members).length ∧
    (members.map List.length).sum = (mazes members).length := by
  subst h; simp [cfgNMazes, len, mazes, List.length_flatten]

private theorem ss_all_lt : ∀ (lens : List Nat) (acc v : Nat), acc + lens.sum < v →
    searchsortedLeft (cum lens acc) v = lens.length
  | [], _, _, _ => rfl
  | l :: ls, acc, v, h => by
    simp only [List.sum_cons] at h
    have h1 : acc + l < v := by omega
    simp only [cum, searchsortedLeft, h1, if_true, List.length_cons]
    rw [ss_all_lt ls (acc + l) v (by omega)]; omega

/-- an index at or past the total length is rejected (IndexError on the member list), never answered -/
theorem C16_getitem_out_of_range {α} (members : List (List α)) (i : Nat) (h : (mazes members).length ≤ i) :
    getItem members i = none := by
  have hs : (members.map List.length).sum = (mazes members).length := by simp [mazes, List.length_flatten]
  have hk : (locate (members.map List.length) i).1 = members.length := by
    simp only [locate, locateFrom]
    rw [ss_all_lt _ 0 (0 + i + 1) (by omega)]; simp
  unfold getItem
  generalize hkj : locate (members.map List.length) i = kj at hk
  obtain ⟨k, j⟩ := kj
  simp only at hk ⊢
  subst hk
  simp

theorem C16_full_holds : C16_full := by
  intro α members
  exact ⟨C16_len members, fun i h => C16_getitem members i h, fun i h => C16_getitem_out_of_range members i h,
    fun cnts hc => (C16_counts_agree members cnts hc).1⟩

/-! ## non-vacuity: concrete collections with zeros at the start, middle and end -/
example : getItem [[], [10, 11], [], [], [12], []] 2 = some 12 := by decide
example : (mazes [[], [10, 11], [], [], [12], []]).length = 3 ∧ len [[], [10, 11], [], [], [12], ([] : List Nat)] = 3 := by decide
example : getItem [[], [10, 11], [], [], [12], []] 3 = none := by decide
example : locate [1, 0, 3, 2, 1] 4 = (3, 0) := by decide

end MZ.Coll
