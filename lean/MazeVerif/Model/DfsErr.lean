import MazeVerif.Model.Dfs
/-! The `gen_dfs` loop model of `Model/Dfs.lean` with its three ways of returning `none` told apart.
    `loopE` is `loop` with a named error instead of `none` (`loop_eq_toOption` in `Lemmas/DfsTotal.lean`):
    * `outOfFuel`      – the model's iteration budget ran out (the only failure that has no counterpart in the Python code),
    * `noDraw`         – the recorded draw list is exhausted,
    * `drawOutOfRange` – a draw does not index the list it selects from (`stack[i]` / `cands[k]`).
    Core only. Nothing in `Model/Dfs.lean` is changed. -/
namespace MZ

inductive RunErr where
  | outOfFuel
  | noDraw
  | drawOutOfRange
deriving DecidableEq, Repr

def popIdxE (a : Args) (s : St) : Except RunErr (Nat × List Nat) :=
  if a.randStack then
    match s.rng with
    | r :: rs => .ok (r, rs)
    | [] => .error .noDraw
  else .ok (s.stack.length - 1, s.rng)

def stepE (rows cols : Nat) (a : Args) (s : St) : Except RunErr St :=
  match popIdxE a s with
  | .error e => .error e
  | .ok (i, rng1) =>
    match s.stack[i]? with
    | none => .error .drawOutOfRange
    | some cur =>
      let stack1 := s.stack.eraseIdx i
      let cs := cands rows cols s.visited cur
      if cs ≠ [] ∧ 2 * s.depth ≤ a.maxDepth then
        match rng1 with
        | [] => .error .noDraw
        | k :: rng2 =>
          match cs[k]? with
          | none => .error .drawOutOfRange
          | some nb =>
            .ok { visited := s.visited ++ [nb]
                  stack := (if a.doForks ∧ cs.length > 1 then stack1 ++ [cur] else stack1) ++ [nb]
                  edges := s.edges ++ [edgeOf cur nb]
                  depth := s.depth + 1
                  rng := rng2 }
      else .ok { s with stack := stack1, depth := s.depth - 1, rng := rng1 }

def loopE (rows cols : Nat) (a : Args) : Nat → St → Except RunErr St
  | 0, _ => .error .outOfFuel
  | fuel + 1, s =>
    if s.stack ≠ [] ∧ s.visited.length < a.nAcc then
      match stepE rows cols a s with
      | .ok s' => loopE rows cols a fuel s'
      | .error e => .error e
    else .ok s

def genDfsE (rows cols : Nat) (a : Args) (start : Cell) (rng : List Nat) (fuel : Nat) : Except RunErr St :=
  loopE rows cols a fuel (init start rng)

end MZ
