import MazeVerif.Generated.LegacyTok
/-! Model of the legacy (AOTP) tokenization round trip — core Lean only.

Python mirrored (file:line of /repo/maze_dataset):
* `token_utils.py:34-69`    `tokens_between`                      → `tokensBetween`
* `token_utils.py:72-118`   `get_adj_list_tokens`, `get_path_tokens(trim_end=True)`, `get_origin_tokens`, `get_target_tokens`
* `token_utils.py:167-191`  `str_is_coord`                        → `strIsCoord`
* `token_utils.py:204-217`  `_coord_to_strings_UT` / `_coord_to_strings_indexed` → `coordToks`
* `token_utils.py:220-227`  `coord_str_to_tuple`                  → `coordStrToTuple`
* `token_utils.py:235-239`  `coord_str_to_tuple_noneable`         → `coordNoneable`
* `token_utils.py:242-251`  `coords_string_split_UT` (regex `\([^)]*\)|\S+`) → `splitUT` (hand-written scanner)
* `token_utils.py:256-289`  `strings_to_coords`                   → `stringsToCoords`
* `token_utils.py:292-318`  `coords_to_strings`                   → inlined in `asTokens`
* `token_utils.py:385-438`  `connection_list_to_adj_list` (shuffled: the observed order/orientation is the argument `adj`,
                             its legality is `ValidAdj` / `adjOK`)
* `lattice_maze.py:506-543` `from_adj_list`                       → `fromAdjList`
* `lattice_maze.py:565-596` `_as_adj_list_tokens`, `_as_coords_and_special_AOTP` → `asTokens`
* `lattice_maze.py:622-724` `_from_tokens_AOTP`                   → `fromTokensAOTP`
* `lattice_maze.py:726-750` `from_tokens`                         → `fromTokens`, `fromTokensStr`
* `lattice_maze.py:1048-1075,1139-1181` bounds checks of `TargetedLatticeMaze.__post_init__`, `SolvedMaze.__init__`
* `maze_tokenizer.py:738-782, 1165-1210, 1279-1297, 1590-1640, 1700-1730, 1733-1765, 1865-1890, 2087-2101`
                             `MazeTokenizerModular.from_legacy(mode).to_tokens` → `modularTokens`
* `maze_dataset.py:246-271` `MazeDataset.as_tokens`               → `datasetTokens`
* muutils `list_split`                                             → `splitList`

Strings are `List Char`; the model is about ASCII input (Python's `isdigit`/`isspace`/`\S` are Unicode-aware, the
model's are the ASCII restrictions). Coordinates are naturals: a token can only denote a coordinate if every part
`isdigit()`, and `connection_list` indices / validated endpoints are non-negative. `int8` storage of the adjacency list
(grid side ≤ 127) is not modelled. -/
namespace MZ.LT
open MZ.Gen.LT

abbrev Str := List Char
abbrev NCell := Nat × Nat
/-- `(dim,row,col)`: a `True` entry of `connection_list` -/
abbrev NEdge := Nat × Nat × Nat

/-- error values; the harness maps each to the set of Python exception classes it stands for -/
inductive Err
  | indexError        -- `tokens[0]` on an empty list / `solution[0]` on an empty path
  | valueError        -- ValueError (tokens_between counts, non-coordinate token, invalid connection, bounds, invalid solution)
  | assertionError    -- a failed `assert`
  | arrayShape        -- `np.array(coordinates)` is not of shape `(n,2,2)` (ValueError or AssertionError in numpy 1.26)
  | notImplemented    -- NotImplementedError (tokenizer that is not legacy-equivalent)
  | unsupported       -- input outside what the model covers (coordinate tuples of length ≠ 2 as endpoints)
  deriving DecidableEq, Repr

deriving instance DecidableEq for Except

/-! ## Python `str` idioms (ASCII) -/

/-- `str.isspace` on one ASCII character (also what `\s` matches and what `strip()`/`split()` remove) -/
def isSpace (c : Char) : Bool :=
  c == ' ' || c == '\t' || c == '\n' || c == '\r' || c == Char.ofNat 11 || c == Char.ofNat 12 ||
  c == Char.ofNat 28 || c == Char.ofNat 29 || c == Char.ofNat 30 || c == Char.ofNat 31

def lstripP (p : Char → Bool) (s : Str) : Str := s.dropWhile p
def rstripP (p : Char → Bool) (s : Str) : Str := (s.reverse.dropWhile p).reverse
/-- `s.strip()` -/
def strip (s : Str) : Str := rstripP isSpace (lstripP isSpace s)

/-- `list_split(lst, val)` of muutils and `s.split(sep)` for a one-character `sep`: accumulator = current piece -/
def splitListAux {α} [DecidableEq α] (sep : α) : List α → List α → List (List α)
  | acc, [] => [acc]
  | acc, x :: xs => if x = sep then acc :: splitListAux sep [] xs else splitListAux sep (acc ++ [x]) xs
def splitList {α} [DecidableEq α] (sep : α) (l : List α) : List (List α) := splitListAux sep [] l

/-- `s.split()` (whitespace runs, no empty pieces) -/
def pySplitAux : Str → Str → List Str
  | acc, [] => if acc.isEmpty then [] else [acc]
  | acc, c :: cs =>
    if isSpace c then (if acc.isEmpty then pySplitAux [] cs else acc :: pySplitAux [] cs)
    else pySplitAux (acc ++ [c]) cs
def pySplit (s : Str) : List Str := pySplitAux [] s

/-- `" ".join(tokens)` -/
def joinSp : List Str → Str
  | [] => []
  | [t] => t
  | t :: t' :: ts => t ++ ' ' :: joinSp (t' :: ts)

/-- `s.isdigit()` (ASCII) -/
def isDigitStr (s : Str) : Bool := !s.isEmpty && s.all Char.isDigit

/-- `int(s)` on a string of ASCII digits -/
def parseNat (s : Str) : Nat := Nat.ofDigitChars 10 s 0
/-- `str(n)` -/
def showNat (n : Nat) : Str := Nat.toDigits 10 n

/-! ## `coords_string_split_UT`: scanner for `re.findall(r"\([^)]*\)|\S+", s)`

Leftmost alternation: at `(` take through the first `)` if there is one later in the string; otherwise (or at any other
non-space character) take the maximal run of non-space characters; spaces between matches are skipped. -/
inductive ScanSt
  | idle
  | paren (acc : Str)   -- inside `\([^)]*\)`, a closing `)` is known to exist
  | word (acc : Str)    -- inside `\S+`

def scan : ScanSt → Str → List Str
  | .idle, [] => []
  | .idle, c :: cs =>
    if c == '(' && cs.contains ')' then scan (.paren [c]) cs
    else if isSpace c then scan .idle cs
    else scan (.word [c]) cs
  | .paren acc, [] => [acc]
  | .paren acc, c :: cs => if c == ')' then (acc ++ [c]) :: scan .idle cs else scan (.paren (acc ++ [c])) cs
  | .word acc, [] => [acc]
  | .word acc, c :: cs => if isSpace c then acc :: scan .idle cs else scan (.word (acc ++ [c])) cs

def splitUT (s : Str) : List Str := scan .idle s

/-! ## `str_is_coord`, `coord_str_to_tuple` -/

/-- `[strip(x) for x in strip(coord_str.lstrip("(").rstrip(")")).split(",")]` after the outer `strip` -/
def coordParts (s : Str) : List Str :=
  (splitList ',' (strip (rstripP (· == ')') (lstripP (· == '(') (strip s))))).map strip

def strIsCoord (s : Str) : Bool :=
  let t := strip s
  (t.head? == some '(') && (t.getLast? == some ')') && t.contains ',' && (coordParts s).all isDigitStr

def coordStrToTuple (s : Str) : List Nat := (coordParts s).map parseNat

def coordNoneable (s : Str) : Option (List Nat) := if strIsCoord s then some (coordStrToTuple s) else none

/-! ## `strings_to_coords` -/
inductive Item
  | coord (t : List Nat)
  | str (s : Str)
  deriving DecidableEq, Repr

inductive When | skip | error | include
  deriving DecidableEq

def classify (w : When) : List Str → Except Err (List Item)
  | [] => .ok []
  | t :: ts =>
    match coordNoneable t with
    | some c => (classify w ts).map (Item.coord c :: ·)
    | none =>
      match w with
      | .skip => classify w ts
      | .error => .error .valueError
      | .include => (classify w ts).map (Item.str t :: ·)

/-- `strings_to_coords(text=list of tokens, when_noncoord=w)` -/
def stringsToCoords (toks : List Str) (w : When) : Except Err (List Item) := classify w (splitUT (joinSp toks))

/-! ## `tokens_between` and friends -/
def count (toks : List Str) (t : Str) : Nat := (toks.filter (· == t)).length

def tokensBetween (toks : List Str) (s e : Str) (inclS inclE : Bool) : Except Err (List Str) :=
  if s = e then .error .valueError
  else if count toks s < 1 || count toks e < 1 then .error .valueError
  else
    let si := toks.idxOf s + (if inclS then 0 else 1)
    let ei := toks.idxOf e + (if inclE then 1 else 0)
    if si < ei then .ok ((toks.take ei).drop si) else .error .assertionError

/-- `get_path_tokens(tokens, trim_end=True)` when both path delimiters are present (the only call in `_from_tokens_AOTP`) -/
def pathTokens (toks : List Str) : List Str :=
  (toks.take (toks.idxOf spPATH_END)).drop (toks.idxOf spPATH_START + 1)

/-! ## mazes -/
structure LMaze where
  rows : Nat
  cols : Nat
  edges : List NEdge
  deriving DecidableEq, Repr

inductive AnyMaze
  | lattice (m : LMaze)
  | targeted (m : LMaze) (s e : NCell)
  | solved (m : LMaze) (s e : NCell) (sol : List NCell)
  deriving DecidableEq, Repr

def AnyMaze.base : AnyMaze → LMaze
  | .lattice m => m | .targeted m _ _ => m | .solved m _ _ _ => m

/-- the two cells of a stored edge, in storage order (`c_start`, `c_end` of `connection_list_to_adj_list`) -/
def pairOfEdge (e : NEdge) : NCell × NCell :=
  ((e.2.1, e.2.2), (e.2.1 + (if e.1 = 0 then 1 else 0), e.2.2 + (if e.1 = 1 then 1 else 0)))

def swapPair (p : NCell × NCell) : NCell × NCell := (p.2, p.1)

/-! ## `from_adj_list` -/
def maxIdx : List (NCell × NCell) → Nat
  | [] => 0
  | p :: ps => max (max (max p.1.1 p.1.2) (max p.2.1 p.2.2)) (maxIdx ps)

/-- one loop iteration of `from_adj_list`: the `True` entry written for the pair -/
def adjEdge (p : NCell × NCell) : Except Err NEdge :=
  let a := p.1; let b := p.2
  if (if a.1 = b.1 then 1 else 0) + (if a.2 = b.2 then 1 else 0) ≠ (1 : Nat) then .error .valueError
  else
    let d : Nat := if a.1 ≠ b.1 then 0 else 1
    let lesser := if d = 0 then decide (a.1 < b.1) else decide (a.2 < b.2)
    let s := if lesser then a else b
    .ok (d, s.1, s.2)

def adjEdges : List (NCell × NCell) → Except Err (List NEdge)
  | [] => .ok []
  | p :: ps => match adjEdge p with
    | .error e => .error e
    | .ok x => (adjEdges ps).map (x :: ·)

/-- `LatticeMaze.from_adj_list`: square grid of side `max+1`; `edges` lists the entries set to `True` (as a set) -/
def fromAdjList (adj : List (NCell × NCell)) : Except Err LMaze :=
  (adjEdges adj).map fun es => ⟨maxIdx adj + 1, maxIdx adj + 1, es⟩

/-! ## `_from_tokens_AOTP` -/
def edgeOfGroup (e : List Str) : Except Err (Item × Item) :=
  match stringsToCoords e .include with
  | .error x => .error x
  | .ok [a, b, c] => if b = Item.str spCONNECTOR then .ok (a, c) else .error .assertionError
  | .ok _ => .error .assertionError

def groupsToCoords : List (List Str) → Except Err (List (Item × Item))
  | [] => .ok []
  | e :: es =>
    if e.isEmpty then groupsToCoords es
    else match edgeOfGroup e with
      | .error x => .error x
      | .ok p => (groupsToCoords es).map (p :: ·)

def itemCell : Item → Option NCell
  | .coord [r, c] => some (r, c)
  | _ => none

def pairsOfItems : List (Item × Item) → Except Err (List (NCell × NCell))
  | [] => .ok []
  | (a, b) :: ps =>
    match itemCell a, itemCell b with
    | some x, some y => (pairsOfItems ps).map ((x, y) :: ·)
    | _, _ => .error .arrayShape

/-- `np.array(coordinates)` with the `(n,2,2)` shape assertion -/
def toAdjArray (cs : List (Item × Item)) : Except Err (List (NCell × NCell)) :=
  if cs.isEmpty then .error .arrayShape else pairsOfItems cs

def inSquare (m : LMaze) (c : NCell) : Bool := c.1 < m.rows && c.2 < m.cols

/-- exactly one coordinate tuple, of length 2 (longer tuples are outside the model) -/
def singleCell (l : List Item) : Except Err NCell :=
  match l with
  | [Item.coord [r, c]] => .ok (r, c)
  | [Item.coord _] => .error .unsupported
  | _ => .error .assertionError

def cellsOfItems : List Item → Except Err (List NCell)
  | [] => .ok []
  | Item.coord [r, c] :: is => (cellsOfItems is).map ((r, c) :: ·)
  | _ :: _ => .error .valueError    -- `np.array(solution)` inhomogeneous / `shape[1] != 2`

/-- lines 631-641: which tokens hold the adjacency list (`tokens[0]` raises IndexError on an empty list) -/
def adjToksOf (tokens : List Str) : Except Err (List Str) :=
  match tokens with
  | [] => .error .indexError
  | first :: _ =>
    if first = spADJLIST_START then tokensBetween tokens spADJLIST_START spADJLIST_END false false else .ok tokens

/-- lines 643-677: edges → coordinates → `np.array` → `from_adj_list` -/
def latticeOfTokens (tokens : List Str) : Except Err LMaze :=
  (adjToksOf tokens).bind fun adjToks =>
  (groupsToCoords (splitList spADJACENCY_ENDLINE adjToks)).bind fun coordinates =>
  (toAdjArray coordinates).bind fun adj =>
  fromAdjList adj

/-- lines 691-704: origin and target coordinate lists, each asserted to have exactly one entry -/
def endpointsOfTokens (tokens : List Str) : Except Err (NCell × NCell) :=
  (tokensBetween tokens spORIGIN_START spORIGIN_END false false).bind fun ot =>
  (stringsToCoords ot .error).bind fun sl =>
  (tokensBetween tokens spTARGET_START spTARGET_END false false).bind fun tt =>
  (stringsToCoords tt .error).bind fun el =>
  if sl.length ≠ 1 then .error .assertionError
  else if el.length ≠ 1 then .error .assertionError
  else (singleCell sl).bind fun s => (singleCell el).bind fun e => .ok (s, e)

/-- lines 716-720 and `SolvedMaze.__init__`'s `np.array(solution)` -/
def solutionOfTokens (tokens : List Str) : Except Err (List NCell) :=
  (stringsToCoords (pathTokens tokens) .error).bind cellsOfItems

def isTargetedToks (tokens : List Str) : Bool :=
  [spORIGIN_START, spORIGIN_END, spTARGET_START, spTARGET_END].all (tokens.contains ·)
def hasPathToks (tokens : List Str) : Bool := tokens.contains spPATH_START && tokens.contains spPATH_END

/-- `SolvedMaze(connection_list, solution)`: non-empty, start/end := first/last, bounds of `__post_init__` -/
def mkSolved (m : LMaze) (sol : List NCell) : Except Err AnyMaze :=
  match sol, sol.getLast? with
  | s' :: _, some e' =>
    if !(inSquare m s') then .error .valueError
    else if !(inSquare m e') then .error .valueError
    else .ok (AnyMaze.solved m s' e' sol)
  | _, _ => .error .valueError        -- empty solution: `solution_valid` is False

def fromTokensAOTP (tokens : List Str) : Except Err AnyMaze :=
  (latticeOfTokens tokens).bind fun m =>
  if isTargetedToks tokens then
    (endpointsOfTokens tokens).bind fun se =>
    if !(inSquare m se.1) then .error .valueError          -- TargetedLatticeMaze.__post_init__
    else if !(inSquare m se.2) then .error .valueError
    else if hasPathToks tokens then (solutionOfTokens tokens).bind (mkSolved m)
    else .ok (AnyMaze.targeted m se.1 se.2)
  else if hasPathToks tokens then .error .assertionError   -- "maze must be targeted to have a solution"
  else .ok (AnyMaze.lattice m)

/-- which tokenizer object `from_tokens` is given -/
inductive TokSpec
  | legacy              -- a `TokenizationMode` / legacy `MazeTokenizer` (all three are AOTP)
  | modular (legacyEquivalent : Bool)

/-- `LatticeMaze.from_tokens(tokens: list[str], tokenizer)` -/
def fromTokens (tk : TokSpec) (tokens : List Str) : Except Err AnyMaze :=
  match tk with
  | .modular false => .error .notImplemented
  | _ => fromTokensAOTP tokens

/-- `LatticeMaze.from_tokens(tokens: str, tokenizer)` — `tokens.split()` first -/
def fromTokensStr (tk : TokSpec) (text : Str) : Except Err AnyMaze := fromTokens tk (pySplit text)

/-! ## `as_tokens` (legacy) -/
inductive Mode | utRasterized | utUniform | cttIndexed
  deriving DecidableEq, Repr

inductive CoordTok | ut | ctt
  deriving DecidableEq, Repr

def Mode.coordTok : Mode → CoordTok
  | .cttIndexed => .ctt
  | _ => .ut

/-- `_coord_to_strings_UT` / `_coord_to_strings_indexed` and `CoordTokenizers.UT/CTT().to_tokens` -/
def coordToks : CoordTok → NCell → List Str
  | .ut, c => [vcCOORD_PRE ++ showNat c.1 ++ vcCOORD_INTRA ++ showNat c.2 ++ vcCOORD_POST]
  | .ctt, c => [vcCOORD_PRE, showNat c.1, vcCOORD_INTRA, showNat c.2, vcCOORD_POST]

def edgeToks (ct : CoordTok) (p : NCell × NCell) : List Str :=
  coordToks ct p.1 ++ [spCONNECTOR] ++ coordToks ct p.2 ++ [spADJACENCY_ENDLINE]

def adjRegion (ct : CoordTok) (adj : List (NCell × NCell)) : List Str := adj.flatMap (edgeToks ct)

/-- `maze._as_tokens(legacy tokenizer)`; `adj` = the observed output of `as_adj_list()` -/
def asTokens (mode : Mode) (mz : AnyMaze) (adj : List (NCell × NCell)) : List Str :=
  let ct := mode.coordTok
  let a := [spADJLIST_START] ++ adjRegion ct adj ++ [spADJLIST_END]
  match mz with
  | .lattice _ => a
  | .targeted _ s e =>
    a ++ ([spORIGIN_START] ++ coordToks ct s ++ [spORIGIN_END]) ++ ([spTARGET_START] ++ coordToks ct e ++ [spTARGET_END])
  | .solved _ s e sol =>
    a ++ ([spORIGIN_START] ++ coordToks ct s ++ [spORIGIN_END]) ++ ([spTARGET_START] ++ coordToks ct e ++ [spTARGET_END])
      ++ ([spPATH_START] ++ sol.flatMap (coordToks ct) ++ [spPATH_END])

/-! ## `MazeTokenizerModular.from_legacy(mode).to_tokens` -/

/-- `from_legacy`: both UT modes map to `MazeTokenizerModular()`, CTT to `AOTP(coord_tokenizer=CTT())` -/
def fromLegacy (mode : Mode) : CoordTok := mode.coordTok

/-- `StepSequence(Singles, (Coord,))`: leading coord of `solution[0]` (IndexError on an empty path), then one coord per step -/
def pathRegion (ct : CoordTok) : List NCell → Except Err (List Str)
  | [] => .error .indexError
  | c :: cs => .ok (coordToks ct c ++ cs.flatMap (coordToks ct))

/-- `AOTP._sequence_tokens` -/
def sequenceTokens (adj origin target path : List Str) : List Str :=
  [spADJLIST_START] ++ adj ++ [spADJLIST_END, spORIGIN_START] ++ origin ++ [spORIGIN_END, spTARGET_START] ++ target
    ++ [spTARGET_END, spPATH_START] ++ path ++ [spPATH_END]

/-- `_PromptSequencer.to_tokens` = `_trim_if_unsolved_maze(_sequence_tokens(*regions), untargeted, unsolved)` -/
def modularTokens (ct : CoordTok) (mz : AnyMaze) (adj : List (NCell × NCell)) : Except Err (List Str) :=
  match mz with
  | .lattice _ =>
    tokensBetween (sequenceTokens (adjRegion ct adj) [] [] []) spADJLIST_START spADJLIST_END true true
  | .targeted _ s e =>
    let u := sequenceTokens (adjRegion ct adj) (coordToks ct s) (coordToks ct e) []
    if u.contains spTARGET_END then tokensBetween u spADJLIST_START spTARGET_END true true
    else tokensBetween u spADJLIST_START spORIGIN_END true true
  | .solved _ s e sol =>
    match pathRegion ct sol with
    | .error x => .error x
    | .ok p => .ok (sequenceTokens (adjRegion ct adj) (coordToks ct s) (coordToks ct e) p)

/-! ## legality of the observed adjacency order (relational treatment of the shuffles) -/

/-- every listed pair is a stored edge in one of its two orientations, and every stored edge is listed -/
def ValidAdj (m : LMaze) (adj : List (NCell × NCell)) : Prop :=
  (∀ p ∈ adj, ∃ e ∈ m.edges, p = pairOfEdge e ∨ p = swapPair (pairOfEdge e)) ∧
  (∀ e ∈ m.edges, ∃ p ∈ adj, p = pairOfEdge e ∨ p = swapPair (pairOfEdge e))

instance (m : LMaze) (adj : List (NCell × NCell)) : Decidable (ValidAdj m adj) := by unfold ValidAdj; exact inferInstance

/-- driver-side check of the observation: `ValidAdj` and the same number of entries (a shuffle is a permutation) -/
def adjOK (m : LMaze) (adj : List (NCell × NCell)) : Bool :=
  adj.all (fun p => m.edges.any (fun e => p == pairOfEdge e || p == swapPair (pairOfEdge e))) &&
  m.edges.all (fun e => adj.any (fun p => p == pairOfEdge e || p == swapPair (pairOfEdge e))) &&
  adj.length == m.edges.length

/-- `connection_list` is well formed: dims 0/1 and both ends of every edge inside the grid -/
def LMaze.WF (m : LMaze) : Prop :=
  ∀ e ∈ m.edges, (e.1 = 0 ∨ e.1 = 1) ∧ (pairOfEdge e).2.1 < m.rows ∧ (pairOfEdge e).2.2 < m.cols

instance (m : LMaze) : Decidable m.WF := by unfold LMaze.WF; exact inferInstance

/-- the largest index of the square grid is used by some connection (what `adj_list.max() + 1` needs) -/
def LMaze.maxIndexOccurs (m : LMaze) : Prop :=
  ∃ e ∈ m.edges, (pairOfEdge e).2.1 + 1 = m.rows ∨ (pairOfEdge e).2.2 + 1 = m.cols
instance (m : LMaze) : Decidable m.maxIndexOccurs := by unfold LMaze.maxIndexOccurs; exact inferInstance

/-! ## `MazeDataset.as_tokens(tok, limit, join_tokens_individual_maze)` -/

/-- `mazes[:limit]` for `limit : int | None` (negative limits count from the end, as Python slices do) -/
def sliceLimit {α} (l : List α) : Option Int → List α
  | none => l
  | some k => if k ≥ 0 then l.take k.toNat else l.take (l.length - (-k).toNat)

/-- per-maze tokenization is a parameter `tok` (each call sees its own shuffle) -/
def datasetTokens {α} (tok : α → List Str) (mazes : List α) (limit : Option Int) : List (List Str) :=
  (sliceLimit mazes limit).map tok

def datasetTokensJoined {α} (tok : α → List Str) (mazes : List α) (limit : Option Int) : List Str :=
  (datasetTokens tok mazes limit).map joinSp

end MZ.LT
