import MazeVerif.Lemmas.AllInst
/-! # Unique readability of tokenizer names (C15, string level)

The name of a tokenizer element (`_TokenizerElement.name` / `_stringify`, `maze_tokenizer.py:476-498`) is the
bracketed rendering `Class(field=value, Sub(...), field=(A(), B(), ), ...)`. This file proves that the rendering is a
**prefix code** on the values of a type tree: for `v w : T`, `render v ++ r₁ = render w ++ r₂ → v = w ∧ r₁ = r₂`
(so in particular it is injective, and a concatenation of renderings can be split back in one way only).

The proof is structural on the type tree (mutual recursion `Ty` / `List Ty`, like `mem_all`), under a decidable side
condition `injCheck` that only looks at the *atoms* of the tree:

* `Literal[...]` arguments render to pairwise prefix-incomparable strings;
* a field whose key is `_type_` (skipped by `_stringify`) has a one-valued type;
* every dataclass has as many `__dict__` keys as fields;
* the alternatives of an abstract class / Union are dataclasses whose `__name__`s are distinct and contain no `(`
  — or else (fallback, meant for small nodes such as the Union of 1..4-tuples) the renderings of the enumerated
  values of that node are pairwise prefix-incomparable by direct comparison.

Nothing is enumerated for nodes that pass the structural test, so the check is cheap on the 5,878,656-value tree. -/
namespace MZ.AI

/-! ## character-level view of the renderer -/

/-- the characters of `"".join(toks)` -/
def chars (toks : List String) : List Char := toks.flatMap String.toList

theorem chars_nil : chars [] = [] := rfl
theorem chars_cons (s : String) (l : List String) : chars (s :: l) = s.toList ++ chars l := by
  simp [chars]
theorem chars_append (a b : List String) : chars (a ++ b) = chars a ++ chars b := by
  simp [chars]

theorem toList_join_eq (toks : List String) : (String.join toks).toList = chars toks := by
  rw [String.toList_join]; rfl

/-- `_stringify(k, v)` for a key that is not skipped, as characters -/
def fieldCh (fn : String → List String) (k : String) : Val → List Char
  | .b x => k.toList ++ ['=', if x then 'T' else 'F']
  | .obj cls fs => chars (nameToks fn (.obj cls fs))
  | .tup xs => k.toList ++ '=' :: chars (nameToks fn (.tup xs))
  | .lit a => k.toList ++ '=' :: (atomStr a).toList

/-- rendering of a value in a context: `none` = as `.name` / `str(x)` of a tuple member,
    `some k` = as the dataclass field `k` -/
def valCh (fn : String → List String) : Option String → Val → List Char
  | none, v => chars (nameToks fn v)
  | some k, v => fieldCh fn k v

/-- the members of a tuple: `"".join(str(x) + ", " for x in v)` -/
def tupCh (fn : String → List String) : List Val → List Char
  | [] => []
  | x :: xs => valCh fn none x ++ ',' :: ' ' :: tupCh fn xs

/-- the body of an object: the non-skipped fields joined by `", "` (`first` = no separator is due yet) -/
def fieldsCh (fn : String → List String) : Bool → List String → List Val → List Char
  | first, k :: ks, v :: vs =>
    if k = "_type_" then fieldsCh fn first ks vs
    else (if first then [] else [',', ' ']) ++ (fieldCh fn k v ++ fieldsCh fn false ks vs)
  | _, [], _ => []
  | _, _ :: _, [] => []

/-- `sepBy` without the case split on the length -/
def tailJoin : List (List String) → List String
  | [] => []
  | x :: r => ", " :: (x ++ tailJoin r)

theorem sepBy_cons (x : List String) : ∀ (r : List (List String)), sepBy (x :: r) = x ++ tailJoin r
  | [] => by simp [sepBy, tailJoin]
  | y :: r => by
    rw [sepBy, sepBy_cons y r]
    simp [tailJoin]

theorem chars_tupToks (fn : String → List String) : ∀ (vs : List Val),
    chars (tupToks fn vs).flatten = tupCh fn vs
  | [] => by simp [tupToks, tupCh, chars]
  | x :: xs => by
    have ih := chars_tupToks fn xs
    simp only [tupToks, List.flatten_cons, chars_append, ih, tupCh, valCh, chars_cons, chars_nil]
    simp

theorem chars_tup (fn : String → List String) (vs : List Val) :
    chars (nameToks fn (.tup vs)) = '(' :: (tupCh fn vs ++ [')']) := by
  simp only [nameToks, chars_append, chars_tupToks, chars_cons, chars_nil]
  simp

theorem chars_fields_step (fn : String → List String) (k : String) (ks : List String) (v : Val) (vs : List Val)
    (tok : List String) (htok : chars tok = fieldCh fn k v)
    (heq : fieldToks fn (k :: ks) (v :: vs) =
      if k = "_type_" then fieldToks fn ks vs else tok :: fieldToks fn ks vs)
    (ih : chars (sepBy (fieldToks fn ks vs)) = fieldsCh fn true ks vs ∧
      chars (tailJoin (fieldToks fn ks vs)) = fieldsCh fn false ks vs) :
    chars (sepBy (fieldToks fn (k :: ks) (v :: vs))) = fieldsCh fn true (k :: ks) (v :: vs) ∧
    chars (tailJoin (fieldToks fn (k :: ks) (v :: vs))) = fieldsCh fn false (k :: ks) (v :: vs) := by
  rw [heq]
  simp only [fieldsCh]
  by_cases hk : k = "_type_"
  · rw [if_pos hk, if_pos hk, if_pos hk]
    exact ih
  · rw [if_neg hk, if_neg hk, if_neg hk, sepBy_cons]
    simp only [tailJoin, chars_append, chars_cons, ih.2, htok]
    simp

theorem chars_fields (fn : String → List String) : ∀ (ks : List String) (vs : List Val),
    chars (sepBy (fieldToks fn ks vs)) = fieldsCh fn true ks vs ∧
    chars (tailJoin (fieldToks fn ks vs)) = fieldsCh fn false ks vs
  | [], vs => by cases vs <;> simp [fieldToks, sepBy, tailJoin, fieldsCh, chars]
  | _ :: _, [] => by simp [fieldToks, sepBy, tailJoin, fieldsCh, chars]
  | k :: ks, v :: vs => by
    have ih := chars_fields fn ks vs
    cases v with
    | b x =>
      exact chars_fields_step fn k ks _ vs [k, "=", if x then "T" else "F"]
        (by cases x <;> simp [fieldCh, chars]) (by rw [fieldToks]) ih
    | obj cls fs =>
      exact chars_fields_step fn k ks _ vs (nameToks fn (.obj cls fs)) (by simp [fieldCh]) (by rw [fieldToks]) ih
    | tup xs =>
      exact chars_fields_step fn k ks _ vs ([k, "=", "("] ++ (tupToks fn xs).flatten ++ [")"])
        (by simp [fieldCh, chars_tup, chars_append, chars_cons, chars_nil, chars_tupToks]) (by rw [fieldToks]) ih
    | lit a =>
      exact chars_fields_step fn k ks _ vs [k, "=", atomStr a] (by simp [fieldCh, chars]) (by rw [fieldToks]) ih

theorem chars_obj (fn : String → List String) (cls : String) (fs : List Val) :
    chars (nameToks fn (.obj cls fs)) =
      (shortName cls).toList ++ '(' :: (fieldsCh fn true (fn cls) fs ++ [')']) := by
  simp only [nameToks, chars_append, chars_cons, chars_nil, (chars_fields fn (fn cls) fs).1]
  simp

theorem valCh_obj (fn : String → List String) (c : Option String) (cls : String) (fs : List Val) :
    valCh fn c (.obj cls fs) =
      (shortName cls).toList ++ '(' :: (fieldsCh fn true (fn cls) fs ++ [')']) := by
  cases c <;> simp only [valCh, fieldCh, chars_obj]

/-! ## prefix comparison -/

/-- `true` iff one of the two lists is a prefix of the other -/
def cmpb : List Char → List Char → Bool
  | [], _ => true
  | _ :: _, [] => true
  | a :: as, b :: bs => a == b && cmpb as bs

theorem cmpb_of_append_eq : ∀ {x y r1 r2 : List Char}, x ++ r1 = y ++ r2 → cmpb x y = true
  | [], _, _, _, _ => by simp [cmpb]
  | _ :: _, [], _, _, _ => by simp [cmpb]
  | a :: as, b :: bs, r1, r2, h => by
    simp only [List.cons_append, List.cons.injEq] at h
    simp only [cmpb, Bool.and_eq_true, beq_iff_eq]
    exact ⟨h.1, cmpb_of_append_eq h.2⟩

/-- pairwise prefix-incomparable images: a directly checkable prefix code -/
theorem code_of_pairwise {α} (g : α → List Char) : ∀ {l : List α},
    pairwiseB (fun x y => !cmpb (g x) (g y) && !cmpb (g y) (g x)) l = true →
    ∀ x ∈ l, ∀ y ∈ l, ∀ r1 r2, g x ++ r1 = g y ++ r2 → x = y
  | [], _, x, hx, _, _, _, _, _ => by cases hx
  | a :: l, h, x, hx, y, hy, r1, r2, e => by
    simp only [pairwiseB, Bool.and_eq_true, List.all_eq_true, Bool.not_eq_true'] at h
    rcases List.mem_cons.mp hx with rfl | hx'
    · rcases List.mem_cons.mp hy with rfl | hy'
      · rfl
      · have := (h.1 y hy').1
        rw [cmpb_of_append_eq e] at this
        cases this
    · rcases List.mem_cons.mp hy with rfl | hy'
      · have := (h.1 x hx').2
        rw [cmpb_of_append_eq e] at this
        cases this
      · exact code_of_pairwise g h.2 x hx' y hy' r1 r2 e

/-- two words that end in the same delimiter which occurs in neither of them -/
theorem split_at_delim {d : Char} : ∀ {l1 l2 r1 r2 : List Char}, d ∉ l1 → d ∉ l2 →
    l1 ++ d :: r1 = l2 ++ d :: r2 → l1 = l2
  | [], [], _, _, _, _, _ => rfl
  | [], b :: l2, _, _, _, h2, e => by
    simp only [List.nil_append, List.cons_append, List.cons.injEq] at e
    exact absurd (e.1 ▸ List.mem_cons_self) h2
  | a :: l1, [], _, _, h1, _, e => by
    simp only [List.nil_append, List.cons_append, List.cons.injEq] at e
    exact absurd (e.1 ▸ List.mem_cons_self) h1
  | a :: l1, b :: l2, _, _, h1, h2, e => by
    simp only [List.cons_append, List.cons.injEq] at e
    rw [e.1, split_at_delim (fun h => h1 (List.mem_cons_of_mem _ h)) (fun h => h2 (List.mem_cons_of_mem _ h)) e.2]

/-! ## the property and its decidable side condition -/

/-- the rendering of the values of `t` in context `c` is a prefix code -/
def Code (fn : String → List String) (c : Option String) (t : Ty) : Prop :=
  ∀ v w, HasTy v t → HasTy w t → ∀ r1 r2, valCh fn c v ++ r1 = valCh fn c w ++ r2 → v = w ∧ r1 = r2

/-- no rendering of a value of `a` is comparable with a rendering of a value of `b` -/
def Apart (fn : String → List String) (c : Option String) (a b : Ty) : Prop :=
  ∀ v w, HasTy v a → HasTy w b → ∀ r1 r2, valCh fn c v ++ r1 ≠ valCh fn c w ++ r2

/-- a one-valued type (what a skipped field must have) -/
def single : Ty → Bool
  | .lit [_] => true
  | _ => false

theorem single_sound {t : Ty} (h : single t = true) {v w : Val} (hv : HasTy v t) (hw : HasTy w t) : v = w := by
  unfold single at h
  split at h
  · cases hv with
    | lit h1 =>
      cases hw with
      | lit h2 =>
        simp only [List.mem_singleton] at h1 h2
        rw [h1, h2]
  · cases h

/-- a class `__name__` that cannot swallow the opening bracket -/
def nameOK (cls : String) : Bool := !(shortName cls).toList.contains '('

/-- two outermost shapes whose renderings can never be comparable: objects of classes with different `__name__`s -/
def headApart : Head → Head → Bool
  | .obj n1, .obj n2 => nameOK n1 && nameOK n2 && !(decide ((shortName n1).toList = (shortName n2).toList))
  | _, _ => false

def headsApart (a b : Ty) : Bool := (heads a).all fun h1 => (heads b).all fun h2 => headApart h1 h2

def atomCh (a : Atom) : List Char := (atomStr a).toList

/-- fallback: compare the renderings of all enumerated values of the node directly -/
def brute (fn : String → List String) (c : Option String) (t : Ty) : Bool :=
  pairwiseB (fun x y => !cmpb (valCh fn c x) (valCh fn c y) && !cmpb (valCh fn c y) (valCh fn c x)) (allInstances t)

mutual
/-- decidable sufficient condition for `Code fn c t` -/
def injCheck (fn : String → List String) : Option String → Ty → Bool
  | _, .bool => true
  | _, .lit vals => pairwiseB (fun x y => !cmpb (atomCh x) (atomCh y) && !cmpb (atomCh y) (atomCh x)) vals
  | _, .tuple ts => injCheckL fn ts
  | c, .union p ts => (injCheckAlts fn c ts && pairwiseB headsApart ts) || brute fn c (.union p ts)
  | _, .data name _ fields => injCheckF fn (fn name) fields
  | c, .abstr p subs => (injCheckAlts fn c subs && pairwiseB headsApart subs) || brute fn c (.abstr p subs)
/-- tuple members (context `none`) -/
def injCheckL (fn : String → List String) : List Ty → Bool
  | [] => true
  | t :: ts => injCheck fn none t && injCheckL fn ts
/-- alternatives (same context as the node) -/
def injCheckAlts (fn : String → List String) : Option String → List Ty → Bool
  | _, [] => true
  | c, t :: ts => injCheck fn c t && injCheckAlts fn c ts
/-- fields against their keys: as many keys as fields; a skipped field is one-valued -/
def injCheckF (fn : String → List String) : List String → List Ty → Bool
  | [], [] => true
  | k :: ks, t :: ts => (if k = "_type_" then single t else injCheck fn (some k) t) && injCheckF fn ks ts
  | [], _ :: _ => false
  | _ :: _, [] => false
end

/-! ## soundness -/

theorem apart_symm {fn c a b} (h : Apart fn c a b) : Apart fn c b a :=
  fun v w hv hw r1 r2 e => h w v hw hv r2 r1 e.symm

theorem apart_of_heads {fn : String → List String} {c : Option String} {a b : Ty}
    (h : headsApart a b = true) : Apart fn c a b := by
  intro v w hv hw r1 r2 e
  simp only [headsApart, List.all_eq_true] at h
  have hh := h _ (head_mem a v hv) _ (head_mem b w hw)
  cases v with
  | obj n1 fs =>
    cases w with
    | obj n2 gs =>
      simp only [Val.head, headApart, nameOK, Bool.and_eq_true, Bool.not_eq_true', List.contains_eq_mem,
        decide_eq_false_iff_not] at hh
      obtain ⟨⟨h1, h2⟩, h3⟩ := hh
      rw [valCh_obj, valCh_obj] at e
      simp only [List.append_assoc, List.cons_append] at e
      exact h3 (split_at_delim h1 h2 e)
    | b _ => simp [Val.head, headApart] at hh
    | lit _ => simp [Val.head, headApart] at hh
    | tup _ => simp [Val.head, headApart] at hh
  | b _ => simp [Val.head, headApart] at hh
  | lit _ => simp [Val.head, headApart] at hh
  | tup _ => simp [Val.head, headApart] at hh

/-- alternatives that are codes and pairwise apart form a code -/
theorem code_alts {fn : String → List String} {c : Option String} : ∀ {ts : List Ty},
    (∀ t ∈ ts, Code fn c t) → ts.Pairwise (Apart fn c) →
    ∀ v w, HasSome v ts → HasSome w ts → ∀ r1 r2, valCh fn c v ++ r1 = valCh fn c w ++ r2 → v = w ∧ r1 = r2
  | [], _, _, v, _, hv, _ => by cases hv
  | t :: ts, hc, hp, v, w, hv, hw => by
    intro r1 r2 e
    have hp' := List.pairwise_cons.mp hp
    cases hv with
    | head hv1 =>
      cases hw with
      | head hw1 => exact hc t List.mem_cons_self v w hv1 hw1 r1 r2 e
      | tail hw1 =>
        obtain ⟨t', ht', hw2⟩ := hasSome_iff.mp hw1
        exact absurd e (hp'.1 t' ht' v w hv1 hw2 r1 r2)
    | tail hv1 =>
      cases hw with
      | head hw1 =>
        obtain ⟨t', ht', hv2⟩ := hasSome_iff.mp hv1
        exact absurd e (apart_symm (hp'.1 t' ht') v w hv2 hw1 r1 r2)
      | tail hw1 =>
        exact code_alts (fun t' ht' => hc t' (List.mem_cons_of_mem _ ht')) hp'.2 v w hv1 hw1 r1 r2 e

theorem code_of_brute {fn : String → List String} {c : Option String} {t : Ty} (h : brute fn c t = true) :
    Code fn c t := by
  intro v w hv hw r1 r2 e
  have := code_of_pairwise (valCh fn c) h v ((mem_all t v).mpr hv) w ((mem_all t w).mpr hw) r1 r2 e
  subst this
  exact ⟨rfl, List.append_cancel_left e⟩

theorem code_bool (fn : String → List String) (c : Option String) : Code fn c .bool := by
  intro v w hv hw r1 r2 e
  cases hv with
  | bool x =>
    cases hw with
    | bool y =>
      cases c with
      | none => cases x <;> cases y <;> simp [valCh, nameToks, chars] at e ⊢ <;> exact e
      | some k =>
        simp only [valCh, fieldCh, List.append_assoc] at e
        have e2 := List.append_cancel_left e
        cases x <;> cases y <;> simp at e2 ⊢ <;> exact e2

theorem code_lit (fn : String → List String) (c : Option String) (vals : List Atom)
    (h : pairwiseB (fun x y => !cmpb (atomCh x) (atomCh y) && !cmpb (atomCh y) (atomCh x)) vals = true) :
    Code fn c (.lit vals) := by
  intro v w hv hw r1 r2 e
  cases hv with
  | lit ha =>
    cases hw with
    | lit hb =>
      rename_i a b
      have e2 : atomCh a ++ r1 = atomCh b ++ r2 := by
        cases c with
        | none => simpa [valCh, nameToks, chars, atomCh] using e
        | some k =>
          simp only [valCh, fieldCh, List.append_assoc, List.cons_append] at e
          have e3 := List.append_cancel_left e
          simp only [List.cons.injEq, true_and] at e3
          exact e3
      have := code_of_pairwise atomCh h a ha b hb r1 r2 e2
      subst this
      exact ⟨rfl, List.append_cancel_left e2⟩

theorem hasTy_tuple_inv {v : Val} {ts : List Ty} (h : HasTy v (.tuple ts)) :
    ∃ vs, v = .tup vs ∧ HasTys vs ts := by
  cases h with
  | tuple hs => exact ⟨_, rfl, hs⟩

theorem hasTy_data_inv {v : Val} {name p fields} (h : HasTy v (.data name p fields)) :
    ∃ fs, v = .obj name fs ∧ HasTys fs fields := by
  cases h with
  | data hs _ => exact ⟨_, rfl, hs⟩

theorem hasTy_union_inv {v : Val} {p ts} (h : HasTy v (.union p ts)) : HasSome v ts := by
  cases h with
  | union hs _ => exact hs

theorem hasTy_abstr_inv {v : Val} {p ts} (h : HasTy v (.abstr p ts)) : HasSome v ts := by
  cases h with
  | abstr hs _ => exact hs

theorem hasTys_cons_inv {vs : List Val} {t : Ty} {ts : List Ty} (h : HasTys vs (t :: ts)) :
    ∃ v vs', vs = v :: vs' ∧ HasTy v t ∧ HasTys vs' ts := by
  cases h with
  | cons h1 h2 => exact ⟨_, _, rfl, h1, h2⟩

theorem hasTys_nil_inv {vs : List Val} (h : HasTys vs []) : vs = [] := by
  cases h; rfl

theorem tuple_body_eq {fn : String → List String} {c : Option String} {vs ws : List Val} {r1 r2 : List Char}
    (e : valCh fn c (.tup vs) ++ r1 = valCh fn c (.tup ws) ++ r2) :
    tupCh fn vs ++ ')' :: r1 = tupCh fn ws ++ ')' :: r2 := by
  cases c with
  | none =>
    simp only [valCh, chars_tup, List.cons_append, List.append_assoc, List.cons.injEq, true_and] at e
    simpa using e
  | some k =>
    simp only [valCh, fieldCh, chars_tup, List.cons_append, List.append_assoc] at e
    have e3 := List.append_cancel_left e
    simp only [List.cons.injEq, true_and] at e3
    simpa using e3

theorem obj_body_eq {fn : String → List String} {c : Option String} {name : String} {fs gs : List Val}
    {r1 r2 : List Char} (e : valCh fn c (.obj name fs) ++ r1 = valCh fn c (.obj name gs) ++ r2) :
    fieldsCh fn true (fn name) fs ++ ')' :: r1 = fieldsCh fn true (fn name) gs ++ ')' :: r2 := by
  rw [valCh_obj, valCh_obj] at e
  simp only [List.append_assoc, List.cons_append] at e
  have e2 := List.append_cancel_left e
  simp only [List.cons.injEq, true_and] at e2
  simpa using e2

mutual
/-- MAIN: the side condition implies that the rendering is a prefix code on the values of the type -/
theorem code_of_check (fn : String → List String) : ∀ (t : Ty) (c : Option String),
    injCheck fn c t = true → Code fn c t
  | .bool, c, _ => code_bool fn c
  | .lit vals, c, h => by
    simp only [injCheck] at h
    exact code_lit fn c vals h
  | .tuple ts, c, h => by
    simp only [injCheck] at h
    intro v w hv hw r1 r2 e
    obtain ⟨vs, rfl, hvs⟩ := hasTy_tuple_inv hv
    obtain ⟨ws, rfl, hws⟩ := hasTy_tuple_inv hw
    obtain ⟨h1, h2⟩ := codeL fn ts h vs ws hvs hws _ _ (tuple_body_eq e)
    simp only [List.cons.injEq, true_and] at h2
    exact ⟨by rw [h1], h2⟩
  | .union p ts, c, h => by
    simp only [injCheck, Bool.or_eq_true, Bool.and_eq_true] at h
    rcases h with ⟨h1, h2⟩ | h
    · intro v w hv hw r1 r2 e
      exact code_alts (codeAlts fn ts c h1) (pairwiseB_sound (fun a b hab => apart_of_heads hab) h2)
        v w (hasTy_union_inv hv) (hasTy_union_inv hw) r1 r2 e
    · exact code_of_brute h
  | .abstr p subs, c, h => by
    simp only [injCheck, Bool.or_eq_true, Bool.and_eq_true] at h
    rcases h with ⟨h1, h2⟩ | h
    · intro v w hv hw r1 r2 e
      exact code_alts (codeAlts fn subs c h1) (pairwiseB_sound (fun a b hab => apart_of_heads hab) h2)
        v w (hasTy_abstr_inv hv) (hasTy_abstr_inv hw) r1 r2 e
    · exact code_of_brute h
  | .data name p fields, c, h => by
    simp only [injCheck] at h
    intro v w hv hw r1 r2 e
    obtain ⟨fs, rfl, hvs⟩ := hasTy_data_inv hv
    obtain ⟨gs, rfl, hws⟩ := hasTy_data_inv hw
    obtain ⟨h1, h2⟩ := codeF fn fields (fn name) h true fs gs hvs hws _ _ (obj_body_eq e)
    simp only [List.cons.injEq, true_and] at h2
    exact ⟨by rw [h1], h2⟩
theorem codeL (fn : String → List String) : ∀ (ts : List Ty), injCheckL fn ts = true →
    ∀ vs ws, HasTys vs ts → HasTys ws ts → ∀ r1 r2, tupCh fn vs ++ r1 = tupCh fn ws ++ r2 → vs = ws ∧ r1 = r2
  | [], _, vs, ws, hvs, hws => by
    rw [hasTys_nil_inv hvs, hasTys_nil_inv hws]
    intro r1 r2 e
    exact ⟨rfl, by simpa [tupCh] using e⟩
  | t :: ts, h, vs, ws, hvs, hws => by
    simp only [injCheckL, Bool.and_eq_true] at h
    obtain ⟨v, vs', rfl, hv, hvs'⟩ := hasTys_cons_inv hvs
    obtain ⟨w, ws', rfl, hw, hws'⟩ := hasTys_cons_inv hws
    intro r1 r2 e
    simp only [tupCh, List.append_assoc, List.cons_append] at e
    obtain ⟨h1, h2⟩ := code_of_check fn t none h.1 _ _ hv hw _ _ e
    simp only [List.cons.injEq, true_and] at h2
    obtain ⟨h3, h4⟩ := codeL fn ts h.2 _ _ hvs' hws' _ _ h2
    exact ⟨by rw [h1, h3], h4⟩
theorem codeAlts (fn : String → List String) : ∀ (ts : List Ty) (c : Option String),
    injCheckAlts fn c ts = true → ∀ t ∈ ts, Code fn c t
  | [], _, _, t, ht => by cases ht
  | t :: ts, c, h, t', ht' => by
    simp only [injCheckAlts, Bool.and_eq_true] at h
    rcases List.mem_cons.mp ht' with h3 | h3
    · rw [h3]; exact code_of_check fn t c h.1
    · exact codeAlts fn ts c h.2 t' h3
theorem codeF (fn : String → List String) : ∀ (ts : List Ty) (ks : List String), injCheckF fn ks ts = true →
    ∀ (first : Bool) vs ws, HasTys vs ts → HasTys ws ts →
    ∀ r1 r2, fieldsCh fn first ks vs ++ r1 = fieldsCh fn first ks ws ++ r2 → vs = ws ∧ r1 = r2
  | [], [], _, _, vs, ws, hvs, hws => by
    rw [hasTys_nil_inv hvs, hasTys_nil_inv hws]
    intro r1 r2 e
    exact ⟨rfl, by simpa [fieldsCh] using e⟩
  | [], _ :: _, h, _, _, _, _, _ => by simp [injCheckF] at h
  | _ :: _, [], h, _, _, _, _, _ => by simp [injCheckF] at h
  | t :: ts, k :: ks, h, first, vs, ws, hvs, hws => by
    simp only [injCheckF, Bool.and_eq_true] at h
    obtain ⟨v, vs', rfl, hv, hvs'⟩ := hasTys_cons_inv hvs
    obtain ⟨w, ws', rfl, hw, hws'⟩ := hasTys_cons_inv hws
    intro r1 r2 e
    by_cases hk : k = "_type_"
    · simp only [hk, if_true] at h
      simp only [fieldsCh, hk, if_true] at e
      have h1 := single_sound h.1 hv hw
      obtain ⟨h3, h4⟩ := codeF fn ts ks h.2 first _ _ hvs' hws' _ _ e
      exact ⟨by rw [h1, h3], h4⟩
    · simp only [if_neg hk] at h
      simp only [fieldsCh, if_neg hk, List.append_assoc] at e
      have e2 := List.append_cancel_left e
      obtain ⟨h1, h2⟩ := code_of_check fn t (some k) h.1 _ _ hv hw _ _ e2
      obtain ⟨h3, h4⟩ := codeF fn ts ks h.2 false _ _ hvs' hws' _ _ h2
      exact ⟨by rw [h1, h3], h4⟩
end

/-! ## change of context -/

/-- every value of the type is an object (objects render the same way in every context) -/
def objHeads (t : Ty) : Bool := (heads t).all fun h => match h with
  | .obj _ => true
  | _ => false

theorem valCh_ctx {fn : String → List String} {t : Ty} (ho : objHeads t = true) (c c' : Option String)
    {v : Val} (hv : HasTy v t) : valCh fn c v = valCh fn c' v := by
  have hm := head_mem t v hv
  simp only [objHeads, List.all_eq_true] at ho
  have := ho _ hm
  cases v with
  | obj n fs => rw [valCh_obj, valCh_obj]
  | b _ => simp [Val.head] at this
  | lit _ => simp [Val.head] at this
  | tup _ => simp [Val.head] at this

theorem code_ctx {fn : String → List String} {t : Ty} (ho : objHeads t = true) {c : Option String}
    (h : Code fn c t) (c' : Option String) : Code fn c' t := by
  intro v w hv hw r1 r2 e
  rw [valCh_ctx ho c' c hv, valCh_ctx ho c' c hw] at e
  exact h v w hv hw r1 r2 e

/-- the check of a dataclass with one (not skipped) field is the check of that field in its key's context -/
theorem injCheck_data_single {fn : String → List String} {name : String} {p : Val → Bool} {t : Ty} {k : String}
    (hfn : fn name = [k]) (hk : k ≠ "_type_") (c : Option String)
    (h : injCheck fn c (.data name p [t]) = true) : injCheck fn (some k) t = true := by
  simp only [injCheck, hfn, injCheckF, if_neg hk, Bool.and_true] at h
  exact h

/-! ## string level -/

/-- `elName` is a prefix code (as strings) on the values of a type whose rendering is a prefix code -/
theorem elName_code (fn : String → List String) (t : Ty) (h : Code fn none t) (v w : Val)
    (hv : HasTy v t) (hw : HasTy w t) (r1 r2 : String) (e : elName fn v ++ r1 = elName fn w ++ r2) :
    v = w ∧ r1 = r2 := by
  have e2 := congrArg String.toList e
  simp only [elName, String.toList_append, toList_join_eq] at e2
  obtain ⟨h1, h2⟩ := h v w hv hw _ _ e2
  exact ⟨h1, String.toList_injective h2⟩

theorem elName_inj (fn : String → List String) (t : Ty) (h : Code fn none t) (v w : Val)
    (hv : HasTy v t) (hw : HasTy w t) (e : elName fn v = elName fn w) : v = w :=
  (elName_code fn t h v w hv hw "" "" (by rw [e])).1

theorem nameToks_inj (fn : String → List String) (t : Ty) (h : Code fn none t) (v w : Val)
    (hv : HasTy v t) (hw : HasTy w t) (e : nameToks fn v = nameToks fn w) : v = w :=
  elName_inj fn t h v w hv hw (by simp only [elName, e])

theorem mtmName_isSome {fn : String → List String} {name : String} {p : Val → Bool} {t : Ty} {v : Val}
    (hv : HasTy v (.data name p [t])) : ∃ ps, HasTy ps t ∧ v = .obj name [ps] ∧
      mtmName fn v = some (shortName name ++ "-" ++ elName fn ps) := by
  obtain ⟨fs, rfl, hfs⟩ := hasTy_data_inv hv
  obtain ⟨ps, r, rfl, h1, h2⟩ := hasTys_cons_inv hfs
  rw [hasTys_nil_inv h2]
  exact ⟨ps, h1, rfl, rfl⟩

/-- `MazeTokenizerModular.name`: class name, a dash, the name of the single field -/
theorem mtmName_inj (fn : String → List String) (name : String) (p : Val → Bool) (t : Ty)
    (h : Code fn none t) (v w : Val)
    (hv : HasTy v (.data name p [t])) (hw : HasTy w (.data name p [t]))
    (e : mtmName fn v = mtmName fn w) : v = w := by
  obtain ⟨ps, hps, rfl, e1⟩ := mtmName_isSome (fn := fn) hv
  obtain ⟨qs, hqs, rfl, e2⟩ := mtmName_isSome (fn := fn) hw
  rw [e1, e2] at e
  simp only [Option.some.injEq] at e
  have e3 := congrArg String.toList e
  simp only [String.toList_append] at e3
  have e4 := List.append_cancel_left e3
  rw [elName_inj fn t h _ _ hps hqs (String.toList_injective e4)]

end MZ.AI
