import MazeVerif.Model.Component
/-! Model of `LatticeMaze.find_shortest_path` (lattice_maze.py:267-342): A* with a closed set, maps `g_score`,
    `f_score`, `source` as total functions with point updates, `open_vtx`/`closed_vtx` as lists (compared as sets).
    The node expanded at each iteration (`min(open_vtx, key=f_score)`; ties are broken by CPython's set order) is an
    INPUT: `picks`, each checked to be a legal minimum. Core only. -/
namespace MZ.AStar

abbrev Cell := MZ.Cell

structure AS where
  g : Cell → Int
  f : Cell → Int
  opn : List Cell
  closed : List Cell
  src : Cell → Option Cell

def upd {β} (m : Cell → β) (k : Cell) (v : β) : Cell → β := fun x => if x = k then v else m x

@[simp] theorem upd_same {β} (m : Cell → β) (k : Cell) (v : β) : upd m k v k = v := by simp [upd]
theorem upd_other {β} (m : Cell → β) {k x : Cell} (v : β) (h : x ≠ k) : upd m k v x = m x := by simp [upd, h]

/-- lines 305-324 of lattice_maze.py for one neighbour -/
def relax (h : Cell → Int) (c : Cell) (s : AS) (nb : Cell) : AS :=
  if nb ∈ s.closed then s
  else if nb ∉ s.opn then
    { s with opn := s.opn ++ [nb], src := upd s.src nb (some c),
             g := upd s.g nb (s.g c + 1), f := upd s.f nb (s.g c + 1 + h nb) }
  else if s.g c + 1 ≥ s.g nb then s
  else { s with src := upd s.src nb (some c), g := upd s.g nb (s.g c + 1), f := upd s.f nb (s.g c + 1 + h nb) }

def close (s : AS) (c : Cell) : AS := { s with closed := c :: s.closed, opn := s.opn.erase c }

def expand (N : Cell → List Cell) (h : Cell → Int) (s : AS) (c : Cell) : AS :=
  (N c).foldl (relax h c) (close s c)

def recon (src : Cell → Option Cell) : Nat → Cell → List Cell
  | 0, v => [v]
  | k + 1, v =>
    match src v with
    | none => [v]
    | some u => recon src k u ++ [v]

/-- a list of cells is a walk from its head to its last element -/
inductive Result
  | found (path : List Cell)
  | noPath
  | illegalPick
  | outOfPicks
  | outOfFuel
deriving DecidableEq, Repr

/-- the main loop; `picks` are the nodes `min(open_vtx, key=f_score)` returned, checked for legality -/
def run (N : Cell → List Cell) (h : Cell → Int) (endc : Cell) (H0 : Int) : Nat → AS → List Cell → Result
  | 0, _, _ => .outOfFuel
  | fuel + 1, s, picks =>
    if s.opn = [] then .noPath
    else
      match picks with
      | [] => .outOfPicks
      | c :: rest =>
        if c ∈ s.opn ∧ ∀ v ∈ s.opn, s.f c ≤ s.f v then
          if c = endc then .found (recon s.src (s.g c - H0).toNat c)
          else run N h endc H0 fuel (expand N h s c) rest
        else .illegalPick


/-- Manhattan distance to the goal: `heuristic(c, c_end)` -/
def manhattan (e c : Cell) : Int := ((c.1 - e.1).natAbs + (c.2 - e.2).natAbs : Nat)

/-- initial state (lines 276-291): `f_score = {c_start: 0.0}`, `g_score[c_start] = heuristic(c_start, c_end)` (the second
    assignment wins — every g is offset by this constant), `open_vtx = {c_start}` -/
def initState (start endc : Cell) : AS :=
  { g := upd (fun _ => 0) start (manhattan endc start), f := upd (fun _ => 0) start 0,
    opn := [start], closed := [], src := fun _ => none }

/-- `find_shortest_path(c_start, c_end)` on the maze `(rows, cols, E)` for a given sequence of expanded nodes -/
def astar (rows cols : Nat) (E : List MZ.Edge) (start endc : Cell) (picks : List Cell) (fuel : Nat) : Result :=
  run (MZ.coordNeighbors rows cols E) (manhattan endc) endc (manhattan endc start) fuel (initState start endc) picks

end MZ.AStar
