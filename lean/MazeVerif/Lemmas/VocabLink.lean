import MazeVerif.Lemmas.VocabBlocks
import MazeVerif.Generated.TokVocab
/-! The two models of `VOCAB_LIST`: `MZ.Gen.vocab` (Generated/TokVocab.lean, emitted by `translate_tok.py`; used by `C06_vocab`)
    and `MZ.Vocab.vocab` (Model/Vocab.lean, from `translate.py`/`translate_vocab.py`; used by C14).

    They are NOT equal as lists: `Gen.vocab` lists the trailing `UT_xx_yy` block in plain `np.ndindex` (row-major) order
    (as its doc-comment says), `Vocab.vocab` in `corner_first_ndindex` order (the real order). Exact relation, proved here
    block by block (structurally, no evaluation of the 4096 strings): the first 1596 entries coincide, the last 2500 are
    `(ndindex 50).map coordToken` resp. `(cornerFirst 50).map coordToken`, and `cornerFirst 50 ~ ndindex 50`. -/
namespace MZ.Vocab
open List

/-- the `i`-th block of the generated block list -/
def genB (i : Nat) : List String := Gen.tokVocabBlocks.getD i []

/-- everything before the coordinate block: `_SPECIAL_TOKENS_BASE` and `_VOCAB_FIELDS` up to `RESERVE_1595` (1596 tokens) -/
def vocabHead : List String := specials ++ litsA ++ segPlus ++ segCTT ++ segNeg ++ litsB ++ segRes

/-- the coordinate block in row-major (`np.ndindex`) order -/
def utRowMajor : List String := (ndindex 50).map coordToken

theorem gen_vocab_blocks : Gen.vocab = genB 0 ++ (genB 1 ++ (genB 2 ++ (genB 3 ++ (genB 4 ++ (genB 5 ++ genB 6))))) := by
  simp [Gen.vocab, Gen.tokVocabBlocks, genB]

theorem genB0 : genB 0 = specials ++ litsA := by decide
theorem genB4 : genB 4 = litsB := by decide

theorem genB1 : genB 1 = segPlus := by
  show (List.range' 0 256).map Gen.blockFmt0 = _
  rw [← List.range_eq_range']
  rfl

theorem genB2 : genB 2 = segCTT := by
  show (List.range' 0 128).map Gen.blockFmt1 = _
  rw [← List.range_eq_range']
  rfl

theorem toString_negSucc (k : Nat) : toString (Int.negSucc k) = "-" ++ Nat.repr (k + 1) := rfl

theorem genB3 : genB 3 = segNeg := by
  show (List.range 256).map (fun (t : Nat) => Gen.blockFmt2 ((-256 : Int) + (t : Int))) = _
  unfold segNeg
  apply List.map_congr_left
  intro j hj
  have hj' : j < 256 := List.mem_range.mp hj
  have : (-256 : Int) + (j : Int) = Int.negSucc (255 - j) := by omega
  simp only [Gen.blockFmt2, this, toString_negSucc]
  congr 2; omega

theorem genB5 : genB 5 = segRes := by
  show (List.range' 708 888).map Gen.blockFmt3 = _
  rw [List.range'_eq_map_range, List.map_map]
  rfl

theorem genB6 : genB 6 = utRowMajor := by
  show ((List.range 50).flatMap fun x => (List.range 50).map fun y => Gen.utFmt x y) = _
  unfold utRowMajor ndindex
  rw [List.map_flatMap]
  simp only [List.map_map]
  rfl

/-- the generated vocabulary, block by block in the terms of the C14 model -/
theorem gen_vocab_eq : Gen.vocab = vocabHead ++ utRowMajor := by
  rw [gen_vocab_blocks, genB0, genB1, genB2, genB3, genB4, genB5, genB6]
  simp only [vocabHead, List.append_assoc]

theorem vocab_eq_head : vocab = vocabHead ++ utTokens := by
  rw [vocab_eq_segments, vocabHead]

theorem length_vocabHead : vocabHead.length = 1596 := by
  simp [vocabHead, length_specials, length_litsA, length_litsB, length_segPlus, length_segCTT, length_segNeg, length_segRes]

theorem utTokens_perm_rowMajor : utRowMajor ~ utTokens := by
  unfold utRowMajor utTokens
  rw [utSize_eq]
  exact (cornerFirst_perm 50).symm.map _

theorem gen_vocab_perm : Gen.vocab ~ vocab := by
  rw [gen_vocab_eq, vocab_eq_head]
  exact List.Perm.append_left _ utTokens_perm_rowMajor

theorem cornerFirst2 : cornerFirst 2 = [(0, 0), (0, 1), (1, 0), (1, 1)] :=
  ((cornerSpecOK_iff 2 _).1 (by decide)).symm

/-- position 1598: `"(0,2)"` in the generated list, `"(1,0)"` in the real order -/
theorem gen_vocab_1598 : Gen.vocab[1598]? = some "(0,2)" ∧ vocab[1598]? = some "(1,0)" := by
  constructor
  · rw [gen_vocab_eq, List.getElem?_append_right (by rw [length_vocabHead]; omega), length_vocabHead]
    show ((ndindex 50).map coordToken)[2]? = _
    have := ndindex_getElem? 50 0 2 (by omega) (by omega)
    rw [List.getElem?_map]
    simp only [Nat.zero_mul, Nat.zero_add] at this
    rw [this]; rfl
  · rw [vocab_eq_head, List.getElem?_append_right (by rw [length_vocabHead]; omega), length_vocabHead]
    show ((cornerFirst Gen.vocabUTSize).map coordToken)[2]? = _
    rw [utSize_eq, List.getElem?_map]
    obtain ⟨t, ht⟩ := cornerFirst_prefix (n := 2) (m := 50) (by omega)
    rw [← ht, cornerFirst2]
    rfl

end MZ.Vocab
