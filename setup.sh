#!/bin/bash
# MANIFEST.setup_cmd: offline build of the Lean library (models, lemmas, property theorems) and the model driver.
set -e
cd "$(dirname "$0")"
mkdir -p .work evidence replays
/venv/bin/python harness/translate.py
cd lean
lake build
