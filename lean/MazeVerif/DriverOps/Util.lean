import Lean.Data.Json
import MazeVerif.Model.Grid
/-! JSON helpers shared by the driver's per-property handlers (Mathlib-free so that the driver links as an executable). -/
namespace MZ.Drv
open Lean

abbrev R := Except String

def fld (j : Json) (k : String) : R Json := j.getObjVal? k
def getNat (j : Json) (k : String) : R Nat := do (← fld j k).getNat?
def getInt (j : Json) (k : String) : R Int := do (← fld j k).getInt?
def getBool (j : Json) (k : String) : R Bool := do (← fld j k).getBool?
def getStr (j : Json) (k : String) : R String := do (← fld j k).getStr?
def getArr (j : Json) (k : String) : R (List Json) := do return (← (← fld j k).getArr?).toList
def optFld (j : Json) (k : String) : Option Json :=
  match j.getObjVal? k with
  | .ok Json.null => none
  | .ok v => some v
  | .error _ => none

def asNatList (j : Json) : R (List Nat) := do (← j.getArr?).toList.mapM (·.getNat?)
def asIntList (j : Json) : R (List Int) := do (← j.getArr?).toList.mapM (·.getInt?)
def getNatList (j : Json) (k : String) : R (List Nat) := do asNatList (← fld j k)
def getIntList (j : Json) (k : String) : R (List Int) := do asIntList (← fld j k)

def asCell (j : Json) : R Cell := do
  match ← asIntList j with
  | [r, c] => pure (r, c)
  | _ => throw "cell: expected [r,c]"
def asEdge (j : Json) : R Edge := do
  match (← j.getArr?).toList with
  | [d, r, c] => pure ((← d.getNat?), (← r.getInt?), (← c.getInt?))
  | _ => throw "edge: expected [d,r,c]"
def getCell (j : Json) (k : String) : R Cell := do asCell (← fld j k)
def getCells (j : Json) (k : String) : R (List Cell) := do (← getArr j k).mapM asCell
def getEdges (j : Json) (k : String) : R (List Edge) := do (← getArr j k).mapM asEdge

def jInt (i : Int) : Json := Json.num (JsonNumber.fromInt i)
def jNat (n : Nat) : Json := Json.num (JsonNumber.fromNat n)
def jCell (c : Cell) : Json := Json.arr #[jInt c.1, jInt c.2]
def jEdge (e : Edge) : Json := Json.arr #[jNat e.1, jInt e.2.1, jInt e.2.2]
def jCells (l : List Cell) : Json := Json.arr (l.map jCell).toArray
def jEdges (l : List Edge) : Json := Json.arr (l.map jEdge).toArray
def jNats (l : List Nat) : Json := Json.arr (l.map jNat).toArray
def jInts (l : List Int) : Json := Json.arr (l.map jInt).toArray
def jStrs (l : List String) : Json := Json.arr (l.map Json.str).toArray
def jList {α} (f : α → Json) (l : List α) : Json := Json.arr (l.map f).toArray
def obj (kv : List (String × Json)) : Json := Json.mkObj kv

end MZ.Drv
