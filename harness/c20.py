"""C20 — maze plots draw the maze that was given.

Real code: MazePlot(maze, unit_length)[.add_node_values][.add_true_path][.add_predicted_path…].plot() under the Agg backend,
observed at ax.images[0].get_array(), ax.lines[*].get_xydata(), the Quiver collections' X/Y/U/V, and MazePlot.to_ascii().
Correspondence: MZ.Plot model through driver ops C20.img / C20.paths / C20.ascii.
Oracle (plain Python, written from the property statement, no use of the model): blocks, strips <-> connections
(both as array values and as rendered colours), path vertices at block centres (centres derived from the image's
extent), ASCII export vs. the maze's own as_ascii()."""
from __future__ import annotations
import itertools, random, warnings
import numpy as np
import matplotlib
matplotlib.use("Agg")

RULE = ("cases = (maze kind in plain/targeted/solved) x (connection structure from the real generators gen_dfs, gen_wilson [trees], "
        "gen_percolation, gen_dfs_percolation [cyclic / disconnected] or raw random bits, grid 2..8 x 2..8, also oblong) x (unit_length 3..14, "
        "a few 2) x (no node values | float node values: positive, mixed sign, small integers with repeats) x (0..3 predicted paths as list / "
        "ndarray / StyledPath with or without quiver, length 0..10, arbitrary cells) x (optionally add_true_path on a plain maze); "
        "every case is plotted for real and compared pixel by pixel / vertex by vertex with the model, to_ascii under all four flag "
        "combinations; non-trivial = at least one connection and one wall strip in the lattice; distinct = distinct (structure, kind, "
        "endpoints, ul, values, paths); later additions: cell values of exactly -1.0 (the background value), +-1 labels and whole numbers, prior plot state on the same object, int8 paths at unit length >= 14, add_multiple_paths, predicted paths given as lists of Coord arrays (two-cell hops), a rejected add_node_values call before the plot")
ASSUMPTIONS = ["matplotlib: imshow stores the array it is given, Line2D/Quiver store the vertex data they are given (read back on every case); "
               "rendering below the array / vertex data is not modelled, only probed through cmap(norm(array)) for wall = black",
               "node values are float64 and finite; -1.0 (also the background value) is a legal cell value and is told apart from the background by position (top row / left column) when pixels are classified for the model comparison",
               "to_ascii flags outside the defaults are mirrored, not demanded: the path-less branch does not forward show_solution",
               "the as_ascii part of the model covers in-grid solutions only (C10 owns as_pixels / as_ascii in general)"]
TRUSTED = ["find_shortest_path is external to C20 (C02): the path MazePlot adds for a targeted maze is taken as observed and checked by the "
           "oracle to be a connection-respecting path start->end of BFS-minimal length",
           "numpy slice assignment / np.logical_not / np.full_like modelled as documented (validated pixel-wise on every case)"]

GENS = ["gen_dfs", "gen_wilson", "gen_percolation", "gen_dfs_percolation", "raw"]
CONN_SCALE = 1.0 * 0.93   # `np.ones * connection_val_scale`
W_, ONE_, CONN_, NAN_, UNK_ = -1, -2, -3, -4, -9


# ------------------------------------------------------------------------------------------------ case generation
def _gen_structure(rng: random.Random, rows: int, cols: int, gen: str) -> np.ndarray:
    from maze_dataset.generation import LatticeMazeGenerators as G
    random.seed(rng.getrandbits(32)); np.random.seed(rng.getrandbits(32))
    shape = np.array([rows, cols])
    if gen == "raw":
        cl = np.array([[[rng.random() < 0.5 for _ in range(cols)] for _ in range(rows)] for _ in range(2)], dtype=bool)
        cl[0, -1, :] = False; cl[1, :, -1] = False
        return cl
    if gen in ("gen_percolation", "gen_dfs_percolation"):
        m = getattr(G, gen)(shape, p=rng.choice([0.2, 0.4, 0.7]))
    else:
        m = getattr(G, gen)(shape)
    return np.array(m.connection_list, dtype=bool)


def _nbrs(cl, r, c):
    rows, cols = cl.shape[1:]
    if r + 1 < rows and cl[0, r, c]: yield (r + 1, c)
    if r - 1 >= 0 and cl[0, r - 1, c]: yield (r - 1, c)
    if c + 1 < cols and cl[1, r, c]: yield (r, c + 1)
    if c - 1 >= 0 and cl[1, r, c - 1]: yield (r, c - 1)


def _bfs(cl, s):
    dist, q = {s: 0}, [s]
    for u in q:
        for v in _nbrs(cl, *u):
            if v not in dist:
                dist[v] = dist[u] + 1; q.append(v)
    return dist


def _rand_cells(rng, rows, cols, n, wild=False):
    lo_r, hi_r, lo_c, hi_c = (-2, rows + 1, -2, cols + 1) if wild else (0, rows - 1, 0, cols - 1)
    return [[rng.randint(lo_r, hi_r), rng.randint(lo_c, hi_c)] for _ in range(n)]


def _gen_values(rng, rows, cols):
    mode = rng.choice(["pos", "mixed", "ints", "ints", "signs", "wholes"])
    if mode == "pos": v = [[rng.random() for _ in range(cols)] for _ in range(rows)]
    elif mode == "mixed": v = [[rng.uniform(-2, 2) for _ in range(cols)] for _ in range(rows)]
    elif mode == "signs": v = [[rng.choice([-1.0, 1.0]) for _ in range(cols)] for _ in range(rows)]       # +-1 labels: -1.0 is also the image's background value
    elif mode == "wholes": v = [[float(rng.randint(-2, 2)) for _ in range(cols)] for _ in range(rows)]
    else: v = [[float(rng.randint(0, 3)) for _ in range(cols)] for _ in range(rows)]
    v[0][0] = 0.25; v[-1][-1] = 0.75          # never degenerate (vmin < vmax)
    return [[float(x).hex() for x in row] for row in v], mode


def gen_case(rng: random.Random, small=False) -> dict:
    rows, cols = (rng.randint(2, 4), rng.randint(2, 4)) if small else (rng.randint(2, 8), rng.randint(2, 8))
    if rng.random() < 0.5: cols = rows
    gen = rng.choice(GENS)
    cl = _gen_structure(rng, rows, cols, gen)
    kind = rng.choice(["plain", "targeted", "solved"])
    case = dict(kind=kind, rows=rows, cols=cols, gen=gen, cl=cl.astype(int).tolist(),
                ul=rng.choice([2, 3, 3, 3, 4, 4, 5, 6, 7, 8, 9, 11, 14, 14]) if not small else rng.choice([3, 4, 5]),
                values=None, cmap="Blues", start=None, end=None, solution=None, added=None, predicted=[], plain_flag=rng.random() < 0.2)
    if kind != "plain":
        s = (rng.randrange(rows), rng.randrange(cols))
        dist = _bfs(cl, s)
        e = rng.choice(sorted(dist))
        case["start"], case["end"] = list(s), list(e)
        if kind == "solved":
            if rng.random() < 0.6:   # some connection-respecting walk s -> e (shortest via BFS parent walk, or a random walk)
                path, cur = [e], e
                dd = _bfs(cl, s)
                while cur != s:
                    cur = rng.choice([v for v in _nbrs(cl, *cur) if dd[v] == dd[cur] - 1]); path.append(cur)
                sol = path[::-1]
            else:
                sol, cur = [s], s
                for _ in range(rng.randint(0, 12)):
                    nb = list(_nbrs(cl, *cur))
                    if not nb: break
                    cur = rng.choice(nb); sol.append(cur)
            case["solution"] = [list(x) for x in sol]
            case["start"], case["end"] = list(sol[0]), list(sol[-1])
    if rng.random() < 0.25:
        # stored the way a reloaded minimal-format dataset stores coordinates (int8), drawn at a scale where coordinate * unit_length > 127
        case["path_dtype"] = "int8"; case["ul"] = rng.choice([14, 20, 33, 40])
    if rng.random() < 0.5:
        case["values"], case["values_mode"] = _gen_values(rng, rows, cols)
        case["prior_plot"] = rng.random() < 0.3
        case["cmap"] = rng.choice(["Blues", "Blues", "Reds", "viridis"])
        case["hide_colorbar"] = rng.random() < 0.5
    if kind == "plain" and rng.random() < 0.5:
        r = rng.random()
        if r < 0.1: case["added"] = []
        elif r < 0.6:   # a walk along lattice neighbours (adjacent cells, walls ignored)
            cur = [rng.randrange(rows), rng.randrange(cols)]; p = [cur]
            for _ in range(rng.randint(0, 8)):
                cand = [[cur[0] + a, cur[1] + b] for a, b in ((0, 1), (0, -1), (1, 0), (-1, 0)) if 0 <= cur[0] + a < rows and 0 <= cur[1] + b < cols]
                cur = rng.choice(cand); p.append(cur)
            case["added"] = p
        else: case["added"] = _rand_cells(rng, rows, cols, rng.randint(1, 6))
    for _ in range(rng.choice([0, 1, 1, 2, 3])):
        form = rng.choice(["list", "list", "array", "styled_line", "styled_quiver", "coord_arrays", "coord_arrays"])
        n = rng.choice([1, 2, 3, 5, 10]) if rng.random() < 0.9 else 0
        if form.startswith("coord_arrays") and rng.random() < 0.6: n = 2      # a hop between two cells, the cells given as the library's own Coord arrays
        case["predicted"].append(dict(form=form, path=_rand_cells(rng, rows, cols, n, wild=rng.random() < 0.15)))
    return case


# ------------------------------------------------------------------------------------------------ the real code
def _err(e: BaseException) -> str:
    for t in (ValueError, AssertionError, IndexError, KeyError):
        if isinstance(e, t): return t.__name__
    return "other"


def build_maze(case):
    from maze_dataset import LatticeMaze, TargetedLatticeMaze, SolvedMaze
    cl = np.array(case["cl"], dtype=bool)
    if case["kind"] == "plain": return LatticeMaze(connection_list=cl)
    if case["kind"] == "targeted": return TargetedLatticeMaze(connection_list=cl, start_pos=tuple(case["start"]), end_pos=tuple(case["end"]))
    return SolvedMaze(connection_list=cl, solution=np.array(case["solution"], dtype=case.get("path_dtype", None)))


def _values(case):
    return None if case["values"] is None else np.array([[float.fromhex(x) for x in row] for row in case["values"]], dtype=float)


def observe(case) -> dict:
    """run the real MazePlot and read back everything the property talks about"""
    import matplotlib.pyplot as plt
    from maze_dataset.plotting import MazePlot
    from maze_dataset.plotting.plot_maze import StyledPath
    maze = build_maze(case)
    obs = dict(own_ascii={}, plot_ascii={}, solved_ascii={})
    mp = MazePlot(maze, unit_length=case["ul"])
    obs["ctor_path"] = None if mp.true_path is None else np.array(mp.true_path.path).tolist()
    vals = _values(case)
    if vals is not None and case.get("prior_plot"):
        # the SAME plot object was given other cell values and plotted before: what counts is what it is given last
        import matplotlib.pyplot as plt0
        try:
            mp.add_node_values(vals[::-1, ::-1] + 1.0, color_map=case["cmap"], hide_colorbar=True)
            with warnings.catch_warnings():
                warnings.simplefilter("ignore")
                mp.plot(plain=case.get("plain_flag", False))
        except Exception:
            pass
        finally:
            plt0.close("all")
    if (case["rows"] + case["cols"] + case["ul"]) % 3 == 0:
        # a call the library REJECTS (values of another grid's shape) and whose error the caller handles: it must leave the plot as it was
        try:
            mp.add_node_values(np.arange((case["rows"] + 1) * (case["cols"] + 2), dtype=float).reshape(case["rows"] + 1, case["cols"] + 2) + 2.0)
        except (AssertionError, ValueError, IndexError):
            pass
    if vals is not None:
        mp.add_node_values(vals, color_map=case["cmap"], hide_colorbar=case.get("hide_colorbar", False))
    if case["added"] is not None:
        mp.add_true_path([tuple(x) for x in case["added"]])
    objs = []
    for p in case["predicted"]:
        pts = [tuple(x) for x in p["path"]]
        if p["form"] == "list": objs.append(pts)
        elif p["form"] == "array": objs.append(np.array(pts, dtype=case.get("path_dtype", None)).reshape(len(pts), 2))
        elif p["form"] == "coord_arrays": objs.append([np.array(x) for x in pts])
        elif p["form"] == "coord_arrays_tuple": objs.append(tuple(np.array(x) for x in pts))
        elif p["form"] == "styled_line": objs.append(StyledPath(path=np.array(pts).reshape(len(pts), 2), fmt=":", color="blue", quiver_kwargs=None))
        else: objs.append(StyledPath(path=np.array(pts).reshape(len(pts), 2), color="green", quiver_kwargs={"width": 0.01}))
    if len(objs) >= 2 and (len(objs) + case["rows"] + case["ul"]) % 2 == 0:
        mp.add_multiple_paths(objs)              # the other public route for predicted paths: all at once
    else:
        for o in objs: mp.add_predicted_path(o)
    try:
        with warnings.catch_warnings():
            warnings.simplefilter("ignore")
            mp.plot(plain=case.get("plain_flag", False))
        ax = mp.ax
        im = ax.images[0]
        arr = im.get_array()
        data = np.array(np.ma.getdata(arr), dtype=float)
        mask = np.ma.getmaskarray(arr)
        obs["img"] = data
        obs["mask_is_nan"] = bool(np.array_equal(mask, np.isnan(data)))
        obs["n_images"] = len(ax.images)
        obs["extent"] = [float(x) for x in im.get_extent()]
        obs["origin"] = im.origin
        rgba = np.asarray(im.cmap(im.norm(arr)))
        obs["black"] = np.all(rgba[..., :3] == 0.0, axis=-1) & (rgba[..., 3] == 1.0)
        obs["lines"] = [np.array(l.get_xydata(), dtype=float) for l in ax.lines]
        obs["quivers"] = [tuple(np.array(getattr(c, k), dtype=float).ravel() for k in "XYUV") for c in ax.collections if type(c).__name__ == "Quiver"]
        obs["plot_err"] = None
    except Exception as e:   # noqa: BLE001
        obs["plot_err"] = _err(e) + ": " + str(e)[:200]
    finally:
        if getattr(mp, "fig", None) is not None: plt.close(mp.fig)
        plt.close("all")
    for se, ss in itertools.product((True, False), repeat=2):
        k = f"{int(se)}{int(ss)}"
        for name, f in (("plot_ascii", lambda: mp.to_ascii(show_endpoints=se, show_solution=ss)),
                        ("own_ascii", lambda: maze.as_ascii(show_endpoints=se, show_solution=ss)),
                        ("solved_ascii", lambda: mp.solved_maze.as_ascii(show_endpoints=se, show_solution=ss))):
            try: obs[name][k] = dict(ok=f())
            except Exception as e:   # noqa: BLE001
                obs[name][k] = dict(err=_err(e))
    obs["final_true_path"] = None if mp.true_path is None else np.array(mp.true_path.path).reshape(-1, 2).tolist() if len(mp.true_path.path) else []
    return obs


# ------------------------------------------------------------------------------------------------ oracle (property statement)
def oracle(case, obs) -> list[tuple[str, str]]:
    """violations of the property statement by the REAL outputs: list of (key, description)"""
    bad = []
    rows, cols, ul = case["rows"], case["cols"], case["ul"]
    cl = np.array(case["cl"], dtype=bool)
    vals = _values(case)
    if obs["plot_err"] is not None:
        return [("plot-raises", f"MazePlot.plot() raised {obs['plot_err']}")]
    img, black = obs["img"], obs["black"]
    if obs["n_images"] != 1: bad.append(("images", f"{obs['n_images']} images on the axes, expected 1"))
    if img.shape != (rows * ul + 1, cols * ul + 1):
        return bad + [("shape", f"image shape {img.shape}, expected one ul-unit per cell plus 1: {(rows * ul + 1, cols * ul + 1)}")]
    for r in range(rows):
        for c in range(cols):
            blk = img[r * ul + 1:(r + 1) * ul, c * ul + 1:(c + 1) * ul]
            exp = 1.0 if vals is None else vals[r, c]
            if blk.shape != (ul - 1, ul - 1) or not np.all(blk == exp):
                bad.append(("block", f"block of cell ({r},{c}) does not carry {'its value ' + repr(float(exp)) if vals is not None else 'the node level 1.0'}: {np.unique(blk).tolist()[:4]}"))
            if black[r * ul + 1:(r + 1) * ul, c * ul + 1:(c + 1) * ul].any():
                bad.append(("block-black", f"block of cell ({r},{c}) is rendered black like a wall"))
            for d, ok_edge, (ys, xs), other in ((0, r + 1 < rows, (slice((r + 1) * ul, (r + 1) * ul + 1), slice(c * ul + 1, (c + 1) * ul)), (r + 1, c)),
                                                (1, c + 1 < cols, (slice(r * ul + 1, (r + 1) * ul), slice((c + 1) * ul, (c + 1) * ul + 1)), (r, c + 1))):
                if not ok_edge: continue
                strip, sblack = img[ys, xs].ravel(), black[ys, xs].ravel()
                name = f"strip between ({r},{c}) and {other}"
                if strip.size != ul - 1:
                    bad.append(("strip-size", f"{name} has {strip.size} pixels")); continue
                if cl[d, r, c]:   # connected -> passage
                    if vals is None: good = np.all(strip == CONN_SCALE)
                    else: good = np.all(strip == vals[r, c]) or np.all(strip == vals[other])
                    if not good or sblack.any():
                        bad.append(("strip-passage", f"{name}: cells are connected but the strip is not drawn as passage (values {np.unique(strip).tolist()[:3]}, rendered black: {bool(sblack.any())})"))
                else:
                    good = np.all(strip == -1.0) if vals is None else np.all(np.isnan(strip))
                    if not good or not sblack.all():
                        bad.append(("strip-wall", f"{name}: cells are NOT connected but the strip is not drawn as wall (values {np.unique(strip).tolist()[:3]}, rendered black: {bool(sblack.all())})"))
    # ---- paths: centres from the image extent (data coordinates of the block of pixels)
    left, right, bottom, top = obs["extent"]
    H, Wd = img.shape
    y0, y1 = (top, bottom) if obs["origin"] == "upper" else (bottom, top)
    def centre(rc):
        r, c = rc
        xa, xb = left + (c * ul + 1) * (right - left) / Wd, left + ((c + 1) * ul) * (right - left) / Wd
        ya, yb = y0 + (r * ul + 1) * (y1 - y0) / H, y0 + ((r + 1) * ul) * (y1 - y0) / H
        return [(xa + xb) / 2, (ya + yb) / 2]
    lines, quivers = list(obs["lines"]), list(obs["quivers"])
    def take_path(label, cells, quiver):
        if len(cells) == 0: return
        exp = np.array([centre(x) for x in cells], dtype=float)
        if quiver:
            if not quivers: bad.append(("path-missing", f"{label}: no arrow collection drawn")); return
            X, Y, U, V = quivers.pop(0)
            got = np.stack([np.append(X, X[-1] + U[-1]), np.append(Y, Y[-1] + V[-1])], axis=1) if len(X) else exp[:1]
            heads_ok = len(X) == len(cells) - 1 and np.array_equal(np.stack([X + U, Y + V], axis=1), exp[1:])
        else:
            if not lines: bad.append(("path-missing", f"{label}: no line drawn")); return
            got, heads_ok = lines.pop(0), True
        if got.shape != exp.shape or not np.array_equal(got, exp) or not heads_ok:
            bad.append(("path-vertices", f"{label}: drawn vertices {got.tolist()[:4]}… are not the centres of the listed cells {list(map(list, cells))[:4]}… in order (expected (x,y) {exp.tolist()[:4]}…)"))
        for which, cell in (("start", cells[0]), ("end", cells[-1])):
            if not lines: bad.append(("path-missing", f"{label}: {which} marker missing")); return
            mk = lines.pop(0)
            if mk.shape != (1, 2) or not np.array_equal(mk[0], np.array(centre(cell))):
                bad.append(("path-marker", f"{label}: {which} marker at {mk.tolist()} not at the centre of {list(cell)}"))
    tp = obs["final_true_path"]
    if case["kind"] == "solved" and case["added"] is None and tp != case["solution"]:
        bad.append(("true-path", f"true path of a solved maze is {tp}, its solution is {case['solution']}"))
    if case["kind"] == "targeted" and case["added"] is None:
        s, e = tuple(case["start"]), tuple(case["end"])
        dist = _bfs(cl, s)
        okp = tp is not None and len(tp) == dist[e] + 1 and tuple(tp[0]) == s and tuple(tp[-1]) == e and all(
            tuple(b) in set(_nbrs(cl, *a)) for a, b in zip(tp, tp[1:]))
        if not okp: bad.append(("true-path", f"true path of a targeted maze {tp} is not a shortest connected path {s}->{e}"))
    if case["kind"] == "plain" and case["added"] is None and tp is not None:
        bad.append(("true-path", f"a plain maze got a true path {tp}"))
    if tp is not None: take_path("true path", tp, quiver=False)
    for i, p in enumerate(case["predicted"]):
        take_path(f"predicted path {i + 1}", p["path"], quiver=_is_quiver(p["form"]))
    if lines or quivers: bad.append(("extra-artists", f"{len(lines)} lines / {len(quivers)} arrow collections drawn beyond the listed paths"))
    # ---- ASCII export: default flags (the property's reading), and every flag combination where the maze's own drawing
    #      with the same flags is defined by the same call (path-less export with show_endpoints=False is the documented quirk:
    #      show_solution is not forwarded there; it is counted, not judged)
    for k in ("11", "10", "01", "00"):
        pa, own, sv = obs["plot_ascii"][k], obs["own_ascii"][k], obs["solved_ascii"][k]
        flags = f"(show_endpoints={k[0] == '1'}, show_solution={k[1] == '1'})"
        if tp is not None and pa != sv:
            bad.append(("ascii", f"to_ascii{flags} {pa} is not the drawing of the solved maze built from the true path {sv}"))
        if case["added"] is None and case["kind"] == "solved" and pa != own:
            bad.append(("ascii", f"to_ascii{flags} {pa} differs from the solved maze's own as_ascii{flags} {own}"))
        if case["added"] is None and case["kind"] == "plain" and k[0] == "1" and pa != own:
            bad.append(("ascii", f"to_ascii{flags} {pa} differs from the maze's own as_ascii{flags} {own}"))
    pa, own = obs["plot_ascii"]["11"], obs["own_ascii"]["11"]
    if "ok" not in pa and case["added"] is None:
        bad.append(("ascii", f"to_ascii() raised {pa}"))
    if case["added"] is None and case["kind"] == "targeted" and "ok" in pa and "ok" in own:
        a, b = pa["ok"], own["ok"]
        if len(a) != len(b) or any(x != y for x, y in zip(a, b) if x != "X"):
            bad.append(("ascii", f"to_ascii() of a targeted maze differs from the maze's own drawing outside the path: {a!r} vs {b!r}"))
    return bad


# ------------------------------------------------------------------------------------------------ model side
def _edges(case):
    cl = np.array(case["cl"], dtype=bool)
    return [[int(d), int(r), int(c)] for d, r, c in zip(*np.nonzero(cl))]


def _value_ids(case):
    vals = _values(case)
    if vals is None: return None, {}
    ids = {}
    tbl = [[ids.setdefault(float(v), len(ids)) for v in row] for row in vals]
    return tbl, ids


def classify(case, img) -> list[list[int]]:
    _, ids = _value_ids(case)
    out = np.full(img.shape, UNK_, dtype=int)
    if case["values"] is None:
        out[img == -1.0] = W_; out[img == 1.0] = ONE_; out[img == CONN_SCALE] = CONN_
    else:
        out[img == -1.0] = W_
        for v, i in ids.items(): out[img == v] = i
        if -1.0 in ids:
            # -1.0 is a legal cell value AND the background value; with values supplied the background survives only on the top row and
            # the left column of the image (every other wall pixel is NaN), so position tells the two apart
            out[0, :][img[0, :] == -1.0] = W_; out[:, 0][img[:, 0] == -1.0] = W_
    out[np.isnan(img)] = NAN_
    return out.tolist()


def _is_quiver(form): return form in ("list", "array", "styled_quiver", "coord_arrays", "coord_arrays_tuple")


def requests(case, obs) -> list[dict]:
    tbl, _ = _value_ids(case)
    reqs = [dict(op="C20.img", rows=case["rows"], cols=case["cols"], edges=_edges(case), ul=case["ul"], node_ids=tbl)]
    tp = obs["final_true_path"]
    reqs.append(dict(op="C20.paths", ul=case["ul"], true_path=None if tp is None else dict(quiver=False, path=tp),
                     predicted=[dict(quiver=_is_quiver(p["form"]), path=p["path"]) for p in case["predicted"]]))
    maze = dict(kind=case["kind"], rows=case["rows"], cols=case["cols"], edges=_edges(case))
    if case["kind"] == "targeted": maze.update(start=case["start"], end=case["end"])
    if case["kind"] == "solved": maze.update(solution=case["solution"])
    sp = obs["ctor_path"] if case["kind"] == "targeted" else []
    for se, ss in itertools.product((True, False), repeat=2):
        reqs.append(dict(op="C20.ascii", maze=maze, sp=sp, added=case["added"], se=se, ss=ss))
    return reqs


def _dbl(a) -> list:
    """float vertex data -> doubled integers (exact: coordinates are multiples of 1/2), or the string 'non-half-integer'"""
    a = np.asarray(a, dtype=float) * 2
    if a.size and not np.all(a == np.round(a)): return "non-half-integer"
    return np.round(a).astype(int).tolist()


def compare(ctx, case, obs, replies) -> None:
    if any("error" in r for r in replies):
        ctx.disagree(f"driver error {[r['error'] for r in replies if 'error' in r][:1]}", case); return
    if obs["plot_err"] is not None:
        return   # reported by the oracle
    ri, rp, ra = replies[0], replies[1], replies[2:]
    impl_img = classify(case, obs["img"])
    ctx.traces_validated += 1
    if [ri["h"], ri["w"]] != list(obs["img"].shape):
        ctx.disagree(f"image shape: model {(ri['h'], ri['w'])} impl {obs['img'].shape}", case)
    elif ri["img"] != impl_img:
        d = [(y, x) for y in range(ri["h"]) for x in range(ri["w"]) if ri["img"][y][x] != impl_img[y][x]]
        y, x = d[0]
        ctx.disagree(f"image differs at {len(d)} pixels, first (y={y},x={x}): model {ri['img'][y][x]} impl {impl_img[y][x]} "
                     f"(codes: -1 wall, -2 node 1.0, -3 connection, -4 nan, >=0 value id) rows={case['rows']} cols={case['cols']} ul={case['ul']} values={case['values'] is not None}", case)
    if not obs["mask_is_nan"]:
        ctx.disagree("imshow array mask is not exactly the NaN pixels", case)
    ctx.traces_validated += 1
    impl_lines = [_dbl(l) for l in obs["lines"]]
    impl_quivers = [[_dbl(a) for a in q] for q in obs["quivers"]]
    if rp["lines"] != impl_lines:
        ctx.disagree(f"ax.lines vertex data differ: model {rp['lines'][:3]} impl {impl_lines[:3]} (doubled coordinates)", case)
    if rp["quivers"] != impl_quivers:
        ctx.disagree(f"quiver data differ: model {rp['quivers'][:2]} impl {impl_quivers[:2]} (doubled coordinates)", case)
    for (se, ss), r in zip(itertools.product((True, False), repeat=2), ra):
        k = f"{int(se)}{int(ss)}"
        ctx.traces_validated += 1
        for name in ("plot", "own", "solved"):
            impl = obs[name + "_ascii"][k]
            model = r[name]
            if "err" in model and model["err"] == "outOfModel":
                ctx.count("ascii-outOfModel"); continue
            if model != impl:
                ctx.disagree(f"{name} ascii (show_endpoints={se}, show_solution={ss}): model {model} impl {impl}", case)


# ------------------------------------------------------------------------------------------------ entry points
def _canon(case):
    return {k: case[k] for k in ("kind", "rows", "cols", "cl", "ul", "values", "start", "end", "solution", "added", "predicted")}


def _nontrivial(case):
    cl = np.array(case["cl"], dtype=bool)
    n_edges = case["rows"] * (case["cols"] - 1) + (case["rows"] - 1) * case["cols"]
    return 0 < int(cl.sum()) < n_edges


def check_case(ctx, case, with_model=True):
    obs = observe(case)
    ctx.case(_canon(case), nontrivial=_nontrivial(case))
    for key, what in oracle(case, obs):
        ctx.violate(f"{what} [kind={case['kind']} grid={case['rows']}x{case['cols']} ul={case['ul']} values={'yes' if case['values'] else 'no'}]",
                    dict(case=case, clause=key), key=key)
    return obs


def _histo(ctx, case):
    ctx.count(f"kind={case['kind']}"); ctx.count(f"gen={case['gen']}"); ctx.count(f"grid={case['rows']}x{case['cols']}" if case["rows"] != case["cols"] else f"grid={case['rows']}")
    ctx.count(f"ul={case['ul']}"); ctx.count("values=" + (case.get("values_mode", "?") if case["values"] else "none"))
    ctx.count(f"predicted={len(case['predicted'])}"); ctx.count("added_true_path=" + ("none" if case["added"] is None else str(min(len(case["added"]), 2)) + "+"))
    for p in case["predicted"]: ctx.count(f"pred_form={p['form']}"); ctx.count(f"pred_len={len(p['path'])}")


def run(ctx):
    warnings.filterwarnings("ignore")
    n = 300 if ctx.quick else 3000
    cases = [gen_case(ctx.rng, small=(i % 4 == 0)) for i in range(n)]
    # exhaustive tiny domain: every well-formed connection structure on 2x2 (thorough: also 2x3 and 3x2), with and without values
    shapes = [(2, 2)] if ctx.quick else [(2, 2), (2, 3), (3, 2)]
    cases += list(_exhaustive(shapes, (3,), with_pred=False))
    reqs, pend = [], []
    for case in cases:
        obs = check_case(ctx, case)
        _histo(ctx, case)
        rq = requests(case, obs)
        pend.append((case, obs, len(rq))); reqs.extend(rq)
    outs = ctx.driver.run_parallel(reqs)
    k = 0
    for case, obs, m in pend:
        compare(ctx, case, obs, outs[k:k + m]); k += m
        if case["values"] and case["predicted"] and len(ctx.samples) < 3:
            ctx.sample(dict(kind=case["kind"], grid=[case["rows"], case["cols"]], ul=case["ul"], edges=_edges(case)[:6], predicted=case["predicted"][:1],
                            lines=[_dbl(l) for l in obs.get("lines", [])][:2], ascii=obs["plot_ascii"]["11"]))
    ctx.extra["exhaustive_structures"] = {f"{r}x{c}": 2 ** (r * (c - 1) + (r - 1) * c) for r, c in shapes}
    quirk = sum(1 for case, obs, _ in pend if case["kind"] == "plain" and case["added"] is None
                and "err" in obs["plot_ascii"]["00"] and "ok" in obs["own_ascii"]["00"])
    ctx.extra["quirk_pathless_to_ascii_False_False_raises_while_own_as_ascii_works"] = quirk


def _exhaustive(shapes, uls, with_pred=True):
    for rows, cols in shapes:
        free = [(0, r, c) for r in range(rows - 1) for c in range(cols)] + [(1, r, c) for r in range(rows) for c in range(cols - 1)]
        for bits in itertools.product((0, 1), repeat=len(free)):
            cl = np.zeros((2, rows, cols), dtype=int)
            for b, (d, r, c) in zip(bits, free): cl[d, r, c] = b
            for ul in uls:
                for vals in (None, [[float(0.25 + r * cols + c).hex() for c in range(cols)] for r in range(rows)]):
                    yield dict(kind="plain", rows=rows, cols=cols, gen="exhaustive", cl=cl.tolist(), ul=ul, values=vals, values_mode="fixed", cmap="Blues",
                               start=None, end=None, solution=None, added=None, plain_flag=False,
                               predicted=[dict(form="list", path=[[0, 0], [rows - 1, 0], [rows - 1, cols - 1]])] if with_pred else [])


def search(ctx):
    """oracle-only, wider: every WF connection structure on 2x2, 2x3, 3x2 for several unit lengths, with and without values
    and one predicted path; then random cases. Stops at the first violation."""
    warnings.filterwarnings("ignore")
    for case in _exhaustive([(2, 2), (2, 3), (3, 2)], (3, 4) if ctx.quick else (3, 4, 5, 8)):
        check_case(ctx, case)
        if ctx.violations: return
    for _ in range(150 if ctx.quick else 1500):
        check_case(ctx, gen_case(ctx.rng))
        if ctx.violations: return


def replay(ctx, rp):
    case = rp.get("case", rp)
    case = case.get("case", case)
    obs = check_case(ctx, case)
    compare(ctx, case, obs, ctx.driver.run(requests(case, obs)))
