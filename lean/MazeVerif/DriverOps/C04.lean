import MazeVerif.DriverOps.Util
namespace MZ.Drv.C04
open Lean MZ.Drv

/-- driver ops of property C04 (`"op": "C04.<name>"`) -/
def handle (op : String) (_j : Json) : R Json := do
  match op with
  | _ => throw s!"unknown op {op}"

end MZ.Drv.C04
