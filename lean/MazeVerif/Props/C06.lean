import MazeVerif.Lemmas.TokSel
import MazeVerif.Lemmas.TokVocabMem
import MazeVerif.Lemmas.TokSpec
import MazeVerif.Lemmas.TokSelNodup
import MazeVerif.Lemmas.TokStrInj
import MazeVerif.Lemmas.VocabLink
/-! # C06 — modular tokenization is a faithful, decodable encoding of the maze

Model: `MZ.Tok.toTokens` (Model/Tok*.lean; maze_tokenizer.py:729-1900, token_utils.py:34-68,120-158,385-451, utils.py:124-167),
the independent decoder `MZ.Tok.decode`, the specification record `MZ.Tok.info` (edge labels from `MZ.Adj`).
All shuffles are abstracted by the emission order `order`, constrained by `ValidOrder`; every theorem quantifies over **all**
configurations of the inductive `TokCfg` (⊇ the 5 878 656 valid ones), all mazes of the three kinds, all grid sizes and all
legal orders.  Only property theorems and their non-vacuity examples live here. -/
namespace MZ.Tok
open MZ.Gen

/-- Full statement of C06 (kept visible; proved below as `C06_full_holds`): for every tokenizer configuration with a valid path
    tokenizer, every maze (untargeted / targeted / solved), every legal emission order of the selected edge set, if the tokenizer
    yields tokens then (1) the independent decoder recovers exactly the specification record (edges labelled from `Adj`, start, end,
    step values), (2) the regions are delimited exactly once and in order (decode accepts nothing else), (3) every token is in the
    vocabulary when the coordinates are within the coordinate tokenizer's range (the Distance guard `< distHi = 256` is already a
    precondition of the tokenizer yielding tokens, see `C06_distance_guard`). -/
def C06_full : Prop :=
  ∀ (cfg : TokCfg) (mz : MazeIn) (es order : List OE) (toks : List Tok),
    cfg.path.Valid →
    selEdges cfg.adj.subset mz.maze = some es →
    ValidOrder cfg.adj.permuter cfg.adj.shuffle es order →
    toTokens cfg mz order = some toks →
    (∃ i, info cfg mz order = some i ∧ decode cfg toks = some i) ∧
    ((∀ e ∈ order, CoordOK cfg.ct e.1 ∧ CoordOK cfg.ct e.2) →
      mz.CoordsOK cfg.ct →
      ∀ t ∈ toks, t.str ∈ vocab)

/-! ## region theorems -/

/-- coordinate tokens (all 9 coordinate tokenizers, all coordinates, any continuation) are read back exactly -/
theorem C06_coord_roundtrip (ct : CoordTok) (c : C) (rest : List Tok) :
    parseCoord ct (coordToks ct c ++ rest) = some (c, rest) := parseCoord_coordToks ct c rest

/-- one edge group (all adjacency configurations, any oriented pair the tokenizer can emit): lead, trail and label are read back -/
theorem C06_edge_roundtrip (cfg : AdjCfg) (ct : CoordTok) (m : Maze) (e : OE) (toks rest : List Tok)
    (h : edgeToks cfg ct m e = some toks) :
    parseEdge cfg ct (toks ++ rest) = some (⟨e.1, e.2, isConn m e⟩, rest) := parseEdge_edgeToks h rest

/-- `is_connection` (the `np.sort(axis=1)` trick) equals semantic adjacency `Adj` on lattice neighbours in either orientation -/
theorem C06_is_connection (m : Maze) (e : OE) (h : LatAdj e) :
    isConn m e = true ↔ MZ.Adj m.edges (cellOf e.1) (cellOf e.2) := by
  rw [isConn_eq_adjB m e h]; simp [adjB]

/-- `numpy_rng.permuted(edges, axis=1)` permutes row components and column components independently, yet on a lattice edge the
    outcome is the edge or its flip — this licenses treating `RandomCoords` as a per-edge orientation choice -/
theorem C06_permuted_is_flip (e : OE) (sr sc : Bool) (h : LatAdj e) :
    permutedAxis1 e sr sc = e ∨ permutedAxis1 e sr sc = flipE e := by
  apply permutedAxis1_flip
  obtain ⟨⟨a1, a2⟩, ⟨b1, b2⟩⟩ := e
  unfold LatAdj at h; simp only [Prod.mk.injEq] at h ⊢
  rcases h with ⟨_, h⟩ | ⟨_, h⟩ | ⟨h, _⟩ | ⟨h, _⟩
  · exact Or.inr h.symm
  · exact Or.inr h
  · exact Or.inl h.symm
  · exact Or.inl h

/-- adjacency region, all 9×216 configurations, all mazes, all legal orders: the decoder reads back the emitted oriented edges in
    order, each labelled connection/wall exactly as `Adj` says -/
theorem C06_adj_region_roundtrip (cfg : AdjCfg) (ct : CoordTok) (m : Maze) (es order : List OE) (toks rest : List Tok)
    (hsel : selEdges cfg.subset m = some es) (hord : ValidOrder cfg.permuter cfg.shuffle es order)
    (h : adjToks cfg ct m order = some toks) :
    parseMany .adjEnd (parseEdge cfg ct) (toks.length + rest.length + 2) (toks ++ .adjEnd :: rest) =
      some (edgeInfos m order, .adjEnd :: rest) := by
  have hlat := latAdj_of_validOrder (fwd_of_mem_selEdges hsel) hord
  rw [← emitted_eq_edgeInfos m order hlat]
  exact parseMany_adjToks rest h _ (by have := (noDelim_adjToks h).2; omega)

/-- the order legality predicate checked by the driver on every observed run is exactly `ValidOrder` -/
theorem C06_order_decidable (p : Permuter) (shuffle : Bool) (es order : List OE) :
    validOrderB p shuffle es order = true ↔ ValidOrder p shuffle es order := validOrderB_iff

/-- the adjacency region lists precisely the selected edge set: `SortedCoords` each selected edge once, smaller coord first
    (and in lexicographic order unless shuffled); `RandomCoords` each once in one of its two orientations; `BothCoords` each once
    in each orientation -/
theorem C06_edges_exact (p : Permuter) (shuffle : Bool) (es order : List OE)
    (h : ValidOrder p shuffle es order) :
    match p with
    | .sorted => order.Perm es ∧ (shuffle = false → order = lexsort es)
    | .random => (order.map normE).Perm es ∧ (shuffle = false → order.map normE = es) ∧ ∀ e ∈ order, e = normE e ∨ e = flipE (normE e)
    | .both => order.Perm (es ++ es.map flipE) ∧ (shuffle = false → order = es ++ es.map flipE) := by
  cases p with
  | sorted =>
    cases shuffle
    · simp only [ValidOrder, permuteDet] at h; simp at h; subst h; exact ⟨lexsort_perm es, fun _ => rfl⟩
    · simp only [ValidOrder, permuteDet] at h; simp at h; exact ⟨h.trans (lexsort_perm es), fun hc => by cases hc⟩
  | both =>
    cases shuffle
    · simp only [ValidOrder, permuteDet] at h; simp at h; subst h; exact ⟨List.Perm.refl _, fun _ => rfl⟩
    · simp only [ValidOrder, permuteDet] at h; simp at h; exact ⟨h, fun hc => by cases hc⟩
  | random =>
    have hflip : ∀ e ∈ order, e = normE e ∨ e = flipE (normE e) := by
      intro e _
      rcases normE_cases e with hc | hc
      · exact Or.inl hc.symm
      · right; rw [hc, flipE_flipE]
    cases shuffle
    · simp only [ValidOrder] at h; simp at h; exact ⟨by rw [h], fun _ => h, hflip⟩
    · simp only [ValidOrder] at h; simp at h; exact ⟨h, (fun hc => by cases hc), hflip⟩

/-- `AllLatticeEdges` selects exactly the lattice edges of the `n×n` grid, smaller coord first -/
theorem C06_selected_all (m : Maze) (es : List OE) (h : selEdges .all m = some es) (e : OE) :
    e ∈ es ↔ (∃ i j, i < m.rows ∧ j + 1 < m.rows ∧ e = ((i, j), (i, j + 1))) ∨
             (∃ i j, i + 1 < m.rows ∧ j < m.rows ∧ e = ((i, j), (i + 1, j))) := by
  simp only [selEdges] at h
  split at h
  · cases h; exact mem_latticeEdges
  · cases h

/-- `ConnectionEdges(walls)` selects exactly the stored connections (`walls=False`), resp. exactly the lattice edges inside the grid
    that are not stored connections (`walls=True`: the last row of dim 0 and last column of dim 1 are excluded) -/
theorem C06_selected_conn (m : Maze) (w : Bool) (es : List OE) (h : selEdges (.conn w) m = some es) (e : OE) :
    e ∈ es ↔ ∃ d x y, d < 2 ∧ x < m.rows ∧ y < m.cols ∧ e = endsOf (d, x, y) ∧
      (if w then m.conn d x y = false ∧ ¬ (d = 0 ∧ x + 1 = m.rows) ∧ ¬ (d = 1 ∧ y + 1 = m.cols) else m.conn d x y = true) := by
  simp only [selEdges, Option.some.injEq] at h; subst h
  rw [mem_connEdges]
  constructor
  · rintro ⟨d, x, y, hd, hx, hy, hc, rfl⟩
    refine ⟨d, x, y, hd, hx, hy, rfl, ?_⟩
    have : d = 0 ∨ d = 1 := by omega
    rcases this with rfl | rfl <;> cases w <;> simpa [connArr] using hc
  · rintro ⟨d, x, y, hd, hx, hy, rfl, hc⟩
    refine ⟨d, x, y, hd, hx, hy, ?_, rfl⟩
    have : d = 0 ∨ d = 1 := by omega
    rcases this with rfl | rfl <;> cases w <;> simpa [connArr] using hc

/-- path region, all 9×1008 configurations, all mazes and solutions: the decoder reads back the specification record
    (leading coordinate iff `Coord` is used; per step one value per step tokenizer) -/
theorem C06_path_region_roundtrip (pc : PathCfg) (ct : CoordTok) (m : Maze) (sol : List C) (toks rest : List Tok) (stop : Tok)
    (hv : pc.Valid) (hstop : stop.isDelim = true) (h : pathToks pc ct m sol = some toks) :
    ∃ p, pathInfo pc m sol = some p ∧ parsePath pc ct stop (toks ++ stop :: rest) = some (p, stop :: rest) := by
  unfold pathToks at h
  simp only [Option.map_eq_some_iff] at h
  obtain ⟨p, hp, rfl⟩ := h
  exact ⟨p, hp, parsePath_pathInfoToks pc ct hv.1 p (pathInfo_wf hp) stop hstop rest⟩

/-- F4: `StepTokenizers.Distance` has a token exactly for steps of fewer than `distHi = 256` moves; a longer step makes the
    tokenizer fail (`AttributeError` in the code) — the guard `distance ≤ 255` is forced -/
theorem C06_distance_guard (sol : List C) (i j : Nat) :
    (stepVal sol i j .distance = some (.dist (j - i)) ↔ j - i ≤ 255) ∧ (stepVal sol i j .distance = none ↔ 256 ≤ j - i) := by
  by_cases hlt : j - i < 256
  · have hc : (distLo ≤ j - i ∧ j - i < distHi) := ⟨Nat.zero_le _, hlt⟩
    have e : stepVal sol i j .distance = some (.dist (j - i)) := if_pos hc
    rw [e]; exact ⟨⟨fun _ => by omega, fun _ => rfl⟩, ⟨(fun h => by cases h), (fun h => by omega)⟩⟩
  · have hc : ¬ (distLo ≤ j - i ∧ j - i < distHi) := fun h => hlt h.2
    have e : stepVal sol i j .distance = none := if_neg hc
    rw [e]; exact ⟨⟨(fun h => by cases h), (fun h => by omega)⟩, ⟨fun _ => by omega, fun _ => rfl⟩⟩

/-- the cardinal word names the actual move: `dirOf a b = some d` iff moving from `a` in direction `d` lands on `b` -/
theorem C06_cardinal_spec (a b : C) (d : Dir) : dirOf a b = some d ↔ move a d = some b := by
  constructor
  · exact move_dirOf
  · obtain ⟨a1, a2⟩ := a; obtain ⟨b1, b2⟩ := b
    cases d
    · intro h
      simp only [move] at h
      split at h
      · simp only [Option.some.injEq, Prod.mk.injEq] at h
        have h1 : b1 + 1 = a1 ∧ b2 = a2 := by omega
        simp only [dirOf]; rw [if_pos h1]
      · cases h
    · intro h
      simp only [move, Option.some.injEq, Prod.mk.injEq] at h
      have h1 : ¬ (b1 + 1 = a1 ∧ b2 = a2) := by omega
      have h2 : b1 = a1 + 1 ∧ b2 = a2 := by omega
      simp only [dirOf]; rw [if_neg h1, if_pos h2]
    · intro h
      simp only [move, Option.some.injEq, Prod.mk.injEq] at h
      have h1 : ¬ (b1 + 1 = a1 ∧ b2 = a2) := by omega
      have h2 : ¬ (b1 = a1 + 1 ∧ b2 = a2) := by omega
      have h3 : b1 = a1 ∧ b2 = a2 + 1 := by omega
      simp only [dirOf]; rw [if_neg h1, if_neg h2, if_pos h3]
    · intro h
      simp only [move] at h
      split at h
      · simp only [Option.some.injEq, Prod.mk.injEq] at h
        have h1 : ¬ (b1 + 1 = a1 ∧ b2 = a2) := by omega
        have h2 : ¬ (b1 = a1 + 1 ∧ b2 = a2) := by omega
        have h3 : ¬ (b1 = a1 ∧ b2 = a2 + 1) := by omega
        have h4 : b1 = a1 ∧ b2 + 1 = a2 := by omega
        simp only [dirOf]; rw [if_neg h1, if_neg h2, if_neg h3, if_pos h4]
      · cases h

/-! ## whole sequence -/

/-- regions present, in order A,O,T,P, each delimited exactly once (only those the maze kind has — `_trim_if_unsolved_maze`),
    nothing before, between or after; region contents contain no region delimiter -/
theorem C06_regions (cfg : TokCfg) (mz : MazeIn) (order : List OE) (toks : List Tok) (h : toTokens cfg mz order = some toks) :
    ∃ adj, adjToks cfg.adj cfg.ct mz.maze order = some adj ∧ NoDelim adj ∧
      match mz with
      | .plain _ => toks = Tok.adjStart :: (adj ++ [Tok.adjEnd])
      | .targeted _ s e =>
        toks = Tok.adjStart :: (adj ++ Tok.adjEnd :: Tok.originStart :: (coordToks cfg.ct s ++
          Tok.originEnd :: Tok.targetStart :: (targetToks cfg.prompt cfg.ct e ++ [Tok.targetEnd])))
      | .solved m s e sol =>
        ∃ path, pathToks cfg.path cfg.ct m sol = some path ∧ NoDelim path ∧
          toks = Tok.adjStart :: (adj ++ Tok.adjEnd :: Tok.originStart :: (coordToks cfg.ct s ++
            Tok.originEnd :: Tok.targetStart :: (targetToks cfg.prompt cfg.ct e ++ Tok.targetEnd :: Tok.pathStart ::
              (path ++ [Tok.pathEnd])))) := by
  cases mz with
  | plain m =>
    cases hadj : adjToks cfg.adj cfg.ct m order with
    | none => simp [toTokens, MazeIn.maze, hadj] at h
    | some adj =>
      rw [toTokens_plain hadj] at h
      exact ⟨adj, hadj, (noDelim_adjToks hadj).1, (Option.some.inj h).symm⟩
  | targeted m s e =>
    cases hadj : adjToks cfg.adj cfg.ct m order with
    | none => simp [toTokens, MazeIn.maze, hadj] at h
    | some adj =>
      rw [toTokens_targeted hadj] at h
      exact ⟨adj, hadj, (noDelim_adjToks hadj).1, (Option.some.inj h).symm⟩
  | solved m s e sol =>
    cases hadj : adjToks cfg.adj cfg.ct m order with
    | none => simp [toTokens, MazeIn.maze, hadj] at h
    | some adj =>
      cases hp : pathToks cfg.path cfg.ct m sol with
      | none => simp [toTokens, MazeIn.maze, hadj, hp] at h
      | some path =>
        rw [toTokens_solved hadj hp] at h
        refine ⟨adj, hadj, (noDelim_adjToks hadj).1, path, hp, ?_, (Option.some.inj h).symm⟩
        unfold pathToks at hp
        simp only [Option.map_eq_some_iff] at hp
        obtain ⟨p, _, rfl⟩ := hp
        exact noDelim_pathInfoToks cfg.path cfg.ct p

/-- **round trip of the whole sequence**: every configuration, every maze of every kind, every legal order -/
theorem C06_roundtrip (cfg : TokCfg) (mz : MazeIn) (es order : List OE) (toks : List Tok)
    (hv : cfg.path.Valid) (hsel : selEdges cfg.adj.subset mz.maze = some es)
    (hord : ValidOrder cfg.adj.permuter cfg.adj.shuffle es order) (h : toTokens cfg mz order = some toks) :
    ∃ i, info cfg mz order = some i ∧ decode cfg toks = some i := by
  have hlat := latAdj_of_validOrder (fwd_of_mem_selEdges hsel) hord
  cases mz with
  | plain m =>
    cases hadj : adjToks cfg.adj cfg.ct m order with
    | none => simp [toTokens, MazeIn.maze, hadj] at h
    | some adj =>
      rw [toTokens_plain hadj] at h; cases h
      exact ⟨_, rfl, by rw [decode_plain hadj, emitted_eq_edgeInfos m order hlat]⟩
  | targeted m s e =>
    cases hadj : adjToks cfg.adj cfg.ct m order with
    | none => simp [toTokens, MazeIn.maze, hadj] at h
    | some adj =>
      rw [toTokens_targeted hadj] at h; cases h
      exact ⟨_, rfl, by rw [decode_targeted hadj, emitted_eq_edgeInfos m order hlat]⟩
  | solved m s e sol =>
    cases hadj : adjToks cfg.adj cfg.ct m order with
    | none => simp [toTokens, MazeIn.maze, hadj] at h
    | some adj =>
      cases hp : pathToks cfg.path cfg.ct m sol with
      | none => simp [toTokens, MazeIn.maze, hadj, hp] at h
      | some path =>
        rw [toTokens_solved hadj hp] at h; cases h
        unfold pathToks at hp
        simp only [Option.map_eq_some_iff] at hp
        obtain ⟨p, hpi, rfl⟩ := hp
        refine ⟨⟨edgeInfos m order, some s, some (targetList cfg.prompt e), some p⟩, by simp [info, hpi], ?_⟩
        rw [decode_solved hadj hv.1 (pathInfo_wf hpi), emitted_eq_edgeInfos m order hlat]

/-- every emitted token belongs to the vocabulary, provided all coordinates are within the coordinate tokenizer's range
    (`UT`: below `utSize = 50`; `CTT`: below `cttHi = 128`); steps longer than 255 never reach this point (`C06_distance_guard`) -/
theorem C06_vocab (cfg : TokCfg) (mz : MazeIn) (order : List OE) (toks : List Tok) (h : toTokens cfg mz order = some toks)
    (hord : ∀ e ∈ order, CoordOK cfg.ct e.1 ∧ CoordOK cfg.ct e.2)
    (hmz : mz.CoordsOK cfg.ct) :
    ∀ t ∈ toks, t.str ∈ vocab := by
  suffices hok : AllOK toks from fun t ht => str_mem_vocab t (hok t ht)
  cases mz with
  | plain m =>
    cases hadj : adjToks cfg.adj cfg.ct m order with
    | none => simp [toTokens, MazeIn.maze, hadj] at h
    | some adj =>
      have hA := allOK_adjToks hadj hord
      rw [toTokens_plain hadj] at h; cases h
      exact AllOK.cons trivial (hA.append (AllOK.cons trivial AllOK.nil))
  | targeted m s e =>
    cases hadj : adjToks cfg.adj cfg.ct m order with
    | none => simp [toTokens, MazeIn.maze, hadj] at h
    | some adj =>
      have hA := allOK_adjToks hadj hord
      rw [toTokens_targeted hadj] at h; cases h
      have h3 : AllOK (targetToks cfg.prompt cfg.ct e ++ [Tok.targetEnd]) :=
        (allOK_targetToks hmz.2).append (AllOK.cons trivial AllOK.nil)
      have h2 := (allOK_coordToks hmz.1).append (AllOK.cons (t := Tok.originEnd) trivial (AllOK.cons (t := Tok.targetStart) trivial h3))
      exact AllOK.cons trivial (hA.append (AllOK.cons trivial (AllOK.cons trivial h2)))
  | solved m s e sol =>
    cases hadj : adjToks cfg.adj cfg.ct m order with
    | none => simp [toTokens, MazeIn.maze, hadj] at h
    | some adj =>
      have hA := allOK_adjToks hadj hord
      cases hp : pathToks cfg.path cfg.ct m sol with
      | none => simp [toTokens, MazeIn.maze, hadj, hp] at h
      | some path =>
        rw [toTokens_solved hadj hp] at h; cases h
        have hP := allOK_pathToks hmz.2.2 hp
        have h4 : AllOK (path ++ [Tok.pathEnd]) := hP.append (AllOK.cons trivial AllOK.nil)
        have h3 := (allOK_targetToks (p := cfg.prompt) hmz.2.1).append (AllOK.cons (t := Tok.targetEnd) trivial (AllOK.cons (t := Tok.pathStart) trivial h4))
        have h2 := (allOK_coordToks hmz.1).append (AllOK.cons (t := Tok.originEnd) trivial (AllOK.cons (t := Tok.targetStart) trivial h3))
        exact AllOK.cons trivial (hA.append (AllOK.cons trivial (AllOK.cons trivial h2)))

/-- `C06_vocab` against the C14 model of `VOCAB_LIST` (`MZ.Vocab.vocab`: the list in its real order, whose positions are the token
    ids). The generated list `MZ.Gen.vocab` used above has the same members (`gen_vocab_perm`, = `C14_vocab_models_agree`; it differs
    only in the order inside the coordinate block), so under the same range conditions every emitted token is in `VOCAB_LIST` and
    `encode` of the rendered sequence succeeds with one id per token, each id pointing back at the token. -/
theorem C06_vocab_C14 (cfg : TokCfg) (mz : MazeIn) (order : List OE) (toks : List Tok) (h : toTokens cfg mz order = some toks)
    (hord : ∀ e ∈ order, CoordOK cfg.ct e.1 ∧ CoordOK cfg.ct e.2)
    (hmz : mz.CoordsOK cfg.ct) :
    (∀ t ∈ toks, t.str ∈ MZ.Vocab.vocab) ∧
    ∃ ids, MZ.Vocab.encode MZ.Vocab.vocab (toks.map Tok.str) = .ok ids ∧ ids.length = toks.length ∧
      ∀ k (hk : k < toks.length), ∃ i, ids[k]? = some i ∧ MZ.Vocab.vocab[i]? = some (toks[k]).str := by
  have hm : ∀ t ∈ toks, t.str ∈ MZ.Vocab.vocab :=
    fun t ht => MZ.Vocab.gen_vocab_perm.mem_iff.1 (C06_vocab cfg mz order toks h hord hmz t ht)
  refine ⟨hm, ?_⟩
  obtain ⟨ids, he, hl, hk⟩ := MZ.Vocab.encode_ok (voc := MZ.Vocab.vocab) (ts := toks.map Tok.str) (by
    intro s hs
    obtain ⟨t, ht, rfl⟩ := List.mem_map.1 hs
    exact hm t ht)
  refine ⟨ids, he, by simpa using hl, ?_⟩
  intro k hk'
  obtain ⟨i, h1, h2⟩ := hk k (by simpa using hk')
  exact ⟨i, h1, by simpa using h2⟩

/-! ## the step-size and direction functions, characterised independently of the code's control flow -/

/-- `StepSizes.Forks`: an index is a step boundary iff it is the first or last index of the solution, or the cell there has more than
    two connected neighbours -/
theorem C06_forks_indices (m : Maze) (sol : List C) (idx : Nat) :
    idx ∈ forkIdxs m sol ↔ ∃ c, sol[idx]? = some c ∧ (idx = 0 ∨ idx + 1 = sol.length ∨ 2 < degree m c) := mem_forkIdxs m sol idx

/-- the degree used by `Forks` is the number of in-grid lattice neighbours that are `Adj` in the maze -/
theorem C06_degree_adj (m : Maze) (c : C) :
    degree m c = ((nbrs (cellOf c)).filter fun nb => decide (inGrid m.rows m.cols nb ∧ MZ.Adj m.edges (cellOf c) nb)).length :=
  degree_adj m c

/-- step boundaries are strictly increasing solution indices, so every step `(i, j)` has `i < j < len(solution)` -/
theorem C06_step_pairs (forks : Bool) (m : Maze) (sol : List C) :
    ∀ p ∈ idxPairs (stepIdxs forks m sol), p.1 < p.2 ∧ p.2 < sol.length := stepIdxs_pairs forks m sol

/-- `get_relative_direction` is the turn relative to the current heading: with heading `h` (direction of the previous move) and move `d`,
    FORWARD iff `d = h`, BACKWARD iff `d` is opposite, LEFT/RIGHT iff `d` is `h` rotated counter-clockwise/clockwise (cross-product
    sign); at the first step the heading is NORTH (`previous = start + (1,0)`) -/
theorem C06_relative_dir (prev cur nxt : C) (h d : Dir) (hh : dirOf prev cur = some h) (hd : dirOf cur nxt = some d) :
    relDir prev cur nxt =
      some (if d = h then .forward else if d = h.back then .backward else if d = h.left then .left else .right) ∧
    dirOf (cur.1 + 1, cur.2) cur = some .north :=
  ⟨relative_dir prev cur nxt h d hh hd, dirOf_north_start cur⟩

/-- **totality**: on every legal order the tokenizer yields tokens for untargeted and targeted mazes unconditionally, and for solved
    mazes whenever the solution is a non-empty lattice walk and (if `Distance` is used) no step exceeds 255 moves (F4 is the only
    way to fail) -/
theorem C06_total (cfg : TokCfg) (mz : MazeIn) (es order : List OE)
    (hsel : selEdges cfg.adj.subset mz.maze = some es) (hord : ValidOrder cfg.adj.permuter cfg.adj.shuffle es order)
    (hsol : ∀ m s e sol, mz = .solved m s e sol → ValidSol sol ∧ sol ≠ [] ∧
      (StepTk.distance ∈ cfg.path.steps → ∀ p ∈ idxPairs (stepIdxs cfg.path.forks m sol), p.2 - p.1 ≤ 255)) :
    ∃ toks, toTokens cfg mz order = some toks := total cfg mz es order hsel hord hsol

/-- full statement of the "each edge exactly once" refinement: the canonical selected edge lists have no duplicates
    (proved below as `C06_selected_nodup_holds`; the multiset statements of `C06_edges_exact` are relative to these lists). -/
def C06_selected_nodup : Prop :=
  ∀ (sub : Subset) (m : Maze) (es : List OE), selEdges sub m = some es → es.Nodup

/-- holds with NO extra hypothesis: every grid shape (also `rows = 0`, `cols = 0`, `1×1`; `AllLatticeEdges` on a non-square grid
    selects nothing because `maze.grid_n` asserts), every `edges` list (also with repeated or out-of-grid entries — `connEdges`
    enumerates `np.ndindex` positions, not the stored list) -/
theorem C06_selected_nodup_holds : C06_selected_nodup := fun _ _ _ h => nodup_selEdges h

/-- consequence for what is emitted: under every permuter and shuffle flag no oriented edge is emitted twice; so with
    `C06_edges_exact`, `SortedCoords`/`RandomCoords` emit each selected edge exactly once (`RandomCoords` in exactly one of its two
    orientations) and `BothCoords` emits each orientation of each selected edge exactly once -/
theorem C06_order_nodup (sub : Subset) (m : Maze) (p : Permuter) (shuffle : Bool) (es order : List OE)
    (hsel : selEdges sub m = some es) (h : ValidOrder p shuffle es order) :
    order.Nodup ∧ (p = .random → (order.map normE).Nodup) := by
  have hn : es.Nodup := nodup_selEdges hsel
  have hx := C06_edges_exact p shuffle es order h
  cases p with
  | sorted => exact ⟨hx.1.symm.nodup hn, fun hc => by cases hc⟩
  | both => exact ⟨hx.1.symm.nodup (nodup_both hn (fwd_of_mem_selEdges hsel)), fun hc => by cases hc⟩
  | random =>
    have hm : (order.map normE).Nodup := hx.1.symm.nodup hn
    exact ⟨List.Pairwise.of_map normE (fun a b hab hc => hab (by rw [hc])) hm, fun _ => hm⟩

/-- the driver's reader `Tok.ofStr` inverts the rendering `Tok.str` on EVERY structured token — no range guard: all coordinates
    (`num n`, `ut i j`), all distances (`dist d`), all 27 fixed tokens (whose strings come from constants.py as generated) -/
theorem C06_tok_ofStr_str (t : Tok) : Tok.ofStr t.str = some t := ofStr_str t

/-- the rendering of structured tokens as vocabulary strings is injective: two different structured tokens never print alike, so
    the string-level output of the tokenizer determines the structured sequence the theorems above speak about -/
theorem C06_tok_str_injective (a b : Tok) (h : a.str = b.str) : a = b := str_injective h

/-- sequence level: reading the rendered sequence back (the driver's `mapM Tok.ofStr`) returns the structured sequence; hence
    `List.map Tok.str` is injective on token sequences -/
theorem C06_tok_seq_injective (xs ys : List Tok) (h : xs.map Tok.str = ys.map Tok.str) :
    (xs.map Tok.str).mapM Tok.ofStr = some xs ∧ xs = ys := by
  refine ⟨mapM_ofStr_str xs, ?_⟩
  have hx := mapM_ofStr_str xs
  rw [h, mapM_ofStr_str ys] at hx
  exact (Option.some.inj hx).symm

theorem C06_full_holds : C06_full := by
  intro cfg mz es order toks hv hsel hord h
  exact ⟨C06_roundtrip cfg mz es order toks hv hsel hord h, fun ho hm => C06_vocab cfg mz order toks h ho hm⟩

/-! ## non-vacuity: a concrete 3×3 maze with a fork, a 4-tokenizer path configuration, a shuffled random-orientation order -/

/-- 3×3 maze: (0,0)-(0,1), (0,1)-(1,1), (1,1)-(2,1), (1,1)-(1,2), (1,0)-(2,0); the cell (1,1) has degree 3, (0,1) degree 2 -/
def exMaze : Maze := ⟨3, 3, [(1, 0, 0), (0, 0, 1), (0, 1, 1), (1, 1, 1), (0, 1, 0)]⟩
def exCfg : TokCfg :=
  { ct := .ctt true true true,
    adj := { cardinal := true, post := true, shuffle := true, ordinal := .o2, subset := .conn false, permuter := .random },
    prompt := .aotp true,
    path := { forks := true, steps := [.coord, .relative, .distance, .cardinal], pre := true, intra := true, post := false } }
def exOrder : List OE :=
  [((1, 1), (0, 1)), ((0, 0), (0, 1)), ((2, 0), (1, 0)), ((1, 1), (1, 2)), ((1, 1), (2, 1))]
def exSol : List C := [(0, 0), (0, 1), (1, 1), (2, 1)]
def exIn : MazeIn := .solved exMaze (0, 0) (2, 1) exSol

example : exCfg.path.Valid := by decide
example : ∃ es, selEdges exCfg.adj.subset exMaze = some es ∧ es.length = 5 ∧
    ValidOrder exCfg.adj.permuter exCfg.adj.shuffle es exOrder := by
  refine ⟨_, rfl, by decide, ?_⟩
  rw [← C06_order_decidable]; decide
/-- hypotheses of `C06_roundtrip` / `C06_regions` / `C06_vocab` hold and the conclusion is the non-trivial record (fork at index 2) -/
example : (toTokens exCfg exIn exOrder).isSome = true ∧
    (toTokens exCfg exIn exOrder).bind (decode exCfg) = info exCfg exIn exOrder := by decide
example : info exCfg exIn exOrder =
    some ⟨[⟨(1, 1), (0, 1), true⟩, ⟨(0, 0), (0, 1), true⟩, ⟨(2, 0), (1, 0), true⟩, ⟨(1, 1), (1, 2), true⟩,
           ⟨(1, 1), (2, 1), true⟩], some (0, 0), some [(2, 1)],
          some ⟨some (0, 0), [[.coord (1, 1), .rel .right, .dist 2, .card .east], [.coord (2, 1), .rel .forward, .dist 1, .card .south]]⟩⟩ := by
  decide
example : (toTokens exCfg (.plain exMaze) exOrder).map List.length = some 42 ∧
    (toTokens exCfg (.targeted exMaze (0, 0) (2, 1)) exOrder).map List.length = some 57 ∧
    forkIdxs exMaze exSol = [0, 2, 3] := by decide
example : exIn.CoordsOK exCfg.ct ∧ ∀ e ∈ exOrder, CoordOK exCfg.ct e.1 ∧ CoordOK exCfg.ct e.2 := by
  simp [MazeIn.CoordsOK, exIn, exCfg, exOrder, exSol, CoordOK, cttLo, cttHi]
/-- `C06_vocab_C14` on the example: the rendered tokens are all in the C14 vocabulary (checked through the theorem, not by evaluating
    4096 strings) -/
example : ∀ toks, toTokens exCfg exIn exOrder = some toks → ∀ t ∈ toks, t.str ∈ MZ.Vocab.vocab := fun toks h =>
  (C06_vocab_C14 exCfg exIn exOrder toks h
    (by simp [exCfg, exOrder, CoordOK, cttLo, cttHi]) (by simp [MazeIn.CoordsOK, exIn, exCfg, exSol, CoordOK, cttLo, cttHi])).1
example : parseCoord (.ctt false false false) (coordToks (.ctt false false false) (3, 4) ++ [Tok.endl]) = some ((3, 4), [Tok.endl]) := by decide
example : isConn exMaze ((1, 1), (0, 1)) = true ∧ isConn exMaze ((1, 0), (1, 1)) = false := by decide
example : LatAdj ((1, 1), (0, 1)) := by unfold LatAdj; decide
example : permutedAxis1 ((1, 1), (0, 1)) true false = ((0, 1), (1, 1)) ∧ permutedAxis1 ((1, 1), (0, 1)) false true = ((1, 1), (0, 1)) := by decide
example : (selEdges .all exMaze).map List.length = some 12 ∧ (selEdges (.conn true) exMaze).map List.length = some 7 := by decide
example : ValidOrder .both false [((0, 0), (0, 1))] [((0, 0), (0, 1)), ((0, 1), (0, 0))] := by
  rw [← C06_order_decidable]; decide
example : stepVal [] 0 300 .distance = none ∧ stepVal [] 0 255 .distance = some (.dist 255) := by decide
example : distHi = 256 ∧ distLo = 0 ∧ cttHi = 128 ∧ utSize = 50 := by decide
example : dirOf (1, 1) (0, 1) = some .north ∧ move (1, 1) .north = some (0, 1) := by decide
example : Tok.adjEnd.isDelim = true ∧
    parsePath exCfg.path exCfg.ct .pathEnd (((pathToks exCfg.path exCfg.ct exMaze exSol).getD []) ++ [Tok.pathEnd]) =
      (pathInfo exCfg.path exMaze exSol).map (fun p => (p, [Tok.pathEnd])) := by decide

example : degree exMaze (1, 1) = 3 ∧ degree exMaze (0, 1) = 2 ∧ idxPairs (stepIdxs true exMaze exSol) = [(0, 2), (2, 3)] := by decide
example : relDir (0, 0) (0, 1) (1, 1) = some .right ∧ dirOf (0, 0) (0, 1) = some .east ∧ dirOf (0, 1) (1, 1) = some .south ∧
    Dir.east.right = Dir.south := by decide
example : ValidSol exSol ∧ exSol ≠ [] := by
  refine ⟨?_, by decide⟩
  intro k a b ha hb
  have hk : k < 3 := by
    rcases Nat.lt_or_ge k 3 with h | h
    · exact h
    · have : (k + 1) ≥ exSol.length := by simp [exSol]; omega
      rw [List.getElem?_eq_none this] at hb; cases hb
  have : k = 0 ∨ k = 1 ∨ k = 2 := by omega
  rcases this with rfl | rfl | rfl <;> simp [exSol] at ha hb <;> subst ha hb <;> unfold LatAdj <;> decide

/-- `C06_selected_nodup_holds` / `C06_order_nodup`: the 12 lattice edges of the 3×3 grid, the 5 connections and the 7 walls of `exMaze`
    are lists of distinct edges (independent check by evaluation); a maze whose `edges` list repeats an entry still yields a
    duplicate-free selection; the shuffled random-orientation order `exOrder` has no repeats -/
example : (selEdges .all exMaze).map (fun es => decide (es.Nodup ∧ es.length = 12)) = some true ∧
    (selEdges (.conn false) exMaze).map (fun es => decide (es.Nodup ∧ es.length = 5)) = some true ∧
    (selEdges (.conn true) exMaze).map (fun es => decide (es.Nodup ∧ es.length = 7)) = some true ∧
    selEdges (.conn false) ⟨2, 2, [(1, 0, 0), (1, 0, 0)]⟩ = some [((0, 0), (0, 1))] ∧
    selEdges .all ⟨3, 2, []⟩ = none ∧ selEdges .all ⟨0, 0, []⟩ = some [] := by decide
example : exOrder.Nodup ∧ (exOrder.map normE).Nodup ∧ exOrder.map normE ≠ exOrder := by decide
/-- `C06_tok_ofStr_str` / `C06_tok_str_injective`: evaluation of the reader on rendered tokens of every family, including values
    beyond the vocabulary ranges; `"("` vs `"(1,2)"`, `"7"` vs `"+7"` are told apart; non-canonical strings are read but the reader
    is not injective on strings (`"007"`), which is why the theorem is stated in the `ofStr ∘ str` direction -/
example : Tok.str (.ut 12 3) = "(12,3)" ∧ Tok.ofStr "(12,3)" = some (.ut 12 3) ∧ Tok.ofStr "(" = some .lp ∧
    Tok.ofStr "7" = some (.num 7) ∧ Tok.ofStr "+7" = some (.dist 7) ∧ Tok.ofStr "1000" = some (.num 1000) ∧
    Tok.ofStr "<PATH_END>" = some .pathEnd ∧ Tok.ofStr "007" = some (.num 7) ∧ Tok.ofStr "(1,)" = none ∧
    Tok.ofStr "<UNK>" = none := by decide
example : ([Tok.adjStart, .num 300, .ut 51 0, .dist 256, .card .west, .rel .stay, .adjEnd].map Tok.str).mapM Tok.ofStr =
    some [Tok.adjStart, .num 300, .ut 51 0, .dist 256, .card .west, .rel .stay, .adjEnd] := by decide

end MZ.Tok
