"""C13 — all graph queries on a maze agree with its connection structure.

Per maze (rows, cols, set of True entries of connection_list) the harness
  1. calls every REAL view (nodes_connected, get_coord_neighbors, coord_degrees, gen_connected_component_from, is_valid_path,
     get_nodes, as_adj_list x 4 shuffle settings with np.random.rand tapped, from_adj_list, is_connection (batch + single),
     manhattan_distance, get_solution_forking_points / get_solution_path_following_points),
  2. judges each answer with `Oracle` below — a plain-Python reading of the property statement straight off the bits
     (violation => ctx.violate with the concrete input),
  3. sends the same inputs (+ recorded flips) to the Lean model (driver op C13.views) and diffs (=> ctx.disagree).
lattice_connection_array / lattice_max_degrees are compared for n = 0..16 (op C13.lattice)."""
from __future__ import annotations
import itertools, random, warnings
from collections import defaultdict
import numpy as np

RULE = ("mazes: EVERY well-formed connection structure on every grid shape r x c with r,c in 1..3 and r*c <= 6 (quick) / r,c <= 3 "
        "incl. all 4096 on 3x3 (thorough); + random structures (bit densities 0.15..0.9, real gen_dfs / gen_percolation outputs) on "
        "oblong and square grids up to 15x15 (200 quick / 1500 thorough); + ill-formed structures (stray bits in the last row/col) for "
        "model-vs-code only. Per maze: all ordered in-grid cell pairs (grids <= 9 cells; larger grids: all lattice-adjacent ordered "
        "pairs + random pairs), the ring of out-of-grid neighbours, far out-of-range pairs; every cell; paths from a mutation generator "
        "(valid walks, one broken step, jump, repeated cell, out of bounds, single cell, empty with both flag values); 4 shuffle "
        "settings of as_adj_list; from_adj_list on those and on malformed lists; random walks and BFS-shortest solutions with both "
        "always_include_endpoints values. non-trivial = maze with at least one connection; distinct = distinct (shape, bit set); later additions: the library's own int8 edge arrays in both orientations, one-cell solutions on isolated cells, and every array a view returns overwritten by the caller before the maze under observation is queried, candidate paths with one long jump (2, 126..130, 254..259) on 1x300 / 300x1 / 130x130 lattices")
ASSUMPTIONS = ["coordinates fit numpy int8 (< 127): as_adj_list / lattice_connection_array store int8 (grids up to 15x15 are exercised)",
               "is_connection is judged on lattice-neighbour pairs only (its parameter type is ConnectionArray); on other pairs the model "
               "mirrors the code (np.sort(axis=1) quirk: diagonal / distant pairs can answer True) and only model-vs-code is compared",
               "from_adj_list identity is claimed for square mazes whose highest index occurs in some connection (the code infers one size)",
               "lattice_max_degrees(1) = [[2]] although a 1x1 grid has no neighbours: equality with the neighbour count is claimed for n >= 2",
               "well-formed mazes: no True entry in the last row of dim 0 / last column of dim 1 (what every generator emits, C01)"]
TRUSTED = ["numpy semantics of integer/fancy indexing (negative wrap, IndexError), np.sort(axis=1), meshgrid/ravel, np.delete, np.ndindex "
           "are modelled by list functions and validated on every case by the correspondence",
           "np.random.shuffle in as_adj_list is treated relationally (any permutation accepted); np.random.rand is tapped and `> 0.5` is "
           "evaluated by the harness"]

MASK_ANY_ORDER = [(1, 0), (-1, 0), (0, 1), (0, -1)]
MAX_VIOL = 10


# ----------------------------------------------------------------------------------------------------------------
# independent oracle: the graph read directly off the bits
# ----------------------------------------------------------------------------------------------------------------
class Oracle:
    def __init__(self, rows, cols, entries):
        self.rows, self.cols = rows, cols
        self.edges = set()
        for d, i, j in entries:
            self.edges.add(frozenset([(i, j), (i + 1, j) if d == 0 else (i, j + 1)]))
        self.nb = defaultdict(set)
        for e in self.edges:
            a, b = tuple(e)
            self.nb[a].add(b); self.nb[b].add(a)
        self.wf = all(self.inside(c) for e in self.edges for c in e)

    def inside(self, c):
        return 0 <= c[0] < self.rows and 0 <= c[1] < self.cols

    def connected(self, a, b):
        return frozenset([tuple(a), tuple(b)]) in self.edges if tuple(a) != tuple(b) else False

    def component(self, c):
        seen, todo = {tuple(c)}, [tuple(c)]
        while todo:
            u = todo.pop()
            for v in self.nb[u]:
                if v not in seen:
                    seen.add(v); todo.append(v)
        return sorted(seen)

    def valid_path(self, path, empty_ok):
        if len(path) == 0:
            return bool(empty_ok)
        if not all(self.inside(c) for c in path):
            return False
        return all(self.connected(path[k], path[k + 1]) for k in range(len(path) - 1))

    def bfs_path(self, a, b):
        prev, todo = {a: None}, [a]
        for u in todo:
            if u == b:
                break
            for v in sorted(self.nb[u]):
                if v not in prev:
                    prev[v] = u; todo.append(v)
        if b not in prev:
            return None
        out = [b]
        while prev[out[-1]] is not None:
            out.append(prev[out[-1]])
        return out[::-1]


def _call(fn):
    try:
        return fn()
    except IndexError:
        return "IndexError"
    except ValueError:
        return "ValueError"
    except AssertionError:
        return "AssertionError"
    except KeyError:
        return "KeyError"
    except Exception as e:  # noqa
        return "other:" + type(e).__name__


class _TapRand:
    """records np.random.rand outputs while delegating to the real generator"""
    def __enter__(self):
        self.orig, self.rec = np.random.rand, []
        def shim(*a):
            out = self.orig(*a)
            self.rec.append(np.array(out, copy=True))
            return out
        np.random.rand = shim
        return self

    def __exit__(self, *a):
        np.random.rand = self.orig


def _tl(x):
    return [list(map(int, c)) for c in x]


def _pl(x):
    return [[list(map(int, p[0])), list(map(int, p[1]))] for p in x]


# ----------------------------------------------------------------------------------------------------------------
# input generators (all randomness from the per-maze rng)
# ----------------------------------------------------------------------------------------------------------------
def _pairs(rng, rows, cols, orc):
    cells = [(i, j) for i in range(rows) for j in range(cols)]
    out = []
    if rows * cols <= 9:
        out += [(a, b) for a in cells for b in cells]
    else:
        for a in cells:
            for d in MASK_ANY_ORDER:
                b = (a[0] + d[0], a[1] + d[1])
                if orc.inside(b):
                    out.append((a, b))
        if len(out) > 300:
            out = rng.sample(out, 300)
        out += [(rng.choice(cells), rng.choice(cells)) for _ in range(40)]
        out += [(a, a) for a in rng.sample(cells, 3)]
        a = rng.choice(cells)
        out += [(a, (a[0] + 1, a[1] + 1)), (a, (a[0] + 2, a[1])), (a, (a[0], a[1] - 2))]
    ring = []
    for a in cells:
        for d in MASK_ANY_ORDER:
            b = (a[0] + d[0], a[1] + d[1])
            if not orc.inside(b):
                ring.append((a, b)); ring.append((b, a))
    if len(ring) > 60:
        ring = rng.sample(ring, 60)
    far = [((rows + 1, 0), (rows + 2, 0)), ((0, cols + 1), (0, cols + 2)), ((-rows - 1, 0), (-rows - 2, 0)),
           ((0, -cols - 2), (0, -cols - 1)), ((-1, 0), (-2, 0)), ((rows, cols), (rows, cols + 1)), ((-1, -1), (-1, -2))]
    return out + ring + far


def _walk(rng, orc, start, steps):
    p = [start]
    for _ in range(steps):
        nb = sorted(orc.nb[p[-1]])
        nb = [v for v in nb if orc.inside(v)]
        if not nb:
            break
        fresh = [v for v in nb if v not in p]
        p.append(rng.choice(fresh if fresh and rng.random() < 0.8 else nb))
    return p


def _paths(rng, rows, cols, orc):
    cells = [(i, j) for i in range(rows) for j in range(cols)]
    out = [("empty", [], False), ("empty", [], True)]
    c = rng.choice(cells)
    out.append(("single", [c], rng.random() < 0.5))
    out.append(("single-oob", [(rows, rng.randrange(cols))], False))
    for _ in range(3):
        w = _walk(rng, orc, rng.choice(cells), rng.randint(1, 2 * rows * cols))
        out.append(("valid-walk", w, rng.random() < 0.5))
        if len(w) >= 2:
            k = rng.randrange(len(w) - 1)
            a = w[k]
            walls = [(a[0] + d[0], a[1] + d[1]) for d in MASK_ANY_ORDER]
            walls = [v for v in walls if orc.inside(v) and not orc.connected(a, v)]
            if walls:
                out.append(("broken-wall", w[:k + 1] + [rng.choice(walls)], False))
            out.append(("jump", w[:k + 1] + [(a[0] + rng.choice([-2, 2, 1]), a[1] + rng.choice([1, -1]))] , False))
            out.append(("repeat", w[:k + 1] + [a] + w[k + 1:], False))
            kk = rng.randrange(len(w))
            bad = list(w)
            bad[kk] = rng.choice([(-1, w[kk][1]), (rows, w[kk][1]), (w[kk][0], -1), (w[kk][0], cols)])
            out.append(("oob", bad, rng.random() < 0.5))
            out.append(("reversed", w[::-1], False))
    out.append(("random-cells", [rng.choice(cells) for _ in range(rng.randint(2, 4))], False))
    return out


def _solutions(rng, rows, cols, orc):
    cells = [(i, j) for i in range(rows) for j in range(cols)]
    out = []
    c = rng.choice(cells)
    out.append(([c], rng.random() < 0.5))
    for _ in range(2):
        a = rng.choice(cells)
        comp = orc.component(a)
        comp = [v for v in comp if orc.inside(v)]
        b = rng.choice(comp)
        p = orc.bfs_path(a, b)
        if p and all(orc.inside(v) for v in p):
            out.append((p, False)); out.append((p, True))
        w = _walk(rng, orc, a, rng.randint(1, 3 * rows * cols))
        out.append((w, rng.random() < 0.3))
    return out


MALFORMED_ADJ = [
    [], [((1, 1), (1, 1))], [((0, 0), (1, 1))], [((0, 0), (0, 3))], [((2, 0), (0, 0)), ((0, 1), (0, 2))],
    [((-1, 0), (0, 0))], [((-3, 0), (-2, 0))], [((-2, -1), (-1, -1))], [((-3, -2), (-2, -2))], [((0, 0), (0, 1)), ((2, 2), (3, 3))],
]


# ----------------------------------------------------------------------------------------------------------------
# one maze: real calls + oracle
# ----------------------------------------------------------------------------------------------------------------
def _scribble(m, rows, cols, cl):
    """what the views hand out belongs to the caller: every array returned by a view of a maze of this shape (and by the helper
    functions) is overwritten in place and thrown away BEFORE the maze under observation is queried. A view that hands out its own
    memo would answer wrongly from here on."""
    from maze_dataset.token_utils import is_connection
    def spoil(out):
        try:
            if isinstance(out, np.ndarray) and out.size and out.flags.writeable:
                if out.dtype == bool: out[...] = ~out
                else: out += 3
            elif isinstance(out, list) and out:
                out.reverse(); out.append(out[0])
        except Exception:
            pass
    calls = [lambda: m.get_nodes(), lambda: m.coord_degrees(), lambda: m.as_adj_list(shuffle_d0=False, shuffle_d1=False), lambda: m.as_adj_list(),
             lambda: m.gen_connected_component_from(np.array([0, 0])), lambda: m.get_coord_neighbors(np.array([0, 0])),
             lambda: m.get_coord_neighbors(np.array([rows - 1, cols - 1])), lambda: is_connection(np.array([[[0, 0], [0, 1]]]), cl)]
    if rows == cols:
        from maze_dataset.utils import lattice_connection_array, lattice_max_degrees
        calls += [lambda: lattice_connection_array(rows), lambda: lattice_max_degrees(rows)]
    for f in calls:
        try: spoil(f())
        except Exception: pass


def _observe(ctx, rows, cols, entries, seed, origin):
    """returns (request for the driver, implementation observations, case). Oracle violations are raised here."""
    from maze_dataset import LatticeMaze, SolvedMaze
    from maze_dataset.token_utils import is_connection
    from maze_dataset.utils import manhattan_distance
    rng = random.Random(seed)
    np.random.seed(rng.getrandbits(32))
    entries = sorted(set(tuple(e) for e in entries))
    cl = np.zeros((2, rows, cols), dtype=np.bool_)
    for d, i, j in entries:
        cl[d, i, j] = True
    _scribble(LatticeMaze(connection_list=cl.copy()), rows, cols, cl.copy())
    m = LatticeMaze(connection_list=cl.copy())
    orc = Oracle(rows, cols, entries)
    case = dict(rows=rows, cols=cols, edges=[list(e) for e in entries], seed=seed, origin=origin)
    cells = [(i, j) for i in range(rows) for j in range(cols)]
    nviol0 = len(ctx.violations)

    def bad(view, what, **detail):
        if len(ctx.violations) - nviol0 < 3 and len(ctx.violations) < MAX_VIOL:
            ctx.violate(f"{view}: {what} on {rows}x{cols} maze with True entries {case['edges']}", dict(case, view=view, **detail))

    judge = orc.wf   # the property speaks about well-formed mazes; ill-formed ones are model-vs-code only
    impl = {}
    # ---- pairs: nodes_connected, is_connection, manhattan_distance
    pairs = _pairs(rng, rows, cols, orc)
    impl["nc"] = [_call(lambda: bool(m.nodes_connected(np.array(a), np.array(b)))) for a, b in pairs]
    impl["ic1"] = [_call(lambda: bool(is_connection(np.array([[a, b]]), cl)[0])) for a, b in pairs]
    impl["ic"] = _call(lambda: [bool(x) for x in is_connection(np.array(pairs), cl)])
    impl["md"] = [int(x) for x in manhattan_distance(np.array(pairs))]
    md_single = [int(manhattan_distance(np.array(p))) for p in pairs[:5]]
    for k, (a, b) in enumerate(pairs):
        man = abs(a[0] - b[0]) + abs(a[1] - b[1])
        if impl["md"][k] != man or (k < 5 and md_single[k] != man):
            bad("manhattan_distance", f"distance of {a},{b} reported {impl['md'][k]}, is {man}", a=a, b=b)
        if judge and orc.inside(a):
            if impl["nc"][k] != orc.connected(a, b):
                bad("nodes_connected", f"nodes_connected({a},{b}) = {impl['nc'][k]} but the connection structure says {orc.connected(a, b)}", a=a, b=b)
            if orc.inside(b) and man == 1 and impl["ic1"][k] != orc.connected(a, b):
                bad("is_connection", f"is_connection([{a},{b}]) = {impl['ic1'][k]} but the connection structure says {orc.connected(a, b)}", a=a, b=b)
    if isinstance(impl["ic"], list):
        if impl["ic"] != impl["ic1"]:
            bad("is_connection", "batch answer differs from the one-edge answers", pairs=pairs)
    inr = [p for p, r in zip(pairs, impl["ic1"]) if isinstance(r, bool)]
    if inr:
        got = _call(lambda: [bool(x) for x in is_connection(np.array(inr), cl)])
        if got != [r for r in impl["ic1"] if isinstance(r, bool)]:
            bad("is_connection", f"batch over in-range edges answers {got}, one-edge answers differ", pairs=inr)
    # ---- the batch edge test on the library's OWN edge arrays (int8, as the tokenizers pass them): every lattice edge / every listed
    #      connection, both orientations; narrow-integer index arithmetic shows from 12x12 (11*12+11 > 127)
    if judge and rows * cols <= 400:
        try:
            from maze_dataset.utils import lattice_connection_array
            natives = [("as_adj_list()", m.as_adj_list(shuffle_d0=False, shuffle_d1=False))]
            if rows == cols: natives.append((f"lattice_connection_array({rows})", lattice_connection_array(rows)))
            for label, arr in natives:
                arr = np.asarray(arr)
                if arr.size == 0: continue
                for orient, a2 in (("", arr), (" reversed", arr[:, ::-1, :])):
                    got = [bool(x) for x in is_connection(a2, cl)]
                    for e, g in zip(a2.tolist(), got):
                        a, b = tuple(e[0]), tuple(e[1])
                        if g != orc.connected(a, b):
                            bad("is_connection", f"is_connection on {label}{orient} (dtype {arr.dtype}) says {g} for edge {a}-{b}, the connection structure says {orc.connected(a, b)}", a=a, b=b)
                            break
        except Exception as e:
            bad("is_connection", f"is_connection on the library's own edge arrays raised {type(e).__name__}: {str(e)[:120]}")
    # ---- cells: neighbours, degrees, nodes, component
    ring = sorted({(a[0] + d[0], a[1] + d[1]) for a in cells for d in MASK_ANY_ORDER} - set(cells))
    ncells = cells + (ring if len(ring) <= 16 else rng.sample(ring, 8))
    impl["nbrs"] = [_call(lambda: _tl(m.get_coord_neighbors(np.array(c)).tolist())) for c in ncells]
    deg = _call(lambda: m.coord_degrees().tolist())
    impl["degrees"] = deg
    impl["nodes"] = _call(lambda: _tl(m.get_nodes().tolist()))
    comp_cells = cells if len(cells) <= 9 else rng.sample(cells, 3)
    impl["comp"] = [_call(lambda: sorted(_tl(m.gen_connected_component_from(np.array(c)).tolist()))) for c in comp_cells]
    if judge:
        for c, got in zip(ncells, impl["nbrs"]):
            if not orc.inside(c):
                continue
            want = sorted(orc.nb[c])
            if not isinstance(got, list) or sorted(map(tuple, got)) != want:
                bad("get_coord_neighbors", f"neighbours of {c} reported {got}, connection structure gives {want}", c=c)
            elif isinstance(deg, list) and deg[c[0]][c[1]] != len(want):
                bad("coord_degrees", f"degree of {c} reported {deg[c[0]][c[1]]}, it has {len(want)} neighbours {want}", c=c)
        if not isinstance(deg, list):
            bad("coord_degrees", f"raised {deg}")
        for c, got in zip(comp_cells, impl["comp"]):
            want = [list(v) for v in orc.component(c)]
            if got != want:
                bad("gen_connected_component_from", f"component of {c} reported {got}, reachable set is {want}", c=c)
    if not isinstance(impl["nodes"], list) or sorted(map(tuple, impl["nodes"])) != cells:
        bad("get_nodes", f"get_nodes() = {impl['nodes']} is not every cell exactly once")
    # ---- paths
    paths = _paths(rng, rows, cols, orc)
    impl["vp"] = []
    for kind, p, flag in paths:
        got = _call(lambda: bool(m.is_valid_path(np.array(p), empty_is_valid=flag)))
        impl["vp"].append(got)
        ctx.count("path:" + kind)
        if judge and got != orc.valid_path(p, flag):
            bad("is_valid_path", f"is_valid_path({p}, empty_is_valid={flag}) = {got}, should be {orc.valid_path(p, flag)} ({kind})", path=p, empty_ok=flag)
    # ---- adjacency list (4 shuffle settings; flips tapped) and from_adj_list
    impl["adj"], flips_all, exact = [], [], []
    for sd0, sd1 in [(False, False), (False, True), (True, True), (True, False)]:
        with _TapRand() as tap:
            got = _call(lambda: m.as_adj_list(shuffle_d0=sd0, shuffle_d1=sd1).tolist())
        flips = [bool(x) for x in (tap.rec[0] > 0.5).tolist()] if (sd1 and tap.rec) else []
        if sd1 and len(tap.rec) != 1:
            ctx.disagree(f"as_adj_list(shuffle_d1=True) drew np.random.rand {len(tap.rec)} times (model: once)", case)
        got = _pl(got) if isinstance(got, list) else got
        impl["adj"].append(got); flips_all.append(flips); exact.append(not sd0)
        if isinstance(got, list):
            fs = [frozenset(map(tuple, p)) for p in got]
            if sorted(map(sorted, fs)) != sorted(map(sorted, orc.edges)) or len(fs) != len(orc.edges):
                bad("as_adj_list", f"as_adj_list(shuffle_d0={sd0}, shuffle_d1={sd1}) = {got}: not every connection exactly once", sd0=sd0, sd1=sd1)
            elif not sd1 and any(tuple(p[0]) >= tuple(p[1]) for p in got):
                bad("as_adj_list", f"as_adj_list(shuffle_d1=False) = {got}: smaller coordinate is not first", sd0=sd0, sd1=sd1)
        else:
            bad("as_adj_list", f"raised {got}", sd0=sd0, sd1=sd1)
    from_in = [a for a in impl["adj"] if isinstance(a, list)] + [_pl(a) for a in MALFORMED_ADJ]
    impl["from_adj"] = []
    top = max([max(max(a), max(b)) for e in orc.edges for a, b in [tuple(e)]], default=-1)
    for k, adj in enumerate(from_in):
        arr = np.array(adj, dtype=np.int8) if adj else np.zeros((0, 2, 2), dtype=np.int8)
        def f():
            r = LatticeMaze.from_adj_list(arr)
            return dict(n=int(r.connection_list.shape[1]), entries=[list(map(int, x)) for x in np.argwhere(r.connection_list)],
                        shape=list(r.connection_list.shape))
        got = _call(f)
        if isinstance(got, dict):
            shape = got.pop("shape")
            if shape != [2, got["n"], got["n"]]:
                ctx.disagree(f"from_adj_list built shape {shape}", case)
        impl["from_adj"].append(got)
        if judge and k < 4 and rows == cols and top == rows - 1:
            if not isinstance(got, dict) or got["n"] != rows or [tuple(e) for e in got["entries"]] != entries:
                bad("from_adj_list", f"from_adj_list(as_adj_list()) = {got} differs from the original structure (highest index {top} occurs)", adj=adj)
    # ---- solutions
    sols = _solutions(rng, rows, cols, orc)
    impl["forks"], impl["following"] = [], []
    for sol, always in sols:
        def f():
            sm = SolvedMaze(connection_list=cl.copy(), solution=np.array(sol))
            fi, fc = sm.get_solution_forking_points(always_include_endpoints=always)
            gi, gc = sm.get_solution_path_following_points()
            return [int(x) for x in fi], _tl(np.array(fc).reshape(-1, 2).tolist()), [int(x) for x in gi], _tl(np.array(gc).reshape(-1, 2).tolist())
        got = _call(f)
        if not isinstance(got, tuple):
            impl["forks"].append(got); impl["following"].append(got)
            bad("forking_points", f"raised {got} for solution {sol}", sol=sol, always=always)
            continue
        fi, fc, gi, gc = got
        impl["forks"].append(fi); impl["following"].append(gi)
        if judge:
            n = len(sol)
            def is_fork(k, alw):
                end = k == 0 or k == n - 1
                return len(orc.nb[sol[k]]) > (1 if end else 2) or (end and alw)
            want_f = [k for k in range(n) if is_fork(k, always)]
            want_g = [k for k in range(n) if not is_fork(k, False)]
            if fi != want_f or fc != [list(sol[k]) for k in fi]:
                bad("get_solution_forking_points", f"forks of solution {sol} (always_include_endpoints={always}) reported {fi}/{fc}, rule gives {want_f}", sol=sol, always=always)
            if gi != want_g or gc != [list(sol[k]) for k in gi]:
                bad("get_solution_path_following_points", f"path-following points of solution {sol} reported {gi}/{gc}, complement of forks is {want_g}", sol=sol)
            forks_plain = [k for k in range(n) if is_fork(k, False)]
            if not always and (sorted(fi + gi) != list(range(n)) or set(fi) & set(gi)):
                bad("forks_partition", f"forks {fi} and following {gi} do not partition 0..{n - 1} for solution {sol}", sol=sol)
    req = dict(op="C13.views", rows=rows, cols=cols, edges=[list(e) for e in entries], pairs=_pl(pairs), cells=_tl(ncells),
               comp_cells=_tl(comp_cells), paths=[dict(path=_tl(p), empty_ok=bool(f)) for _, p, f in paths], flips=flips_all,
               from_adj=from_in, sols=[dict(sol=_tl(s), always=bool(a)) for s, a in sols])
    ctx.case(dict(rows=rows, cols=cols, edges=case["edges"]), nontrivial=len(entries) > 0)
    ctx.count(f"shape={rows}x{cols}" if rows * cols <= 9 else f"shape-cells<={(rows * cols + 49) // 50 * 50}")
    ctx.count("wf" if orc.wf else "ill-formed"); ctx.count("origin=" + origin)
    ctx.count("err:nodes_connected", sum(1 for x in impl["nc"] if x == "IndexError"))
    ctx.count("pairs", len(pairs)); ctx.count("solutions", len(sols))
    return req, impl, case, exact


def _compare(ctx, req, impl, case, exact, out):
    if "error" in out:
        ctx.disagree(f"driver error {out['error']}", case); return
    ctx.traces_validated += 1
    def dis(view, k, a, b, arg=None):
        if len(ctx.disagreements) < 30:
            ctx.disagree(f"model and code differ on {view}{'' if arg is None else ' ' + str(arg)} for {case['rows']}x{case['cols']} "
                         f"maze {case['edges']}: model={a} code={b}", dict(case, view=view, arg=arg))
    for key, args in [("nc", req["pairs"]), ("ic1", req["pairs"]), ("md", req["pairs"]), ("nbrs", req["cells"]), ("vp", req["paths"]),
                      ("from_adj", req["from_adj"]), ("forks", req["sols"]), ("following", req["sols"])]:
        for k, (a, b) in enumerate(zip(out[key], impl[key])):
            if a != b:
                dis(key, k, a, b, args[k]); break
        if len(out[key]) != len(impl[key]):
            dis(key, -1, len(out[key]), len(impl[key]))
    for k, (a, b) in enumerate(zip(out["nbrs_shared"], impl["nbrs"])):
        c = req["cells"][k]
        if 0 <= c[0] < case["rows"] and 0 <= c[1] < case["cols"] and a != b:
            dis("nbrs(Model/Component.coordNeighbors)", k, a, b, c); break
    for key in ["ic", "degrees", "nodes"]:
        if out[key] != impl[key]:
            dis(key, 0, out[key], impl[key])
    for k, (a, b) in enumerate(zip(out["comp"], impl["comp"])):
        a2 = sorted(a) if isinstance(a, list) else a
        if a2 != b:
            dis("comp", k, a2, b, req["comp_cells"][k]); break
        if isinstance(a, list) and len(a) != len(set(map(tuple, a))):
            dis("comp-dup", k, a, b)
    for k, (a, b) in enumerate(zip(out["adj"], impl["adj"])):
        if (a != b) if exact[k] else (not isinstance(b, list) or sorted(a) != sorted(b)):
            dis("adj" + ("" if exact[k] else "(as multiset)"), k, a, b, req["flips"][k]); break


# ----------------------------------------------------------------------------------------------------------------
# maze enumeration
# ----------------------------------------------------------------------------------------------------------------
def _slots(rows, cols):
    return [(0, i, j) for i in range(rows - 1) for j in range(cols)] + [(1, i, j) for i in range(rows) for j in range(cols - 1)]


def _exhaustive(maxcells, maxside=3):
    for rows in range(1, maxside + 1):
        for cols in range(1, maxside + 1):
            if rows * cols > maxcells:
                continue
            sl = _slots(rows, cols)
            for bits in range(1 << len(sl)):
                yield rows, cols, [s for k, s in enumerate(sl) if bits >> k & 1]


def _random_mazes(rng, n, maxside=15):
    from maze_dataset import LatticeMazeGenerators
    for k in range(n):
        kind = rng.choice(["bits", "bits", "bits", "dfs", "perc", "ill"])
        rows, cols = rng.randint(1, maxside), rng.randint(1, maxside)
        if rng.random() < 0.4:
            cols = rows
        if rng.random() < 0.5:
            rows, cols = min(rows, 6), min(cols, 6)
        if kind in ("dfs", "perc"):
            random.seed(rng.getrandbits(32)); np.random.seed(rng.getrandbits(32))
            if kind == "dfs":
                mz = LatticeMazeGenerators.gen_dfs(np.array([rows, cols]))
            else:
                mz = LatticeMazeGenerators.gen_percolation(np.array([rows, cols]), p=rng.choice([0.3, 0.5, 0.7]))
            yield rows, cols, [tuple(map(int, e)) for e in np.argwhere(mz.connection_list)], kind
            continue
        p = rng.choice([0.15, 0.3, 0.5, 0.7, 0.9])
        ent = [s for s in _slots(rows, cols) if rng.random() < p]
        if kind == "ill":
            stray = [(0, rows - 1, j) for j in range(cols)] + [(1, i, cols - 1) for i in range(rows)]
            ent += rng.sample(stray, rng.randint(1, min(3, len(stray))))
        yield rows, cols, ent, kind


def _lattice(ctx):
    from maze_dataset.utils import lattice_connection_array, lattice_max_degrees
    ns = list(range(0, 17))
    outs = ctx.driver.run([dict(op="C13.lattice", n=n) for n in ns])
    for n, o in zip(ns, outs):
        edges = _call(lambda: _pl(lattice_connection_array(n).tolist()))
        maxdeg = _call(lambda: lattice_max_degrees(n).tolist())
        case = dict(lattice_n=n)
        ctx.case(case, nontrivial=n >= 2); ctx.count("lattice-n")
        cells = [(i, j) for i in range(n) for j in range(n)]
        want = sorted([[list(a), [a[0], a[1] + 1]] for a in cells if a[1] + 1 < n] + [[list(a), [a[0] + 1, a[1]]] for a in cells if a[0] + 1 < n])
        if not isinstance(edges, list) or sorted(edges) != want or len(edges) != 2 * n * (n - 1):
            ctx.violate(f"lattice_connection_array({n}) is not every lattice edge exactly once, smaller coordinate first: {str(edges)[:300]}", case)
        if n >= 2:
            wantd = [[sum(1 for d in MASK_ANY_ORDER if 0 <= i + d[0] < n and 0 <= j + d[1] < n) for j in range(n)] for i in range(n)]
            if maxdeg != wantd:
                ctx.violate(f"lattice_max_degrees({n}) = {maxdeg} differs from the number of in-grid lattice neighbours", case)
        ctx.traces_validated += 1
        if "error" in o or o["edges"] != edges or o["maxdeg"] != maxdeg:
            ctx.disagree(f"model and code differ on lattice_connection_array/lattice_max_degrees({n}): model={str(o)[:300]} code={str(edges)[:200]} {maxdeg}", case)


def _plan(ctx, thorough=False):
    plan = []
    for rows, cols, ent in _exhaustive(9 if thorough else 6):
        plan.append((rows, cols, ent, "exhaustive"))
    for rows, cols, ent, kind in _random_mazes(ctx.rng, 1500 if thorough else 200):
        plan.append((rows, cols, ent, kind))
    return plan


def _long_jumps(ctx):
    """candidate paths with ONE long jump (Manhattan length 2, 127..129, 255..258, ...) on long thin and on big sparse mazes: never valid,
    whatever bit happens to be set at the lesser corner. Oracle only (a jump is not a connection)."""
    from maze_dataset import LatticeMaze
    for rows, cols in ([(1, 300), (300, 1), (130, 130)] if ctx.quick else [(1, 300), (300, 1), (130, 130), (2, 520), (260, 3)]):
        cl = np.zeros((2, rows, cols), dtype=bool)
        cl[0, : rows - 1, :] = True; cl[1, :, : cols - 1] = True          # the full lattice: every "connection leaving a cell" is open
        m = LatticeMaze(connection_list=cl)
        for L in (2, 3, 126, 127, 128, 129, 130, 254, 255, 256, 257, 258, 259):
            for (a, b) in (((0, 0), (min(L, rows - 1), L - min(L, rows - 1))), ((0, 0), (L - min(L, cols - 1), min(L, cols - 1)))):
                if not (0 <= b[0] < rows and 0 <= b[1] < cols) or abs(a[0] - b[0]) + abs(a[1] - b[1]) != L: continue
                for path in ([a, b], [b, a], [a, b, a]):
                    ctx.case(["long-jump", rows, cols, L, path]); ctx.count("long_jump_paths")
                    try:
                        got = bool(m.is_valid_path(np.array(path)))
                    except Exception as e:
                        got = f"{type(e).__name__}"
                    if got is not False:
                        ctx.violate(f"is_valid_path: is_valid_path({path}) = {got} on the full {rows}x{cols} lattice, but the path jumps {L} cells in one step "
                                    f"(nodes_connected says {bool(m.nodes_connected(np.array(path[0]), np.array(path[1])))})", dict(rows=rows, cols=cols, long_jump=L, path=[list(x) for x in path])); return


def run(ctx):
    warnings.filterwarnings("ignore")
    plan = _plan(ctx, ctx.tier == "thorough")
    obs = []
    for rows, cols, ent, origin in plan:
        obs.append(_observe(ctx, rows, cols, ent, ctx.rng.getrandbits(32), origin))
        if len(ctx.violations) >= MAX_VIOL:
            break
    ctx.exhaustive = True
    ctx.extra["exhaustive_domain"] = "every well-formed connection structure on grids r x c, r,c<=3, r*c<=%d" % (9 if ctx.tier == "thorough" else 6)
    outs = ctx.driver.run_parallel([o[0] for o in obs])
    for (req, impl, case, exact), out in zip(obs, outs):
        _compare(ctx, req, impl, case, exact, out)
    for o in obs:
        if o[2]["rows"] == 2 and o[2]["cols"] == 3 and len(o[2]["edges"]) >= 4:
            ctx.sample(dict(maze=o[2], neighbours=o[1]["nbrs"][:6], degrees=o[1]["degrees"], adj_unshuffled=o[1]["adj"][0],
                            forks=o[1]["forks"], following=o[1]["following"]), limit=3)
    _lattice(ctx)
    if not ctx.violations: _long_jumps(ctx)


def search(ctx):
    """oracle-only exploration of the real code (every structure up to 3x3, then random mazes); stops at the first violation"""
    warnings.filterwarnings("ignore")
    for rows, cols, ent, origin in _plan(ctx, thorough=True):
        _observe(ctx, rows, cols, ent, ctx.rng.getrandbits(32), origin)
        if ctx.violations:
            return


def replay(ctx, rp):
    warnings.filterwarnings("ignore")
    case = rp.get("case", rp)
    if "lattice_n" in case:
        _lattice(ctx); return
    req, impl, c2, exact = _observe(ctx, case["rows"], case["cols"], [tuple(e) for e in case["edges"]], case["seed"], case.get("origin", "replay"))
    out = ctx.driver.run([req])[0]
    _compare(ctx, req, impl, c2, exact, out)
