import MazeVerif.Lemmas.Tok
import MazeVerif.Model.TokPrompt
/-! Path region: step, lead and whole-region round trips. -/
namespace MZ.Tok

/-- which step tokenizer produces a value of this shape -/
def StepVal.kind : StepVal → StepTk
  | .coord _ => .coord | .card _ => .cardinal | .rel _ => .relative | .dist _ => .distance

theorem stepVal_kind {sol : List C} {i j : Nat} {s : StepTk} {v : StepVal} (h : stepVal sol i j s = some v) : v.kind = s := by
  cases s <;> simp only [stepVal] at h
  · simp only [Option.map_eq_some_iff] at h; obtain ⟨c, _, rfl⟩ := h; rfl
  · split at h
    · simp only [Option.map_eq_some_iff] at h; obtain ⟨c, _, rfl⟩ := h; rfl
    · cases h
  · split at h
    · split at h
      · simp only [Option.map_eq_some_iff] at h; obtain ⟨c, _, rfl⟩ := h; rfl
      · split at h
        · simp only [Option.map_eq_some_iff] at h; obtain ⟨c, _, rfl⟩ := h; rfl
        · cases h
    · cases h
  · split at h
    · cases h; rfl
    · cases h

theorem stepVals_kinds {sol : List C} {i j : Nat} : ∀ {ss : List StepTk} {vs : List StepVal},
    stepVals sol i j ss = some vs → vs.map StepVal.kind = ss
  | [], vs, h => by simp [stepVals] at h; subst h; rfl
  | s :: ss, vs, h => by
    simp only [stepVals] at h
    cases h1 : stepVal sol i j s with
    | none => simp [h1] at h
    | some v =>
      cases h2 : stepVals sol i j ss with
      | none => simp [h1, h2] at h
      | some r =>
        simp [h1, h2] at h; subst h
        simp [stepVal_kind h1, stepVals_kinds h2]

theorem parseVal_valToks (ct : CoordTok) (v : StepVal) (rest : List Tok) :
    parseVal ct v.kind (valToks ct v ++ rest) = some (v, rest) := by
  cases v <;> simp [parseVal, valToks, StepVal.kind, parseCoord_coordToks]

theorem parseBody_bodyToks (ct : CoordTok) (intra : Bool) (rest : List Tok) :
    ∀ vs : List StepVal, parseBody ct intra (vs.map StepVal.kind) (bodyToks ct intra vs ++ rest) = some (vs, rest)
  | [] => by simp [parseBody, bodyToks]
  | v :: vs => by
    simp only [List.map_cons, parseBody, bodyToks, List.append_assoc, parseVal_valToks, eat_opt,
      parseBody_bodyToks ct intra rest vs]

theorem parseStep_stepToksOf (pc : PathCfg) (ct : CoordTok) (vs : List StepVal) (h : vs.map StepVal.kind = pc.steps)
    (rest : List Tok) : parseStep pc ct (stepToksOf pc ct vs ++ rest) = some (vs, rest) := by
  simp only [parseStep, stepToksOf, List.append_assoc, eat_opt, ← h, parseBody_bodyToks]

theorem noDelim_valToks (ct : CoordTok) (v : StepVal) : NoDelim (valToks ct v) := by
  cases v with
  | coord c => exact noDelim_coordToks ct c
  | card d => simp [NoDelim, valToks, Tok.isDelim]
  | rel r => simp [NoDelim, valToks, Tok.isDelim]
  | dist k => simp [NoDelim, valToks, Tok.isDelim]

theorem valToks_ne_nil (ct : CoordTok) (v : StepVal) : valToks ct v ≠ [] := by
  cases v with
  | coord c => exact coordToks_ne_nil ct c
  | card d => simp [valToks]
  | rel r => simp [valToks]
  | dist k => simp [valToks]

theorem noDelim_bodyToks (ct : CoordTok) (intra : Bool) : ∀ vs : List StepVal, NoDelim (bodyToks ct intra vs)
  | [] => NoDelim.nil
  | v :: vs => ((noDelim_valToks ct v).append (noDelim_opt intra .pathIntra rfl)).append (noDelim_bodyToks ct intra vs)

theorem noDelim_stepToksOf (pc : PathCfg) (ct : CoordTok) (vs : List StepVal) : NoDelim (stepToksOf pc ct vs) :=
  ((noDelim_opt pc.pre .pathPre rfl).append (noDelim_bodyToks ct pc.intra vs)).append (noDelim_opt pc.post .pathPost rfl)

theorem stepToksOf_ne_nil (pc : PathCfg) (ct : CoordTok) (vs : List StepVal) (h : vs ≠ []) : stepToksOf pc ct vs ≠ [] := by
  cases vs with
  | nil => exact absurd rfl h
  | cons v vs =>
    have := valToks_ne_nil ct v
    intro hc
    simp only [stepToksOf, bodyToks, List.append_eq_nil_iff] at hc
    exact this hc.1.2.1.1

theorem noDelim_leadToks (pc : PathCfg) (ct : CoordTok) (l : Option C) : NoDelim (leadToks pc ct l) := by
  cases l with
  | none => exact NoDelim.nil
  | some c => exact ((noDelim_opt pc.pre .pathPre rfl).append (noDelim_coordToks ct c)).append (noDelim_opt pc.intra .pathIntra rfl)

theorem parseLead_leadToks (pc : PathCfg) (ct : CoordTok) (l : Option C) (h : l.isSome = decide (StepTk.coord ∈ pc.steps))
    (rest : List Tok) : parseLead pc ct (leadToks pc ct l ++ rest) = some (l, rest) := by
  cases l with
  | none =>
    have : ¬ (StepTk.coord ∈ pc.steps) := by simpa using h.symm
    simp [parseLead, leadToks, this]
  | some c =>
    have : StepTk.coord ∈ pc.steps := by simpa using h.symm
    simp only [parseLead, this, if_true, leadToks, List.append_assoc, eat_opt, parseCoord_coordToks]

/-- well-formedness of a path record w.r.t. a configuration: what `pathInfo` always produces -/
def PathInfo.WF (pc : PathCfg) (p : PathInfo) : Prop :=
  p.start.isSome = decide (StepTk.coord ∈ pc.steps) ∧ ∀ vs ∈ p.steps, vs.map StepVal.kind = pc.steps

theorem noDelim_flatten_steps (pc : PathCfg) (ct : CoordTok) :
    ∀ steps : List (List StepVal), NoDelim ((steps.map (stepToksOf pc ct)).flatten)
  | [] => NoDelim.nil
  | vs :: r => by
    simp only [List.map_cons, List.flatten_cons]
    exact (noDelim_stepToksOf pc ct vs).append (noDelim_flatten_steps pc ct r)

theorem noDelim_pathInfoToks (pc : PathCfg) (ct : CoordTok) (p : PathInfo) : NoDelim (pathInfoToks pc ct p) :=
  (noDelim_leadToks pc ct p.start).append (noDelim_flatten_steps pc ct p.steps)

theorem length_le_flatten (pc : PathCfg) (ct : CoordTok) (hne : pc.steps ≠ []) :
    ∀ steps : List (List StepVal), (∀ vs ∈ steps, vs.map StepVal.kind = pc.steps) →
      steps.length ≤ ((steps.map (stepToksOf pc ct)).flatten).length
  | [], _ => by simp
  | vs :: r, h => by
    have hvs : vs ≠ [] := by
      intro hc; have := h vs (by simp); rw [hc] at this; exact hne this.symm
    have h1 := stepToksOf_ne_nil pc ct vs hvs
    have h2 := length_le_flatten pc ct hne r (fun x hx => h x (by simp [hx]))
    have : 1 ≤ (stepToksOf pc ct vs).length := by
      cases hh : stepToksOf pc ct vs with
      | nil => exact absurd hh h1
      | cons _ _ => simp
    simp only [List.map_cons, List.flatten_cons, List.length_cons, List.length_append]; omega

/-- path-region round trip on records: any well-formed record is read back exactly, up to a region delimiter -/
theorem parsePath_pathInfoToks (pc : PathCfg) (ct : CoordTok) (hne : pc.steps ≠ []) (p : PathInfo) (hwf : p.WF pc)
    (stop : Tok) (hstop : stop.isDelim = true) (rest : List Tok) :
    parsePath pc ct stop (pathInfoToks pc ct p ++ stop :: rest) = some (p, stop :: rest) := by
  obtain ⟨hs, hk⟩ := hwf
  simp only [parsePath, pathInfoToks, List.append_assoc, parseLead_leadToks pc ct p.start hs]
  have hitems := parseMany_items stop (parseStep pc ct) rest (p.steps.map fun vs => (vs, stepToksOf pc ct vs))
    (by
      intro it hit
      simp only [List.mem_map] at hit
      obtain ⟨vs, hvs, rfl⟩ := hit
      have hvne : vs ≠ [] := by
        intro hc; have := hk vs hvs; rw [hc] at this; exact hne this.symm
      exact ⟨head_ne_of_noDelim (stepToksOf_ne_nil pc ct vs hvne) (noDelim_stepToksOf pc ct vs) hstop,
        fun r => parseStep_stepToksOf pc ct vs (hk vs hvs) r⟩)
  simp only [List.map_map, Function.comp_def, List.map_id'] at hitems
  have hlen := length_le_flatten pc ct hne p.steps hk
  rw [hitems _ (by simp only [List.length_map, List.length_append, List.length_cons]; omega)]

end MZ.Tok
