import MazeVerif.DriverOps.Util
namespace MZ.Drv.C06
open Lean MZ.Drv

/-- driver ops of property C06 (`"op": "C06.<name>"`) -/
def handle (op : String) (_j : Json) : R Json := do
  match op with
  | _ => throw s!"unknown op {op}"

end MZ.Drv.C06
