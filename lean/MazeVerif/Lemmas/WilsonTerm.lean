import MazeVerif.Lemmas.WilsonSupport
import Mathlib.Algebra.Order.Archimedean.Basic
/-! Almost-sure termination of Wilson's step machine on EVERY grid (C19).
    * generic (any draw-driven machine): a run of `len` draws into the target has probability at least `(1/A)^len` when
      no state has more than `A` equally likely draws (`reaches_val_ge`); finished + unfinished mass is at most 1
      (`val_add_unfin_le_one`, no hypothesis); the Markov-property bound `unfin (m + L) s ≤ c * unfin m s` when every
      invariant state has `unfin L ≤ c` (`unfin_add_le`), hence `unfin (k*L) s ≤ c^k` (`unfin_mul_le`).
    * Wilson machine: the invariant `Inv` (a visited in-grid cell exists; the stored walk consists of unvisited in-grid
      cells) holds in the start states and is preserved by every draw; from every invariant state some accepted draw
      list of length at most `termL rows cols` finishes (`finish_from`): steer the walk along a lattice geodesic to a
      visited cell (each draw lowers the Manhattan distance by one; loop erasure cannot occur on that route but is
      allowed for), at most `rows+cols` draws per walk plus one draw for the walk's start, at most `rows*cols` walks. -/
namespace MZ.WTerm
open MZ MZ.WStep MZ.WProb MZ.WRef MZ.WSup

/-! ### generic machine lemmas -/

section generic
variable {σ : Type} (M : Machine σ)

theorem le_sum_of_mem {α : Type} {f : α → Rat} : ∀ (l : List α), (∀ x ∈ l, 0 ≤ f x) → ∀ x ∈ l, f x ≤ (l.map f).sum
  | [], _, x, hx => by cases hx
  | a :: l, h, x, hx => by
    simp only [List.map_cons, List.sum_cons]
    have ha := h a (List.mem_cons_self ..)
    have hl : 0 ≤ (l.map f).sum := sum_map_nonneg fun y hy => h y (List.mem_cons_of_mem _ hy)
    rcases List.mem_cons.mp hx with rfl | hxl
    · linarith
    · have := le_sum_of_mem l (fun y hy => h y (List.mem_cons_of_mem _ hy)) x hxl
      linarith

/-- `avg` is monotone when the functions are compared on the successor states only -/
theorem avg_mono_on {g h : σ → Rat} (s : σ) (hgh : ∀ k, k < M.arity s → g (M.next s k) ≤ h (M.next s k)) :
    avg M g s ≤ avg M h s := by
  unfold avg
  exact div_le_div_of_nonneg_right (sum_map_le fun k hk => hgh k (List.mem_range.mp hk)) (Nat.cast_nonneg _)

theorem avg_mul_left (c : Rat) (g : σ → Rat) (s : σ) : avg M (fun x => c * g x) s = c * avg M g s := by
  unfold avg
  rw [sum_map_mul_left' (List.range (M.arity s)) c (fun k => g (M.next s k)), mul_div_assoc]

/-- finished + unfinished mass never exceeds 1 (EVERY machine, no hypothesis on the arities) -/
theorem val_add_unfin_le_one : ∀ n s, val M (fun _ => true) n s + unfin M n s ≤ 1
  | 0, s => by cases h : M.fin s <;> simp [val, unfin, h, ind]
  | n + 1, s => by
    rw [val_succ, unfin_succ]
    cases h : M.fin s
    · simp only [Bool.false_eq_true, if_false]
      rw [← avg_add]
      exact avg_le_one M (fun x => val_add_unfin_le_one n x) s
    · simp [ind]

/-- quantitative `reaches_val_pos`: a run of `ds.length` draws into the target has probability at least
    `(1/A)^ds.length` if no state offers more than `A` equally likely draws -/
theorem reaches_val_ge (tgt : σ → Bool) {A : Nat} (hA : ∀ s, M.arity s ≤ A) {s t : σ} {ds : List Nat}
    (h : Reaches M s ds t) (ht : tgt t = true) : ∀ n, ds.length ≤ n → (1 / (A : Rat)) ^ ds.length ≤ val M tgt n s := by
  induction h with
  | done hf =>
    intro n _
    rw [val_fin M hf, ht]
    simp [ind]
  | @step s k ds t hf hk _ ih =>
    intro n hn
    cases n with
    | zero => simp at hn
    | succ n =>
      rw [val_succ]
      simp only [hf, Bool.false_eq_true, if_false]
      unfold avg
      have hpos : (0 : Rat) < (M.arity s : Rat) := by exact_mod_cast Nat.lt_of_le_of_lt (Nat.zero_le _) hk
      have hAq : (M.arity s : Rat) ≤ (A : Rat) := by exact_mod_cast hA s
      have hApos : (0 : Rat) < (A : Rat) := lt_of_lt_of_le hpos hAq
      have hih := ih ht n (by simpa using hn)
      have hx0 : 0 ≤ val M tgt n (M.next s k) := val_nonneg M tgt n _
      have hsum : val M tgt n (M.next s k) ≤ ((List.range (M.arity s)).map fun k => val M tgt n (M.next s k)).sum :=
        le_sum_of_mem (f := fun k => val M tgt n (M.next s k)) _ (fun x _ => val_nonneg M tgt n _) k
          (List.mem_range.mpr hk)
      have hq0 : (0 : Rat) ≤ 1 / (A : Rat) := le_of_lt (one_div_pos.mpr hApos)
      calc (1 / (A : Rat)) ^ (k :: ds).length
          = (1 / (A : Rat)) ^ ds.length * (1 / (A : Rat)) := by rw [List.length_cons, pow_succ]
        _ ≤ val M tgt n (M.next s k) * (1 / (A : Rat)) := mul_le_mul_of_nonneg_right hih hq0
        _ = val M tgt n (M.next s k) / (A : Rat) := by rw [mul_one_div]
        _ ≤ val M tgt n (M.next s k) / (M.arity s : Rat) := div_le_div_of_nonneg_left hx0 hpos hAq
        _ ≤ _ := div_le_div_of_nonneg_right hsum (le_of_lt hpos)

/-- Markov property as an inequality: if after `L` more draws every invariant state is still unfinished with
    probability at most `c`, then `L` extra draws shrink the unfinished mass by the factor `c` -/
theorem unfin_add_le {Inv : σ → Prop}
    (hstep : ∀ s k, Inv s → M.fin s = false → k < M.arity s → Inv (M.next s k)) {L : Nat} {c : Rat}
    (hL : ∀ t, Inv t → unfin M L t ≤ c) : ∀ m s, Inv s → unfin M (m + L) s ≤ c * unfin M m s
  | 0, s, hI => by
    rw [Nat.zero_add]
    cases h : M.fin s
    · have : unfin M 0 s = 1 := by simp [unfin, h, ind]
      rw [this, mul_one]; exact hL s hI
    · rw [unfin_fin M h, unfin_fin M h, mul_zero]
  | m + 1, s, hI => by
    have e : m + 1 + L = (m + L) + 1 := by omega
    rw [e, unfin_succ, unfin_succ]
    cases h : M.fin s
    · simp only [Bool.false_eq_true, if_false]
      rw [← avg_mul_left]
      exact avg_mono_on M s fun k hk => unfin_add_le hstep hL m _ (hstep s k hI h hk)
    · simp

/-- geometric decay of the unfinished mass along multiples of `L` -/
theorem unfin_mul_le {Inv : σ → Prop}
    (hstep : ∀ s k, Inv s → M.fin s = false → k < M.arity s → Inv (M.next s k)) {L : Nat} {c : Rat} (hc : 0 ≤ c)
    (hL : ∀ t, Inv t → unfin M L t ≤ c) : ∀ k s, Inv s → unfin M (k * L) s ≤ c ^ k
  | 0, s, _ => by simpa using unfin_le_one M 0 s
  | k + 1, s, hI => by
    have e : (k + 1) * L = k * L + L := Nat.succ_mul k L
    rw [e, pow_succ']
    exact le_trans (unfin_add_le M hstep hL (k * L) s hI)
      (mul_le_mul_of_nonneg_left (unfin_mul_le hstep hc hL k s hI) hc)

/-- pointwise comparison on the support only -/
theorem expect_mono_on {f g : σ → Rat} {d : List (σ × Rat)} (hfg : ∀ x ∈ d, f x.1 ≤ g x.1) (hw : ∀ x ∈ d, 0 ≤ x.2) :
    expect f d ≤ expect g d := by
  unfold expect
  exact sum_map_le fun x hx => mul_le_mul_of_nonneg_left (hfg x hx) (hw x hx)

theorem expect_const (c : Rat) (d : List (σ × Rat)) : expect (fun _ => c) d = c * expect (fun _ => (1 : Rat)) d := by
  unfold expect
  rw [← sum_map_mul_left']
  congr 1
  exact List.map_congr_left fun x _ => by ring

theorem expect_mul_left (c : Rat) (f : σ → Rat) (d : List (σ × Rat)) :
    expect (fun s => c * f s) d = c * expect f d := by
  unfold expect
  rw [← sum_map_mul_left']
  congr 1
  exact List.map_congr_left fun x _ => by ring

end generic

/-! ### lattice distance on cell indices -/

/-- Manhattan distance between the cells with indices `a`, `b` -/
def dist (cols a b : Nat) : Nat :=
  (a / cols - b / cols) + (b / cols - a / cols) + ((a % cols - b % cols) + (b % cols - a % cols))

theorem dist_mk {cols r c R C : Nat} (hc : c < cols) (hC : C < cols) :
    dist cols (r * cols + c) (R * cols + C) = (r - R) + (R - r) + ((c - C) + (C - c)) := by
  unfold dist; rw [div_mk hc, mod_mk hc, div_mk hC, mod_mk hC]

theorem dist_le {rows cols a b : Nat} (ha : a < rows * cols) (hb : b < rows * cols) : dist cols a b ≤ rows + cols := by
  have hc : 0 < cols := Nat.pos_of_ne_zero (by rintro rfl; simp at ha)
  have h1 := div_lt_rows ha
  have h2 := div_lt_rows hb
  have h3 := Nat.mod_lt a hc
  have h4 := Nat.mod_lt b hc
  unfold dist
  generalize a / cols = ra at *
  generalize b / cols = rb at *
  generalize a % cols = ca at *
  generalize b % cols = cb at *
  omega

/-- a cell different from `v` has a lattice neighbour one step closer to `v` -/
theorem exists_closer {rows cols cur v : Nat} (hcur : cur < rows * cols) (hv : v < rows * cols) (hne : cur ≠ v) :
    ∃ nx, nx ∈ nbrsOf rows cols cur ∧ dist cols nx v + 1 = dist cols cur v := by
  have hc : 0 < cols := Nat.pos_of_ne_zero (by rintro rfl; simp at hcur)
  have hr1 := div_lt_rows hcur
  have hR := div_lt_rows hv
  obtain ⟨R, C, hC, rfl⟩ : ∃ R C, C < cols ∧ v = R * cols + C :=
    ⟨v / cols, v % cols, Nat.mod_lt _ hc, idx_decomp cols v⟩
  rw [div_mk hC] at hR
  obtain ⟨r, c, hcc, rfl⟩ : ∃ r c, c < cols ∧ cur = r * cols + c :=
    ⟨cur / cols, cur % cols, Nat.mod_lt _ hc, idx_decomp cols cur⟩
  rw [div_mk hcc] at hr1
  rw [dist_mk hcc hC]
  rcases Nat.lt_trichotomy r R with hlt | heq | hgt
  · -- move down one row
    have e : r * cols + c + cols = (r + 1) * cols + c := by rw [Nat.succ_mul]; omega
    refine ⟨r * cols + c + cols, ?_, ?_⟩
    · have : r + 1 < rows := by omega
      simp [nbrsOf, div_mk hcc, mod_mk hcc, this]
    · rw [e, dist_mk hcc hC]
      omega
  · rcases Nat.lt_trichotomy c C with hlt | heq' | hgt
    · -- move right
      have hlt' : c + 1 < cols := by omega
      have e : r * cols + c + 1 = r * cols + (c + 1) := by omega
      refine ⟨r * cols + c + 1, ?_, ?_⟩
      · simp [nbrsOf, div_mk hcc, mod_mk hcc, hlt']
      · rw [e, dist_mk hlt' hC]
        omega
    · exact absurd (by rw [heq, heq']) hne
    · -- move left
      have h1 : 1 ≤ c := by omega
      have hlt' : c - 1 < cols := by omega
      have e : r * cols + c - 1 = r * cols + (c - 1) := by omega
      refine ⟨r * cols + c - 1, ?_, ?_⟩
      · simp [nbrsOf, div_mk hcc, mod_mk hcc, h1]
      · rw [e, dist_mk hlt' hC]
        omega
  · -- move up one row
    obtain ⟨r', rfl⟩ : ∃ r', r = r' + 1 := ⟨r - 1, by omega⟩
    have e : (r' + 1) * cols + c - cols = r' * cols + c := by rw [Nat.succ_mul]; omega
    refine ⟨(r' + 1) * cols + c - cols, ?_, ?_⟩
    · simp [nbrsOf, div_mk hcc, mod_mk hcc]
    · rw [e, dist_mk hcc hC]
      omega

/-! ### the invariant of reachable states -/

/-- what every state reachable from a start state satisfies (and all the termination argument needs): some in-grid
    cell is visited, and the stored walk consists of unvisited in-grid cells -/
structure Inv (rows cols : Nat) (s : WS) : Prop where
  seed : ∃ v, v < rows * cols ∧ bit s.vis v = true
  plt : ∀ i ∈ s.path, i < rows * cols
  punv : ∀ i ∈ s.path, bit s.vis i = false

theorem inv_settle {rows cols : Nat} {s : WS} (p : List Nat) (hseed : ∃ v, v < rows * cols ∧ bit s.vis v = true)
    (hlt : ∀ i ∈ p, i < rows * cols) (hunv : ∀ i ∈ p.dropLast, bit s.vis i = false) :
    Inv rows cols (settle rows cols { s with path := p }) := by
  unfold settle
  cases hl : p.getLast? with
  | none => simp only; exact ⟨hseed, hlt, by rw [List.getLast?_eq_none_iff.mp hl]; simp⟩
  | some last =>
    simp only
    cases hb : bit s.vis last with
    | false =>
      simp only [Bool.false_eq_true, if_false]
      refine ⟨hseed, hlt, ?_⟩
      intro i hi
      have hp : p.dropLast ++ [last] = p := List.dropLast_append_getLast? last (by rw [hl]; rfl)
      simp only at hi
      rw [← hp] at hi
      rcases List.mem_append.mp hi with h | h
      · exact hunv i h
      · rw [List.mem_singleton.mp h]; exact hb
    | true =>
      simp only [if_true]
      obtain ⟨v, hv, hbv⟩ := hseed
      exact ⟨⟨v, hv, (attachGo_vis rows cols p _ _ v).mpr (Or.inl hbv)⟩, by simp, by simp⟩

theorem mem_of_mem_dropLast' {α : Type} {l : List α} {x : α} (h : x ∈ l.dropLast) : x ∈ l :=
  List.dropLast_subset l h

/-- every draw preserves the invariant -/
theorem inv_next {rows cols : Nat} {s : WS} (hI : Inv rows cols s) (k : Nat) : Inv rows cols (next rows cols s k) := by
  unfold next
  cases hl : s.path.getLast? with
  | none =>
    simp only
    cases hu : (unvisited rows cols s.vis)[k]? with
    | none => exact hI
    | some u =>
      simp only
      have hmem : u ∈ unvisited rows cols s.vis := List.mem_of_getElem? hu
      obtain ⟨hult, _⟩ := mem_unvisited hmem
      exact inv_settle [u] hI.seed (by intro i hi; rw [List.mem_singleton.mp hi]; exact hult) (by simp)
  | some cur =>
    simp only
    cases hn : (nbrsOf rows cols cur)[k]? with
    | none => exact hI
    | some nx =>
      simp only
      have hcur : cur ∈ s.path := List.mem_of_getLast? hl
      have hcl := hI.plt cur hcur
      have hc : 0 < cols := Nat.pos_of_ne_zero (by rintro rfl; simp at hcl)
      have hnxlt : nx < rows * cols := (mem_nbrsOf_lt hc hcl (List.mem_of_getElem? hn)).1
      apply inv_settle _ hI.seed
      · intro i hi
        split at hi
        · exact hI.plt i (List.mem_of_mem_take hi)
        · rcases List.mem_append.mp hi with h | h
          · exact hI.plt i h
          · rw [List.mem_singleton.mp h]; exact hnxlt
      · intro i hi
        split at hi
        · exact hI.punv i (List.mem_of_mem_take (mem_of_mem_dropLast' hi))
        · rw [List.dropLast_concat] at hi
          exact hI.punv i hi

theorem inv_start {rows cols : Nat} (hr : 0 < rows) (hc : 0 < cols) {s : WS} (h : s ∈ starts rows cols) :
    Inv rows cols s := by
  obtain ⟨a, b, ha, hb, rfl⟩ := mem_starts h
  have ha' : a < rows := by omega
  have hb' : b < cols := by omega
  exact ⟨⟨a * cols + b, mk_lt ha' hb', (bit_single _ _).mpr rfl⟩, by simp, by simp⟩

/-! ### one draw inside a walk -/

theorem next_in_walk {rows cols : Nat} {s : WS} {cur nx : Nat} (hl : s.path.getLast? = some cur)
    (hmem : nx ∈ nbrsOf rows cols cur) :
    ∃ k p, k < arity rows cols s ∧ finished rows cols s = false ∧
      next rows cols s k = settle rows cols { s with path := p } ∧ p.getLast? = some nx ∧
      (nx ∉ s.path → p = s.path ++ [nx]) := by
  have hnx : (nbrsOf rows cols cur)[(nbrsOf rows cols cur).idxOf nx]? = some nx := getElem?_idxOf' hmem
  generalize (nbrsOf rows cols cur).idxOf nx = k at hnx
  have hk : k < (nbrsOf rows cols cur).length := by
    rcases Nat.lt_or_ge k (nbrsOf rows cols cur).length with h | h
    · exact h
    · rw [List.getElem?_eq_none h] at hnx; cases hnx
  have hne : s.path ≠ [] := by intro h; rw [h] at hl; cases hl
  have hfin : finished rows cols s = false := by
    cases hp : s.path with
    | nil => exact absurd hp hne
    | cons a l => simp [finished, hp]
  have har : arity rows cols s = (nbrsOf rows cols cur).length := by simp only [arity, hl]
  refine ⟨k, if s.path.contains nx then s.path.take (s.path.idxOf nx + 1) else s.path ++ [nx], by rw [har]; exact hk,
    hfin, by simp only [next, hl, hnx], ?_, ?_⟩
  · by_cases hin : nx ∈ s.path
    · have hcont : s.path.contains nx = true := List.contains_iff_mem.mpr hin
      simp only [hcont, if_true]
      exact getLast?_take_idxOf hin
    · have hcont : s.path.contains nx = false := by
        cases h : s.path.contains nx
        · rfl
        · exact absurd (List.contains_iff_mem.mp h) hin
      simp only [hcont, Bool.false_eq_true, if_false]
      exact List.getLast?_concat
  · intro hin
    have hcont : s.path.contains nx = false := by
      cases h : s.path.contains nx
      · rfl
      · exact absurd (List.contains_iff_mem.mp h) hin
    simp only [hcont, Bool.false_eq_true, if_false]

theorem unvisited_length_le (rows cols v : Nat) : (unvisited rows cols v).length ≤ rows * cols := by
  unfold unvisited
  exact le_trans (List.length_filter_le _ _) (by simp)

/-- steer the current walk along a lattice geodesic to the visited cell `v`: at most `d` draws, after which the walk
    has been written out and strictly fewer cells are unvisited -/
theorem walk_home {rows cols v : Nat} (hv : v < rows * cols) :
    ∀ (d : Nat) (s : WS) (cur : Nat), Inv rows cols s → s.path.getLast? = some cur → bit s.vis v = true →
      dist cols cur v ≤ d →
      ∃ ds t, Steps rows cols s ds t ∧ ds.length ≤ d ∧ Inv rows cols t ∧ t.path = [] ∧
        (unvisited rows cols t.vis).length < (unvisited rows cols s.vis).length := by
  intro d
  induction d with
  | zero =>
    intro s cur hI hl hbv hd
    have hcur : cur ∈ s.path := List.mem_of_getLast? hl
    have hne : cur ≠ v := by intro h; have := hI.punv cur hcur; rw [h, hbv] at this; cases this
    obtain ⟨nx, _, hdist⟩ := exists_closer (hI.plt cur hcur) hv hne
    omega
  | succ d ih =>
    intro s cur hI hl hbv hd
    have hcur : cur ∈ s.path := List.mem_of_getLast? hl
    have hcu : bit s.vis cur = false := hI.punv cur hcur
    have hne : cur ≠ v := by intro h; rw [h, hbv] at hcu; cases hcu
    obtain ⟨nx, hmem, hdist⟩ := exists_closer (hI.plt cur hcur) hv hne
    obtain ⟨k, p, hk, hfin, hnext, hpl, hpapp⟩ := next_in_walk hl hmem
    have hInext : Inv rows cols (next rows cols s k) := inv_next hI k
    cases hbn : bit s.vis nx with
    | true =>
      have hnin : nx ∉ s.path := by intro h; have := hI.punv nx h; rw [hbn] at this; cases this
      have hp : p = s.path ++ [nx] := hpapp hnin
      have hset : settle rows cols { s with path := p } =
          { vis := (attachGo rows cols s.vis s.edges p).1, edges := (attachGo rows cols s.vis s.edges p).2,
            path := [] } := by
        simp only [settle, hpl, hbn, if_true]
      refine ⟨[k], next rows cols s k, .step hfin hk (.refl _), by simp, hInext, ?_, ?_⟩
      · rw [hnext, hset]
      · rw [hnext, hset]
        apply unvisited_length_lt (u := cur) _ (hI.plt cur hcur) hcu
        · exact (attachGo_vis rows cols p _ _ cur).mpr (Or.inr (by rw [hp, List.dropLast_concat]; exact hcur))
        · intro i hi; exact (attachGo_vis rows cols p _ _ i).mpr (Or.inl hi)
    | false =>
      have hset : settle rows cols { s with path := p } = { s with path := p } :=
        settle_unvisited (s := { s with path := p }) hpl hbn
      rw [hset] at hnext
      have hl' : (next rows cols s k).path.getLast? = some nx := by rw [hnext]; exact hpl
      have hv' : (next rows cols s k).vis = s.vis := by rw [hnext]
      obtain ⟨ds, t, hst, hlen, hIt, htp, hcount⟩ := ih (next rows cols s k) nx hInext hl' (by rw [hv']; exact hbv)
        (by omega)
      rw [hv'] at hcount
      exact ⟨k :: ds, t, .step hfin hk hst, by simp; omega, hIt, htp, hcount⟩

/-- between walks: at most `m` unvisited cells are cleared by at most `m * (rows + cols + 1)` draws -/
theorem run_home {rows cols : Nat} : ∀ (m : Nat) (s : WS), Inv rows cols s → s.path = [] →
    (unvisited rows cols s.vis).length ≤ m →
    ∃ ds t, Steps rows cols s ds t ∧ finished rows cols t = true ∧ ds.length ≤ m * (rows + cols + 1) := by
  intro m
  induction m with
  | zero =>
    intro s _ hp hm
    have hu : unvisited rows cols s.vis = [] := List.length_eq_zero_iff.mp (by omega)
    exact ⟨[], s, .refl _, by simp [finished, hp, hu], by simp⟩
  | succ m ih =>
    intro s hI hp hm
    cases hu : unvisited rows cols s.vis with
    | nil => exact ⟨[], s, .refl _, by simp [finished, hp, hu], by simp⟩
    | cons u l =>
      have hfin : finished rows cols s = false := by simp [finished, hp, hu]
      have hgl : s.path.getLast? = none := by rw [hp]; rfl
      have har : arity rows cols s = (unvisited rows cols s.vis).length := by simp only [arity, hgl]
      obtain ⟨hult, hub⟩ := mem_unvisited (rows := rows) (cols := cols) (v := s.vis) (u := u) (by rw [hu]; simp)
      have hnext : next rows cols s 0 = { s with path := [u] } := by
        simp only [next, hgl, hu, List.getElem?_cons_zero]
        exact settle_unvisited (s := { s with path := [u] }) (last := u) rfl hub
      have hInext : Inv rows cols (next rows cols s 0) := inv_next hI 0
      obtain ⟨v, hv, hbv⟩ := hI.seed
      obtain ⟨ds, t, hst, hlen, hIt, htp, hcount⟩ := walk_home hv (rows + cols) (next rows cols s 0) u hInext
        (by rw [hnext]; rfl) (by rw [hnext]; exact hbv) (dist_le hult hv)
      have hv' : (next rows cols s 0).vis = s.vis := by rw [hnext]
      rw [hv'] at hcount
      obtain ⟨es, t', hst', hf', hlen'⟩ := ih t hIt htp (by omega)
      refine ⟨0 :: (ds ++ es), t', .step hfin (by rw [har, hu]; simp) (hst.trans hst'), hf', ?_⟩
      have e : (m + 1) * (rows + cols + 1) = m * (rows + cols + 1) + (rows + cols + 1) := Nat.succ_mul _ _
      simp only [List.length_cons, List.length_append]
      omega

/-- number of draws within which the machine can finish from every invariant state -/
def termL (rows cols : Nat) : Nat := (rows * cols + 1) * (rows + cols + 1)

/-- no state offers more than `max 4 (rows*cols)` equally likely draws -/
def termA (rows cols : Nat) : Nat := max 4 (rows * cols)

/-- lower bound on the probability of finishing within `termL` draws -/
def termDelta (rows cols : Nat) : Rat := (1 / (termA rows cols : Rat)) ^ termL rows cols

theorem nbrsOf_length_le (rows cols i : Nat) : (nbrsOf rows cols i).length ≤ 4 := by
  unfold nbrsOf
  simp only [List.length_append]
  split <;> split <;> split <;> split <;> simp

theorem arity_le (rows cols : Nat) (s : WS) : arity rows cols s ≤ termA rows cols := by
  unfold arity termA
  cases s.path.getLast? with
  | none => simp only; exact le_trans (unvisited_length_le rows cols s.vis) (Nat.le_max_right _ _)
  | some cur => simp only; exact le_trans (nbrsOf_length_le rows cols cur) (Nat.le_max_left _ _)

/-- quantitative "can finish": from EVERY invariant state some accepted draw list of length at most `termL` ends in a
    finished state -/
theorem finish_from {rows cols : Nat} {s : WS} (hI : Inv rows cols s) :
    ∃ ds t, Reaches (wilson rows cols) s ds t ∧ ds.length ≤ termL rows cols := by
  have e : termL rows cols = rows * cols * (rows + cols + 1) + (rows + cols + 1) := Nat.succ_mul _ _
  cases hl : s.path.getLast? with
  | none =>
    have hp : s.path = [] := List.getLast?_eq_none_iff.mp hl
    obtain ⟨ds, t, hst, hf, hlen⟩ := run_home (rows * cols) s hI hp (unvisited_length_le rows cols s.vis)
    exact ⟨ds, t, hst.reaches hf, by omega⟩
  | some cur =>
    obtain ⟨v, hv, hbv⟩ := hI.seed
    obtain ⟨ds, t, hst, hlen, hIt, htp, _⟩ := walk_home hv (rows + cols) s cur hI hl hbv
      (dist_le (hI.plt cur (List.mem_of_getLast? hl)) hv)
    obtain ⟨es, t', hst', hf', hlen'⟩ := run_home (rows * cols) t hIt htp (unvisited_length_le rows cols t.vis)
    exact ⟨ds ++ es, t', (hst.trans hst').reaches hf', by simp only [List.length_append]; omega⟩

theorem termA_pos (rows cols : Nat) : (0 : Rat) < (termA rows cols : Rat) := by
  have : 0 < termA rows cols := by unfold termA; omega
  exact_mod_cast this

theorem termDelta_pos (rows cols : Nat) : 0 < termDelta rows cols :=
  pow_pos (one_div_pos.mpr (termA_pos rows cols)) _

theorem termDelta_le_one (rows cols : Nat) : termDelta rows cols ≤ 1 := by
  have h1 : (1 : Rat) ≤ (termA rows cols : Rat) := by
    have : 1 ≤ termA rows cols := by unfold termA; omega
    exact_mod_cast this
  exact pow_le_one₀ (le_of_lt (one_div_pos.mpr (termA_pos rows cols)))
    ((div_le_one (termA_pos rows cols)).mpr h1)

/-- Goal 1: from EVERY invariant state the machine has finished within `termL` draws with probability at least
    `termDelta` -/
theorem val_termL_ge {rows cols : Nat} {s : WS} (hI : Inv rows cols s) :
    termDelta rows cols ≤ val (wilson rows cols) (fun _ => true) (termL rows cols) s := by
  obtain ⟨ds, t, hreach, hlen⟩ := finish_from hI
  have h1 := reaches_val_ge (wilson rows cols) (fun _ => true) (A := termA rows cols) (arity_le rows cols) hreach rfl
    (termL rows cols) hlen
  have hq0 : (0 : Rat) ≤ 1 / (termA rows cols : Rat) := le_of_lt (one_div_pos.mpr (termA_pos rows cols))
  have hq1 : 1 / (termA rows cols : Rat) ≤ 1 := by
    have h1 : (1 : Rat) ≤ (termA rows cols : Rat) := by
      have : 1 ≤ termA rows cols := by unfold termA; omega
      exact_mod_cast this
    exact (div_le_one (termA_pos rows cols)).mpr h1
  exact le_trans (pow_le_pow_of_le_one hq0 hq1 hlen) h1

theorem unfin_termL_le {rows cols : Nat} {s : WS} (hI : Inv rows cols s) :
    unfin (wilson rows cols) (termL rows cols) s ≤ 1 - termDelta rows cols := by
  have h1 := val_termL_ge hI
  have h2 := val_add_unfin_le_one (wilson rows cols) (termL rows cols) s
  linarith

theorem wilson_inv_step {rows cols : Nat} : ∀ s k, Inv rows cols s → (wilson rows cols).fin s = false →
    k < (wilson rows cols).arity s → Inv rows cols ((wilson rows cols).next s k) :=
  fun _ k hI _ _ => inv_next hI k

/-- Goal 2 for the Wilson machine: `termL` extra draws shrink the unfinished mass by `1 - termDelta` -/
theorem unfin_add_termL_le {rows cols : Nat} {s : WS} (hI : Inv rows cols s) (m : Nat) :
    unfin (wilson rows cols) (m + termL rows cols) s ≤
      (1 - termDelta rows cols) * unfin (wilson rows cols) m s :=
  unfin_add_le (wilson rows cols) wilson_inv_step (fun _ ht => unfin_termL_le ht) m s hI

theorem unfin_geometric {rows cols : Nat} {s : WS} (hI : Inv rows cols s) (k : Nat) :
    unfin (wilson rows cols) (k * termL rows cols) s ≤ (1 - termDelta rows cols) ^ k :=
  unfin_mul_le (wilson rows cols) wilson_inv_step (by have := termDelta_le_one rows cols; linarith)
    (fun _ ht => unfin_termL_le ht) k s hI

/-- a power of a rational in `[0,1)` drops below every positive bound -/
theorem exists_pow_le {c eps : Rat} (hc1 : c < 1) (heps : 0 < eps) : ∃ k : Nat, c ^ k ≤ eps := by
  obtain ⟨k, hk⟩ := exists_pow_lt_of_lt_one heps hc1
  exact ⟨k, le_of_lt hk⟩

end MZ.WTerm
