"""C11 — the on-disk dataset cache never serves wrong data, whatever happened to the file.

Correspondence: real `MazeDataset.from_config` on real .zanj files vs. the Lean model `MZ.Cache.fromConfig`
(driver ops C11.from_config / C11.diff / C11.defaults); the model is fed the OBSERVED runtime answers (what
`exists()+read` gives on the faulted file, what an interrupted save left behind) and must predict the rest
(which branch, which exception, generate/save issued or not, returned config, file afterwards).
Oracle (written from the property statement, independent of the model): after any damage the request returns the
mazes a fresh generation gives and leaves a loadable file with those mazes; a foreign dataset under the requested
name is served only if its config equals the request in every field but n_mazes (or has exactly one trailing
collect_generation_meta record more), otherwise the request raises.

Fault enumeration runs in worker processes (spawn), every file lives under the per-run directory in .work/."""
from __future__ import annotations
import dataclasses, hashlib, inspect, json, os, shutil, sys, warnings
from collections import Counter
from pathlib import Path

RULE = ("base configs: dfs 3x3 n=4 (full format), wilson 4x4 n=5 seed 7 with a path_length filter and endpoint kwargs, percolation "
        "3x3 with collect_generation_meta requested, dfs 2x2 n=120 (minimal format, .npy externals), dfs 3x3 n=130 with a path_length "
        "filter (minimal format + filters: finding key minimal-save-appends-cgm-filters). Per config the pristine cache file written "
        "by the real from_config is damaged: removed, emptied, truncated (quick: every 16th offset + all of the first and last "
        "256 bytes of the base file, every 96th + first/last 64 of the others; thorough: EVERY offset of three files), one byte xor-ed (quick: 300/100 random (offset,mask); thorough: every offset x 8 masks on "
        "the base config, random on the others), save interrupted at each low-level write of zipfile (whole and half chunk), a dataset "
        "of a foreign config (each field changed in turn, n_mazes only, trailing collect_generation_meta, foreign extra filter) or a "
        "non-dataset object saved under the requested name; all 64 flag combinations x 4 file states; random fault/request sequences "
        "with interrupted saves. distinct = distinct (config, step list); non-trivial = the file was present and damaged/foreign, or "
        "a save was interrupted.; later additions: cache files whose config lacks a filter or a kwargs key the REQUEST has, colliding file names, zip-record faults, requests whose returned dataset the caller edits in place before asking again, two requests differing only in a maze count >= 1000 against one cache directory")
ASSUMPTIONS = ["a damaged .zanj file makes ZANJ.read raise or return the dataset that was saved (zipfile CRC / json / np.load): validated on every "
               "enumerated fault, not proved",
               "ZANJ read(save(ds)) returns ds (C05's subject); checked here on every file left behind",
               "serial generation is deterministic for a config (C04's subject): the reference mazes are generated once per worker and compared bit for bit"]
TRUSTED = ["ReadOutcome / save-cut outcome are observed by the harness (own call of MazeDataset.read before and after each request) and fed to the model",
           "interrupted saves are simulated by an unbuffered file object that raises OSError from the k-th low-level write on (superset of real crash points)",
           "config fields are compared as canonical JSON text of their serialized values (long values hashed)"]

FRESH_GEN_ID = 100      # payload id of generate()'s raw result in the driver world; each applied filter adds 1
FOREIGN_ID, UNKNOWN_ID = 7, 9
DEFAULT_FLAGS = dict(do_generate=True, load_local=True, save_local=True, do_download=True,
                     except_on_config_mismatch=True, allow_generation_metadata_filter_mismatch=True)
FLAG_NAMES = list(DEFAULT_FLAGS)

# =============================================================================================== worker side
_W: dict = {}


def _init_worker(base: str, repo: str):
    warnings.filterwarnings("ignore")
    sys.unraisablehook = lambda *a, **k: None
    if repo not in sys.path:
        sys.path.insert(0, repo)
    d = Path(base) / f"w{os.getpid()}"
    d.mkdir(parents=True, exist_ok=True)
    _W["dir"] = d
    _W["ref"] = {}


def make_cfg(spec: dict):
    from maze_dataset import MazeDatasetConfig
    from maze_dataset.generation import GENERATORS_MAP
    kw = dict(spec)
    kw["maze_ctor"] = GENERATORS_MAP[kw.pop("maze_ctor", "gen_dfs")]
    if "applied_filters" in kw:
        kw["applied_filters"] = [dict(name=f["name"], args=tuple(f.get("args", ())), kwargs=dict(f.get("kwargs", {}))) for f in kw["applied_filters"]]
    if "endpoint_kwargs" in kw:
        kw["endpoint_kwargs"] = {k: ([tuple(x) for x in v] if isinstance(v, list) else v) for k, v in kw["endpoint_kwargs"].items()}
    return MazeDatasetConfig(**kw)


def _canon_val(v) -> str:
    t = json.dumps(v, sort_keys=True, default=str)
    return t if len(t) <= 120 else "#" + hashlib.blake2b(t.encode(), digest_size=8).hexdigest()


def canon_cfg(cfg) -> dict:
    ser = cfg.serialize()
    fields = [[f.name, _canon_val(ser[f.name])] for f in dataclasses.fields(cfg) if f.name != "applied_filters"]
    filters = [[str(f["name"]), [_canon_val(a) for a in f.get("args", ())],
                [[str(k), _canon_val(v)] for k, v in sorted(dict(f.get("kwargs", {})).items())]] for f in cfg.applied_filters]
    return dict(fields=fields, filters=filters)


def sig(ds) -> str:
    h = hashlib.blake2b(digest_size=12)
    for m in ds.mazes:
        h.update(str(m.connection_list.shape).encode()); h.update(m.connection_list.astype(bool).tobytes())
        h.update(str(m.solution.shape).encode()); h.update(m.solution.astype("int64").tobytes())
    return h.hexdigest()


def _exc_name(e: BaseException) -> str:
    for k in (ValueError, AssertionError, IndexError, KeyError, AttributeError, OSError, NotImplementedError, RecursionError):
        if isinstance(e, k):
            return k.__name__
    return "other:" + type(e).__name__


def observe_file(path: Path) -> dict:
    """what `exists()` + `MazeDataset.read` answer on the file as it is now (the model's ReadOutcome)"""
    from maze_dataset import MazeDataset
    if not path.exists():
        return dict(kind="absent")
    try:
        obj = MazeDataset.read(path)
    except Exception as e:
        return dict(kind="raises", exc=_exc_name(e), size=path.stat().st_size)
    if not isinstance(obj, MazeDataset):
        return dict(kind="other", type=type(obj).__name__)
    return dict(kind="ok", cfg=canon_cfg(obj.cfg), sig=sig(obj), n=len(obj))


class _CutFile:
    """unbuffered file whose k-th low-level write (and every later one) raises: everything before it is on disk"""
    def __init__(self, path, k, half):
        self.f = open(path, "w+b", buffering=0); self.k, self.half, self.n, self.cut = k, half, 0, False
        self.name = str(path)
    def write(self, b):
        if self.cut or self.n >= self.k:
            if not self.cut and self.half and len(b) > 1:
                self.f.write(bytes(b)[: len(b) // 2])
            self.cut = True
            raise OSError("simulated crash: write cut")
        self.n += 1
        return self.f.write(b)
    def tell(self): return self.f.tell()
    def seek(self, *a): return self.f.seek(*a)
    def seekable(self): return True
    def flush(self): return None
    def read(self, *a): return self.f.read(*a)
    def close(self): return self.f.close()


class _Spy:
    """counts read / generate / save issued by from_config (wrappers on the MazeDataset class, removed afterwards)
       and optionally cuts the save's zip writes"""
    def __init__(self, path: Path, cut):
        self.path, self.cut, self.ev, self.files = path, cut, Counter(), []
    def __enter__(self):
        import zipfile
        from maze_dataset import MazeDataset
        from maze_dataset.dataset.dataset import GPTDataset
        ev = self.ev
        self._gen = MazeDataset.__dict__["generate"]
        gen_f = self._gen.__func__
        MazeDataset.generate = classmethod(lambda cls, *a, **k: (ev.update(["generate"]), gen_f(cls, *a, **k))[1])
        read_f = GPTDataset.__dict__["read"].__func__
        MazeDataset.read = classmethod(lambda cls, *a, **k: (ev.update(["read"]), read_f(cls, *a, **k))[1])
        save_f = GPTDataset.__dict__["save"]
        MazeDataset.save = lambda s, *a, **k: (ev.update(["save"]), save_f(s, *a, **k))[1]
        self._zip = zipfile.ZipFile
        if self.cut is not None:
            real, spy = zipfile.ZipFile, self
            def factory(file, mode="r", *a, **k):
                if mode == "w" and os.path.abspath(str(file)) == os.path.abspath(str(spy.path)):
                    cf = _CutFile(str(file), spy.cut[0], spy.cut[1]); spy.files.append(cf)
                    return real(cf, mode, *a, **k)
                return real(file, mode, *a, **k)
            zipfile.ZipFile = factory
        return self
    def __exit__(self, *a):
        import zipfile
        from maze_dataset import MazeDataset
        zipfile.ZipFile = self._zip
        MazeDataset.generate = self._gen
        del MazeDataset.read, MazeDataset.save
        for f in self.files:
            try: f.close()
            except Exception: pass


def _reference(spec: dict) -> dict:
    """fresh generation of the request (no cache involved): the mazes every healed request must return"""
    from maze_dataset import MazeDataset
    key = json.dumps(spec, sort_keys=True)
    if key not in _W["ref"]:
        cfg = make_cfg(spec)
        ds = MazeDataset.from_config(cfg, load_local=False, save_local=False, do_download=False)
        _W["ref"][key] = dict(sig=sig(ds), n=len(ds), cfg=canon_cfg(ds.cfg), req=canon_cfg(cfg), fname=cfg.to_fname(),
                              known=sorted(k for k in MazeDataset._FILTER_NAMESPACE.__dict__ if not k.startswith("__")))
    return _W["ref"][key]


def _apply_fault(path: Path, fault: dict, pristine: bytes, spec: dict):
    from maze_dataset import MazeDataset
    t = fault["type"]
    if t == "absent":
        if path.exists(): path.unlink()
    elif t == "pristine":
        path.write_bytes(pristine)
    elif t == "trunc":
        path.write_bytes(pristine[: fault["off"]])
    elif t == "xor":
        b = bytearray(pristine); b[fault["off"]] ^= fault["mask"]; path.write_bytes(bytes(b))
    elif t == "foreign":
        ds = MazeDataset.from_config(make_cfg(fault["spec"]), load_local=False, save_local=False, do_download=False)
        if fault.get("collect"):
            ds = ds.filter_by.collect_generation_meta()
        if fault.get("extra_filter"):
            ds.cfg.applied_filters.append(dict(name=fault["extra_filter"], args=(), kwargs={}))
        if path.exists(): path.unlink()
        ds.save(path)
        return dict(sig=sig(ds), cfg=canon_cfg(ds.cfg), ser=_ser_fields(ds.cfg))
    elif t == "other":
        from zanj import ZANJ
        if path.exists(): path.unlink()
        if fault["what"] == "dict":
            ZANJ().save({"hello": [1, 2, 3]}, path)
        elif fault["what"] == "cfg":
            ZANJ().save(make_cfg(spec).serialize(), path)
        else:
            from maze_dataset.dataset.collected_dataset import MazeDatasetCollection, MazeDatasetCollectionConfig
            m = MazeDataset.from_config(make_cfg(spec), load_local=False, save_local=False, do_download=False)
            c = MazeDatasetCollection(MazeDatasetCollectionConfig(name="coll", maze_dataset_configs=[m.cfg]), [m])
            c.save(path)
    else:
        raise ValueError(t)
    return None


def _ser_fields(cfg) -> dict:
    ser = cfg.serialize()
    return {f.name: json.dumps(ser[f.name], sort_keys=True, default=str) for f in dataclasses.fields(cfg)}


def run_task(task: dict) -> dict:
    """one step list on one config in a private directory; returns what was observed at every request"""
    from maze_dataset import MazeDataset
    spec, pristine = task["cfg"], task.get("pristine", b"")
    ref = _reference(spec)
    d = _W["dir"] / "t"
    shutil.rmtree(d, ignore_errors=True); d.mkdir(parents=True)
    path = d / (ref["fname"] + ".zanj")
    calls, foreigns = [], []
    for st in task["steps"]:
        if "fault" in st:
            f = _apply_fault(path, st["fault"], pristine, spec)
            if f is not None: foreigns.append(f)
            continue
        c = st["call"]
        flags = dict(DEFAULT_FLAGS); flags.update(c.get("flags", {}))
        cut = tuple(c["cut"]) if c.get("cut") is not None else None
        pre = observe_file(path)
        cfg = make_cfg(spec)
        req_before = canon_cfg(cfg)
        res = None
        with warnings.catch_warnings(record=True) as wl:
            warnings.simplefilter("always")
            with _Spy(path, cut) as spy:
                try:
                    out = MazeDataset.from_config(cfg, local_base_path=d, **flags)
                    res = dict(kind="ok", is_dataset=isinstance(out, MazeDataset))
                    if res["is_dataset"]:
                        res.update(cfg=canon_cfg(out.cfg), sig=sig(out), n=len(out))
                        if c.get("spoil_result"):
                            # the caller owns what it was given: it thins and reorders the dataset in place (after it was observed here)
                            out.mazes.reverse()
                            if len(out.mazes) > 1: out.mazes.pop()
                            out.update_self_config()
                except Exception as e:
                    res = dict(kind=_exc_name(e), msg=str(e)[:200])
            warned = any("config mismatch" in str(w.message) for w in wl)
        was_cut = any(f.cut for f in spy.files)
        post = observe_file(path)
        calls.append(dict(flags=flags, cut=list(cut) if cut else None, was_cut=was_cut, pre=pre, res=res, post=post, warned=warned,
                          events=dict(spy.ev), req_mutated=canon_cfg(cfg) != req_before))
    shutil.rmtree(d, ignore_errors=True)
    return dict(task=task["id"], ref=ref, foreigns=foreigns, calls=calls)


# =============================================================================================== parent side
def base_specs(ctx) -> dict:
    return {
        "dfs3": dict(name="t", grid_n=3, n_mazes=4),
        "wil4f": dict(name="w", grid_n=4, n_mazes=5, seed=7, maze_ctor="gen_wilson", endpoint_kwargs=dict(deadend_start=True),
                      applied_filters=[dict(name="path_length", kwargs=dict(min_length=3))]),
        "perc3m": dict(name="p", grid_n=3, n_mazes=3, maze_ctor="gen_dfs_percolation", maze_ctor_kwargs=dict(p=0.3),
                       applied_filters=[dict(name="collect_generation_meta")]),
        "cut3": dict(name="c", grid_n=3, n_mazes=6, seed=3, maze_ctor_kwargs=dict(do_forks=False),
                     applied_filters=[dict(name="cut_percentile_shortest", kwargs=dict(percentile=30.0))]),
        "big2": dict(name="big", grid_n=2, n_mazes=120),
        "bigf3": dict(name="bigf", grid_n=3, n_mazes=130, applied_filters=[dict(name="path_length", kwargs=dict(min_length=2))]),
    }


_COLL = {}
def _colliding_seed(spec: dict):
    """a different seed for which the configuration gets the SAME cache file name (the name carries only hash % 10**5): found by brute
    force over the serialized text, verified on real configuration objects"""
    import hashlib
    key = json.dumps(spec, sort_keys=True, default=str)
    if key in _COLL: return _COLL[key]
    out = None
    try:
        cfg = make_cfg(spec)
        text = json.dumps(cfg.serialize())
        seed0 = int(cfg.seed)
        needle = f'"seed": {seed0}'
        if text.count(needle) == 1 and int.from_bytes(hashlib.sha256(text.encode()).digest(), "big") == cfg.stable_hash_cfg():
            want = cfg.stable_hash_cfg() % 10**5
            for sd in range(1, 600000):
                if sd == seed0: continue
                h = int.from_bytes(hashlib.sha256(text.replace(needle, f'"seed": {sd}').encode()).digest(), "big") % 10**5
                if h == want:
                    c2 = make_cfg(dict(spec, seed=sd))
                    if c2.to_fname() == cfg.to_fname(): out = sd; break
    except Exception:
        out = None
    _COLL[key] = out
    return out


def foreign_variants(spec: dict) -> list[tuple[str, dict]]:
    """(label, fault) — datasets of OTHER configs to be placed under the requested name"""
    out = []
    def v(label, **ch):
        s = dict(spec); s.update(ch); out.append((label, dict(type="foreign", spec=s)))
    v("seed", seed=(spec.get("seed", 42) + 1))
    v("grid_n", grid_n=spec["grid_n"] + 1)
    v("name", name=spec["name"] + "x")
    v("maze_ctor", maze_ctor="gen_dfs" if spec.get("maze_ctor", "gen_dfs") != "gen_dfs" else "gen_wilson", maze_ctor_kwargs={})
    v("maze_ctor_kwargs", maze_ctor="gen_dfs", maze_ctor_kwargs=dict(do_forks=False))
    v("endpoint_kwargs", endpoint_kwargs=dict(endpoints_not_equal=True))
    v("seq_len_max", seq_len_max=256)
    v("seq_len_min", seq_len_min=0)
    v("filters+", applied_filters=list(spec.get("applied_filters", [])) + [dict(name="path_length", kwargs=dict(min_length=1))])
    if spec.get("applied_filters") and spec["applied_filters"][0].get("kwargs"):
        for lab, dx in (("filter_kwargs", 2), ("filter_kwargs-", -1)):     # same filter NAMES, other arguments (stricter / laxer)
            f0 = dict(spec["applied_filters"][0]); f0["kwargs"] = {k: (max(0, x + dx) if isinstance(x, int) else x) for k, x in f0["kwargs"].items()}
            v(lab, applied_filters=[f0] + list(spec["applied_filters"][1:]))
    if spec.get("applied_filters"):
        v("filters-", applied_filters=list(spec["applied_filters"][1:]))      # the file's config LACKS a filter the request has
    # the REQUEST has a key the file's config lacks (a comparison that only walks the stored side misses it)
    for fld in ("maze_ctor_kwargs", "endpoint_kwargs"):
        if spec.get(fld):
            k0 = sorted(spec[fld])[0]
            v(fld + "-key", **{fld: {k: x for k, x in spec[fld].items() if k != k0}})
    if spec.get("applied_filters") and spec["applied_filters"][0].get("name") == "cut_percentile_shortest" and spec["applied_filters"][0].get("kwargs"):
        f0 = dict(spec["applied_filters"][0]); f0["kwargs"] = {}          # the filter's default argument instead of the requested one
        v("filter_kwargs-key", applied_filters=[f0] + list(spec["applied_filters"][1:]))
    cs = _colliding_seed(spec) if spec.get("n_mazes", 99) <= 5 else None      # (a few seconds of search each: small configs only)
    if cs is not None:
        v("seed_same_fname", seed=cs)      # another seed whose 5-digit hash suffix, hence cache file NAME, is identical: the name proves nothing
    v("n_mazes_only", n_mazes=spec["n_mazes"] + 2)
    out.append(("same", dict(type="foreign", spec=dict(spec))))
    out.append(("trailing_cgm", dict(type="foreign", spec=dict(spec), collect=True)))
    out.append(("trailing_strip", dict(type="foreign", spec=dict(spec), extra_filter="strip_generation_meta")))
    return out


def build_tasks(ctx, pristine: dict[str, bytes], deep: bool) -> list[dict]:
    """the step lists of this run; `deep` = thorough-tier densities"""
    rng, T = ctx.rng, []
    def add(name, steps, cls):
        T.append(dict(id=len(T), name=name, cfg=SPECS[name], pristine=pristine[name], steps=steps, cls=cls))
    call = dict(call={})
    for name, data in pristine.items():
        n = len(data)
        primary = name == "dfs3"
        # --- removal, empty file, intact file, plain second request
        add(name, [dict(fault=dict(type="absent")), call, call], "absent")
        add(name, [dict(fault=dict(type="trunc", off=0)), call], "empty")
        add(name, [dict(fault=dict(type="pristine")), call], "intact")
        # what a request returns is edited in place by its caller; later requests (file untouched) must not see those edits
        spoil = dict(call=dict(spoil_result=True))
        add(name, [dict(fault=dict(type="absent")), spoil, spoil, spoil, call], "intact")
        add(name, [dict(fault=dict(type="pristine")), spoil, call, spoil, call], "intact")
        # --- truncation
        if deep and name in ("dfs3", "big2", "wil4f"):
            offs = range(n)
        else:
            stride, edge = (16, 256) if primary else (96, 64)
            offs = sorted(set(range(0, n, stride)) | set(range(0, min(edge, n))) | set(range(max(0, n - edge), n))) if name != "bigf3" \
                else sorted(set(range(0, n, 256)))
        for off in offs:
            add(name, [dict(fault=dict(type="trunc", off=off)), call], "trunc")
        # --- single-byte corruption
        if deep and primary:
            xs = [(o, m) for o in range(n) for m in (1, 2, 4, 8, 16, 32, 64, 128)]
        else:
            k = (300 if primary else 100 if name != "bigf3" else 20) * (10 if deep else 1)
            xs = [(rng.randrange(n), rng.choice([1, 2, 4, 8, 16, 32, 64, 128, 255, rng.randrange(1, 256)])) for _ in range(k)]
        for off, mask in xs:
            add(name, [dict(fault=dict(type="xor", off=off, mask=mask)), call], "xor")
        # --- every byte of the zip container's own records (local headers, central directory, end record): version/flag/method/size
        #     fields make zipfile fail in its own ways (NotImplementedError, RuntimeError, BadZipFile), not only with OSError/ValueError
        if name in ("dfs3", "big2") or deep:
            zoffs = set()
            for sig_, ln in ((b"PK\x03\x04", 30), (b"PK\x01\x02", 46), (b"PK\x05\x06", 22)):
                i = data.find(sig_)
                while i != -1:
                    zoffs.update(range(i, min(n, i + ln))); i = data.find(sig_, i + 1)
            for off in sorted(zoffs):
                for mask in ((255, 1) if (primary or deep) else (255,)):
                    add(name, [dict(fault=dict(type="xor", off=off, mask=mask)), call], "xor-zip-record")
        # --- save interrupted at each low-level write, then a second request must heal
        for k in range(0, 60 if name != "bigf3" or deep else 0):
            for half in ((False, True) if (primary or deep) else (k % 2 == 1,)):
                add(name, [dict(fault=dict(type="absent")), dict(call=dict(cut=[k, half])), call], "cut")
        # --- foreign datasets / other objects under the requested name
        if name in ("dfs3", "wil4f", "big2", "perc3m", "cut3") or deep:
            for label, f in foreign_variants(SPECS[name]):
                add(name, [dict(fault=f), call], "foreign:" + label)
        elif name == "bigf3":    # a minimal-format file (>= 100 mazes after filtering) of a config that differs only in a filter argument / the seed
            for label, f in foreign_variants(SPECS[name]):
                if label in ("filter_kwargs", "filter_kwargs-", "seed", "trailing_cgm"):
                    add(name, [dict(fault=f), call], "foreign:" + label)
            for what in ("dict", "cfg", "collection"):
                add(name, [dict(fault=dict(type="other", what=what)), call], "other:" + what)
    # --- every flag combination on four file states (correspondence of the decision logic)
    for name in (["dfs3"] if not deep else list(pristine)):
        n = len(pristine[name])
        for bits in range(64):
            fl = {k: bool(bits >> i & 1) for i, k in enumerate(FLAG_NAMES)}
            for label, f in (("absent", dict(type="absent")), ("trunc", dict(type="trunc", off=n // 2)), ("intact", dict(type="pristine")),
                             ("foreign", foreign_variants(SPECS[name])[0][1])):
                if name != "dfs3" and label in ("foreign",) and not deep:
                    continue
                add(name, [dict(fault=f), dict(call=dict(flags=fl)), call], "flags:" + label)
    # --- random fault / request sequences with interrupted saves
    for _ in range(30 if not deep else 600):
        name = rng.choice(["dfs3", "wil4f", "big2", "bigf3"])
        n = len(pristine[name])
        steps = []
        for _ in range(rng.randint(3, 8)):
            r = rng.random()
            if r < 0.45:
                steps.append(dict(call=dict(cut=[rng.randrange(0, 40), rng.random() < 0.5]) if rng.random() < 0.35 else {}))
            elif r < 0.6:
                steps.append(dict(fault=dict(type="trunc", off=rng.randrange(n))))
            elif r < 0.75:
                steps.append(dict(fault=dict(type="xor", off=rng.randrange(n), mask=rng.randrange(1, 256))))
            elif r < 0.85:
                steps.append(dict(fault=dict(type="absent")))
            elif r < 0.92:
                steps.append(dict(fault=dict(type="pristine")))
            else:
                steps.append(dict(fault=rng.choice(foreign_variants(SPECS[name]))[1]))
        steps.append(call)
        add(name, steps, "sequence")
    return T


SPECS: dict = {}


class _Workers:
    """N plain interpreter processes (`python c11.py --worker`), fed one JSON task per line. NOT multiprocessing children on purpose:
       inside an mp child `MazeDataset.generate` reseeds numpy with seed + worker id (maze_dataset.py:209-216), so a serial
       generation there differs from the one in a main process (C04's subject); cache requests are issued from plain processes."""
    def __init__(self, ctx, n_tasks):
        import subprocess, common as C
        self.jobs = max(1, min(16, os.cpu_count() or 1, (n_tasks + 19) // 20))
        base = ctx.workdir / "cache"
        base.mkdir(parents=True, exist_ok=True)
        env = dict(os.environ, PYTHONDONTWRITEBYTECODE="1")
        self.procs = [subprocess.Popen([sys.executable, str(Path(__file__).resolve()), "--worker", str(base), str(C.REPO)],
                                       stdin=subprocess.PIPE, stdout=subprocess.PIPE, stderr=subprocess.DEVNULL, text=True, env=env)
                      for _ in range(self.jobs)]

    def imap_unordered(self, tasks):
        import base64, queue, threading
        todo, done = queue.Queue(), queue.Queue()
        for t in tasks: todo.put(t)
        self.stop = False
        def feed(p):
            try:
                while not self.stop:
                    try: t = todo.get_nowait()
                    except queue.Empty: break
                    w = {k: v for k, v in t.items() if k != "pristine"}
                    w["pristine_b64"] = base64.b64encode(t.get("pristine", b"")).decode()
                    p.stdin.write(json.dumps(w) + "\n"); p.stdin.flush()
                    line = p.stdout.readline()
                    if not line:
                        done.put(RuntimeError(f"cache worker died on task {t['id']} ({t['name']}: {_short(t)})")); return
                    done.put(json.loads(line))
            except Exception as e:
                done.put(e)
            finally:
                done.put(None)
        th = [threading.Thread(target=feed, args=(p,), daemon=True) for p in self.procs]
        for t in th: t.start()
        alive = len(th)
        while alive:
            x = done.get()
            if x is None: alive -= 1
            elif isinstance(x, Exception): self.stop = True; raise x
            else: yield x

    def close(self):
        self.stop = True
        for p in self.procs:
            try: p.stdin.close()
            except Exception: pass
        for p in self.procs:
            try: p.wait(timeout=5)
            except Exception: p.kill()


def _worker_main(base: str, repo: str):
    import base64
    _init_worker(base, repo)
    out = sys.stdout
    sys.stdout = open(os.devnull, "w")       # nothing but replies on the pipe
    for line in sys.stdin:
        t = json.loads(line)
        t["pristine"] = base64.b64decode(t.pop("pristine_b64", ""))
        try:
            r = run_task(t)
        except Exception as e:   # infrastructure problem inside the worker: report, let the parent decide
            r = dict(task=t["id"], worker_error=f"{type(e).__name__}: {e}")
        out.write(json.dumps(r, default=str) + "\n"); out.flush()


def _pristine(ctx, specs) -> dict[str, bytes]:
    """the cache file the real from_config writes for each base config (written in-process, in the run directory)"""
    from maze_dataset import MazeDataset
    out = {}
    d = ctx.workdir / "pristine"
    for name, spec in specs.items():
        shutil.rmtree(d, ignore_errors=True); d.mkdir(parents=True)
        cfg = make_cfg(spec)
        MazeDataset.from_config(cfg, local_base_path=d, do_download=False)
        p = d / (cfg.to_fname() + ".zanj")
        if not p.exists():
            ctx.violate(f"from_config({spec}, local_base_path=<empty dir>) returned without leaving a cache file behind",
                        dict(task=dict(name=name, cls="absent", cfg=spec, steps=[dict(fault=dict(type="absent")), dict(call={})], pristine_b64="")),
                        key="no-loadable-file-left")
            out[name] = b""
            continue
        out[name] = p.read_bytes()
    shutil.rmtree(d, ignore_errors=True)
    return out


# ----------------------------------------------------------------------------------------------- oracle
def _matches(req_ser: dict, other_ser: dict) -> str | None:
    """property statement: the stored config matches the request in every field other than the maze count —
       or (documented allowance) has exactly one trailing collect_generation_meta record more. Returns why, or None."""
    diff = [k for k in req_ser if k != "n_mazes" and req_ser[k] != other_ser.get(k)]
    if not diff:
        return "equal"
    if diff == ["applied_filters"]:
        a, b = json.loads(req_ser["applied_filters"]), json.loads(other_ser["applied_filters"])
        if len(b) == len(a) + 1 and b[:-1] == a and b[-1]["name"] == "collect_generation_meta" and not b[-1]["args"] and not b[-1]["kwargs"]:
            return "allowance"
    return None


def judge(ctx, task: dict, obs: dict):
    """independent oracle on one step list; stops at the first violation of the task.
       state = what has happened to the file since the last completed default request:
       clean | damaged (only removal/truncation/corruption/cut of a file written for THIS config) | foreign | other | mixed"""
    ref, spec = obs["ref"], task["cfg"]
    bigf = bool(spec.get("applied_filters")) and ref["n"] >= 100
    state, foreign_ok, foreign_spec, ci, fi, cur_foreign = "clean", None, None, 0, 0, None
    for st in task["steps"]:
        if "fault" in st:
            t = st["fault"]["type"]
            if t == "pristine":
                state = "clean"          # the file from_config itself wrote for this config
            elif t == "absent":
                state = "damaged"
            elif t in ("trunc", "xor"):
                state = "damaged" if state in ("clean", "damaged") else "mixed"
            elif t == "foreign":
                state, foreign_spec = "foreign", dict(st["fault"].get("spec", {}), collect=st["fault"].get("collect"), extra_filter=st["fault"].get("extra_filter"))
                cur_foreign = obs["foreigns"][fi]; fi += 1
                foreign_ok = _matches(_ser_fields(make_cfg(spec)), cur_foreign["ser"])
            else:
                state = "other"
            continue
        c = obs["calls"][ci]; ci += 1
        default = c["flags"] == DEFAULT_FLAGS
        res, post = c["res"], c["post"]
        case = dict(task=_replayable(task), call_index=ci - 1, pre=c["pre"], result=res, post=post, events=c["events"], state=state)
        if c["req_mutated"]:
            ctx.violate(f"from_config modified the configuration object passed in ({task['name']}, {task['cls']})", case, key="request-config-mutated")
            return
        if c["was_cut"]:
            # the interrupted request itself may fail; whatever it left is damage (of our own file) or still the foreign file
            if res["kind"] == "ok":
                ctx.violate("from_config returned normally although its save was cut", case, key="cut-save-unnoticed")
                return
            state = "damaged" if state in ("clean", "damaged") else "mixed"
            continue
        if not default:
            fl = c["flags"]
            if res["kind"] == "ok" and fl["except_on_config_mismatch"]:
                fsig = (cur_foreign or {}).get("sig")
                if state in ("clean", "damaged") and res.get("sig") != ref["sig"]:
                    ctx.violate(f"flags {fl}: returned mazes differ from a fresh generation after {_short(task)}", case, key="wrong-data-served")
                    return
                if state == "foreign" and foreign_ok is None and res.get("sig") == fsig != ref["sig"]:
                    ctx.violate(f"flags {fl}: a dataset of a foreign config under the requested name was served", case, key="foreign-cache-served")
                    return
            state = "damaged" if state in ("clean", "damaged") else "mixed"
            continue
        key_sfx = "minimal-save-appends-cgm-filters" if (bigf and c["pre"]["kind"] == "ok" and c["pre"].get("sig") == ref["sig"]) else None
        if state in ("clean", "damaged"):
            if res["kind"] != "ok":
                ctx.violate(f"request on a {'self-written' if state == 'clean' else 'damaged'} cache file raised {res['kind']}: {res.get('msg', '')[:160]} "
                            f"(config {spec}, steps {_short(task)})", case, key=key_sfx or "damaged-cache-not-healed")
                return
            if res.get("sig") != ref["sig"] or res.get("n") != ref["n"]:
                ctx.violate(f"request returned mazes that differ from a fresh generation (config {spec}, steps {_short(task)})", case, key="wrong-data-served")
                return
            if post["kind"] != "ok" or post.get("sig") != ref["sig"]:
                ctx.violate(f"request left no loadable file with the right mazes behind: post={post.get('kind')} (config {spec}, steps {_short(task)})",
                            case, key="no-loadable-file-left")
                return
            state = "clean"
        elif state == "foreign":
            if foreign_ok is None:
                if res["kind"] == "ok":
                    ctx.violate(f"a dataset of a foreign config placed under the requested name was served silently (request {spec}, file of {foreign_spec})",
                                case, key="foreign-cache-served")
                    return
                # the foreign file stays where it is; nothing else is promised
            else:
                if res["kind"] != "ok":
                    ctx.violate(f"a cache file whose config matches the request ({foreign_ok}) was rejected: {res['kind']} {res.get('msg', '')[:160]} "
                                f"(request {spec}, file of {foreign_spec})", case, key=key_sfx or "matching-cache-rejected")
                    return
                if foreign_spec.get("n_mazes") == spec["n_mazes"] and res.get("sig") != ref["sig"]:
                    # same config (up to the allowance) generated with the same maze count: the mazes must be the fresh ones
                    ctx.violate("a matching cache file was served with mazes that differ from a fresh generation", case, key="wrong-data-served")
                    return
                # a cache hit leaves the (matching) foreign file in place; only a regeneration makes the file ours
                state = "clean" if post.get("sig") == ref["sig"] else "foreign"
        else:  # other object / damaged foreign file: an error is fine, data other than the fresh mazes is not
            if res["kind"] == "ok" and res.get("sig") != ref["sig"]:
                ctx.violate(f"after {_short(task)} the request returned data that is not the fresh generation", case, key="foreign-cache-served")
                return
            if res["kind"] == "ok" and post["kind"] == "ok" and post.get("sig") == ref["sig"]:
                state = "clean"


def _short(task):
    out = []
    for s in task["steps"]:
        if "fault" in s:
            f = s["fault"]; out.append(f["type"] + "".join(f"@{f[k]}" for k in ("off",) if k in f) + (f"^{f['mask']}" if "mask" in f else ""))
        else:
            c = s["call"]; out.append("call" + (f"[cut {c['cut']}]" if c.get("cut") else "") + ("[flags]" if c.get("flags") else "") + ("[the caller then edits the returned dataset in place]" if c.get("spoil_result") else ""))
    return " > ".join(out)


def _replayable(task):
    import base64
    t = {k: v for k, v in task.items() if k != "pristine"}
    t["pristine_b64"] = base64.b64encode(task.get("pristine", b"")).decode()
    return t


# ----------------------------------------------------------------------------------------------- model correspondence
def _read_json(o: dict, ref: dict, foreigns) -> dict:
    if o["kind"] in ("absent", "raises", "other"):
        return dict(kind=o["kind"])
    return dict(kind="ok", cfg=o["cfg"], id=_payload_id(o.get("sig"), ref, foreigns))


def _payload_id(s, ref, foreigns) -> int:
    if s == ref["sig"]:
        return FRESH_GEN_ID + len(ref["req"]["filters"])
    for k, f in enumerate(foreigns or []):
        if s == f["sig"]:
            return FOREIGN_ID + 1000 * k
    return UNKNOWN_ID


# configMismatch: ValueError from from_config itself, or RecursionError out of muutils' array_safe_eq inside cfg.diff when two
# serialized string values of EQUAL length differ (it recurses on 1-character strings forever) — an error either way
ERR_CLASS = dict(noWayToLoad={"ValueError"}, failedToLoad={"ValueError"}, configMismatch={"ValueError", "RecursionError"}, unknownFilter={"ValueError"},
                 filterInfoMismatch={"ValueError"}, notADataset={"AttributeError", "ValueError"}, saveInterrupted={"OSError"},
                 downloadRaised=set(), generateRaised=set(), filterRaised=set())


def model_requests(task, obs) -> list[dict]:
    ref, reqs = obs["ref"], []
    for c in obs["calls"]:
        reqs.append(dict(op="C11.from_config", flags=c["flags"], cfg=ref["req"], read=_read_json(c["pre"], ref, obs.get("foreigns")),
                         download="notImplemented", gen=dict(kind="ok", id=FRESH_GEN_ID), known=ref["known"], filter_raises=[], len=ref["n"],
                         save_cut=_read_json(c["post"], ref, obs.get("foreigns")) if c["was_cut"] else None))
    return reqs


def compare(ctx, task, obs, replies):
    ref = obs["ref"]
    for i, (c, m) in enumerate(zip(obs["calls"], replies)):
        where = f"{task['name']} [{_short(task)}] call {i}"
        if "error" in m:
            ctx.disagree(f"driver error {m['error']} at {where}", _replayable(task)); continue
        ctx.traces_validated += 1
        res, ev = c["res"], c["events"]
        if m["res"] == "ok":
            if res["kind"] != "ok":
                ctx.disagree(f"model returns a dataset, from_config raised {res['kind']}: {res.get('msg', '')[:100]} at {where}", _replayable(task)); continue
            got = dict(did_load_local=ev.get("generate", 0) == 0, generated=ev.get("generate", 0) > 0, saved=ev.get("save", 0) > 0,
                       warned=c["warned"], out_cfg=res.get("cfg"), out_id=_payload_id(res.get("sig"), ref, obs.get("foreigns")))
            want = {k: m[k] for k in got}
            if got != want:
                d = {k: (want[k], got[k]) for k in got if got[k] != want[k]}
                ctx.disagree(f"model vs from_config differ (model, impl) {d} at {where}", _replayable(task)); continue
        else:
            if res["kind"] == "ok":
                ctx.disagree(f"model raises {m['res']}, from_config returned a dataset at {where}", _replayable(task)); continue
            if res["kind"] not in ERR_CLASS.get(m["res"], set()):
                ctx.disagree(f"model raises {m['res']}, from_config raised {res['kind']}: {res.get('msg', '')[:100]} at {where}", _replayable(task)); continue
            if m["res"] == "configMismatch" and res["kind"] == "ValueError":
                missing = [f for f in m.get("fields", []) if f"'{f}'" not in res.get("msg", "") and f not in res.get("msg", "")]
                if missing and len(res.get("msg", "")) < 190:
                    ctx.disagree(f"model's mismatching fields {m.get('fields')} not named in the error message {res.get('msg')!r} at {where}", _replayable(task)); continue
        fa, post = m["file_after"], c["post"]
        want = _read_json(post, ref, obs.get("foreigns"))
        if fa != want:
            ctx.disagree(f"file after the request: model {fa.get('kind')}/{fa.get('id')} vs observed {want.get('kind')}/{want.get('id')}"
                         f"{' cfg differs' if fa.get('cfg') != want.get('cfg') else ''} at {where}", _replayable(task))


def diff_correspondence(ctx):
    """cfg.diff(other, of_serialized=True) vs. the model's diff / allowance on a cross product of real configs"""
    specs = [SPECS["dfs3"]] + [f["spec"] for _, f in foreign_variants(SPECS["dfs3"]) if "spec" in f] + [SPECS["wil4f"], SPECS["perc3m"]]
    cfgs = [make_cfg(s) for s in specs]
    extra = make_cfg(SPECS["dfs3"]); extra.applied_filters.append(dict(name="collect_generation_meta", args=(), kwargs={}))
    extra2 = make_cfg(SPECS["wil4f"]); extra2.applied_filters.append(dict(name="collect_generation_meta", args=(), kwargs={}))
    cfgs += [extra, extra2]
    reqs, want = [], []
    for a in cfgs:
        for b in cfgs:
            reqs.append(dict(op="C11.diff", a=canon_cfg(a), b=canon_cfg(b)))
            try:
                want.append(sorted(a.diff(b, of_serialized=True).keys()))
            except RecursionError:      # muutils array_safe_eq on equal-length, different strings: certainly a difference
                want.append(None)
                ctx.count("diff_raised_RecursionError")
    for (r, w, m) in zip(reqs, want, ctx.driver.run(reqs)):
        ctx.case(("diff", r["a"], r["b"]), nontrivial=w is None or bool(w))
        ctx.traces_validated += 1
        if "error" in m or (sorted(m["diff"]) != w if w is not None else not m["diff"]):
            ctx.disagree(f"cfg.diff keys {w} vs model {m}", dict(a=r["a"], b=r["b"]))
    ctx.count("diff_pairs", len(reqs))


def defaults_correspondence(ctx):
    from maze_dataset import MazeDataset, MazeDatasetConfig
    m = ctx.driver.run([dict(op="C11.defaults")])[0]
    sigp = inspect.signature(MazeDataset.from_config).parameters
    real = {k: sigp[k].default for k in FLAG_NAMES}
    got = {k: m.get(k) for k in FLAG_NAMES}
    ctx.traces_validated += 1
    if "error" in m or real != got:
        ctx.disagree(f"from_config defaults: source {real} vs generated {got}", dict(real=real, model=m))
    cmp_real = [f.name for f in dataclasses.fields(MazeDatasetConfig) if f.compare]
    all_real = [f.name for f in dataclasses.fields(MazeDatasetConfig)]
    if m.get("compared") != cmp_real or m.get("fields") != all_real:
        ctx.disagree(f"dataclass fields/compare flags: imported {all_real}/{cmp_real} vs translated {m.get('fields')}/{m.get('compared')}", m)


# ----------------------------------------------------------------------------------------------- entry points
def _execute(ctx, tasks, with_model: bool, stop_at_first: bool):
    pool = _Workers(ctx, len(tasks))
    ctx.extra.setdefault("worker_processes", pool.jobs)
    pending = []
    try:
        for obs in pool.imap_unordered(tasks):
            task = tasks[obs["task"]]
            if "worker_error" in obs:
                raise RuntimeError(f"cache worker failed on {task['name']} [{_short(task)}]: {obs['worker_error']}")
            n_calls = len(obs["calls"])
            ctx.case((task["name"], _short(task), json.dumps([s.get("call", {}).get("flags") for s in task["steps"] if "call" in s], sort_keys=True)),
                     nontrivial=task["cls"] not in ("absent", "intact"))
            ctx.evaluations += n_calls - 1
            ctx.count("class=" + task["cls"].split(":")[0]); ctx.count("cfg=" + task["name"])
            for c in obs["calls"]:
                ctx.count("pre=" + c["pre"]["kind"] + ("/" + c["pre"].get("exc", "") if c["pre"]["kind"] == "raises" else ""))
                ctx.count("result=" + c["res"]["kind"])
            judge(ctx, task, obs)
            if task["cls"] in ("xor", "cut", "sequence", "foreign:trailing_cgm", "foreign:seed") and ctx.extra.setdefault("_sampled", {}).setdefault(task["cls"], 0) < 1:
                ctx.extra["_sampled"][task["cls"]] += 1
                ctx.sample(dict(cfg=task["name"], steps=_short(task), calls=[dict(pre=c["pre"]["kind"], result=c["res"]["kind"], events=c["events"],
                                post=c["post"]["kind"]) for c in obs["calls"]]), limit=6)
            if with_model:
                pending.append((task, obs))
            if stop_at_first and ctx.violations:
                break
    finally:
        pool.close()
    ctx.extra.pop("_sampled", None)
    # report the self-inflicted scenario (request -> own save -> request) before derived ones
    ctx.violations.sort(key=lambda v: 0 if v["key"] == "minimal-save-appends-cgm-filters" else 1)
    if with_model and pending:
        reqs, spans = [], []
        for task, obs in pending:
            r = model_requests(task, obs); spans.append((len(reqs), len(reqs) + len(r))); reqs += r
        replies = ctx.driver.run_parallel(reqs)
        for (task, obs), (a, b) in zip(pending, spans):
            compare(ctx, task, obs, replies[a:b])


def _count_collisions(ctx):
    """two requests that differ ONLY in the maze count, against one cache directory, the counts large enough for the file name to abbreviate
    them alike (1000 and 1049 are both '1.0K'): the file of the first must not be served for the second — an unfiltered request returns
    exactly the mazes a fresh generation of ITS configuration gives. Runs in a plain child interpreter (see _Workers)."""
    import subprocess, common as C
    code = r"""
import sys, json, warnings, shutil, hashlib
warnings.filterwarnings("ignore"); sys.path.insert(0, sys.argv[1])
from pathlib import Path
from maze_dataset import MazeDataset, MazeDatasetConfig
d = Path(sys.argv[2]); out = []
def sig(ds):
    h = hashlib.blake2b(digest_size=10)
    for m in ds.mazes: h.update(m.connection_list.astype(bool).tobytes()); h.update(m.solution.astype("int64").tobytes())
    return h.hexdigest()
for a, b in json.loads(sys.argv[3]):
    shutil.rmtree(d, ignore_errors=True)
    for n in (a, b, a):
        cfg = MazeDatasetConfig(name="cnt", grid_n=2, n_mazes=n, seed=5)
        try:
            ds = MazeDataset.from_config(cfg, local_base_path=d, do_download=False)
            fresh = MazeDataset.generate(MazeDatasetConfig(name="cnt", grid_n=2, n_mazes=n, seed=5))
            out.append(dict(seq=[a, b, a], n=n, got=len(ds), cfg_n=int(ds.cfg.n_mazes), same=sig(ds) == sig(fresh)))
        except Exception as e:
            out.append(dict(seq=[a, b, a], n=n, err=f"{type(e).__name__}: {str(e)[:120]}"))
shutil.rmtree(d, ignore_errors=True)
print(json.dumps(out))
"""
    pairs = [(1000, 1049)] if ctx.quick else [(1000, 1049), (1100, 1149), (1000, 1001)]
    try:
        p = subprocess.run([sys.executable, "-c", code, str(C.REPO), str(ctx.workdir / "cache_counts"), json.dumps(pairs)], capture_output=True, text=True, timeout=900)
        res = json.loads(p.stdout.strip().split("\n")[-1])
    except Exception as e:
        ctx.notes.append(f"count-collision probe did not run: {type(e).__name__}: {str(e)[:100]}"); return
    for r in res:
        ctx.case(["count-collision", r["seq"], r["n"]], nontrivial=True); ctx.count("count_collision_requests")
        if "err" in r:
            ctx.violate(f"request for n_mazes={r['n']} (requests in order {r['seq']}, one cache directory, configs equal but for the count) raised {r['err']}", dict(count_collision=True, **r), key="unlisted"); return
        if r["got"] != r["n"] or r["cfg_n"] != r["n"] or not r["same"]:
            ctx.violate(f"request for n_mazes={r['n']} with a cache directory that already held the dataset of the same configuration under another count (requests in order {r['seq']}) "
                        f"returned {r['got']} mazes (cfg.n_mazes {r['cfg_n']}; equal to a fresh generation: {r['same']})", dict(count_collision=True, **r), key="foreign-cache-served"); return


def run(ctx):
    warnings.filterwarnings("ignore")
    global SPECS
    SPECS = base_specs(ctx)
    defaults_correspondence(ctx)
    diff_correspondence(ctx)
    pristine = _pristine(ctx, SPECS)
    ctx.extra["file_sizes"] = {k: len(v) for k, v in pristine.items()}
    if ctx.violations:          # no cache file is written at all: a concrete failing input already, nothing to damage
        return
    tasks = build_tasks(ctx, pristine, deep=not ctx.quick)
    ctx.exhaustive = not ctx.quick     # thorough: every truncation offset, every offset x 8 masks on the base config
    _execute(ctx, tasks, with_model=True, stop_at_first=False)
    if not ctx.violations: _count_collisions(ctx)


def search(ctx):
    """oracle-only, denser fault enumeration on the real code; stops at the first violation"""
    warnings.filterwarnings("ignore")
    global SPECS
    SPECS = base_specs(ctx)
    pristine = _pristine(ctx, SPECS)
    if ctx.violations:
        return
    tasks = build_tasks(ctx, pristine, deep=True)
    # cheapest, most telling scenarios first: self-written files, foreign files, then the byte-level enumeration
    order = {"absent": 0, "intact": 0, "foreign": 1, "other": 1, "cut": 2, "sequence": 3, "flags": 4, "empty": 5, "trunc": 6, "xor": 7}
    tasks.sort(key=lambda t: order.get(t["cls"].split(":")[0], 9))
    for i, t in enumerate(tasks): t["id"] = i
    _execute(ctx, tasks, with_model=False, stop_at_first=True)


def replay(ctx, rp):
    import base64
    warnings.filterwarnings("ignore")
    global SPECS
    SPECS = base_specs(ctx)
    case = rp.get("case", rp)
    t = dict(case.get("task", case))
    t["pristine"] = base64.b64decode(t.pop("pristine_b64", ""))
    t["id"] = 0
    _execute(ctx, [t], with_model=True, stop_at_first=False)


if __name__ == "__main__" and len(sys.argv) >= 4 and sys.argv[1] == "--worker":
    _worker_main(sys.argv[2], sys.argv[3])
