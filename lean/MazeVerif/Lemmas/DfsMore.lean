import MazeVerif.Lemmas.DfsMeta
import MazeVerif.Lemmas.Wilson
/-! gen_dfs beyond the default arguments: the frontier invariant for every argument set with forks on and a
    non-binding depth bound (exact cell count), and the corridor theorem for `do_forks=False`. -/
namespace MZ

/-- loop invariant for every `a` with `doForks` and `maxDepth ≥ 2·rows·cols` (any `nAcc`, any stack policy) -/
theorem loop_inv_forks {rows cols a start} (hf : a.doForks = true)
    (hd : 2 * ((rows * cols : Nat) : Int) ≤ a.maxDepth) : ∀ (fuel : Nat) (s s' : St),
    InvT rows cols start s → InvF rows cols s →
    loop rows cols a fuel s = some s' →
    InvT rows cols start s' ∧ InvF rows cols s' ∧ ¬ (s'.stack ≠ [] ∧ s'.visited.length < a.nAcc) := by
  intro fuel
  induction fuel with
  | zero => intro s s' _ _ h; simp [loop] at h
  | succ fuel ih =>
    intro s s' hT hF h
    unfold loop at h
    split at h
    · next hcond =>
      split at h
      · next s1 hstep =>
        have hS := step_spec hstep
        have hle := (all_of_length hT.nodup hT.grid).1
        have hle' : ((s.visited.length : Nat) : Int) ≤ ((rows * cols : Nat) : Int) := by exact_mod_cast hle
        exact ih s1 s' (hT.step hS) (hF.step hT hf (by omega) hS) h
      · simp at h
    · next hcond =>
      simp only [Option.some.injEq] at h; subst h
      exact ⟨hT, hF, hcond⟩

theorem InvF.init {rows cols start rng} : InvF rows cols (init start rng) :=
  ⟨by intro c hc _; simpa [MZ.init] using hc, by simp [MZ.init]⟩

/-- with forks on and a non-binding depth bound the tree has exactly `min (max 1 nAcc) (rows*cols)` cells -/
theorem genDfs_count_eq {rows cols a start rng fuel s} (hs : inGrid rows cols start)
    (hf : a.doForks = true) (hd : 2 * ((rows * cols : Nat) : Int) ≤ a.maxDepth)
    (h : genDfs rows cols a start rng fuel = some s) :
    s.visited.length = min (max 1 a.nAcc) (rows * cols) := by
  obtain ⟨hT, hF, hexit⟩ := loop_inv_forks hf hd fuel _ _ (InvT.init hs) InvF.init h
  have hle := genDfs_count_le hs h
  have hlen := all_of_length hT.nodup hT.grid
  have hpos : 1 ≤ s.visited.length := List.length_pos_of_mem hT.hstart
  by_cases hst : s.stack = []
  · have hclosed : ∀ c ∈ s.visited, cands rows cols s.visited c = [] := by
      intro c hc
      by_cases hne : cands rows cols s.visited c = []
      · exact hne
      · have := hF.frontier c hc hne
        rw [hst] at this; simp at this
    have hall := all_of_closed hT.hstart hs hclosed
    have hc := List.subperm_of_subset (l₁ := cells rows cols) (l₂ := s.visited) (cells_nodup rows cols)
      (fun c hc => hall c (mem_cells.mp hc))
    have h2 := hc.length_le; simp only [length_cells] at h2
    have := hlen.1; omega
  · have : a.nAcc ≤ s.visited.length := by
      have := hexit; simp only [not_and, Nat.not_lt] at this; exact this hst
    have := hlen.1; omega

/-! ### `do_forks = False`: a single corridor -/

theorem getLast!_snoc (l : List Cell) (x : Cell) : (l ++ [x]).getLast! = x := by
  simp [List.getLast!_eq_getLast?_getD]

theorem pathEdges_snoc : ∀ {l : List Cell} {x : Cell}, l ≠ [] →
    pathEdges (l ++ [x]) = pathEdges l ++ [edgeOf l.getLast! x]
  | [a], x, _ => by simp [pathEdges]
  | a :: b :: rest, x, _ => by
    have ih := pathEdges_snoc (l := b :: rest) (x := x) (by simp)
    simp only [List.cons_append, pathEdges] at ih ⊢
    rw [ih]; simp [List.getLast!]

/-- invariant of the no-forks run: at most the last visited cell is on the stack; the visited cells form a walk
    and the stored edges are exactly its consecutive pairs -/
structure InvC (s : St) : Prop where
  ne : s.visited ≠ []
  stack : s.stack = [] ∨ s.stack = [s.visited.getLast!]
  chain : Chain s.visited
  edges : s.edges = pathEdges s.visited

theorem InvC.step {rows cols a s s'} (inv : InvC s) (hf : a.doForks = false)
    (h : Step rows cols a s s') : InvC s' := by
  cases h with
  | extend i cur nb rng' hcur hnb hd =>
    have hst : s.stack = [s.visited.getLast!] := by
      rcases inv.stack with h0 | h0
      · rw [h0] at hcur; simp at hcur
      · exact h0
    have hi : i = 0 ∧ cur = s.visited.getLast! := by
      rw [hst] at hcur
      rcases i with _ | i
      · simp only [List.getElem?_cons_zero, Option.some.injEq] at hcur; exact ⟨rfl, hcur.symm⟩
      · simp at hcur
    obtain ⟨rfl, rfl⟩ := hi
    have hnbr : nb ∈ nbrs s.visited.getLast! := (mem_cands.mp hnb).1
    refine ⟨by simp, ?_, Chain.snoc inv.ne inv.chain hnbr, ?_⟩
    · right
      simp only [hf, Bool.false_eq_true, false_and, if_false, hst, List.eraseIdx_cons_zero, List.nil_append]
      congr 1
      exact (getLast!_snoc _ _).symm
    · simp only [pathEdges_snoc inv.ne, inv.edges]
  | back i cur rng' hcur hwhy =>
    have hst : s.stack = [s.visited.getLast!] := by
      rcases inv.stack with h0 | h0
      · rw [h0] at hcur; simp at hcur
      · exact h0
    have hi : i = 0 := by
      rw [hst] at hcur
      rcases i with _ | i
      · rfl
      · simp at hcur
    subst hi
    exact ⟨inv.ne, Or.inl (by simp [hst]), inv.chain, inv.edges⟩

theorem loop_invC {rows cols a} (hf : a.doForks = false) : ∀ (fuel : Nat) (s s' : St),
    InvC s → loop rows cols a fuel s = some s' → InvC s' := by
  intro fuel
  induction fuel with
  | zero => intro s s' _ h; simp [loop] at h
  | succ fuel ih =>
    intro s s' hC h
    unfold loop at h
    split at h
    · split at h
      · next s1 hstep => exact ih s1 s' (hC.step hf (step_spec hstep)) h
      · simp at h
    · simp only [Option.some.injEq] at h; subst h; exact hC

theorem loop_head {rows cols a} : ∀ (fuel : Nat) (s s' : St) (c : Cell),
    s.visited.head? = some c → loop rows cols a fuel s = some s' → s'.visited.head? = some c := by
  intro fuel
  induction fuel with
  | zero => intro s s' c _ h; simp [loop] at h
  | succ fuel ih =>
    intro s s' c hc h
    unfold loop at h
    split at h
    · split at h
      · next s1 hstep =>
        refine ih s1 s' c ?_ h
        cases step_spec hstep with
        | extend =>
          cases hv : s.visited with
          | nil => rw [hv] at hc; simp at hc
          | cons x xs => rw [hv] at hc; simpa using hc
        | back => exact hc
      · simp at h
    · simp only [Option.some.injEq] at h; subst h; exact hc

theorem genDfs_no_forks_corridor {rows cols a start rng fuel s} (hs : inGrid rows cols start)
    (hf : a.doForks = false) (h : genDfs rows cols a start rng fuel = some s) :
    s.visited.head? = some start ∧ s.visited.Nodup ∧ Chain s.visited ∧ s.edges = pathEdges s.visited ∧
    (∀ c ∈ s.visited, inGrid rows cols c) := by
  have hC := loop_invC hf fuel _ _ ⟨by simp [MZ.init], Or.inr (by simp [MZ.init, List.getLast!]), by simp [MZ.init, Chain], by simp [MZ.init, pathEdges]⟩ h
  obtain ⟨hT, _⟩ := loop_invT fuel _ _ (InvT.init hs) h
  exact ⟨loop_head fuel _ _ start (by simp [MZ.init]) h, hT.nodup, hC.chain, hC.edges, hT.grid⟩

end MZ
