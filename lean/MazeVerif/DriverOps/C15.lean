import MazeVerif.DriverOps.Util
namespace MZ.Drv.C15
open Lean MZ.Drv

/-- driver ops of property C15 (`"op": "C15.<name>"`) -/
def handle (op : String) (_j : Json) : R Json := do
  match op with
  | _ => throw s!"unknown op {op}"

end MZ.Drv.C15
