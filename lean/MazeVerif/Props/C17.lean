import MazeVerif.Model.Raster
import MazeVerif.Lemmas.PixelsAscii
/-! # C17 — rasterized input/target images show the problem and only the solution

Model: `MZ.Pix.processRaster`, `removeIsolated`, `extendPixels`, `getBatch` (`Model/Raster.lean`; rasterized.py 33-140,
lattice_maze.py `_remove_isolated_cells`), on top of the pixel model of C10.  All theorems hold for every grid size,
every connection list, every solution and all eight option combinations.
Only property theorems and their non-vacuity examples live here. -/
namespace MZ.Pix

/-- a solved maze whose connections join cells of the grid and whose solution stays in the grid and walks through
    open connections -/
def GoodSolved (r c : Nat) (E : List Edge) (s : Cell) (rest : List Cell) : Prop :=
  WF r c E ∧ Valid (.solved r c E s rest) ∧ PathIn E (s :: rest)

/-- the solution's pixels: its cells and the pixels between consecutive cells -/
def solPix (s : Cell) (rest : List Cell) (x y : Nat) : Prop :=
  (x, y) ∈ betweenPix (s :: rest) ∨ (x, y) ∈ (s :: rest).map pixOf

instance (s : Cell) (rest : List Cell) (x y : Nat) : Decidable (solPix s rest x y) := by unfold solPix; exact inferInstance

/-- the post-processing selected by the two options, in the order the code applies it -/
def post (removeIso extend : Bool) (g : Img RGB) : Img RGB :=
  let g1 := if removeIso then removeIsolated g else g
  if extend then extendPixels g1 else g1

private theorem spec_tt (r c : Nat) (E : List Edge) (s : Cell) (rest : List Cell) (x y : Nat) :
    specPx (.solved r c E s rest) true true x y =
      if (x, y) = pixOf ((s :: rest).getLast (by simp)) then cEnd else if (x, y) = pixOf s then cStart
      else if solPix s rest x y then cPath else basePx (.solved r c E s rest) x y := by
  simp only [specPx, if_true, solPix]
  by_cases h1 : (x, y) = pixOf ((s :: rest).getLast (by simp))
  · simp [h1]
  · by_cases h2 : (x, y) = pixOf s
    · simp [h2]
    · by_cases h3 : (x, y) ∈ betweenPix (s :: rest)
      · simp [h1, h2, h3]
      · by_cases h4 : (x, y) ∈ (s :: rest).map pixOf
        · simp only [h1, h2, h3, h4, if_false, if_true, or_true]
        · simp only [h1, h2, h3, h4, if_false, or_self]

private def tgt0 (mp : Img RGB) (eo : Bool) : Img RGB :=
  if eo then ((((mp.recolor cOpen cWall).recolor cPath cOpen).recolor cStart cOpen).recolor cEnd cOpen)
  else (mp.recolor cOpen cWall).recolor cPath cOpen

private theorem processRaster_base (m : Maze) (eo : Bool) (mp : Img RGB) (h : asPixels m true true = .ok mp) :
    processRaster m false false eo = .ok (mp.recolor cPath cOpen, tgt0 mp eo) := by
  simp [processRaster, h, tgt0]

/-- the options only select post-processing: the result is `post` applied to the two base images -/
theorem C17_options (m : Maze) (ric ext eo : Bool) :
    processRaster m ric ext eo =
      match processRaster m false false eo with
      | .ok (inp, tgt) => .ok (post ric ext inp, post ric ext tgt)
      | .error e => .error e := by
  unfold processRaster
  cases asPixels m true true with
  | error e => rfl
  | ok mp => cases ric <;> cases ext <;> simp [post]

/-- **input image** = the maze's picture with endpoints shown and the solution hidden (`as_pixels(True, False)`),
    pixel for pixel: path pixels appear as open, endpoints are kept, nothing else changes -/
theorem C17_input (r c : Nat) (E : List Edge) (s : Cell) (rest : List Cell) (eo : Bool) (hg : GoodSolved r c E s rest) :
    ∃ inp tgt hid, processRaster (.solved r c E s rest) false false eo = .ok (inp, tgt) ∧
      asPixels (.solved r c E s rest) true false = .ok hid ∧
      inp.h = hid.h ∧ inp.w = hid.w ∧ ∀ x y, inp.px x y = hid.px x y := by
  obtain ⟨hwf, hv, hp⟩ := hg
  obtain ⟨mp, m1, m2, m3, m4⟩ := asPixels_spec (.solved r c E s rest) true true hv (by simp)
  obtain ⟨hid, k1, k2, k3, k4⟩ := asPixels_spec (.solved r c E s rest) true false hv (by simp)
  refine ⟨_, _, hid, processRaster_base _ eo mp m1, k1, m2.trans k2.symm, m3.trans k3.symm, ?_⟩
  intro x y
  simp only [Img.recolor]
  rw [m4, k4, spec_tt]
  simp only [specPx, Bool.false_eq_true, if_false, if_true]
  by_cases h1 : (x, y) = pixOf ((s :: rest).getLast (by simp))
  · simp [h1, cEnd, cPath]
  · by_cases h2 : (x, y) = pixOf s
    · rw [h2] at h1
      simp only [h2, h1, if_false, if_true]; simp [cStart, cPath]
    · by_cases h3 : solPix s rest x y
      · simp only [h1, h2, h3, if_false, if_true]
        have : (asPixelsBW r c E).px x y = true := by
          rcases h3 with h3 | h3
          · exact between_bw hwf.inArr hv.1 hp (x, y) h3
          · exact bw_at_map h3
        simp only [basePx, Maze.rows, Maze.cols, Maze.edges, this, if_true]
      · simp only [h1, h2, h3, if_false]
        rcases basePx_cases (.solved r c E s rest) x y with ⟨hb, _⟩ | ⟨hb, _⟩ <;> rw [hb] <;> simp [cOpen, cWall, cPath]

/-- **target image**: wall everywhere except the solution pixels, which are open; the two endpoint pixels keep
    their colours, or are open when `endpoints_as_open` -/
theorem C17_target (r c : Nat) (E : List Edge) (s : Cell) (rest : List Cell) (eo : Bool) (hg : GoodSolved r c E s rest) :
    ∃ inp tgt, processRaster (.solved r c E s rest) false false eo = .ok (inp, tgt) ∧
      tgt.h = 2 * r + 1 ∧ tgt.w = 2 * c + 1 ∧
      ∀ x y, tgt.px x y =
        if (x, y) = pixOf ((s :: rest).getLast (by simp)) then (if eo then cOpen else cEnd)
        else if (x, y) = pixOf s then (if eo then cOpen else cStart)
        else if solPix s rest x y then cOpen else cWall := by
  obtain ⟨hwf, hv, hp⟩ := hg
  obtain ⟨mp, m1, m2, m3, m4⟩ := asPixels_spec (.solved r c E s rest) true true hv (by simp)
  refine ⟨_, _, processRaster_base _ eo mp m1, ?_, ?_, ?_⟩
  · cases eo <;> exact m2
  · cases eo <;> exact m3
  · intro x y
    unfold tgt0
    have key : mp.px x y = _ := (m4 x y).trans (spec_tt r c E s rest x y)
    by_cases h1 : (x, y) = pixOf ((s :: rest).getLast (by simp))
    · simp only [h1, if_true] at key ⊢
      cases eo <;> simp [Img.recolor, key, cEnd, cOpen, cWall, cPath, cStart]
    · by_cases h2 : (x, y) = pixOf s
      · rw [h2] at h1
        simp only [h2, h1, if_false, if_true] at key ⊢
        cases eo <;> simp [Img.recolor, key, cEnd, cOpen, cWall, cPath, cStart]
      · by_cases h3 : solPix s rest x y
        · simp only [h1, h2, h3, if_false, if_true] at key ⊢
          cases eo <;> simp [Img.recolor, key, cEnd, cOpen, cWall, cPath, cStart]
        · simp only [h1, h2, h3, if_false] at key ⊢
          rcases basePx_cases (.solved r c E s rest) x y with ⟨hb, _⟩ | ⟨hb, _⟩ <;> rw [hb] at key <;>
            cases eo <;> simp [Img.recolor, key, cEnd, cOpen, cWall, cPath, cStart]

/-- `remove_isolated_cells`: a non-wall pixel all of whose four neighbours are wall (positions outside the image
    count as wall) becomes wall; every other pixel is unchanged; the size is unchanged -/
theorem C17_isolated (g : Img RGB) :
    (removeIsolated g).h = g.h ∧ (removeIsolated g).w = g.w ∧
    ∀ x y, x < g.h → y < g.w →
      let nbWall := fun (x' y' : Int) => (0 ≤ x' ∧ x' < g.h ∧ 0 ≤ y' ∧ y' < g.w) → g.px x'.toNat y'.toNat = cWall
      (g.px x y ≠ cWall ∧ nbWall x (y + 1) ∧ nbWall x ((y : Int) - 1) ∧ nbWall (x + 1) y ∧ nbWall ((x : Int) - 1) y →
        (removeIsolated g).px x y = cWall) ∧
      (¬ (g.px x y ≠ cWall ∧ nbWall x (y + 1) ∧ nbWall x ((y : Int) - 1) ∧ nbWall (x + 1) y ∧ nbWall ((x : Int) - 1) y) →
        (removeIsolated g).px x y = g.px x y) := by
  refine ⟨rfl, rfl, ?_⟩
  intro x y _ _
  have hw : ∀ (x' y' : Int), wallAt g x' y' = true ↔ ((0 ≤ x' ∧ x' < g.h ∧ 0 ≤ y' ∧ y' < g.w) → g.px x'.toNat y'.toNat = cWall) := by
    intro x' y'
    unfold wallAt
    by_cases hr : 0 ≤ x' ∧ x' < g.h ∧ 0 ≤ y' ∧ y' < g.w
    · simp [hr]
    · simp [hr]
  simp only [removeIsolated]
  constructor
  · rintro ⟨h0, h1, h2, h3, h4⟩
    have a1 := (hw x (y + 1)).2 h1
    have a2 := (hw x ((y : Int) - 1)).2 h2
    have a3 := (hw (x + 1) y).2 h3
    have a4 := (hw ((x : Int) - 1) y).2 h4
    simp [a1, a2, a3, a4, h0]
  · intro hn
    by_cases hc : (wallAt g x (y + 1) && wallAt g x ((y : Int) - 1) && wallAt g (x + 1) y && wallAt g ((x : Int) - 1) y
        && !decide (g.px x y = cWall)) = true
    · exfalso
      apply hn
      simp only [Bool.and_eq_true, Bool.not_eq_true', decide_eq_false_iff_not] at hc
      obtain ⟨⟨⟨⟨a1, a2⟩, a3⟩, a4⟩, h0⟩ := hc
      exact ⟨h0, (hw _ _).1 a1, (hw _ _).1 a2, (hw _ _).1 a3, (hw _ _).1 a4⟩
    · simp only [hc, Bool.false_eq_true, if_false]

/-- `extend_pixels`: size `2n+2`; a one-pixel wall frame; inside it every input pixel appears as a 2×2 block -/
theorem C17_extend (g : Img RGB) :
    (extendPixels g).h = 2 * g.h + 2 ∧ (extendPixels g).w = 2 * g.w + 2 ∧
    ∀ x y, x < 2 * g.h + 2 → y < 2 * g.w + 2 →
      (extendPixels g).px x y =
        if x = 0 ∨ y = 0 ∨ x = 2 * g.h + 1 ∨ y = 2 * g.w + 1 then cWall else g.px ((x - 1) / 2) ((y - 1) / 2) := by
  refine ⟨rfl, rfl, ?_⟩
  intro x y hx hy
  simp only [extendPixels, pad1, repeat2]
  by_cases hf : x = 0 ∨ y = 0 ∨ x = 2 * g.h + 1 ∨ y = 2 * g.w + 1
  · have : ¬ (1 ≤ x ∧ x ≤ 2 * g.h ∧ 1 ≤ y ∧ y ≤ 2 * g.w) := by omega
    simp only [this, hf, if_false, if_true]; rfl
  · have : (1 ≤ x ∧ x ≤ 2 * g.h ∧ 1 ≤ y ∧ y ≤ 2 * g.w) := by omega
    simp only [this, hf, if_false, if_true, and_self]

/-- batches stack the items in the order of the index list: output position `k` holds the images of the maze at
    (Python) index `idxs[k]` -/
theorem C17_batch_order {α β : Type} (mazes : List α) (f : α → Except Err (β × β)) :
    ∀ (idxs : List Int) (as bs : List β), getBatch mazes f idxs = .ok (as, bs) →
      as.length = idxs.length ∧ bs.length = idxs.length ∧
      ∀ k (hk : k < idxs.length), ∃ j m a b, normIdx mazes.length idxs[k] = some j ∧ mazes[j]? = some m ∧
        f m = .ok (a, b) ∧ as[k]? = some a ∧ bs[k]? = some b
  | [], as, bs, h => by
    simp only [getBatch, Except.ok.injEq, Prod.mk.injEq] at h
    obtain ⟨rfl, rfl⟩ := h
    exact ⟨rfl, rfl, fun k hk => absurd hk (by simp)⟩
  | i :: is, as, bs, h => by
    unfold getBatch at h
    split at h
    · cases h
    · next j hj =>
      split at h
      · cases h
      · next m hm =>
        split at h
        · cases h
        · next a b hf =>
          split at h
          · cases h
          · next as' bs' hrec =>
            simp only [Except.ok.injEq, Prod.mk.injEq] at h
            obtain ⟨rfl, rfl⟩ := h
            obtain ⟨l1, l2, ih⟩ := C17_batch_order mazes f is as' bs' hrec
            refine ⟨by simp [l1], by simp [l2], ?_⟩
            intro k hk
            cases k with
            | zero => exact ⟨j, m, a, b, hj, hm, hf, rfl, rfl⟩
            | succ k =>
              obtain ⟨j', m', a', b', q1, q2, q3, q4, q5⟩ := ih k (by simpa using hk)
              exact ⟨j', m', a', b', by simpa using q1, q2, q3, by simpa using q4, by simpa using q5⟩

/-! ## non-vacuity: the 2×2 maze of C10's examples, all stages evaluated -/
private def exE : List Edge := [(0, 0, 0), (0, 0, 1), (1, 0, 0)]
private def exM : Maze := .solved 2 2 exE (1, 0) [(0, 0), (0, 1), (1, 1)]

example : (match processRaster exM false false false with | .ok (i, t) => (i.toLists, t.toLists) | .error _ => ([], [])) =
    ([[cWall, cWall, cWall, cWall, cWall], [cWall, cOpen, cOpen, cOpen, cWall], [cWall, cOpen, cWall, cOpen, cWall],
      [cWall, cStart, cWall, cEnd, cWall], [cWall, cWall, cWall, cWall, cWall]],
     [[cWall, cWall, cWall, cWall, cWall], [cWall, cOpen, cOpen, cOpen, cWall], [cWall, cOpen, cWall, cOpen, cWall],
      [cWall, cStart, cWall, cEnd, cWall], [cWall, cWall, cWall, cWall, cWall]]) := by decide
example : (match processRaster exM true true true with | .ok (i, t) => (i.h, i.w, t.px 7 7, t.px 0 3, i.px 2 2) | .error _ => (0, 0, cWall, cWall, cWall)) =
    (12, 12, cOpen, cWall, cWall) := by decide
example : (removeIsolated ⟨3, 3, fun x y => if x = 1 ∧ y = 1 then cOpen else cWall⟩).px 1 1 = cWall := by decide
example : (removeIsolated ⟨3, 3, fun x y => if x = 1 then cOpen else cWall⟩).px 1 1 = cOpen := by decide
example : getBatch [10, 20, 30] (fun k => (.ok (k, k + 1) : Except Err (Nat × Nat))) [2, -1, 0] = .ok ([30, 30, 10], [31, 31, 11]) := by decide
example : GoodSolved 2 2 exE (1, 0) [(0, 0), (0, 1), (1, 1)] := by
  refine ⟨?_, ⟨?_, by simp [Chain, nbrs]⟩, by simp [PathIn, Adj, exE]⟩
  · intro e he
    simp only [exE, List.mem_cons, List.not_mem_nil, or_false] at he
    rcases he with rfl | rfl | rfl <;> simp
  · intro x hx
    simp only [List.mem_cons, List.not_mem_nil, or_false] at hx
    rcases hx with rfl | rfl | rfl | rfl <;> simp [inGrid]

end MZ.Pix
